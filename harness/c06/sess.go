package c06

import (
	"context"
	"encoding/xml"
	"errors"
	"fmt"
	"io"
	"os"
	"strconv"
	"strings"
	"time"

	"mellium.im/xmlstream"
	"mellium.im/xmpp"
	"mellium.im/xmpp/jid"
	"mellium.im/xmpp/stanza"

	"verifharness/common"
)

// Session-core scenario (see lean/XmppModel/Driver/C06.lean for the trace syntax).

const watchdog = 4 * time.Second

type reqSpec struct {
	kind byte // i m p
	id   int
	ns   byte // namespace of the request's start element: e none, c jabber:client (the stream's), s jabber:server
	api  byte // r: SendIQ/SendMessage/SendPresence with a token reader, e: the *Element variant
	dec  byte // q: the request's start element carries foreign x:id / x:type attributes in front of its own (api r only); 0 none
}

func (q reqSpec) field() string {
	f := fmt.Sprintf("%c:%d:%c:%c", q.kind, q.id, q.ns, q.api)
	if q.dec != 0 {
		f += ":" + string(q.dec)
	}
	return f
}

func nsURI(b byte) string {
	switch b {
	case 'c':
		return "jabber:client"
	case 's', 'S':
		return "jabber:server"
	}
	return ""
}

type peerStanza struct {
	kind byte
	id   int
	typ  byte // r result, e error (looked up); n normal, g get, t set (never looked up)
	ns   byte // c: the stream's namespace, S: jabber:server spelled out
	bad  bool // the content of the element cannot be read to its end (mismatched tags)
	trunc bool // … because the input ends in the middle of it (token suffix T instead of X)
	// decoy attributes (token suffix +<items>, 4 characters each): attributes with the local name
	// id / type that are NOT the stanza's id / type because they are namespace qualified
	//   form   q: x:id / x:type in a foreign namespace    n: namespace declaration xmlns:id / xmlns:type
	//   field  i | t       value  digit (id q<d>) | r e g t (result error get set)
	//   place  b: in front of the real attributes    a: behind them
	decoy string
}

func decoyAttrs(spec string, place byte) string {
	out := ""
	for n := 0; n+4 <= len(spec); n += 4 {
		it := spec[n : n+4]
		if it[3] != place {
			continue
		}
		name := map[byte]string{'i': "id", 't': "type"}[it[1]]
		val := "q" + string(it[2])
		if it[1] == 't' {
			val = map[byte]string{'r': "result", 'e': "error", 'g': "get", 't': "set"}[it[2]]
		}
		if it[0] == 'q' {
			out += fmt.Sprintf(` x:%s="%s"`, name, val)
		} else {
			out += fmt.Sprintf(` xmlns:%s="%s"`, name, val)
		}
	}
	return out
}

// unqualified returns the value of the attribute `local` in no namespace.
func unqualified(attrs []xml.Attr, local string) string {
	for _, a := range attrs {
		if a.Name.Space == "" && a.Name.Local == local {
			return a.Value
		}
	}
	return ""
}

func (p peerStanza) tok() string {
	t := fmt.Sprintf("p%c%d%c", p.kind, p.id, p.typ)
	if p.trunc {
		t += "T"
	} else if p.bad {
		t += "X"
	}
	if p.ns == 'S' {
		t += "S"
	}
	if p.decoy != "" {
		t += "+" + p.decoy
	}
	return t
}

func parsePeer(a string) peerStanza {
	p := peerStanza{kind: a[1], ns: 'c'}
	if n := strings.IndexByte(a, '+'); n >= 0 {
		p.decoy, a = a[n+1:], a[:n]
	}
	if a[len(a)-1] == 'S' {
		p.ns = 'S'
		a = a[:len(a)-1]
	}
	if a[len(a)-1] == 'X' || a[len(a)-1] == 'T' {
		p.bad, p.trunc = true, a[len(a)-1] == 'T'
		a = a[:len(a)-1]
	}
	p.typ = a[len(a)-1]
	p.id, _ = strconv.Atoi(a[2 : len(a)-1])
	return p
}

func kindLocal(k byte) string {
	switch k {
	case 'i':
		return "iq"
	case 'm':
		return "message"
	}
	return "presence"
}

func (p peerStanza) xml() string {
	typ := map[byte]string{'r': "result", 'e': "error", 'g': "get", 't': "set"}[p.typ]
	if p.typ == 'n' {
		typ = map[byte]string{'m': "chat", 'p': "", 'i': "get"}[p.kind]
	}
	t := ""
	if typ != "" {
		t = ` type="` + typ + `"`
	}
	ns := "jabber:client"
	if p.ns == 'S' {
		ns = "jabber:server"
	}
	body := `<n xmlns="urn:verif"/>`
	if p.bad {
		body = `<n xmlns="urn:verif"><a></b></n>` // mismatched tags: reading the content fails half way
	}
	attrs := fmt.Sprintf(` id="q%d"%s`, p.id, t)
	if p.decoy != "" {
		attrs = ` xmlns:x="urn:verif:x"` + decoyAttrs(p.decoy, 'b') + attrs + decoyAttrs(p.decoy, 'a')
	}
	if p.trunc {
		return fmt.Sprintf(`<%s xmlns="%s"%s><n xmlns="urn:verif"><a>`, kindLocal(p.kind), ns, attrs)
	}
	return fmt.Sprintf(`<%s xmlns="%s"%s>%s</%s>`, kindLocal(p.kind), ns, attrs, body, kindLocal(p.kind))
}

// gateReader is the payload of a request: the first token is the stanza start,
// the second one parks at the payload gate (inside SendElement, after the
// registration) and then either continues or fails.
type gateReader struct {
	ctl   *Ctl
	label string
	toks  []xml.Token
	n     int
	fail  chan bool
}

var errPayload = errors.New("verif: payload reader failed")

func (g *gateReader) Token() (xml.Token, error) {
	if g.n == 1 {
		g.ctl.Gate(g.label, "payload")
		fail := true // released by Kill without a decision: give up
		select {
		case fail = <-g.fail:
		default:
		}
		if fail {
			g.n = len(g.toks)
			return nil, errPayload
		}
	}
	if g.n >= len(g.toks) {
		return nil, io.EOF
	}
	t := g.toks[g.n]
	g.n++
	return t, nil
}

type sessRun struct {
	r    *common.Run
	ctl  *Ctl
	rs   *common.RawSession
	reqs []reqSpec

	// shadow of the protocol state (only what is needed to know which events to wait for)
	rstate  []string // new payload presel insel ret
	outcome []string
	cancel  []context.CancelFunc
	cancd   []bool
	gates   []*gateReader
	resp    []xmlstream.TokenReadCloser
	closed  []bool
	table   map[int]int
	serve   string // idle lookup offering handedpark waitclose
	hit     int
	hitK    int
	nread   int
	hlog    []int
	trace   []string
	skipped []Ev
	problems []string
	fed     []peerStanza
	hitRet  string // outcome of the hit requester when the serve loop went into offering
	broken    bool // a transmission failed inside an element: every later write of the session fails
	outClosed bool // the output stream was closed
	dead      bool // Serve has returned (it had to write on an output that cannot take it)
	badK      map[int]bool // peer stanzas whose content cannot be read to its end
	stz       map[int]peerStanza // peer stanzas by number
	nprobe    int
	holdName  string // an uncounted stanza fed while a caller holds an open response after its context ended
	holdSeen  bool
}

type handlerFn func(t xmlstream.TokenReadEncoder, start *xml.StartElement) error

func (f handlerFn) HandleXMPP(t xmlstream.TokenReadEncoder, start *xml.StartElement) error {
	return f(t, start)
}

func newSessRun(r *common.Run, reqs []reqSpec) (*sessRun, error) {
	ctl := NewCtl("session.serve.lookup", "session.serve.handed", "session.sendResp.select")
	rs, err := common.NewRawSession(0, "jabber:client", jid.MustParse("me@example.net/h"), jid.MustParse("example.net"))
	if err != nil {
		return nil, err
	}
	sr := &sessRun{r: r, ctl: ctl, rs: rs, reqs: reqs, table: map[int]int{}, serve: "idle", hit: -1, badK: map[int]bool{}, stz: map[int]peerStanza{}}
	n := len(reqs)
	sr.rstate = make([]string, n)
	sr.outcome = make([]string, n)
	sr.cancel = make([]context.CancelFunc, n)
	sr.cancd = make([]bool, n)
	sr.gates = make([]*gateReader, n)
	sr.resp = make([]xmlstream.TokenReadCloser, n)
	sr.closed = make([]bool, n)
	for i := range sr.rstate {
		sr.rstate[i] = "new"
		sr.outcome[i] = "-"
	}
	ctl.Go("serve", func() {
		err := rs.S.Serve(handlerFn(func(t xmlstream.TokenReadEncoder, start *xml.StartElement) error {
			ctl.Emit("handler", "h:"+start.Name.Local+":"+unqualified(start.Attr, "id"), nil)
			return nil
		}))
		ctl.Emit("serve", "ret:"+fmt.Sprint(err), nil)
	})
	return sr, nil
}

func (sr *sessRun) problem(f string, a ...interface{}) {
	sr.problems = append(sr.problems, fmt.Sprintf(f, a...))
}

func (sr *sessRun) wait(pred func(Ev) bool, what string) (Ev, bool) {
	e, ok := sr.ctl.Wait(watchdog, pred, &sr.skipped)
	if !ok {
		sr.problem("WATCHDOG waiting for %s", what)
	}
	return e, ok
}

func isEv(who, what string) func(Ev) bool {
	return func(e Ev) bool { return e.Who == who && (e.What == what || strings.HasPrefix(e.What, what)) }
}

// lookupShadow: what the table lookup of the real code must find for p.
func (sr *sessRun) lookupShadow(p peerStanza) int {
	if p.typ != 'r' && p.typ != 'e' {
		return -1
	}
	j, ok := sr.table[p.id]
	if !ok || sr.reqs[j].kind != p.kind {
		return -1
	}
	// full name equality, or a request that carried no namespace
	if rn := sr.reqs[j].ns; rn != 'e' && nsURI(rn) != nsURI(map[byte]byte{'c': 'c', 'S': 's'}[p.ns]) {
		return -1
	}
	return j
}

func (sr *sessRun) start(i int) {
	rq := sr.reqs[i]
	ctx, cancel := context.WithCancel(context.Background())
	sr.cancel[i] = cancel
	local := kindLocal(rq.kind)
	typ := map[byte]string{'i': "get", 'm': "chat", 'p': ""}[rq.kind]
	attrs := []xml.Attr{{Name: xml.Name{Local: "id"}, Value: "q" + strconv.Itoa(rq.id)}}
	if rq.dec == 'q' {
		// unrelated attributes that merely share the local names of the stanza attributes
		attrs = []xml.Attr{{Name: xml.Name{Space: "urn:verif:x", Local: "id"}, Value: "q9"},
			{Name: xml.Name{Space: "urn:verif:x", Local: "type"}, Value: "result"}, attrs[0]}
	}
	if typ != "" {
		attrs = append(attrs, xml.Attr{Name: xml.Name{Local: "type"}, Value: typ})
	}
	st := xml.StartElement{Name: xml.Name{Space: nsURI(rq.ns), Local: local}, Attr: attrs}
	inner := xml.StartElement{Name: xml.Name{Space: "urn:verif", Local: "q"}}
	label := "r" + strconv.Itoa(i)
	g := &gateReader{ctl: sr.ctl, label: label, fail: make(chan bool, 1),
		toks: []xml.Token{st, inner, inner.End(), st.End()}}
	if rq.api == 'e' {
		// the *Element variants build the start element themselves: the payload is what parks
		g.toks = []xml.Token{inner, inner, inner.End()}
	}
	sr.gates[i] = g
	sr.ctl.Go(label, func() {
		var resp xmlstream.TokenReadCloser
		var err error
		id := "q" + strconv.Itoa(rq.id)
		name := xml.Name{Space: nsURI(rq.ns)}
		switch {
		case rq.kind == 'i' && rq.api == 'e':
			g.n = 1
			resp, err = sr.rs.S.SendIQElement(ctx, g, stanza.IQ{XMLName: name, ID: id, Type: stanza.GetIQ})
		case rq.kind == 'i':
			resp, err = sr.rs.S.SendIQ(ctx, g)
		case rq.kind == 'm' && rq.api == 'e':
			g.n = 1
			resp, err = sr.rs.S.SendMessageElement(ctx, g, stanza.Message{XMLName: name, ID: id, Type: stanza.ChatMessage})
		case rq.kind == 'm':
			resp, err = sr.rs.S.SendMessage(ctx, g)
		case rq.api == 'e':
			g.n = 1
			resp, err = sr.rs.S.SendPresenceElement(ctx, g, stanza.Presence{XMLName: name, ID: id})
		default:
			resp, err = sr.rs.S.SendPresence(ctx, g)
		}
		sr.ctl.Emit(label, "ret:", [2]interface{}{resp, err})
	})
	sr.table[rq.id] = i
	sr.rstate[i] = "payload"
	// on a healthy output the call parks in its transmission; on a broken or closed one it
	// fails at once
	e, ok := sr.wait(func(e Ev) bool { return e.Who == label && (e.What == "park:payload" || strings.HasPrefix(e.What, "ret:")) }, label+" at payload gate or returned")
	if ok && strings.HasPrefix(e.What, "ret:") {
		if !sr.broken && !sr.outClosed {
			sr.problem("requester %d returned at once on a healthy output", i)
		}
		sr.trace = append(sr.trace, "f"+strconv.Itoa(i))
		sr.returned(i, e)
	}
}

// returned handles the return event of requester i.
func (sr *sessRun) returned(i int, e Ev) {
	pr := e.Extra.([2]interface{})
	resp, _ := pr[0].(xmlstream.TokenReadCloser)
	err, _ := pr[1].(error)
	sr.rstate[i] = "ret"
	if j, ok := sr.table[sr.reqs[i].id]; ok && (j == i || true) {
		// the deferred delete removes whatever is registered under the id
		_ = j
		delete(sr.table, sr.reqs[i].id)
	}
	switch {
	case err == nil && resp != nil:
		sr.resp[i] = resp
		// own-reply oracle: read the start token of the response
		tok, terr := resp.Token()
		start, ok := tok.(xml.StartElement)
		if terr != nil || !ok {
			sr.problem("requester %d: response does not begin with a start element (%v)", i, terr)
		}
		id := unqualified(start.Attr, "id")
		k := -1
		if sr.serve == "offering" && sr.hit == i {
			k = sr.hitK
		}
		if id != "q"+strconv.Itoa(sr.reqs[i].id) || start.Name.Local != kindLocal(sr.reqs[i].kind) ||
			(sr.reqs[i].ns != 'e' && start.Name.Space != nsURI(sr.reqs[i].ns)) {
			sr.r.Fail("own-reply", "wrong-id-or-kind", sr.lines(), fmt.Sprintf("requester %d (<%s xmlns=%q id=q%d>) got <%s xmlns=%q id=%q>", i, kindLocal(sr.reqs[i].kind), nsURI(sr.reqs[i].ns), sr.reqs[i].id, start.Name.Local, start.Name.Space, id))
		}
		if k < 0 {
			sr.r.Fail("single-delivery", "reply-without-offer", sr.lines(), fmt.Sprintf("requester %d received a response while the serve loop was not offering to it", i))
			k = sr.nread - 1
		}
		sr.outcome[i] = "r" + strconv.Itoa(k)
		sr.trace = append(sr.trace, fmt.Sprintf("R%dr%d", i, k))
		sr.serve = "handedpark"
		sr.wait(isEv("serve", "park:session.serve.handed"), "serve loop after hand-off")
	case errors.Is(err, context.Canceled):
		sr.outcome[i] = "c"
		sr.trace = append(sr.trace, fmt.Sprintf("R%dc", i))
		if !sr.cancd[i] {
			sr.r.Fail("outcome", "ctx-error-without-cancel", sr.lines(), fmt.Sprintf("requester %d returned context.Canceled but its context was never cancelled", i))
		}
	case errors.Is(err, errPayload), errors.Is(err, xmpp.ErrOutputStreamClosed),
		err != nil && strings.Contains(err.Error(), "abandoned in the middle of an element"):
		sr.outcome[i] = "f"
	default:
		sr.outcome[i] = "other"
		sr.problem("requester %d returned unexpected (%v, %v)", i, resp, err)
	}
}

func (sr *sessRun) lines() []string {
	return []string{sr.r.Prop + " sess " + sr.reqField() + " " + common.Join(sr.trace, ",")}
}

func (sr *sessRun) reqField() string {
	var l []string
	for _, q := range sr.reqs {
		l = append(l, q.field())
	}
	return common.Join(l, ",")
}

// act executes one schedule action; false if the action is not applicable in
// the current (shadow) state.
func (sr *sessRun) act(a string) bool {
	num := func() int { n, _ := strconv.Atoi(strings.TrimRight(a[1:], "rengtSXT")); return n }
	switch a[0] {
	case 'c':
		i := num()
		if i >= len(sr.reqs) || sr.rstate[i] != "new" {
			return false
		}
		for _, st := range sr.rstate {
			if st == "payload" {
				// the transmission holds the output lock: a second call would wait for it
				return false
			}
		}
		if (sr.serve == "lookup" || sr.serve == "offering" || sr.serve == "handedpark" || sr.serve == "waitclose") && sr.badK[sr.hitK] {
			return false // Serve is about to end with a stream error, for which it needs the output lock
		}
		sr.trace = append(sr.trace, a)
		sr.start(i)
	case 'o', 'f':
		i := num()
		if i >= len(sr.reqs) || sr.rstate[i] != "payload" {
			return false
		}
		sr.trace = append(sr.trace, a)
		label := "r" + strconv.Itoa(i)
		sr.gates[i].fail <- a[0] == 'f'
		if a[0] == 'f' {
			sr.broken = true // the start element is on the wire, the element stays unfinished
		}
		sr.ctl.Release(label, "payload")
		if a[0] == 'o' {
			sr.rstate[i] = "presel"
			sr.wait(isEv(label, "park:session.sendResp.select"), label+" before its select")
		} else {
			if e, ok := sr.wait(isEv(label, "ret:"), label+" return after failed transmission"); ok {
				sr.returned(i, e)
			}
		}
	case 'x':
		i := num()
		if i >= len(sr.reqs) || sr.cancel[i] == nil || sr.cancd[i] {
			return false
		}
		sr.trace = append(sr.trace, a)
		sr.cancd[i] = true
		sr.cancel[i]()
		sr.afterEnable(i)
		sr.holdProbe(i)
	case 's':
		i := num()
		if i >= len(sr.reqs) || sr.rstate[i] != "presel" {
			return false
		}
		sr.trace = append(sr.trace, a)
		sr.rstate[i] = "insel"
		sr.ctl.Release("r"+strconv.Itoa(i), "session.sendResp.select")
		sr.afterEnable(i)
	case 'C':
		if sr.outClosed || sr.dead {
			return false
		}
		for _, st := range sr.rstate {
			if st == "payload" {
				return false // Close needs the output lock
			}
		}
		sr.trace = append(sr.trace, a)
		sr.outClosed = true
		common.WithTimeout(watchdog, func() { sr.rs.S.Close() })
	case 'p':
		if sr.abandonedBad() || sr.serve != "idle" {
			return false
		}
		p := parsePeer(a)
		if p.bad || (p.kind == 'i' && (p.typ == 'g' || p.typ == 't' || p.typ == 'n')) {
			// (a bad element makes Serve send a stream error: it needs the output lock too)
			// the serve loop answers an unhandled get/set itself and needs the output lock
			for _, st := range sr.rstate {
				if st == "payload" {
					return false
				}
			}
		}
		sr.trace = append(sr.trace, p.tok())
		sr.feed(p)
	case 'g':
		if sr.serve != "lookup" {
			return false
		}
		sr.trace = append(sr.trace, a)
		sr.serve = "offering"
		sr.ctl.Release("serve", "session.serve.lookup")
		if sr.hit >= 0 {
			sr.afterEnable(sr.hit)
		}
	case 'h':
		if sr.serve != "handedpark" {
			return false
		}
		sr.trace = append(sr.trace, a)
		sr.serve = "waitclose"
		sr.ctl.Release("serve", "session.serve.handed")
	case 'k':
		i := num()
		if i >= len(sr.reqs) || sr.resp[i] == nil || sr.closed[i] {
			return false
		}
		sr.trace = append(sr.trace, a)
		sr.closed[i] = true
		if p := common.Recover(func() { sr.resp[i].Close() }); p != "" {
			sr.r.Fail("no-panic", "close-panics", sr.lines(), p)
		}
		if sr.serve == "waitclose" {
			sr.serve = "idle"
			sr.afterBadClose(i)
			sr.afterCloseHold()
		} else if sr.serve == "handedpark" {
			sr.serve = "handedpark-closed"
		}
	case 'd':
		i := num()
		if i >= len(sr.reqs) || sr.resp[i] == nil || sr.closed[i] {
			return false
		}
		sr.trace = append(sr.trace, a)
		sr.drain(i)
	default:
		return false
	}
	sr.checkAbandon()
	return true
}

// checkAbandon: the serve loop is inside its hand-off select, the context registered for the
// matched call is done and that call cannot take the response any more: the serve loop gives up
// — and the response, which nobody waits for, must reach the handler (trace token A<k>).
func (sr *sessRun) checkAbandon() {
	if sr.dead || sr.serve != "offering" || sr.hit < 0 || !sr.hitGone() || sr.rstate[sr.hit] == "insel" || len(sr.problems) > 0 {
		return
	}
	sr.expectAbandon()
}

func (sr *sessRun) expectAbandon() {
	k := sr.hitK
	p := sr.stz[k]
	exp := "h:" + kindLocal(p.kind) + ":q" + strconv.Itoa(p.id)
	probe := ""
	if !p.bad {
		// a stanza the model does not count, fed behind the response: whichever the handler sees
		// first tells whether the response was handled or thrown away (no timeout either way)
		sr.nprobe++
		probe = "abprobe" + strconv.Itoa(sr.nprobe)
		go sr.rs.Feed([]byte(`<message xmlns="jabber:client" id="` + probe + `" type="chat"/>`))
	}
	e, ok := sr.ctl.Wait(watchdog, func(e Ev) bool { return e.Who == "handler" }, &sr.skipped)
	switch {
	case !ok:
		sr.problem("WATCHDOG waiting for the handler after the serve loop gave up the hand-off of stanza %d", k)
		sr.serve = "stuck"
		return
	case e.What == exp:
		sr.hlog = append(sr.hlog, k)
		sr.trace = append(sr.trace, "A"+strconv.Itoa(k))
		if probe != "" {
			sr.wait(func(e Ev) bool { return e.Who == "handler" && e.What == "h:message:"+probe }, "the probe behind the abandoned response")
		}
	case probe != "" && e.What == "h:message:"+probe:
		sr.r.Fail("unmatched-to-handler", "dropped-in-cancel-window", sr.lines(), fmt.Sprintf("stanza %d (%s) was looked up for requester %d, whose context was done before the hand-off: no call got it and it did not reach the handler either (the next stanza did)", k, p.tok(), sr.hit))
	default:
		sr.problem("handler saw %s, expected %s", e.What, exp)
	}
	sr.serve, sr.hit = "idle", -1
	if p.bad {
		sr.awaitServeEnd() // the serve loop cannot read the rest of the element
	}
}

// holdProbe (round F, seeded C06-22): the context of requester i ended AFTER its call returned a
// response that it has not closed yet.  The serve loop must keep waiting for that close whatever
// happens to the context: an uncounted stanza fed behind the response must not reach the handler
// before the close (a short grace period gives a serve loop that wrongly went on the time to show
// it; on correct code nothing arrives and the stanza is consumed right after the close).
func (sr *sessRun) holdProbe(i int) {
	if sr.resp[i] == nil || sr.closed[i] || sr.serve != "waitclose" || sr.hit != i || sr.holdName != "" || sr.dead || sr.badK[sr.respK(i)] || len(sr.problems) > 0 {
		return
	}
	sr.nprobe++
	sr.holdName = "abprobeH" + strconv.Itoa(sr.nprobe)
	sr.holdSeen = false
	name := sr.holdName
	go sr.rs.Feed([]byte(`<message xmlns="jabber:client" id="` + name + `" type="chat"/>`))
	if _, ok := sr.ctl.Wait(60*time.Millisecond, func(e Ev) bool { return e.Who == "handler" && e.What == "h:message:"+name }, &sr.skipped); ok {
		sr.holdSeen = true
		sr.r.Fail("continue-after-close", "serve-went-on-before-the-response-was-closed", sr.lines(), fmt.Sprintf("requester %d holds the response it was given and has not closed it; its context ended: the serve loop went on and gave the next stanza to the handler although the response is still open", i))
	}
}

// afterCloseHold: the response has been closed, the serve loop goes on: the stanza fed by
// holdProbe is handled now.
func (sr *sessRun) afterCloseHold() {
	if sr.holdName == "" {
		return
	}
	name := sr.holdName
	sr.holdName = ""
	if sr.holdSeen || sr.dead {
		return
	}
	sr.wait(func(e Ev) bool { return e.Who == "handler" && e.What == "h:message:"+name }, "the stanza behind the closed response")
}

func (sr *sessRun) respK(i int) int {
	k, err := strconv.Atoi(strings.TrimPrefix(sr.outcome[i], "r"))
	if err != nil {
		return -1
	}
	return k
}

// drain: the caller reads the response it holds to its end, like UnmarshalIQ / xmlstream.Iter
// do; a read error in the content closes the response by itself (errCloser).
func (sr *sessRun) drain(i int) {
	var rerr error
	p := common.Recover(func() {
		for n := 0; n < 1000; n++ {
			if _, err := sr.resp[i].Token(); err != nil {
				if err != io.EOF {
					rerr = err
				}
				return
			}
		}
	})
	if p != "" {
		sr.r.Fail("no-panic", "read-of-response-panics", sr.lines(), p)
	}
	bad := sr.badK[sr.respK(i)]
	if (rerr != nil) != bad {
		sr.problem("reading the response of requester %d: error %v, stanza bad=%v", i, rerr, bad)
	}
	if bad {
		// the response has closed itself: the serve loop goes on, cannot read the rest either, Serve returns
		sr.closed[i] = true
		if sr.serve == "handedpark" {
			sr.ctl.Release("serve", "session.serve.handed")
			sr.trace = append(sr.trace, "h")
		}
		sr.awaitServeEnd()
		sr.closed[i] = false // the caller's own Close is still to come (it must be a no-op)
	}
}

// afterBadClose: the caller closed a response whose rest cannot be read: Serve returns.
func (sr *sessRun) afterBadClose(i int) {
	if sr.badK[sr.respK(i)] && !sr.dead {
		sr.awaitServeEnd()
	}
}

// hitGone: the serve loop offers to a requester whose context is done (it will abandon).
func (sr *sessRun) hitGone() bool {
	return sr.hit >= 0 && (sr.cancd[sr.hit] || sr.rstate[sr.hit] == "ret")
}

// afterEnable waits for the return of requester i if it is inside its select
// and one of the branches is ready.
func (sr *sessRun) afterEnable(i int) {
	if sr.rstate[i] != "insel" {
		return
	}
	offered := sr.serve == "offering" && sr.hit == i
	if !offered && !sr.cancd[i] {
		return
	}
	label := "r" + strconv.Itoa(i)
	if e, ok := sr.wait(isEv(label, "ret:"), label+" return from select"); ok {
		sr.returned(i, e)
	}
}

func (sr *sessRun) feed(p peerStanza) {
	k := sr.nread
	sr.nread++
	sr.fed = append(sr.fed, p)
	sr.badK[k] = p.bad
	sr.stz[k] = p
	outBefore := sr.rs.Out.Len()
	autoReply := p.kind == 'i' && p.typ != 'r' && p.typ != 'e' // the serve loop answers an unhandled get/set itself
	defer func() {
		if !autoReply {
			return
		}
		if sr.broken || sr.outClosed {
			sr.awaitServeEnd()
			return
		}
		// wait for that reply to be on the wire: it needs the output lock, which the next
		// requester would hold while it is parked in its transmission
		for dl := time.Now().Add(watchdog); sr.rs.Out.Len() == outBefore && time.Now().Before(dl); {
			time.Sleep(20 * time.Microsecond)
		}
	}()
	go sr.feedRaw(p)
	want := sr.lookupShadow(p)
	if p.typ == 'r' || p.typ == 'e' {
		if _, ok := sr.wait(isEv("serve", "park:session.serve.lookup"), "serve loop after lookup"); !ok {
			sr.serve = "stuck"
			return
		}
		if want >= 0 {
			sr.serve, sr.hit, sr.hitK = "lookup", want, k
			return
		}
		sr.ctl.Release("serve", "session.serve.lookup")
	}
	sr.serve, sr.hit = "idle", -1
	exp := "h:" + kindLocal(p.kind) + ":q" + strconv.Itoa(p.id)
	e, ok := sr.ctl.Wait(watchdog, func(e Ev) bool { return e.Who == "handler" }, &sr.skipped)
	switch {
	case !ok:
		// not delivered to the handler: did the serve loop offer it to somebody?
		sr.r.Fail("unmatched-to-handler", "not-delivered", sr.lines(), fmt.Sprintf("stanza %d (%s) matched no pending request at lookup time but did not reach the handler", k, p.tok()))
		sr.problem("stanza %d did not reach the handler", k)
		sr.serve = "stuck"
	case e.What != exp:
		sr.problem("handler saw %s, expected %s", e.What, exp)
	default:
		sr.hlog = append(sr.hlog, k)
		sr.trace = append(sr.trace, "H"+strconv.Itoa(k))
		if p.bad {
			autoReply = false
			sr.awaitServeEnd() // the serve loop cannot read the rest of the element
		}
	}
}

func (sr *sessRun) feedRaw(p peerStanza) {
	sr.rs.Feed([]byte(p.xml()))
	if p.trunc {
		sr.rs.In.Close() // the input ends in the middle of the element
	}
}

// abandonedBad: the serve loop gave up offering an element whose rest cannot be read: Serve returns.
func (sr *sessRun) abandonedBad() bool {
	sr.checkAbandon()
	return sr.dead
}

// awaitServeEnd: the serve loop had to write on an output that cannot take it; Serve returns.
func (sr *sessRun) awaitServeEnd() {
	if e, ok := sr.wait(func(e Ev) bool { return e.Who == "serve" && strings.HasPrefix(e.What, "ret:") }, "Serve to return after a write on a broken / closed output"); ok {
		sr.dead, sr.outClosed, sr.serve = true, true, "dead"
		if !strings.Contains(e.What, "abandoned in the middle of an element") && !strings.Contains(e.What, "closed stream") &&
			!strings.Contains(e.What, "XML syntax error") && !strings.Contains(e.What, "unexpected") {
			sr.problem("Serve returned %s", e.What)
		}
	}
}

// epilogue: the callers close what they hold, blocked callers are cancelled,
// parked goroutines are released; then a sentinel stanza must reach the handler.
func (sr *sessRun) epilogue() string {
	for i := range sr.reqs {
		switch sr.rstate[i] {
		case "payload":
			sr.act("o" + strconv.Itoa(i))
		}
	}
	if sr.serve == "lookup" {
		sr.act("g")
	}
	for i := range sr.reqs {
		if sr.rstate[i] == "presel" {
			sr.act("s" + strconv.Itoa(i))
		}
	}
	for i := range sr.reqs {
		if sr.rstate[i] == "insel" {
			sr.act("x" + strconv.Itoa(i))
		}
	}
	if sr.serve == "handedpark" {
		sr.act("h")
	}
	for i := range sr.reqs {
		if sr.resp[i] != nil && !sr.closed[i] {
			sr.act("k" + strconv.Itoa(i))
		}
	}
	if sr.serve == "handedpark-closed" {
		sr.ctl.Release("serve", "session.serve.handed")
		sr.trace = append(sr.trace, "h")
		sr.serve = "idle"
	}
	sr.abandonedBad()
	// liveness probe: a further stanza reaches the handler, or Serve has returned because it
	// had to write on a broken / closed output — never a stall
	probe := "dead"
	if !sr.dead {
		go sr.rs.Feed([]byte(`<message xmlns="jabber:client" id="sentinel" type="chat"/>`))
		probe = "live"
		if e, ok := sr.ctl.Wait(watchdog, func(e Ev) bool {
			return (e.Who == "handler" && e.What == "h:message:sentinel") || (e.Who == "serve" && strings.HasPrefix(e.What, "ret:"))
		}, &sr.skipped); !ok {
			probe = "stall"
		} else if e.Who == "serve" {
			probe = "dead"
			anyBad := false
			for _, b := range sr.badK {
				anyBad = anyBad || b
			}
			if !sr.broken && !sr.outClosed && !anyBad {
				sr.problem("Serve returned on a healthy output: %s", e.What)
			}
		}
	}
	for _, e := range sr.ctl.Drain(&sr.skipped) {
		if strings.HasPrefix(e.What, "panic:") {
			sr.r.Fail("no-panic", "panic:"+e.Who, sr.lines(), e.What)
			sr.problem("%s %s", e.Who, e.What)
		} else if e.What != "h:message:sentinel" {
			sr.problem("unexpected event %s %s", e.Who, e.What)
		}
	}
	for i := range sr.reqs {
		if sr.rstate[i] != "new" && sr.rstate[i] != "ret" {
			sr.outcome[i] = "b"
		}
	}
	var hl []string
	for _, k := range sr.hlog {
		hl = append(hl, strconv.Itoa(k))
	}
	return fmt.Sprintf("out=%s hl=%s probe=%s", common.Join(sr.outcome, "/"), common.Join(hl, ","), probe)
}

func (sr *sessRun) finish() {
	sr.ctl.Kill()
	for _, c := range sr.cancel {
		if c != nil {
			c()
		}
	}
	sr.rs.In.Close()
	common.WithTimeout(200*time.Millisecond, func() { sr.rs.S.Close() })
}

// runSess executes one schedule and records line, case and oracle verdicts.
func runSess(r *common.Run, reqs []reqSpec, sched []string, class string) {
	sr, err := newSessRun(r, reqs)
	if err != nil {
		r.Notes = append(r.Notes, "session setup failed: "+err.Error())
		return
	}
	defer sr.finish()
	for _, a := range sched {
		if len(sr.problems) > 0 {
			break
		}
		sr.act(a)
	}
	sr.conclude(class)
}

// conclude runs the epilogue and records line, case and verdicts.
func (sr *sessRun) conclude(class string) {
	r := sr.r
	var obs string
	if len(sr.problems) > 0 {
		r.Hist["problem"]++
		obs = "aborted"
	} else {
		obs = sr.epilogue()
	}
	if len(sr.problems) > 0 {
		obs += " PROBLEM:" + strings.ReplaceAll(strings.Join(sr.problems, ";"), " ", "_")
		// a watchdog is a clause of the property, not only a disagreement with the model: a call
		// that has its reply (or whose context ended) and does not return / a serve loop that does
		// not get on — recorded with the schedule as the failing input (round E self-test M2)
		for _, pr := range sr.problems {
			if !strings.HasPrefix(pr, "WATCHDOG") {
				continue
			}
			if strings.Contains(pr, "return") {
				r.Fail("outcome", "call-does-not-return", sr.lines(), "a blocking call that has been handed its reply, whose context ended or whose transmission failed did not return within the watchdog: "+pr)
			} else {
				r.Fail("serve-continues", "no-progress", sr.lines(), "the serve loop or a call did not reach the next step of the schedule within the watchdog: "+pr)
			}
			break
		}
	}
	line := "sess " + sr.reqField() + " " + common.Join(sr.trace, ",")
	r.Line(line, obs)
	if os.Getenv("VERIF_DEBUG") != "" {
		fmt.Fprintln(os.Stderr, line, "=>", obs)
	}
	nontriv := false
	for _, o := range sr.outcome {
		if strings.HasPrefix(o, "r") || o == "c" {
			nontriv = true
		}
	}
	r.Case(line, nontriv, class)
	if strings.Contains(obs, "probe=stall") {
		key := "serve-stalled"
		if sr.hit >= 0 && sr.outcome[sr.hit] == "f" {
			key = "offer-to-caller-whose-transmission-failed"
		}
		r.Fail("serve-continues", key, sr.lines(), "after every caller has closed its response and every blocked call was cancelled, a further stanza does not reach the handler (serve loop stalled): "+obs)
	}
}
