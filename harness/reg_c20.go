package main

import "verifharness/c20"

func init() { runners["C20"] = c20.Run; facts["C20"] = c20.Facts }
