// Package c18 drives the MUC client (muc.Client / muc.Channel) on a real served
// session against a scripted MUC service (property C18).  Trace syntax: see
// lean/XmppModel/Driver/C18.lean.
package c18

import (
	"context"
	"errors"
	"fmt"
	"os"
	"regexp"
	"strconv"
	"strings"
	"sync"
	"sync/atomic"
	"time"

	"mellium.im/xmpp"
	"mellium.im/xmpp/jid"
	"mellium.im/xmpp/muc"
	"mellium.im/xmpp/mux"
	"mellium.im/xmpp/stanza"

	"verifharness/c06"
	"verifharness/common"
)

const watchdog = 4 * time.Second

type run struct {
	r     *common.Run
	ctl   *c06.Ctl
	rs    *common.RawSession
	cl    *muc.Client
	addrs []int
	conf  nsConf // configuration of the session: the stanza namespace of its stream
	ns    string
	jsent []*replyShape // shape of the error reply sent to the pending join / leave
	lsent []*replyShape

	chans      []*muc.Channel
	chMu       sync.Mutex // guards chans against the callbacks (which use the channels from the serve goroutine)
	jst        []string   // idle parked insel
	lst        []string
	jcancel    []context.CancelFunc
	lcancel    []context.CancelFunc
	jready     []string // "", "err", "ctx", "self"
	lready     []string // "", "err", "ctx"
	jid        []string // id of the pending join presence
	lid        []string
	managed    map[int]int
	cur        []int // occupant address the channel holds
	req        []int // occupant address the current / last Join asked for
	tok        []bool
	member     []bool // specification ghost (observable events only)
	refused    []bool // the last Leave of the channel was answered with an error
	everJoined map[int]bool
	feedCh     chan []byte
	rs2        *common.RawSession // configuration `m`: a second live session served by the same Client (channel c lives on session c%2)
	feedCh2    chan []byte
	outPos2    int
	serveRet2  atomic.Value
	wrote      chan struct{}   // signalled whenever the session has written something
	serveRet   atomic.Value    // string: how Serve ended (set before the event is emitted)
	lastItem   *sentItem       // the item of the last presence fed (what the callback must report)
	lastInv    *muc.Invitation // what the last mediated invitation fed says (nil: not checked)
	lastHeld   string          // last `=` token (addresses held, as Me() reports them)
	blockedBy  string          // which parked call ("j0", "l1") keeps the serve loop blocked
	over       bool            // a write of the connection failed: the session is finished (Serve returns that error)
	blocked    bool            // serve loop blocked behind a parked Join (hand-off or unclosed error reply)
	nsync      int
	ncall      int
	outPos     int
	upres      int
	inv        int
	trace      []string
	skipped    []c06.Ev
	problems   []string
}

// occupant address a: room a%10, nickname a/10 (so a and a+10 are two nicknames in one room)
func occ(a int) jid.JID {
	return jid.MustParse(fmt.Sprintf("room%d@conf.example.net/nick%d", a%10, a/10))
}

func newRun(r *common.Run, addrs []int, cf nsConf) (*run, error) {
	ctl := c06.NewCtl("muc.join.select", "muc.leave.select")
	var state xmpp.SessionState
	if cf.ns == "jabber:server" {
		state = xmpp.S2S
	}
	rs, err := common.NewRawSession(state, cf.ns, jid.MustParse("me@example.net/h"), jid.MustParse("example.net"))
	if err != nil {
		return nil, err
	}
	n := len(addrs)
	x := &run{r: r, ctl: ctl, rs: rs, addrs: addrs, conf: cf, ns: cf.ns, managed: map[int]int{}, everJoined: map[int]bool{}, feedCh: make(chan []byte, 1024)}
	x.wrote = make(chan struct{}, 1)
	rs.Out.OnWrite = func([]byte) {
		select {
		case x.wrote <- struct{}{}:
		default:
		}
	}
	go func() {
		// one writer: peer stanzas reach the session in the order they were fed
		for b := range x.feedCh {
			if rs.Feed(b) != nil {
				return
			}
		}
	}()
	x.chans = make([]*muc.Channel, n)
	x.jst, x.lst = make([]string, n), make([]string, n)
	x.jcancel, x.lcancel = make([]context.CancelFunc, n), make([]context.CancelFunc, n)
	x.jready, x.lready = make([]string, n), make([]string, n)
	x.jid, x.lid = make([]string, n), make([]string, n)
	x.tok, x.member, x.refused = make([]bool, n), make([]bool, n), make([]bool, n)
	x.jsent, x.lsent = make([]*replyShape, n), make([]*replyShape, n)
	x.cur, x.req = append([]int(nil), addrs...), append([]int(nil), addrs...)
	for i := range x.jst {
		x.jst[i], x.lst[i] = "idle", "idle"
	}
	x.cl = &muc.Client{
		HandleInvite: func(inv muc.Invitation) { x.useChannels(); ctl.Emit("cb", "invite", inv) },
		HandleUserPresence: func(_ stanza.Presence, it muc.Item) {
			// an application's callback uses the channels ("the callback runs without the lock so
			// that it may use the channels"): it asks every channel whether it is joined and who it is
			x.useChannels()
			ctl.Emit("cb", "upres", it)
		},
	}
	if cf.nocb {
		// the callbacks are optional: the bookkeeping must be the same without them
		x.cl = &muc.Client{}
	}
	var m *mux.ServeMux
	if cf.late && !cf.nocb {
		// configuration order: the callbacks are exported fields; an application may assign them
		// after it has registered the Client with its multiplexer.  They count from then on.
		full := x.cl
		x.cl = &muc.Client{}
		m = mux.New(cf.ns, muc.HandleClient(x.cl))
		x.cl.HandleInvite, x.cl.HandleUserPresence = full.HandleInvite, full.HandleUserPresence
	} else {
		m = mux.New(cf.ns, muc.HandleClient(x.cl))
	}
	ctl.Go("serve", func() {
		err := rs.S.Serve(m)
		x.serveRet.Store(fmt.Sprint(err))
		ctl.Emit("serve", "ret:"+fmt.Sprint(err), nil)
	})
	if cf.multi {
		// one Client serving two live sessions (two resources of one account): its own multiplexer
		// and serve loop, the same Client
		rs2, err := common.NewRawSession(state, cf.ns, jid.MustParse("me@example.net/h2"), jid.MustParse("example.net"))
		if err != nil {
			return nil, err
		}
		x.rs2, x.feedCh2 = rs2, make(chan []byte, 1024)
		rs2.Out.OnWrite = rs.Out.OnWrite
		go func() {
			for b := range x.feedCh2 {
				if rs2.Feed(b) != nil {
					return
				}
			}
		}()
		m2 := mux.New(cf.ns, muc.HandleClient(x.cl))
		ctl.Go("serve2", func() {
			err := rs2.S.Serve(m2)
			x.serveRet2.Store(fmt.Sprint(err))
			ctl.Emit("serve2", "ret:"+fmt.Sprint(err), nil)
		})
	}
	return x, nil
}

// sof: the session channel c lives on.
func (x *run) sof(c int) int {
	if x.rs2 != nil {
		return c % 2
	}
	return 0
}

func (x *run) sess(k int) *common.RawSession {
	if k == 1 && x.rs2 != nil {
		return x.rs2
	}
	return x.rs
}

// sessOfAddr: the session on which the room's presence for occupant address a arrives — that of the
// channel registered under it (else the first).
func (x *run) sessOfAddr(a int) int {
	if c, ok := x.managed[a]; ok {
		return x.sof(c)
	}
	return 0
}

func (x *run) feedTo(k int, s string) {
	if k == 1 && x.rs2 != nil {
		x.feedCh2 <- []byte(s)
		return
	}
	x.feedCh <- []byte(s)
}

// useChannels is what an application does inside its callbacks: it reads Joined() / Me() of its
// channels.  A handler that calls the callback while it holds the Client's lock never gets an answer.
func (x *run) useChannels() {
	x.chMu.Lock()
	chans := append([]*muc.Channel(nil), x.chans...)
	x.chMu.Unlock()
	done := make(chan struct{})
	go func() {
		defer close(done)
		for _, ch := range chans {
			if ch != nil {
				ch.Joined()
				ch.Me()
			}
		}
	}()
	select {
	case <-done:
	case <-time.After(watchdog / 2):
		x.ctl.Emit("cb", "locked", nil)
	}
}

func (x *run) setChan(c int, ch *muc.Channel) {
	x.chMu.Lock()
	x.chans[c] = ch
	x.chMu.Unlock()
}

// refuseWrites makes every write of the session's connection fail (on) or work again (off); the
// Len() calls order the change with the writers (lock / unlock of the buffer).
func (x *run) refuseWrites(on bool) {
	for k := 0; k < 2; k++ {
		if k == 1 && x.rs2 == nil {
			break
		}
		out := x.sess(k).Out
		out.Len()
		if on {
			out.Fail = errors.New("verif: the connection refuses writes")
		} else {
			out.Fail = nil
		}
		out.Len()
	}
}

func (x *run) problem(f string, a ...interface{}) {
	if os.Getenv("VERIF_DEBUG") == "2" {
		fmt.Fprintf(os.Stderr, "WIRE %q jid=%v outPos=%d\n", x.rs.Out.Bytes(), x.jid, x.outPos)
	}
	x.problems = append(x.problems, fmt.Sprintf(f, a...))
}

func (x *run) lines() []string {
	var l []string
	for _, a := range x.addrs {
		l = append(l, strconv.Itoa(a))
	}
	tr := x.trace
	if x.conf.tok != "" {
		tr = append([]string{x.conf.tok}, tr...)
	}
	return []string{x.r.Prop + " muc " + common.Join(l, ",") + " " + common.Join(tr, ",")}
}

func isEv(who, what string) func(c06.Ev) bool {
	return func(e c06.Ev) bool { return e.Who == who && strings.HasPrefix(e.What, what) }
}

func (x *run) wait(pred func(c06.Ev) bool, what string) (c06.Ev, bool) {
	e, ok := x.ctl.Wait(watchdog, pred, &x.skipped)
	if !ok {
		x.problem("WATCHDOG waiting for %s", what)
	}
	return e, ok
}

var presRe = regexp.MustCompile(`<presence[^>]*>`)
var idRe = regexp.MustCompile(`id=["']([^"']*)["']`)

// awaitPresence polls the session's output for a new presence stanza to the
// occupant address and returns its id.
func (x *run) awaitPresence(k int, to string, unavailable bool) string {
	deadline := time.Now().Add(watchdog)
	pos := &x.outPos
	if k == 1 && x.rs2 != nil {
		pos = &x.outPos2
	}
	for time.Now().Before(deadline) {
		out := string(x.sess(k).Out.Bytes())
		for _, loc := range presRe.FindAllStringIndex(out[*pos:], -1) {
			tag := out[*pos+loc[0] : *pos+loc[1]]
			if strings.Contains(tag, `"kabort`) {
				continue // the request of a Join call that gave up (it may reach the wire late): nobody answers it
			}
			if strings.Contains(tag, to) && strings.Contains(tag, `"unavailable"`) == unavailable {
				*pos += loc[1]
				if m := idRe.FindStringSubmatch(tag); m != nil {
					return m[1]
				}
			}
		}
		x.pause()
	}
	x.problem("WATCHDOG waiting for the presence to %s on the wire", to)
	return ""
}

// sync waits until the serve loop has finished everything fed so far.
func (x *run) sync() {
	if !x.syncQ() {
		x.r.Fail("serve-continues", "serve-stalled", x.lines(), "the serve loop stopped processing stanzas"+x.served())
	}
}

// pause waits for the next write of the session (or a short while: Serve may have returned).
func (x *run) pause() {
	select {
	case <-x.wrote:
	case <-time.After(2 * time.Millisecond):
	}
}

func (x *run) served() string {
	if v, ok := x.serveRet.Load().(string); ok {
		return " (Serve returned: " + v + ")"
	}
	if v, ok := x.serveRet2.Load().(string); ok {
		return " (Serve of the second session returned: " + v + ")"
	}
	return ""
}

// syncQ is sync without the oracle failure: false if the serve loop does not
// answer (the caller says what that means).
func (x *run) syncQ() bool {
	if x.blocked || x.over || len(x.problems) > 0 {
		return true
	}
	for k := 0; k < 2; k++ {
		if k == 1 && x.rs2 == nil {
			break
		}
		if !x.syncOne(k) {
			return false
		}
	}
	return true
}

func (x *run) syncOne(k int) bool {
	x.nsync++
	id := fmt.Sprintf("sync%d", x.nsync)
	x.feedTo(k, fmt.Sprintf(`<iq xmlns="%s" type="get" id="%s" from="example.net"><ping xmlns="urn:xmpp:ping"/></iq>`, x.ns, id))
	deadline := time.Now().Add(watchdog)
	for time.Now().Before(deadline) {
		out := string(x.sess(k).Out.Bytes())
		if strings.Contains(out, `"`+id+`"`) || strings.Contains(out, `'`+id+`'`) {
			return true
		}
		if x.serveRet.Load() != nil || x.serveRet2.Load() != nil {
			break // Serve has returned: nothing will answer
		}
		x.pause()
	}
	x.problem("WATCHDOG: serve loop does not answer (stalled or dead)%s", x.served())
	return false
}

func (x *run) callbacks() {
	for _, e := range x.ctl.Drain(&x.skipped) {
		switch {
		case e.Who == "cb" && e.What == "upres":
			x.upres++
			if got, ok := e.Extra.(muc.Item); ok && x.lastItem != nil {
				if d := x.lastItem.differs(got); d != "" {
					x.r.Fail("user-presence-item", "item-differs:"+strings.SplitN(d, " ", 2)[0]+":"+x.lastItem.class(), x.lines(), "HandleUserPresence was given an item that differs from the one the room sent: "+d)
				}
			}
		case e.Who == "cb" && e.What == "invite":
			x.inv++
			if got, ok := e.Extra.(muc.Invitation); ok && x.lastInv != nil {
				w := x.lastInv
				d := ""
				switch {
				case got.Reason != w.Reason:
					d = fmt.Sprintf("reason %q, sent %q", got.Reason, w.Reason)
				case got.Password != w.Password:
					d = fmt.Sprintf("password %q, sent %q", got.Password, w.Password)
				case got.Continue != w.Continue || got.Thread != w.Thread:
					d = fmt.Sprintf("continue %v thread %q, sent %v %q", got.Continue, got.Thread, w.Continue, w.Thread)
				case got.XMLName.Space != muc.NSUser:
					d = fmt.Sprintf("name %v, not the mediated invitation's", got.XMLName)
				}
				if d != "" {
					x.r.Fail("invite-once", "invitation-differs-from-the-one-sent:"+strings.SplitN(d, " ", 2)[0], x.lines(), "HandleInvite was given an invitation that differs from the one the room forwarded: "+d)
				}
			}
		case e.Who == "cb" && e.What == "locked":
			x.r.Fail("membership", "callback-cannot-use-the-channels", x.lines(), "a callback of the Client asked its channels for Joined() / Me() and got no answer: the handler calls it while it holds the lock those accessors need")
			x.problem("callback called under the Client's lock")
		case strings.HasPrefix(e.What, "panic:"):
			x.r.Fail("no-panic", "panic:"+e.Who, x.lines(), e.What)
			x.problem("%s %s", e.Who, e.What)
		default:
			x.skipped = append(x.skipped, e)
		}
	}
}

// sample records Joined() of every channel and compares it with the ghost.
func (x *run) sample() {
	if x.blocked || len(x.problems) > 0 {
		return
	}
	b := make([]byte, len(x.addrs))
	for c := range x.addrs {
		b[c] = '0'
		if x.chans[c] != nil && x.chans[c].Joined() {
			b[c] = '1'
		}
		want := x.member[c]
		if (b[c] == '1') != want {
			key := "joined-false-after-successful-join"
			if !want {
				key = "joined-true-while-not-a-member"
			} else if x.refused[c] {
				// the code (and the package's TestPartError) end the membership on an
				// error reply to Leave; the property text does not
				key = "not-joined-after-error-reply-to-leave"
			}
			x.r.Fail("membership", key, x.lines(), fmt.Sprintf("channel %d (occupant address %d): Joined()=%c but the history says member=%v", c, x.cur[c], b[c], want))
		}
	}
	x.trace = append(x.trace, "?"+string(b))
	// Me() / Addr(): the occupant address the channel holds (changes only when a join under
	// another nickname completes)
	held := make([]string, len(x.addrs))
	for c := range x.addrs {
		held[c] = strconv.Itoa(x.cur[c])
		if x.chans[c] == nil {
			continue
		}
		me, bare := x.chans[c].Me(), x.chans[c].Addr()
		got := -1
		var room, nick int
		if n, _ := fmt.Sscanf(me.String(), "room%d@conf.example.net/nick%d", &room, &nick); n == 2 {
			got = room + 10*nick
		}
		held[c] = strconv.Itoa(got)
		if got != x.cur[c] || !bare.Equal(occ(x.cur[c]).Bare()) {
			x.r.Fail("membership", "me-differs-from-the-occupant-address-held", x.lines(), fmt.Sprintf("channel %d: Me()=%s Addr()=%s but the last successful join was confirmed for %s", c, me, bare, occ(x.cur[c])))
		}
	}
	if h := strings.Join(held, "."); h != x.lastHeld {
		x.lastHeld = h
		x.trace = append(x.trace, "="+h)
	}
}

// requestSent: the request of a call went to the occupant address, with the type of the call and —
// if the caller supplied a presence — under the caller's id (its type and to address have no effect).
func (x *run) requestSent(call string, c int, id string, custom bool, ownID, to string) {
	clause := map[string]string{"Join": "join-success-iff", "Leave": "leave-returns"}[call]
	switch {
	case id == "":
		x.r.Fail(clause, "request-not-sent-to-the-occupant-address", x.lines(), fmt.Sprintf("%s of channel %d: no presence of the right type to %s appeared on the wire", call, c, to))
	case custom && id != ownID:
		x.r.Fail(clause, "request-lost-the-caller's-id", x.lines(), fmt.Sprintf("%s of channel %d was given a presence with id %q, the request on the wire has id %q", call, c, ownID, id))
	}
}

func (x *run) joinReturned(c int, e c06.Ev) {
	err, _ := e.Extra.(error)
	x.jst[c] = "idle"
	var se stanza.Error
	cleanup := func() {
		joined := x.member[c] && !x.refused[c] // by the code's reckoning
		if cc, ok := x.managed[x.req[c]]; ok && cc == c && !(joined && x.cur[c] == x.req[c]) {
			delete(x.managed, x.req[c])
		}
	}
	switch {
	case err != nil && strings.Contains(err.Error(), "occupant JID is in use"): // muc.ErrOccupantInUse (by text: older trees lack the symbol)
		x.trace = append(x.trace, fmt.Sprintf("R%dre", c))
		if x.jready[c] != "refused" {
			x.r.Fail("join-error", "refused-although-address-free", x.lines(), fmt.Sprintf("Join of channel %d was refused with ErrOccupantInUse although no other channel uses the address", c))
		}
	case err == nil:
		x.trace = append(x.trace, fmt.Sprintf("R%dok", c))
		if x.jready[c] != "self" {
			x.r.Fail("join-success-iff", "success-without-self-presence", x.lines(), fmt.Sprintf("Join of channel %d returned nil although no self-presence for its occupant address was sent during the call", c))
		}
		x.member[c] = true
		x.refused[c] = false
		if old := x.cur[c]; old != x.req[c] {
			if cc, ok := x.managed[old]; ok && cc == c {
				delete(x.managed, old)
			}
		}
		x.cur[c] = x.req[c]
		x.tok[c] = false
		x.everJoined[x.cur[c]] = true
	case errors.As(err, &se):
		x.trace = append(x.trace, fmt.Sprintf("R%dse", c))
		if x.jready[c] != "err" {
			x.problem("Join %d returned a stanza error nobody sent", c)
			x.r.Fail("join-error", "stanza-error-without-error-reply", x.lines(), fmt.Sprintf("Join of channel %d returned a stanza error nobody sent: %v", c, err))
		} else {
			x.checkReturned("Join", c, se, x.jsent[c])
		}
		cleanup()
	case errors.Is(err, context.Canceled):
		x.trace = append(x.trace, fmt.Sprintf("R%dce", c))
		if x.jready[c] != "ctx" {
			key := "context-error-without-cancel"
			if x.jready[c] == "self" {
				key = "self-presence-did-not-complete-join"
			}
			x.r.Fail("join-success-iff", key, x.lines(), fmt.Sprintf("Join of channel %d returned %v (ready=%q)", c, err, x.jready[c]))
		}
		cleanup()
	case x.jready[c] == "fail" || x.jready[c] == "noerr":
		// the request could not be sent / the reply carries no error element: any other error, after
		// the same clean-up as every failed join
		x.trace = append(x.trace, fmt.Sprintf("R%doe", c))
		cleanup()
	case x.jready[c] == "err":
		// the room answered the join presence with an error and the call ended with something else
		x.r.Fail("join-error", "room's-error-not-returned:"+x.ns+":"+x.jsent[c].class(), x.lines(), fmt.Sprintf("the room answered the join of channel %d with a stanza error (reply children %q, stanza namespace %s); Join returned %q instead of it", c, x.jsent[c].raw, x.ns, err))
		x.problem("Join %d returned %v", c, err)
	default:
		x.problem("Join %d returned %v", c, err)
	}
	x.jready[c], x.jsent[c] = "", nil
}

func (x *run) leaveReturned(c int, e c06.Ev) {
	err, _ := e.Extra.(error)
	x.lst[c] = "idle"
	var se stanza.Error
	switch {
	case err == nil:
		x.trace = append(x.trace, fmt.Sprintf("D%dok", c))
		if !x.tok[c] {
			x.r.Fail("leave-returns", "success-without-unavailable", x.lines(), fmt.Sprintf("Leave of channel %d returned nil although no unavailable presence of its occupant was processed", c))
		}
		x.tok[c] = false
	case errors.As(err, &se):
		x.trace = append(x.trace, fmt.Sprintf("D%dse", c))
		if x.lready[c] != "err" {
			x.r.Fail("leave-returns", "stanza-error-without-error-reply", x.lines(), fmt.Sprintf("Leave of channel %d returned a stanza error nobody sent: %v", c, err))
		} else {
			x.checkReturned("Leave", c, se, x.lsent[c])
		}
		x.refused[c] = true
		if cc, ok := x.managed[x.cur[c]]; ok && cc == c {
			delete(x.managed, x.cur[c])
		}
	case errors.Is(err, context.Canceled):
		x.trace = append(x.trace, fmt.Sprintf("D%dce", c))
		if x.lready[c] != "ctx" {
			x.r.Fail("leave-returns", "leave-missed-unavailable-presence", x.lines(), fmt.Sprintf("Leave of channel %d returned %v (ready=%q, token=%v)", c, err, x.lready[c], x.tok[c]))
		}
	case x.lready[c] == "fail" || x.lready[c] == "noerr":
		x.trace = append(x.trace, fmt.Sprintf("D%doe", c)) // nothing of the bookkeeping moves
	case x.lready[c] == "err":
		x.r.Fail("leave-returns", "room's-error-not-returned:"+x.ns+":"+x.lsent[c].class(), x.lines(), fmt.Sprintf("the room answered the leave of channel %d with a stanza error (reply children %q, stanza namespace %s); Leave returned %q instead of it", c, x.lsent[c].raw, x.ns, err))
		x.problem("Leave %d returned %v", c, err)
	default:
		x.problem("Leave %d returned %v", c, err)
	}
	x.lready[c], x.lsent[c] = "", nil
}

func (x *run) feed(s string) { x.feedCh <- []byte(s) }

func (x *run) act(a string) bool {
	if len(x.problems) > 0 || x.over {
		return false
	}
	num := func(k int) int { n, _ := strconv.Atoi(a[k:]); return n }
	switch {
	case a[0] == 'J':
		// J<c> asks for the address the channel holds, J<c>@<a> uses the Nick option; a trailing `!`:
		// through JoinPresence with a presence of the caller's (own id, a type and — on a re-join — a
		// to address that must have no effect)
		custom := strings.HasSuffix(a, "!")
		faulty := strings.HasSuffix(a, "~") // the connection refuses every write while the call is made
		spec := strings.Split(strings.TrimSuffix(strings.TrimSuffix(a[1:], "!"), "~"), "@")
		c, _ := strconv.Atoi(spec[0])
		if c >= len(x.addrs) || x.jst[c] != "idle" || x.blocked {
			return false
		}
		want := x.cur[c]
		var opts []muc.Option
		if len(spec) == 2 {
			want, _ = strconv.Atoi(spec[1])
			if want%10 != x.cur[c]%10 {
				return false // the Nick option cannot change the room
			}
			opts = append(opts, muc.Nick(occ(want).Resourcepart()))
		}
		x.trace = append(x.trace, a)
		ctx, cancel := context.WithCancel(context.Background())
		x.jcancel[c] = cancel
		label := "j" + strconv.Itoa(c)
		first := x.chans[c] == nil
		from := occ(x.cur[c])
		x.ncall++
		own := stanza.Presence{ID: fmt.Sprintf("own%d", x.ncall), Type: stanza.UnavailablePresence, To: jid.MustParse("elsewhere@conf.example.net/nobody")}
		if faulty {
			x.refuseWrites(true)
			defer x.refuseWrites(false) // (also on the early exits below)
		}
		x.ctl.Go(label, func() {
			var err error
			switch {
			case first && custom:
				var ch *muc.Channel
				own.To = from // the room comes from the presence here
				ch, err = x.cl.JoinPresence(ctx, own, x.sess(x.sof(c)).S, opts...)
				x.setChan(c, ch)
			case first:
				var ch *muc.Channel
				ch, err = x.cl.Join(ctx, from, x.sess(x.sof(c)).S, opts...)
				x.setChan(c, ch)
			case custom:
				err = x.chans[c].JoinPresence(ctx, own, opts...)
			default:
				err = x.chans[c].Join(ctx, opts...)
			}
			x.ctl.Emit(label, "ret:", err)
		})
		x.req[c] = want
		if other, ok := x.managed[want]; ok && other != c {
			// another channel is registered there: the call must be refused at once
			x.jready[c] = "refused"
			x.jst[c] = "insel"
			if e, ok := x.wait(isEv(label, "ret:"), label+" refused"); ok {
				x.joinReturned(c, e)
			} else {
				x.r.Fail("membership", "second-channel-for-an-occupant-address-accepted", x.lines(), fmt.Sprintf("channel %d asked for occupant address %d which channel %d holds; the call was not refused", c, want, other))
			}
			break
		}
		x.jst[c], x.jready[c] = "parked", ""
		x.managed[want] = c
		x.tok[c] = false
		x.wait(isEv(label, "park:muc.join.select"), label+" before its select")
		if faulty {
			// nothing reaches the wire; the call ends with the error of the send as soon as it selects
			x.jready[c], x.jst[c] = "fail", "insel"
			x.ctl.Release(label, "muc.join.select")
			if e, ok := x.wait(isEv(label, "ret:"), label+" return after the failed send"); ok {
				x.joinReturned(c, e)
			} else {
				x.r.Fail("join-error", "join-did-not-return-after-failed-send", x.lines(), fmt.Sprintf("the join request of channel %d could not be sent; Join did not return", c))
			}
			// a failed write ends the session (Serve returns the error): the history ends here, apart
			// from the final look at Joined()
			x.over = true
			x.callbacks()
			x.sample()
			return true
		}
		x.jid[c] = x.awaitPresence(x.sof(c), occ(want).String(), false)
		x.requestSent("Join", c, x.jid[c], custom, own.ID, occ(want).String())
	case a[0] == 'K':
		// K<c> / K<c>@<a>: a (further) Join call on channel c with a context that is already over.  While
		// another Join of the channel is pending the hand-off slot is taken, so the call gives up at
		// once; on an idle channel the select may also queue the request first — the call then fails
		// with the context's error after the same clean-up.  Either way: the context's error (or
		// ErrOccupantInUse), nothing registered that was not registered before, pending calls untouched.
		spec := strings.Split(a[1:], "@")
		c, cerr := strconv.Atoi(spec[0])
		if cerr != nil || c >= len(x.addrs) || x.blocked || (x.chans[c] == nil && x.jst[c] != "idle") {
			return false // (during the first Join of a channel there is no Channel value to call)
		}
		want := x.cur[c]
		var opts []muc.Option
		if len(spec) == 2 {
			want, _ = strconv.Atoi(spec[1])
			if want%10 != x.cur[c]%10 {
				return false
			}
			opts = append(opts, muc.Nick(occ(want).Resourcepart()))
		}
		x.trace = append(x.trace, a)
		ctx, cancel := context.WithCancel(context.Background())
		cancel()
		first := x.chans[c] == nil
		from := occ(x.cur[c])
		x.ncall++
		type res struct {
			ch  *muc.Channel
			err error
		}
		done := make(chan res, 1)
		go func() { // not a labelled goroutine: it never parks at the yield points
			defer func() {
				if p := recover(); p != nil {
					x.ctl.Emit("k"+strconv.Itoa(c), "panic:"+fmt.Sprint(p), nil)
					done <- res{nil, fmt.Errorf("panic: %v", p)}
				}
			}()
			// (through JoinPresence with an id of the harness's: on an idle channel the select may queue
			// the request before the context wins, and the presence may then reach the wire at any
			// later moment; awaitPresence skips it by that id)
			own := stanza.Presence{ID: fmt.Sprintf("kabort%d", x.ncall), To: from}
			if first {
				ch, err := x.cl.JoinPresence(ctx, own, x.sess(x.sof(c)).S, opts...)
				done <- res{ch, err}
				return
			}
			done <- res{nil, x.chans[c].JoinPresence(ctx, own, opts...)}
		}()
		var got res
		select {
		case got = <-done:
		case <-time.After(watchdog):
			x.r.Fail("join-error", "join-with-ended-context-did-not-return", x.lines(), fmt.Sprintf("Join of channel %d was called with a context that was already over and did not return", c))
			x.problem("WATCHDOG: Join %d with an ended context did not return", c)
			return true
		}
		if first {
			x.setChan(c, got.ch)
		}
		other, taken := x.managed[want]
		switch {
		case got.err != nil && strings.Contains(got.err.Error(), "occupant JID is in use"):
			x.trace = append(x.trace, fmt.Sprintf("R%dxr", c))
			if !taken || other == c {
				x.r.Fail("join-error", "refused-although-address-free", x.lines(), fmt.Sprintf("Join of channel %d was refused with ErrOccupantInUse although no other channel uses the address", c))
			}
		case errors.Is(got.err, context.Canceled):
			x.trace = append(x.trace, fmt.Sprintf("R%dxc", c))
			if taken && other != c {
				x.r.Fail("membership", "second-channel-for-an-occupant-address-accepted", x.lines(), fmt.Sprintf("channel %d asked for occupant address %d which channel %d holds; the call was not refused", c, want, other))
			}
			x.tok[c] = false // the call emptied depart before it gave up
		default:
			x.r.Fail("join-error", "join-with-ended-context-returned-something-else", x.lines(), fmt.Sprintf("Join of channel %d was called with a context that was already over and returned %v", c, got.err))
			x.problem("Join %d with an ended context returned %v", c, got.err)
		}
		if x.jst[c] == "idle" {
			// the request may have been queued and even written: let the session settle and skip it
			x.sync()
		}
	case a[0] == 's':
		c := num(1)
		if c >= len(x.addrs) || x.jst[c] != "parked" || (x.blocked && x.blockedBy != "j"+strconv.Itoa(c)) {
			return false // while the handler holds managedM for another call, this one could not finish
		}
		x.trace = append(x.trace, a)
		x.jst[c] = "insel"
		label := "j" + strconv.Itoa(c)
		x.ctl.Release(label, "muc.join.select")
		if x.jready[c] != "" {
			if e, ok := x.wait(isEv(label, "ret:"), label+" return"); ok {
				x.joinReturned(c, e)
			}
			if x.blockedBy == label {
				x.blocked, x.blockedBy = false, ""
			}
			x.sync()
		}
	case a[0] == 'A' || a[0] == 'U':
		// A<a> / U<a>, optionally :<payload> (payload.go)
		spec := strings.SplitN(a[1:], ":", 2)
		ad, aerr := strconv.Atoi(spec[0])
		if x.blocked || aerr != nil {
			return false
		}
		pl := defaultPayload
		if len(spec) == 2 {
			pl = spec[1]
		}
		item, pok := parsePayload(pl)
		if !pok {
			return false
		}
		c, reg := x.managed[ad]
		typ := ""
		if a[0] == 'U' {
			typ = ` type="unavailable"`
		}
		st := fmt.Sprintf(`<presence xmlns="%s" from="%s" to="me@example.net/h"%s>%s</presence>`, x.ns, occ(ad), typ, item.xml())
		x.lastItem = item
		// processed: the serve loop has taken the presence and gone on (a handler that fails on a
		// legal payload ends Serve: the presence was not processed)
		processed := func() bool {
			if x.syncQ() {
				return true
			}
			x.r.Fail("membership", "presence-not-processed:"+map[byte]string{'A': "available", 'U': "unavailable"}[a[0]]+":"+item.class(), x.lines(),
				fmt.Sprintf("the room's %s presence for occupant address %d with the legal muc#user payload %s was not processed%s", map[byte]string{'A': "available", 'U': "unavailable"}[a[0]], ad, item.xml(), x.served()))
			return false
		}
		if a[0] == 'A' {
			if reg && x.jst[c] != "idle" && x.jready[c] != "" {
				return false // keep the select of the pending join deterministic
			}
			self := reg && x.jst[c] != "idle" && x.req[c] == ad // the presence the pending join waits for
			x.trace = append(x.trace, a)
			before := x.upres
			x.feedTo(x.sessOfAddr(ad), st)
			switch {
			case self && x.jst[c] == "insel":
				x.jready[c] = "self"
				if !processed() {
					break
				}
				if e, ok := x.wait(isEv("j"+strconv.Itoa(c), "ret:"), "join return after self-presence"); ok {
					x.joinReturned(c, e)
				} else {
					x.r.Fail("join-success-iff", "self-presence-did-not-complete-join:"+item.class(), x.lines(), fmt.Sprintf("self-presence for occupant address %d (payload %s) was sent while Join of channel %d waited, the call did not return%s", ad, item.raw, c, x.served()))
				}
				x.sync()
			case self && x.jst[c] == "parked":
				x.jready[c] = "self"
				x.blocked, x.blockedBy = true, "j"+strconv.Itoa(c) // the handler waits for the joiner to reach its select
			default:
				if !processed() {
					break
				}
				x.callbacks()
				want := 0
				if reg && !x.conf.nocb {
					// an occupant presence of a registered address that completes no join: one callback per
					// muc#user child (the multiplexer runs the handler for each; how often the application
					// hears of one presence is not the property's business, that it hears of it is)
					want = item.times()
				}
				if x.upres-before != want {
					key := "presence-of-unjoined-room-not-ignored"
					if want == 1 {
						key = "user-presence-callback-missing"
					}
					x.r.Fail("unmanaged-ignored", key, x.lines(), fmt.Sprintf("available presence from occupant address %d: HandleUserPresence called %d times, expected %d (registered=%v member=%v)", ad, x.upres-before, want, reg, reg && x.member[c]))
				}
			}
		} else {
			if reg && x.lst[c] != "idle" && x.lready[c] != "" {
				return false
			}
			x.trace = append(x.trace, a)
			x.feedTo(x.sessOfAddr(ad), st)
			if !processed() {
				break
			}
			for cc := range x.addrs {
				if x.cur[cc] == ad {
					x.member[cc] = false
				}
			}
			if reg {
				delete(x.managed, ad)
			}
			if reg && x.cur[c] == ad {
				x.tok[c] = true
				if x.lst[c] == "insel" {
					if e, ok := x.wait(isEv("l"+strconv.Itoa(c), "ret:"), "leave return after unavailable presence"); ok {
						x.leaveReturned(c, e)
					} else {
						x.r.Fail("leave-returns", "leave-missed-unavailable-presence", x.lines(), fmt.Sprintf("Leave of channel %d did not return after the occupant's unavailable presence", c))
					}
				}
			}
		}
	case strings.HasPrefix(a, "Ej"), strings.HasPrefix(a, "Xj"):
		spec := strings.SplitN(a[2:], ":", 2)
		c, cerr := strconv.Atoi(spec[0])
		var shape *replyShape
		if len(spec) == 2 {
			var sok bool
			if shape, sok = parseReply(spec[1]); !sok || a[0] != 'E' {
				return false
			}
		}
		if cerr != nil || c >= len(x.addrs) || x.jst[c] == "idle" || x.jready[c] != "" || x.blocked {
			return false
		}
		x.trace = append(x.trace, a)
		if a[0] == 'E' {
			x.jready[c] = "err"
			if shape == nil {
				shape = &replyShape{raw: "e", form: 'e'}
			}
			if shape.form == '0' {
				x.jready[c] = "noerr" // a type='error' reply without an error element
			}
			x.jsent[c] = shape
			x.feedTo(x.sof(c), fmt.Sprintf(`<presence xmlns="%s" from="%s" id="%s" type="error">%s</presence>`, x.ns, occ(x.req[c]), x.jid[c], shape.xml(x.ns, false)))
		} else {
			x.jready[c] = "ctx"
			x.jcancel[c]()
		}
		if x.jst[c] == "insel" {
			if e, ok := x.wait(isEv("j"+strconv.Itoa(c), "ret:"), "join return"); ok {
				x.joinReturned(c, e)
			}
			x.sync()
		} else if a[0] == 'E' {
			x.blocked, x.blockedBy = true, "j"+strconv.Itoa(c) // the error reply stays open until the parked Join takes it
		}
	case a[0] == 'L':
		// L<c>; a trailing `!`: LeavePresence with a status and a presence of the caller's
		custom := strings.HasSuffix(a, "!")
		faulty := strings.HasSuffix(a, "~")
		c, _ := strconv.Atoi(strings.TrimSuffix(strings.TrimSuffix(a[1:], "!"), "~"))
		if c >= len(x.addrs) || x.lst[c] != "idle" || x.chans[c] == nil || x.blocked || x.jst[c] != "idle" {
			return false
		}
		if faulty {
			x.refuseWrites(true)
			defer x.refuseWrites(false)
		}
		x.trace = append(x.trace, a)
		ctx, cancel := context.WithCancel(context.Background())
		x.lcancel[c] = cancel
		label := "l" + strconv.Itoa(c)
		x.ncall++
		own := stanza.Presence{ID: fmt.Sprintf("own%d", x.ncall), Type: stanza.SubscribePresence, To: jid.MustParse("elsewhere@conf.example.net/nobody")}
		x.ctl.Go(label, func() {
			var err error
			if custom {
				err = x.chans[c].LeavePresence(ctx, "gone fishing", own)
			} else {
				err = x.chans[c].Leave(ctx, "")
			}
			x.ctl.Emit(label, "ret:", err)
		})
		x.lst[c], x.lready[c] = "parked", ""
		x.wait(isEv(label, "park:muc.leave.select"), label+" before its select")
		if faulty {
			x.lready[c], x.lst[c] = "fail", "insel"
			x.ctl.Release(label, "muc.leave.select")
			if e, ok := x.wait(isEv(label, "ret:"), label+" return after the failed send"); ok {
				x.leaveReturned(c, e)
			} else {
				x.r.Fail("leave-returns", "leave-did-not-return-after-failed-send", x.lines(), fmt.Sprintf("the leave request of channel %d could not be sent; Leave did not return", c))
			}
			x.over = true
			x.callbacks()
			x.sample()
			return true
		}
		x.lid[c] = x.awaitPresence(x.sof(c), occ(x.cur[c]).String(), true)
		x.requestSent("Leave", c, x.lid[c], custom, own.ID, occ(x.cur[c]).String())
	case a[0] == 'l':
		c := num(1)
		if c >= len(x.addrs) || x.lst[c] != "parked" || (x.blocked && x.blockedBy != "l"+strconv.Itoa(c)) {
			return false
		}
		x.trace = append(x.trace, a)
		x.lst[c] = "insel"
		label := "l" + strconv.Itoa(c)
		x.ctl.Release(label, "muc.leave.select")
		if x.lready[c] == "" && !x.tok[c] {
			// nothing can end this Leave yet: it must still be waiting after the serve loop has
			// gone round once more
			x.sync()
			time.Sleep(time.Millisecond)
			for i, e := range x.ctl.Drain(&x.skipped) {
				_ = i
				if e.Who == label && strings.HasPrefix(e.What, "ret:") {
					x.r.Fail("leave-returns", "leave-returned-without-unavailable-presence", x.lines(), fmt.Sprintf("Leave of channel %d returned (%v) although neither the occupant's unavailable presence nor an error reply nor the end of its context had happened", c, e.Extra))
					x.problem("Leave %d returned early", c)
				} else {
					x.skipped = append(x.skipped, e)
				}
			}
		}
		if x.lready[c] != "" || x.tok[c] {
			if e, ok := x.wait(isEv(label, "ret:"), label+" return"); ok {
				x.leaveReturned(c, e)
			} else if x.tok[c] {
				x.r.Fail("leave-returns", "leave-missed-unavailable-presence", x.lines(), fmt.Sprintf("the occupant's unavailable presence was processed before Leave of channel %d reached its select; Leave never returned", c))
			}
			if x.blockedBy == label {
				x.blocked, x.blockedBy = false, ""
			}
			x.sync()
		}
	case strings.HasPrefix(a, "El"), strings.HasPrefix(a, "Xl"):
		spec := strings.SplitN(a[2:], ":", 2)
		c, cerr := strconv.Atoi(spec[0])
		var shape *replyShape
		if len(spec) == 2 {
			var sok bool
			if shape, sok = parseReply(spec[1]); !sok || a[0] != 'E' {
				return false
			}
		}
		if cerr != nil || c >= len(x.addrs) || x.lst[c] == "idle" || x.lready[c] != "" || x.tok[c] || x.blocked {
			return false
		}
		x.trace = append(x.trace, a)
		if a[0] == 'E' {
			x.lready[c] = "err"
			if shape == nil {
				shape = &replyShape{raw: "e", form: 'e'}
			}
			if shape.form == '0' {
				x.lready[c] = "noerr"
			}
			x.lsent[c] = shape
			x.feedTo(x.sof(c), fmt.Sprintf(`<presence xmlns="%s" from="%s" id="%s" type="error">%s</presence>`, x.ns, occ(x.cur[c]), x.lid[c], shape.xml(x.ns, true)))
		} else {
			x.lready[c] = "ctx"
			x.lcancel[c]()
		}
		if x.lst[c] == "insel" {
			if e, ok := x.wait(isEv("l"+strconv.Itoa(c), "ret:"), "leave return"); ok {
				x.leaveReturned(c, e)
			}
			x.sync()
		} else if a[0] == 'E' {
			x.blocked, x.blockedBy = true, "l"+strconv.Itoa(c)
		}
	case strings.HasPrefix(a, "Zj"), strings.HasPrefix(a, "Zl"):
		// a LATE error reply to the join / leave presence of a call that has already returned:
		// nobody waits for it, the serve loop must go on
		c := num(2)
		id := x.jid
		st := x.jst
		if a[1] == 'l' {
			id, st = x.lid, x.lst
		}
		if c >= len(x.addrs) || st[c] != "idle" || id[c] == "" || x.blocked {
			return false
		}
		x.trace = append(x.trace, a) // for the model: an unrelated stanza
		x.feedTo(x.sof(c), fmt.Sprintf(`<presence xmlns="%s" from="%s" id="%s" type="error"><error type="cancel"><forbidden xmlns="urn:ietf:params:xml:ns:xmpp-stanzas"/></error></presence>`, x.ns, occ(x.cur[c]), id[c]))
		before := len(x.problems)
		x.sync()
		if len(x.problems) > before {
			x.r.Fail("serve-continues", "serve-stalled-after-late-reply:muc-"+map[byte]string{'j': "join", 'l': "leave"}[a[1]], append(x.lines(), "#"+a+": late error reply with the id of the finished call"), "a late error presence carrying the id of a Join / Leave that had already returned left the serve loop blocked")
		}
	case a[0] == 'I':
		// I or I<children>: a message whose children are, in this order,
		// b body, s subject, l legacy direct-invitation x, u unrelated payload,
		// m muc#user x with one invite, M muc#user x with two invites, d muc#user x with a decline only,
		// P muc#user x with an invite carrying reason and continue / thread, and a password
		if x.blocked {
			return false
		}
		kids := a[1:]
		if kids == "" {
			kids = "m"
		}
		x.trace = append(x.trace, "I"+kids)
		before := x.inv
		x.lastInv = nil
		var sb strings.Builder
		sb.WriteString(`<message xmlns="` + x.ns + `" from="room0@conf.example.net" to="me@example.net/h">`)
		want := 0
		for _, k := range kids {
			switch k {
			case 'b':
				sb.WriteString(`<body>you are invited</body>`)
			case 's':
				sb.WriteString(`<subject>invitation</subject>`)
			case 'l':
				sb.WriteString(`<x xmlns="jabber:x:conference" jid="room0@conf.example.net"/>`)
			case 'u':
				sb.WriteString(`<thread xmlns="urn:verif">t</thread>`)
			case 'm':
				sb.WriteString(`<x xmlns="http://jabber.org/protocol/muc#user"><invite from="friend@example.net/x"><reason>come</reason></invite></x>`)
				want++
				x.lastInv = &muc.Invitation{Reason: "come"}
			case 'P':
				sb.WriteString(`<x xmlns="http://jabber.org/protocol/muc#user"><invite from="friend@example.net/x"><reason>join us</reason><continue thread="t1"/></invite><password>pw</password></x>`)
				want++
				x.lastInv = &muc.Invitation{Reason: "join us", Password: "pw", Continue: true, Thread: "t1"}
			case 'M':
				sb.WriteString(`<x xmlns="http://jabber.org/protocol/muc#user"><invite from="friend@example.net/x"/><invite from="other@example.net/y"/></x>`)
				want++
				x.lastInv = nil
			case 'd':
				sb.WriteString(`<x xmlns="http://jabber.org/protocol/muc#user"><decline from="friend@example.net/x"/></x>`)
			}
		}
		sb.WriteString(`</message>`)
		if want != 1 {
			x.lastInv = nil // the content is compared when the message carries exactly one invitation
		}
		x.feed(sb.String())
		x.sync()
		x.callbacks()
		x.lastInv = nil
		if x.conf.nocb {
			want = 0
		}
		if x.inv-before != want {
			key := fmt.Sprintf("callback-called-%d-times-want-%d:first-child-%c", x.inv-before, want, kids[0])
			if strings.Count(kids, "m")+strings.Count(kids, "M")+strings.Count(kids, "P")+strings.Count(kids, "d") > 1 {
				// the multiplexer calls the handler once per muc#user payload with the whole message, the
				// handler keeps the last payload only (known finding)
				key = "several-muc-user-payloads-in-one-message"
			}
			x.r.Fail("invite-once", key, x.lines(), fmt.Sprintf("message children %q: HandleInvite was called %d times, the message carries %d mediated invitation payload(s)", kids, x.inv-before, want))
		}
	case a == "N":
		if x.blocked {
			return false
		}
		x.trace = append(x.trace, a)
		bu, bi := x.upres, x.inv
		x.feed(strings.ReplaceAll(`<message xmlns="NS" type="chat" from="room0@conf.example.net/nick0"><body>hi</body></message><presence xmlns="NS" from="room0@conf.example.net/nick0"/><presence xmlns="NS" from="room1@conf.example.net/nick1" type="unavailable"/>`, "NS", x.ns))
		x.sync()
		x.callbacks()
		if x.upres != bu || x.inv != bi {
			x.r.Fail("unmanaged-ignored", "unrelated-stanza-reached-callback", x.lines(), "stanzas without a muc#user payload called a MUC callback")
		}
	default:
		return false
	}
	x.callbacks()
	x.sample()
	return true
}

func (x *run) epilogue() string {
	if x.blocked && len(x.blockedBy) > 1 {
		// first the call the serve loop is waiting for
		x.act(map[byte]string{'j': "s", 'l': "l"}[x.blockedBy[0]] + x.blockedBy[1:])
	}
	for c := range x.addrs {
		if x.jst[c] == "parked" {
			x.act("s" + strconv.Itoa(c))
		}
		if x.lst[c] == "parked" {
			x.act("l" + strconv.Itoa(c))
		}
	}
	for c := range x.addrs {
		if x.jst[c] == "insel" {
			x.act("Xj" + strconv.Itoa(c))
		}
		if x.lst[c] == "insel" {
			x.act("Xl" + strconv.Itoa(c))
		}
	}
	x.sync()
	x.callbacks()
	b := make([]byte, len(x.addrs))
	for c := range x.addrs {
		b[c] = '0'
		if len(x.problems) == 0 && x.chans[c] != nil && x.chans[c].Joined() {
			b[c] = '1'
		}
	}
	return fmt.Sprintf("joined=%s upres=%d inv=%d", b, x.upres, x.inv)
}

func runCase(r *common.Run, addrs []int, sched []string, class string) {
	cf, sched := splitConf(sched) // an optional first token names the configuration of the session
	runCaseWith(r, addrs, cf, func(x *run) {
		for _, a := range sched {
			x.act(a)
		}
	}, class)
}

func runCaseWith(r *common.Run, addrs []int, cf nsConf, body func(x *run), class string) {
	x, err := newRun(r, addrs, cf)
	if err != nil {
		r.Notes = append(r.Notes, "session setup failed: "+err.Error())
		return
	}
	defer func() {
		x.ctl.Kill()
		for _, c := range append(x.jcancel, x.lcancel...) {
			if c != nil {
				c()
			}
		}
		close(x.feedCh)
		x.rs.In.Close()
		common.WithTimeout(200*time.Millisecond, func() { x.rs.S.Close() })
		if x.rs2 != nil {
			close(x.feedCh2)
			x.rs2.In.Close()
			common.WithTimeout(200*time.Millisecond, func() { x.rs2.S.Close() })
		}
	}()
	body(x)
	var obs string
	if len(x.problems) > 0 {
		r.Hist["problem"]++
		obs = "aborted"
	} else {
		obs = x.epilogue()
	}
	if len(x.problems) > 0 {
		obs += " PROBLEM:" + strings.ReplaceAll(strings.Join(x.problems, ";"), " ", "_")
	}
	line := x.lines()[0][len(r.Prop)+1:]
	r.Line(line, obs)
	if os.Getenv("VERIF_DEBUG") != "" {
		fmt.Fprintln(os.Stderr, line, "=>", obs)
	}
	r.Case(line, strings.Contains(line, "ok") || strings.Contains(line, "se"), class)
}

var corpus = []struct {
	addrs string
	sched string
}{
	{"0", "J0,s0,A0,L0,l0,U0"},                   // join, leave
	{"0", "J0,s0,A0,A0,U0,A0"},                   // member presence, kicked, presence afterwards is ignored
	{"0", "J0,A0,s0"},                            // self-presence before the joiner selects
	{"0", "J0,s0,Ej0,A0,U0"},                     // join refused: later presences of that room are ignored
	{"0", "J0,s0,Xj0,A0"},                        // join cancelled
	{"0", "J0,s0,Xj0,J0,s0,A0"},                  // cancelled join, then a re-join on the same channel
	{"0", "J0,s0,A0,L0,l0,U0,J0,s0,A0,L0,l0,U0"}, // re-join after leaving
	{"0", "J0,s0,A0,L0,U0,l0"},                   // unavailable presence processed before Leave selects
	{"0", "J0,s0,A0,L0,l0,El0,U0"},               // leave refused
	{"0", "J0,s0,A0,L0,l0,Xl0"},                  // leave cancelled
	{"0", "J0,s0,A0,U0,L0,l0"},                   // kicked, then Leave
	{"0,1", "J0,s0,J1,s1,A1,A0,U1,A7,U7,I,N,L0,l0,U0"},
	{"0,1", "A0,U0,A1,I,N,J1,s1,A0,A1"}, // presences for rooms never joined
	{"0", "J0,Ej0,s0,J0,s0,A0"},
	// mediated invitations: the payload first, last, between other children; two invites in one x;
	// messages without an invitation (body only, legacy direct invitation only, decline)
	{"0", "Im,Ibm,Imb,Ibsm,Ilm,Iml,Iulbms,Isubml,IM,IbM"},
	{"0", "Ib,Il,Ibl,Iu,Id,Ibd,N,Im"},
	// two channels for one occupant address: the second is refused, the first keeps following the room
	{"0,0", "J0,s0,A0,J1,U0,J1,s1,A0,U0"},
	{"0,0", "J0,J1,s0,A0,J1,Xj0"},
	// change of nickname on a re-join (Nick option)
	{"0", "J0,s0,A0,J0@10,s0,A0,U0,A10,A10,L0,l0,U10"}, // confirmed: 303-style unavailable of the old nick, then the new self-presence
	{"0", "J0,s0,A0,J0@10,s0,A10,A0,U0,U10"},           // confirmed at once; the old nickname means nothing afterwards
	{"0", "J0,s0,A0,J0@10,s0,Ej0,A0,U10,U0"},           // refused (conflict): still in the room under the old nickname
	{"0", "J0,s0,A0,J0@10,s0,Xj0,A10,U0"},              // cancelled
	{"0", "J0@10,s0,A0,A10,L0,l0,U10"},                 // first join with the Nick option
	// XEP-0045 confirmation of a nickname change: unavailable presence of the OLD nickname (status
	// 303) while the join is pending, then the self-presence of the new one; a Leave afterwards
	// must wait for the unavailable presence of the NEW nickname
	{"0", "J0,s0,A0,J0@10,s0,U0,A10,L0,l0,N,U10"},
	{"0", "J0,s0,A0,J0@10,U0,s0,A10,L0,l0,A10,U0,U10"},
	// late error replies with the id of a join / leave that has already returned
	{"0", "J0,s0,A0,Zj0,L0,l0,U0,Zl0,Zj0,N,J0,s0,A0,Zl0"},
	{"0,1", "J0,s0,A0,J1,s1,Ej1,Zj1,L0,l0,El0,Zl0,Zj0"},
	{"0,10", "J0,s0,A0,J1,s1,A10,J0@10,J1@0,U10,U0"}, // the other nickname is taken by our own second channel
	// round C: a channel that is NOT in the room (its join failed / was refused / it has left) shares
	// the occupant address with one that is; its Leave is answered with an error, then the room
	// removes the occupant: only the registration of the channel that holds the address counts
	{"0,0", "J0,s0,Ej0,J1,s1,A0,L0,l0,El0,U0"},
	{"0,0", "J0,s0,A0,J1,L1,l1,El1,U0"},
	{"0,0", "J0,s0,A0,L0,l0,U0,J1,s1,A0,L0,l0,El0,A0,U0"},
	{"0,10", "J0,s0,A0,J1,s1,A10,L1,l1,U10,J0@10,s0,A10,L1,l1,El1,U10"},
	// round C: the room's presences with other legal muc#user payloads: ban (outcast, 301), kick
	// (307), room destroyed, no item at all, item with actor / reason, other presence children first
	{"0", "J0,s0,A0:on110+201,A0:mv,U0:cn301r"},
	{"0", "J0,s0,A0:-p110x,A0:ap110s,L0,l0,U0:nn307+110r"},
	{"0", "J0,s0,A0:mm110e,A0:--d,U0:nn110d"},
	{"0,1", "J0,s0,A0,J1,s1,A1:cn,U1:cn301,A1:cn,U0:mn332s"},
	// round D: the muc.Client on a component / server-to-server session (the stanzas and their
	// <error/> children are in that stream's namespace); error replies that echo the request
	{"0", "%a,J0,s0,Ej0,J0,s0,A0,A0,L0,l0,El0,U0,Im,N"},
	{"0", "%s,J0,s0,Ej0:xb,J0,s0,A0,A0:on110,L0,l0,El0:swa,U0:cn301,Ibm"},
	{"0,10", "%a,J0,s0,A0,J1,s1,A10,J0@10,J1@0,U10,L0,l0,El0:n,U0"},
	{"0", "J0,s0,Ej0:xwt,J0,Ej0:pg,s0,J0,s0,A0,L0,El0:wsm,l0"},
	// round D: a muc.Client whose callbacks are not set; invitations with reason, password, thread
	{"0", "%cn,J0,s0,A0,A0,Im,IbP,N,L0,l0,U0,A0"},
	{"0,1", "%an,J0,s0,A0,J1,s1,Ej1:xb,A0:on110,A1,IM,U0:cn301"},
	{"0", "IP,IbPs,IlP,Im,IuPb,Id"},
	// round D: JoinPresence / LeavePresence with a presence of the caller's (id kept; type and to
	// address without effect), Leave with a status
	{"0", "J0!,s0,A0,J0@10!,s0,A10,L0!,l0,U10,J0!,s0,Ej0,J0,s0,A10,L0!,l0,El0:sb"},
	{"0,1", "%a,J0!,s0,A0,J1@11!,s1,A11,L1!,l1,U11,L0!,U0,l0"},
}

func parseAddrs(s string) []int {
	var out []int
	for _, f := range strings.Split(s, ",") {
		n, err := strconv.Atoi(f)
		if err == nil {
			out = append(out, n)
		}
	}
	return out
}

func randSched(rnd *common.Rand, n, length int) []string {
	var out []string
	for len(out) < length {
		c := strconv.Itoa(rnd.Intn(n))
		a := strconv.Itoa(rnd.Intn(n+1) + 10*(rnd.Intn(3)/2))
		switch rnd.Intn(24) {
		case 20:
			out = append(out, "Xl"+c)
		case 21, 22:
			// a Join call that gives up at once (its context is over), also under another nickname
			k := "K" + c
			if rnd.Chance(1, 2) {
				ci, _ := strconv.Atoi(c)
				k += "@" + strconv.Itoa(ci%10+10*rnd.Intn(3))
			}
			out = append(out, k)
		case 23:
			// the request cannot be sent / the reply has no error element
			switch rnd.Intn(12) {
			case 0:
				out = append(out, "J"+c+"~") // (ends the session: the rest of the history is not run)
			case 1:
				out = append(out, "L"+c+"~")
			case 2, 3, 4, 5, 6:
				out = append(out, "Ej"+c+":"+[]string{"", "x", "w", "sx"}[rnd.Intn(4)]+"0")
			default:
				out = append(out, "El"+c+":"+[]string{"", "x", "w", "sx"}[rnd.Intn(4)]+"0")
			}
		case 0, 1, 2:
			j := "J" + c
			if rnd.Chance(1, 4) {
				ci, _ := strconv.Atoi(c)
				j += "@" + strconv.Itoa(ci%10+10*rnd.Intn(2)) // (re-)join under nickname 0 or 1 of the channel's room
			}
			if rnd.Chance(1, 5) {
				j += "!"
			}
			out = append(out, j)
			if rnd.Chance(3, 4) {
				out = append(out, "s"+c)
			}
		case 3:
			out = append(out, "s"+c)
		case 4, 5, 6, 7:
			out = append(out, "A"+a+randPayload(rnd))
		case 8, 9, 10:
			out = append(out, "U"+a+randPayload(rnd))
		case 11:
			out = append(out, "Ej"+c+randReply(rnd))
		case 12:
			out = append(out, "Xj"+c)
		case 13, 14:
			if rnd.Chance(1, 5) {
				out = append(out, "L"+c+"!")
			} else {
				out = append(out, "L"+c)
			}
			if rnd.Chance(2, 3) {
				out = append(out, "l"+c)
			}
		case 15:
			out = append(out, "l"+c)
		case 16:
			out = append(out, "El"+c+randReply(rnd))
		case 17:
			out = append(out, "Z"+string("jl"[rnd.Intn(2)])+c)
		case 18:
			// 0-3 muc#user payloads (invitations, declines) among other children, in a random order
			out = append(out, randInvite(rnd))
		default:
			out = append(out, "N")
		}
	}
	return out
}

// randPayload: mostly the plain payload, otherwise any affiliation x role x codes x flags
func randPayload(rnd *common.Rand) string {
	if !rnd.Chance(1, 3) {
		return ""
	}
	return ":" + string([]byte{payloadAffs[rnd.Intn(len(payloadAffs))], payloadRoles[rnd.Intn(len(payloadRoles))]}) +
		payloadCodes[rnd.Intn(len(payloadCodes))] + payloadFlags[rnd.Intn(len(payloadFlags))]
}

// replayable drops the observation tokens of a trace.
func replayable(trace string) []string {
	var out []string
	for _, t := range strings.Split(trace, ",") {
		if t == "" || t == "-" || t[0] == 'R' || t[0] == 'D' || t[0] == '?' {
			continue
		}
		out = append(out, t)
	}
	return out
}

// RunWaits runs the corpus histories (join / leave waits in every ordering with the
// presences that end them): C06 uses them as its MUC instance.
func RunWaits(r *common.Run) {
	for n, c := range corpus {
		r.Mark("case muc-corpus %d", n)
		runCase(r, parseAddrs(c.addrs), strings.Split(c.sched, ","), "muc-corpus")
	}
}

// tooMany: enough failing inputs have been collected (each further one costs a watchdog).
func tooMany(r *common.Run) bool {
	fresh := 0
	for _, f := range r.Failures {
		if f.Key != "not-joined-after-error-reply-to-leave" {
			fresh++
		}
	}
	return fresh >= 40 || r.Hist["problem"] >= 25
}

// Run is the C18 runner.
func Run(r *common.Run) error {
	if r.Replay != "" {
		lines, err := common.ReplayLines(r.Replay)
		if err != nil {
			return err
		}
		for _, l := range lines {
			f := strings.Fields(l)
			if len(f) >= 3 && f[1] == "liveoverlap" {
				liveOverlapCase(r, f[2])
			}
			if len(f) >= 3 && f[1] == "handoff" {
				handoffCase(r, f[2] == "true")
			}
			if len(f) >= 4 && f[0] == "C18" && f[1] == "muc" {
				runCase(r, parseAddrs(f[2]), replayable(f[3]), "replay")
			}
		}
		return nil
	}
	runHandoff(r)
	if !r.Race() {
		runLiveOverlap(r)
	}
	r.Mark("case concurrent 0")
	runConcurrent(r, 3, r.Pick(10, 40))
	if r.Race() {
		for k := 1; k <= 5; k++ {
			r.Mark("case concurrent %d", k)
			runConcurrent(r, 1+k, 30)
		}
	}
	for n, c := range corpus {
		r.Mark("case corpus %d", n)
		runCase(r, parseAddrs(c.addrs), strings.Split(c.sched, ","), "corpus")
	}
	nE := runCorpusE(r)
	if r.Race() {
		r.Notes = append(r.Notes, "race-detector run: concurrent scenario and corpus only")
		return nil
	}
	// the payload dimension, enumerated: as the self-presence, as an occupant presence and as the
	// unavailable presence that ends a pending Leave
	pls := allPayloads()
	for n, p := range pls {
		if tooMany(r) {
			break // a broken tree: every further case costs a watchdog
		}
		r.Mark("case payload %d", n)
		runCase(r, []int{0}, []string{"J0", "s0", "A0:" + p, "A0:" + p, "L0", "l0", "U0:" + p}, "payload")
	}
	nRep := runReplies(r)
	nC := runContention(r)
	nO := runOverlap(r)
	nR := r.Pick(1200, 20000)
	for n := 0; n < nR && !tooMany(r); n++ {
		r.Mark("case random %d", n)
		k := 1 + r.Rnd.Intn(3)
		addrs := make([]int, k)
		for i := range addrs {
			addrs[i] = i
			if i > 0 && r.Rnd.Chance(1, 6) {
				addrs[i] = []int{0, 10}[r.Rnd.Intn(2)] // a second channel for room 0: same or other nickname
			}
		}
		runCase(r, addrs, append(randConf(r.Rnd), randSched(r.Rnd, k, 6+r.Rnd.Intn(30))...), "random")
	}
	r.Notes = append(r.Notes, fmt.Sprintf("round E: %d corpus histories and %d enumerated ones with overlapping Join calls on one channel, write faults, error replies without an error element, several muc#user payloads per message", nE, nO))
	r.Notes = append(r.Notes, fmt.Sprintf("histories: %d corpus + %d payloads (affiliation x role x status codes x item shapes) + %d error replies (stanza namespace of the session x echoed children x form of the error) + %d contention (macro operations on channels sharing an occupant address / swapping nicknames, exhaustive) + %d random (1-3 channels, presences also for an address nobody joined, random payloads)", len(corpus), len(pls), nRep, nC, nR))
	return nil
}
