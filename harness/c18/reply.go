package c18

import (
	"fmt"
	"strings"

	"mellium.im/xmpp/stanza"

	"verifharness/common"
)

// Two dimensions the earlier rounds held constant (round D):
//
// (1) the CONFIGURATION of the session the muc.Client is used on — the stanza namespace of
// its stream.  First token of a history: %c jabber:client (default, token omitted), %s
// jabber:server (a server-to-server session), %a jabber:component:accept (XEP-0114).  The room's
// stanzas, their <error/> children and the multiplexer are in that namespace.
//
// (2) the SHAPE of the room's error reply to a join / leave presence.  Token suffix
// `Ej<c>:<shape>` / `El<c>:<shape>`: children of the type='error' presence in order,
//
//	x  the echoed <x xmlns='http://jabber.org/protocol/muc'/> of the request (with a <password/>)
//	w  white space        p  an echoed <priority/>        s  an echoed <status/>
//
// followed by the form of the error element (exactly one, last):
//
//	e  cancel / conflict (join), cancel / forbidden (leave): what the suffix-less token sends
//	b  cancel / conflict with a by attribute and a <text/>
//	n  the same as e but the element declares the stream's namespace itself (xmlns=…)
//	a  auth / not-authorized (password required)      m  modify / jid-malformed
//	t  wait / resource-constraint with <text xml:lang='en'/>
//	g  cancel / item-not-found with the legacy code attribute
//
// Oracle: the call returns a stanza.Error whose type and condition are the ones sent.
type nsConf struct {
	tok   string // "" for the default
	ns    string
	nocb  bool // the application has set neither HandleInvite nor HandleUserPresence
	late  bool // (round F) the callbacks are assigned AFTER the Client was registered with the multiplexer
	multi bool // (round F) the Client serves two live sessions; channel c lives on session c%2
}

var nsConfs = map[byte]nsConf{
	'c': {tok: "", ns: "jabber:client"},
	's': {tok: "%s", ns: "jabber:server"},
	'a': {tok: "%a", ns: "jabber:component:accept"},
}

// splitConf takes the configuration token off a schedule: %<ns><flags>, flags out of
// n (a muc.Client without callbacks), l (callbacks assigned after registration), m (two sessions).
func splitConf(sched []string) (nsConf, []string) {
	if len(sched) > 0 && len(sched[0]) >= 2 && len(sched[0]) <= 5 && sched[0][0] == '%' {
		if c, ok := nsConfs[sched[0][1]]; ok && strings.Trim(sched[0][2:], "nlm") == "" {
			fl := sched[0][2:]
			c.nocb, c.late, c.multi = strings.Contains(fl, "n"), strings.Contains(fl, "l"), strings.Contains(fl, "m")
			if fl != "" {
				c.tok = sched[0]
			}
			return c, sched[1:]
		}
	}
	return nsConfs['c'], sched
}

type replyShape struct {
	raw  string
	pre  string
	form byte
}

const replyPre = "xwps"
const replyForms = "ebnamtg"

func parseReply(s string) (*replyShape, bool) {
	if s == "" {
		return nil, false
	}
	rs := &replyShape{raw: s, pre: s[:len(s)-1], form: s[len(s)-1]}
	if !strings.ContainsRune(replyForms, rune(rs.form)) && rs.form != '0' {
		return nil, false // (form 0: no error element at all — not in replyForms, generated separately)
	}
	for _, c := range rs.pre {
		if !strings.ContainsRune(replyPre, c) {
			return nil, false
		}
	}
	return rs, true
}

// what the error element says (leave: the default form is forbidden, as in the earlier rounds)
func (rs *replyShape) want(leave bool) (stanza.ErrorType, stanza.Condition) {
	switch rs.form {
	case 'a':
		return stanza.Auth, stanza.NotAuthorized
	case 'm':
		return stanza.Modify, stanza.JIDMalformed
	case 't':
		return stanza.Wait, stanza.ResourceConstraint
	case 'g':
		return stanza.Cancel, stanza.ItemNotFound
	case 'b':
		return stanza.Cancel, stanza.Conflict
	}
	if leave {
		return stanza.Cancel, stanza.Forbidden
	}
	return stanza.Cancel, stanza.Conflict
}

func (rs *replyShape) class() string {
	pre := "-"
	if rs.pre != "" {
		pre = "echo"
		if strings.Trim(rs.pre, "w") == "" {
			pre = "space"
		}
	}
	return pre
}

// xml: the children of the error presence on a stream with stanza namespace ns
func (rs *replyShape) xml(ns string, leave bool) string {
	var sb strings.Builder
	for _, c := range rs.pre {
		switch c {
		case 'x':
			sb.WriteString(`<x xmlns="http://jabber.org/protocol/muc"><password>secret</password></x>`)
		case 'w':
			sb.WriteString("\n  ")
		case 'p':
			sb.WriteString(`<priority>1</priority>`)
		case 's':
			sb.WriteString(`<status>bye</status>`)
		}
	}
	if rs.form == '0' {
		return sb.String() // a type='error' presence without an error element
	}
	typ, cond := rs.want(leave)
	attrs, text := "", ""
	switch rs.form {
	case 'b':
		attrs = ` by="room0@conf.example.net"`
		text = `<text xmlns="urn:ietf:params:xml:ns:xmpp-stanzas">nickname taken</text>`
	case 'n':
		attrs = fmt.Sprintf(` xmlns="%s"`, ns)
	case 't':
		text = `<text xmlns="urn:ietf:params:xml:ns:xmpp-stanzas" xml:lang="en">too many occupants</text>`
	case 'g':
		attrs = ` code="404"`
	}
	fmt.Fprintf(&sb, `<error type="%s"%s><%s xmlns="urn:ietf:params:xml:ns:xmpp-stanzas"/>%s</error>`, typ, attrs, cond, text)
	return sb.String()
}

// checkReturned: the stanza error a call returned is the one the room sent.
func (x *run) checkReturned(call string, c int, got stanza.Error, sent *replyShape) {
	if sent == nil {
		return
	}
	typ, cond := sent.want(call == "Leave")
	if got.Type != typ || got.Condition != cond {
		clause := map[string]string{"Join": "join-error", "Leave": "leave-returns"}[call]
		x.r.Fail(clause, "returned-error-differs-from-the-room's:"+x.ns+":"+sent.class(), x.lines(),
			fmt.Sprintf("%s of channel %d returned the stanza error %s/%s, the room had sent %s/%s (reply children %q, stanza namespace %s)", call, c, got.Type, got.Condition, typ, cond, sent.raw, x.ns))
	}
}

// allReplies: every sequence of at most two echoed children in front of every form.
func allReplies() []string {
	pres := []string{""}
	for _, a := range replyPre {
		pres = append(pres, string(a))
	}
	for _, a := range replyPre {
		for _, b := range replyPre {
			pres = append(pres, string(a)+string(b))
		}
	}
	var out []string
	for _, p := range pres {
		for _, f := range replyForms {
			out = append(out, p+string(f))
		}
	}
	return out
}

func randReply(rnd *common.Rand) string {
	if !rnd.Chance(1, 3) {
		return ""
	}
	var sb strings.Builder
	sb.WriteByte(':')
	for k := rnd.Intn(4); k > 0; k-- {
		sb.WriteByte(replyPre[rnd.Intn(len(replyPre))])
	}
	sb.WriteByte(replyForms[rnd.Intn(len(replyForms))])
	return sb.String()
}

func randConf(rnd *common.Rand) []string {
	switch rnd.Intn(10) {
	case 0:
		return []string{"%s"}
	case 1:
		return []string{"%a"}
	case 2:
		return []string{"%" + string("csa"[rnd.Intn(3)]) + "n"}
	case 3:
		return []string{"%" + string("csa"[rnd.Intn(3)]) + "l"} // callbacks assigned after registration
	case 4:
		return []string{"%" + string("ccsa"[rnd.Intn(4)]) + []string{"m", "lm", "m", "nm"}[rnd.Intn(4)]} // one Client, two sessions
	}
	return nil
}

// runReplies: the reply dimension enumerated in every configuration — a refused join, a join
// that then succeeds, a refused leave (after which the code drops the membership: known
// finding), and the membership afterwards.
func runReplies(r *common.Run) int {
	n := 0
	shapes := allReplies()
	for _, k := range []byte("csa") {
		cf := nsConfs[k]
		for i, sh := range shapes {
			if tooMany(r) {
				return n
			}
			if k == 'c' && r.Tier != "thorough" && i%3 != 0 && len(sh) > 1 {
				continue // quick: the default namespace gets a third of the echoed shapes
			}
			r.Mark("case reply %d", n)
			sched := []string{"J0", "s0", "Ej0:" + sh, "A0", "J0", "s0", "A0", "A0", "L0", "l0", "El0:" + sh, "U0"}
			if cf.tok != "" {
				sched = append([]string{cf.tok}, sched...)
			}
			runCase(r, []int{0}, sched, "reply")
			n++
		}
	}
	return n
}
