package c18

import (
	"context"
	"fmt"
	"time"

	"mellium.im/xmpp/jid"
	"mellium.im/xmpp/muc"
	"mellium.im/xmpp/mux"

	"verifharness/c06"
	"verifharness/common"
)

// runLiveOverlap (round G): two LIVE Join calls on one Channel.  The second call registers the
// channel under the address it asks for and then blocks on the hand-off slot (capacity one) which
// the request of the first, pending call fills.  Two forced histories, each judged by the property's
// clause "joining returns success … after the room's self-presence for the requested occupant
// address has arrived":
//
//	mismatch  joined as nick0; call 1 asks for nick1 (pending), call 2 asks for nick2 (blocked); the
//	          room sends an ordinary presence of nick0, then the self-presence of nick1: call 1 must
//	          return nil.  (In the code the handler takes call 1's request out to look at it, call 2's
//	          request moves into the freed slot, the put-back finds the slot full: call 1's request is
//	          dropped — model: Model/MucLive.lean, theorem C18_live_overlap_request_lost.)
//	leaves    joined; two Leave calls wait; the room sends the occupant's unavailable presence once: both
//	          must return nil ("leaving returns when that unavailable presence … arrives").  (In the code
//	          the presence leaves ONE token in the buffered depart channel: one call takes it, the other
//	          waits for its context — Model/MucLive.lean `lvStep`, C18_live_overlap_leave_one_token.)
//	samekey   not joined; call 1 and call 2 both ask for nick0; call 1's context ends; the room sends
//	          the self-presence of nick0: call 2 must return nil.  (In the code call 1's clean-up
//	          removes the registration call 2 relies on — theorem C18_live_overlap_registration_removed.)
func runLiveOverlap(r *common.Run) {
	for n, kind := range []string{"mismatch", "samekey", "leaves"} {
		r.Mark("case liveoverlap %d", n)
		liveOverlapCase(r, kind)
	}
}

func liveOverlapCase(r *common.Run, kind string) {
	line := fmt.Sprintf("%s liveoverlap %s", r.Prop, kind)
	ctl := c06.NewCtl() // no point held: the calls run freely, the harness orders them by waiting
	defer ctl.Kill()
	rs, err := common.NewRawSession(0, "jabber:client", jid.MustParse("me@example.net/h"), jid.MustParse("example.net"))
	if err != nil {
		return
	}
	done := make(chan struct{})
	defer close(done)
	tap := c06.Tap(rs, done)
	feed := c06.Feeder(rs, done)
	cl := &muc.Client{}
	go rs.S.Serve(mux.New("jabber:client", muc.HandleClient(cl)))
	defer func() {
		rs.In.Close()
		common.WithTimeout(200*time.Millisecond, func() { rs.S.Close() })
	}()
	const x = `<x xmlns="http://jabber.org/protocol/muc#user"><item affiliation="member" role="participant"/><status code="110"/></x>`
	sent := make(chan string, 64) // the to address of every join presence that reached the wire
	go func() {
		for e := range tap {
			if e.Name == "presence" && e.To != "" && e.Type == "" {
				select {
				case sent <- e.To:
				default:
				}
			}
		}
	}()
	pres := func(nick string) {
		feed <- fmt.Sprintf(`<presence xmlns="jabber:client" from="room0@conf.example.net/%s">%s</presence>`, nick, x)
	}
	awaitSent := func(nick string) bool {
		deadline := time.After(watchdog)
		for {
			select {
			case to := <-sent:
				if to == "room0@conf.example.net/"+nick {
					return true
				}
			case <-deadline:
				return false
			}
		}
	}
	room := jid.MustParse("room0@conf.example.net/nick0")
	settle := func() { time.Sleep(30 * time.Millisecond) }
	var ch *muc.Channel
	call := func(ctx context.Context, opts ...muc.Option) chan error {
		ret := make(chan error, 1)
		go func() { ret <- ch.Join(ctx, opts...) }()
		return ret
	}
	returned := func(ret chan error, d time.Duration) (error, bool) {
		select {
		case err := <-ret:
			return err, true
		case <-time.After(d):
			return nil, false
		}
	}
	obs, key, detail := "ok", "", ""
	switch kind {
	case "mismatch":
		first := make(chan error, 1)
		go func() {
			c, err := cl.Join(context.Background(), room, rs.S)
			ch = c
			first <- err
		}()
		if !awaitSent("nick0") {
			return
		}
		pres("nick0")
		if err, ok := returned(first, watchdog); !ok || err != nil {
			return // (the plain join is the business of the other generators)
		}
		ctx, cancel := context.WithCancel(context.Background())
		defer cancel()
		ret1 := call(ctx, muc.Nick("nick1"))
		if !awaitSent("nick1") {
			return
		}
		ret2 := call(ctx, muc.Nick("nick2"))
		settle()      // call 2 is registered and blocked on the slot
		pres("nick0") // an ordinary presence of the nickname still held
		settle()
		pres("nick1") // the self-presence call 1 waits for
		if err, ok := returned(ret1, time.Second); !ok || err != nil {
			obs, key = "lost", "overlapping-live-joins:first-call-lost-its-request"
			detail = fmt.Sprintf("joined as nick0; Join(Nick nick1) pending, Join(Nick nick2) blocked behind it; after an ordinary presence of nick0 the self-presence of nick1 arrived: the first call did not return nil (returned=%v err=%v)", ok, err)
		}
		cancel()
		returned(ret1, time.Second)
		returned(ret2, time.Second)
	case "leaves":
		first := make(chan error, 1)
		go func() {
			c, err := cl.Join(context.Background(), room, rs.S)
			ch = c
			first <- err
		}()
		if !awaitSent("nick0") {
			return
		}
		pres("nick0")
		if err, ok := returned(first, watchdog); !ok || err != nil {
			return
		}
		ctx, cancel := context.WithCancel(context.Background())
		defer cancel()
		leave := func() chan error {
			ret := make(chan error, 1)
			go func() { ret <- ch.Leave(ctx, "") }()
			return ret
		}
		l1, l2 := leave(), leave()
		settle()
		settle() // both requests are out, both calls wait
		feed <- fmt.Sprintf(`<presence xmlns="jabber:client" from="room0@conf.example.net/nick0" type="unavailable">%s</presence>`, x)
		_, ok1 := returned(l1, time.Second)
		_, ok2 := returned(l2, 300*time.Millisecond)
		if ok1 != ok2 || (!ok1 && !ok2) {
			key = "overlapping-leaves:one-departure-token-for-two-calls"
			detail = fmt.Sprintf("joined; two Leave calls waited; the occupant's unavailable presence was processed once: returned nil first=%v second=%v", ok1, ok2)
		}
		cancel()
		returned(l1, time.Second)
		returned(l2, time.Second)
	case "samekey":
		// a channel whose first join was cancelled: a Channel value that is not joined
		ctx0, cancel0 := context.WithCancel(context.Background())
		first := make(chan error, 1)
		go func() {
			c, err := cl.Join(ctx0, room, rs.S)
			ch = c
			first <- err
		}()
		if !awaitSent("nick0") {
			cancel0()
			return
		}
		cancel0()
		if _, ok := returned(first, watchdog); !ok {
			return
		}
		ctx1, cancel1 := context.WithCancel(context.Background())
		ctx2, cancel2 := context.WithCancel(context.Background())
		defer cancel2()
		ret1 := call(ctx1)
		if !awaitSent("nick0") {
			cancel1()
			return
		}
		ret2 := call(ctx2)
		settle()
		cancel1() // call 1 gives up; call 2's request moves into the slot, its presence goes out
		returned(ret1, time.Second)
		if !awaitSent("nick0") {
			return
		}
		pres("nick0")
		if err, ok := returned(ret2, time.Second); !ok || err != nil {
			obs, key = "lost", "overlapping-live-joins:registration-removed-by-the-other-call"
			detail = fmt.Sprintf("two Join calls for nick0 on one channel; the first was cancelled, the second sent its request and the room's self-presence arrived: the second call did not return nil (returned=%v err=%v)", ok, err)
		}
		cancel2()
		returned(ret2, time.Second)
	}
	if key != "" {
		clause := "join-success-iff"
		if kind == "leaves" {
			clause = "leave-returns"
		}
		r.Fail(clause, key, []string{line}, detail)
	}
	_ = obs
	r.Case(line, true, "liveoverlap")
}
