package c18

import (
	"strings"

	"verifharness/common"
)

// File owned by the C06 builder (property C06, round C): the MUC instance of "every correlated
// wait ends once with its own reply".  Every sequence of wait EPISODES on one channel, up to a
// bound: each way a Join and a Leave can end (the room's confirmation, an error reply, the
// caller's context) and a removal by the room, in every order — in particular a re-synchronising
// Join on a channel that is already joined, ending in each way, followed by a Leave that must
// still see the room's unavailable presence.  Uses the C18 executor and oracle unchanged.
var c06Episodes = []string{
	"J0,s0,A0",  // join (or re-sync join) confirmed
	"J0,s0,Ej0", // … refused by the room
	"J0,s0,Xj0", // … given up by the caller
	"L0,l0,U0",  // leave confirmed
	"L0,l0,El0", // … refused
	"L0,l0,Xl0", // … given up
	"U0",        // removed by the room
	"J0,A0,s0",  // confirmation processed before the joiner selects
	"L0,U0,l0",  // … before the leaver selects
}

// RunC06Waits runs every episode sequence of length <= 3 (quick) / 4 (thorough).
func RunC06Waits(r *common.Run) {
	max := r.Pick(3, 4)
	n := 0
	var rec func(prefix []string, depth int)
	rec = func(prefix []string, depth int) {
		if len(prefix) > 0 {
			// stop on a broken tree (a watchdog per case), but do not let the recorded known finding
			// of C18 (a refused Leave) use up the budget
			fresh := 0
			for _, f := range r.Failures {
				if f.Key != "not-joined-after-error-reply-to-leave" {
					fresh++
				}
			}
			if fresh >= 40 || r.Hist["problem"] >= 25 {
				return
			}
			r.Mark("case muc-episodes %d", n)
			n++
			runCase(r, []int{0}, strings.Split(strings.Join(prefix, ","), ","), "muc-episodes")
		}
		if depth == max {
			return
		}
		for _, e := range c06Episodes {
			rec(append(append([]string{}, prefix...), e), depth+1)
		}
	}
	// only sequences that end in a Leave or start with a join are of interest, but the bound is
	// small enough to run them all
	rec(nil, 0)
	r.Exhaustive = append(r.Exhaustive, "MUC: every sequence of <= 3 (thorough: 4) wait episodes on one channel (join / re-sync join and leave ending by confirmation, error reply or context; removal by the room; both select orders)")
}
