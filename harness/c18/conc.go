package c18

import (
	"context"
	"fmt"
	"sync"
	"sync/atomic"
	"time"

	"mellium.im/xmpp/jid"
	"mellium.im/xmpp/muc"
	"mellium.im/xmpp/mux"
	"mellium.im/xmpp/stanza"

	"verifharness/c06"
	"verifharness/common"
)

// runConcurrent: free running — several goroutines join / query / leave their
// rooms at once against a service that answers every join presence with the
// self-presence (sometimes with an error) and every leave with the unavailable
// presence, while occupant presences keep arriving.  For the race-detector
// run; small otherwise.  Oracle: every call returns; after a successful Join
// the channel reports joined, after a successful Leave it does not.
func runConcurrent(r *common.Run, rooms, iters int) {
	rs, err := common.NewRawSession(0, "jabber:client", jid.MustParse("me@example.net/h"), jid.MustParse("example.net"))
	if err != nil {
		return
	}
	done := make(chan struct{})
	defer close(done)
	tap := c06.Tap(rs, done)
	feed := c06.Feeder(rs, done)
	var upres int64
	cl := &muc.Client{HandleUserPresence: func(stanza.Presence, muc.Item) { atomic.AddInt64(&upres, 1) }}
	go rs.S.Serve(mux.New("jabber:client", muc.HandleClient(cl)))
	defer func() {
		rs.In.Close()
		common.WithTimeout(200*time.Millisecond, func() { rs.S.Close() })
	}()
	const x = `<x xmlns="http://jabber.org/protocol/muc#user"><item affiliation="member" role="participant"/><status code="110"/></x>`
	go func() {
		n := 0
		for e := range tap {
			if e.Name != "presence" || e.To == "" {
				continue
			}
			n++
			switch {
			case e.Type == "unavailable":
				feed <- fmt.Sprintf(`<presence xmlns="jabber:client" from="%s" type="unavailable">%s</presence>`, e.To, x)
			case n%5 == 0:
				feed <- fmt.Sprintf(`<presence xmlns="jabber:client" from="%s" id="%s" type="error"><error type="cancel"><conflict xmlns="urn:ietf:params:xml:ns:xmpp-stanzas"/></error></presence>`, e.To, e.ID)
			default:
				feed <- fmt.Sprintf(`<presence xmlns="jabber:client" from="%s">%s</presence>`, e.To, x)
				feed <- fmt.Sprintf(`<presence xmlns="jabber:client" from="%s">%s</presence>`, e.To, x) // an occupant presence afterwards
			}
		}
	}()
	var wg sync.WaitGroup
	var bad int64
	for k := 0; k < rooms; k++ {
		wg.Add(1)
		go func(k int) {
			defer wg.Done()
			addr := jid.MustParse(fmt.Sprintf("room%d@conf.example.net/me", k))
			var ch *muc.Channel
			for i := 0; i < iters; i++ {
				ctx, cancel := context.WithTimeout(context.Background(), 50*time.Millisecond)
				var err error
				if ch == nil {
					ch, err = cl.Join(ctx, addr, rs.S)
				} else if i%4 == 3 {
					err = ch.Join(ctx, muc.Nick(fmt.Sprintf("me%d", i)))
				} else {
					err = ch.Join(ctx)
				}
				if err == nil && !ch.Joined() {
					atomic.AddInt64(&bad, 1)
				}
				_ = ch.Me()
				_ = ch.Addr()
				if err == nil {
					if lerr := ch.Leave(ctx, ""); lerr == nil && ch.Joined() {
						atomic.AddInt64(&bad, 1)
					}
				}
				cancel()
			}
		}(k)
	}
	line := []string{fmt.Sprintf("#muc concurrent rooms=%d iters=%d (free running)", rooms, iters)}
	if !common.WithTimeout(time.Duration(iters)*300*time.Millisecond+5*time.Second, wg.Wait) {
		r.Fail("leave-returns", "concurrent-calls-do-not-return", line, "Join / Leave with a 50 ms context did not all return")
	}
	if bad > 0 {
		r.Fail("membership", "concurrent-joined-disagrees-with-call-results", line, fmt.Sprintf("%d times Joined() contradicted a Join / Leave that had just succeeded", bad))
	}
	r.Case(fmt.Sprintf("muc-concurrent %d %d", rooms, iters), true, "concurrent")
}
