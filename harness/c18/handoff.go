package c18

import (
	"context"
	"fmt"
	"strings"
	"time"

	"mellium.im/xmpp/jid"
	"mellium.im/xmpp/muc"
	"mellium.im/xmpp/mux"

	"verifharness/c06"
	"verifharness/common"
)

// runHandoff (round F, review C finding 3): the presence handler is ONE atomic step of the model
// "because it runs under managedM".  Forced schedule through the yield point muc.presence.handoff
// (right after the handler has handed the self-presence to the pending Join): the handler is parked
// there, Join returns nil, and Joined() / Me() asked from another goroutine must not answer "not
// joined" / the old nickname — they either wait for the handler (it still holds the lock) or already
// say joined; once the handler goes on they say joined under the requested address.  A handler that
// releases the lock around the rendezvous opens the window "Join returned nil, Joined() false".
// Scenarios: a first join, a re-join after leaving, a change of nickname.
func runHandoff(r *common.Run) {
	for n, nick := range []bool{false, true} {
		r.Mark("case handoff %d", n)
		handoffCase(r, nick)
	}
}

func handoffCase(r *common.Run, nick bool) {
	line := fmt.Sprintf("%s handoff %v", r.Prop, nick)
	ctl := c06.NewCtl("muc.presence.handoff")
	defer ctl.Kill()
	rs, err := common.NewRawSession(0, "jabber:client", jid.MustParse("me@example.net/h"), jid.MustParse("example.net"))
	if err != nil {
		return
	}
	done := make(chan struct{})
	defer close(done)
	tap := c06.Tap(rs, done)
	feed := c06.Feeder(rs, done)
	cl := &muc.Client{}
	ctl.Go("serve", func() { rs.S.Serve(mux.New("jabber:client", muc.HandleClient(cl))) })
	defer func() {
		ctl.Kill()
		rs.In.Close()
		common.WithTimeout(200*time.Millisecond, func() { rs.S.Close() })
	}()
	const x = `<x xmlns="http://jabber.org/protocol/muc#user"><item affiliation="member" role="participant"/><status code="110"/></x>`
	go func() {
		for e := range tap {
			if e.Name == "presence" && e.To != "" && e.Type == "" {
				feed <- fmt.Sprintf(`<presence xmlns="jabber:client" from="%s">%s</presence>`, e.To, x)
			}
		}
	}()
	room := jid.MustParse("room0@conf.example.net/nick0")
	var skipped []c06.Ev
	var ch *muc.Channel
	join := func(want jid.JID, opts ...muc.Option) (verdict string) {
		ret := make(chan error, 1)
		go func() {
			var err error
			if ch == nil {
				var c *muc.Channel
				c, err = cl.Join(context.Background(), room, rs.S, opts...)
				ch = c
			} else {
				err = ch.Join(context.Background(), opts...)
			}
			ret <- err
		}()
		_, parked := ctl.Wait(time.Second, func(e c06.Ev) bool { return e.Who == "serve" && e.What == "park:muc.presence.handoff" }, &skipped)
		if !parked {
			return "no-hook"
		}
		select {
		case err := <-ret:
			if err != nil {
				return "join-failed:" + err.Error()
			}
		case <-time.After(watchdog):
			return "join-did-not-return-after-the-hand-off"
		}
		type ans struct {
			joined bool
			me     string
		}
		got := make(chan ans, 1)
		go func() { got <- ans{ch.Joined(), ch.Me().String()} }()
		early := false
		var a ans
		select {
		case a = <-got:
			early = true
		case <-time.After(30 * time.Millisecond):
		}
		ctl.Release("serve", "muc.presence.handoff")
		if !early {
			select {
			case a = <-got:
			case <-time.After(watchdog):
				return "joined-does-not-answer-after-the-handler-went-on"
			}
		}
		if !a.joined || a.me != want.String() {
			return fmt.Sprintf("window:answered-early=%v:joined=%v:me=%s", early, a.joined, a.me)
		}
		return "ok"
	}
	obs := join(room)
	if obs == "ok" && nick {
		want, _ := room.WithResource("nick1")
		obs = join(want, muc.Nick("nick1"))
	}
	switch {
	case obs == "no-hook":
		r.Notes = append(r.Notes, "handoff scenario skipped: the tree has no yield point muc.presence.handoff")
		return
	case strings.HasPrefix(obs, "window:"):
		r.Fail("membership", "joined-false-after-join-returned:handler-not-atomic", []string{line},
			"the presence handler was parked right after it handed the self-presence to the pending Join; Join returned nil and Joined() / Me() answered without waiting for the handler: "+obs)
	case obs != "ok":
		r.Fail("join-success-iff", "handoff:"+strings.SplitN(obs, ":", 2)[0], []string{line}, obs)
	}
	r.Line(line[len(r.Prop)+1:], "ok")
	r.Case(line, true, "handoff")
}
