package c18

import (
	"fmt"
	"strconv"
	"strings"

	"verifharness/common"
)

// Contention: several channels of one Client that want the same occupant address
// (or each other's nickname).  Every clean-up path of the code is guarded by
// "is the entry of Client.managed mine?" (refused Leave, abandoned Join, completed
// change of nickname, refused second Join); the false branch of such a guard is only
// reached when another channel is registered under the address.  The histories here
// are made of *macro operations* — a whole call with the event that ends it — so that
// short sequences reach those states; they are enumerated exhaustively, shortest
// first.
//
//	JA<c>[@a]  Join (Nick option: address a), select, self-presence of the requested address
//	JE<c>[@a]  Join, select, error reply            JX<c>  Join, select, context cancelled
//	LU<c>      Leave, select, unavailable presence of the address the channel holds
//	LE<c>      Leave, select, error reply           LX<c>  Leave, select, context cancelled
//	JP<c>[@a]  Join, select — left pending     EJ<c>  error reply to the pending Join
//	U<a> A<a>  presence from address a
type macro struct {
	op   string
	c, a int // channel; address (-1: the one the channel holds)
}

func (m macro) String() string {
	s := m.op
	if m.op != "U" && m.op != "A" {
		s += strconv.Itoa(m.c)
		if m.a >= 0 {
			s += "@" + strconv.Itoa(m.a)
		}
		return s
	}
	return s + strconv.Itoa(m.a)
}

// expand runs one macro operation on the live case (addresses are looked up in
// the shadow state at that moment).
func (x *run) macro(m macro) bool {
	n := len(x.trace)
	x.macro1(m)
	return len(x.trace) > n // false: no step of the operation was applicable in this state
}

func (x *run) macro1(m macro) {
	c := strconv.Itoa(m.c)
	switch m.op {
	case "JA", "JE", "JX":
		j := "J" + c
		if m.a >= 0 {
			j += "@" + strconv.Itoa(m.a)
		}
		if !x.act(j) {
			return
		}
		if x.jst[m.c] == "idle" {
			return // refused at once
		}
		x.act("s" + c)
		switch m.op {
		case "JA":
			x.act("A" + strconv.Itoa(x.req[m.c]))
		case "JE":
			x.act("Ej" + c)
		default:
			x.act("Xj" + c)
		}
	case "JP":
		j := "J" + c
		if m.a >= 0 {
			j += "@" + strconv.Itoa(m.a)
		}
		if x.act(j) && x.jst[m.c] != "idle" {
			x.act("s" + c)
		}
	case "K":
		k := "K" + c
		if m.a >= 0 {
			k += "@" + strconv.Itoa(m.a)
		}
		x.act(k)
	case "EJ":
		x.act("Ej" + c)
	case "LU", "LE", "LX":
		if !x.act("L" + c) {
			return
		}
		x.act("l" + c)
		switch m.op {
		case "LU":
			x.act("U" + strconv.Itoa(x.cur[m.c]))
		case "LE":
			x.act("El" + c)
		default:
			x.act("Xl" + c)
		}
	case "U", "A":
		x.act(m.op + strconv.Itoa(m.a))
	}
}

// runMacroCase returns the length of the shortest prefix whose last operation did nothing
// (0: every operation did something).
func runMacroCase(r *common.Run, addrs []int, cf nsConf, ms []macro, class string) int {
	dead := 0
	runCaseWith(r, addrs, cf, func(x *run) {
		for i, m := range ms {
			if !x.macro(m) && dead == 0 {
				dead = i + 1
			}
		}
	}, class)
	return dead
}

// alphabet of macro operations for a configuration (kinds: see the switch).
func macroAlphabet(addrs, nicks []int, kind string) []macro {
	var out []macro
	seen := map[int]bool{}
	var all []int
	for _, a := range append(append([]int(nil), addrs...), nicks...) {
		if !seen[a] {
			seen[a] = true
			all = append(all, a)
		}
	}
	full := kind == "full"
	for c, a0 := range addrs {
		switch kind {
		case "core": // a failed join is JP then EJ: other operations may come between
			out = append(out, macro{"JA", c, -1}, macro{"JP", c, -1}, macro{"EJ", c, -1}, macro{"LU", c, -1}, macro{"LE", c, -1})
		case "plain":
			out = append(out, macro{"JA", c, -1}, macro{"JE", c, -1}, macro{"LU", c, -1}, macro{"LE", c, -1})
		default:
			out = append(out, macro{"JA", c, -1}, macro{"JE", c, -1}, macro{"LU", c, -1}, macro{"LE", c, -1},
				macro{"JX", c, -1}, macro{"LX", c, -1}, macro{"JP", c, -1}, macro{"EJ", c, -1})
		}
		for _, a := range all {
			if a != a0 && a%10 == a0%10 {
				// the nickname another channel was created with
				out = append(out, macro{"JA", c, a})
				if full {
					out = append(out, macro{"JE", c, a})
				}
			}
		}
	}
	for _, a := range all {
		out = append(out, macro{"U", 0, a})
		if full {
			out = append(out, macro{"A", 0, a})
		}
	}
	return out
}

// enumMacros calls f for every sequence over alpha of length 1..maxLen, shortest first,
// that starts with a join (nothing else does anything on a fresh Client) and in which no
// channel leaves before its first join (there is no Channel value yet).  If all channels
// are created with the same address the first call is channel 0's (symmetry).
func enumMacros(alpha []macro, addrs []int, maxLen int, f func([]macro)) {
	symmetric := true
	for _, a := range addrs {
		if a != addrs[0] {
			symmetric = false
		}
	}
	var rec func(seq []macro, joinedOnce []bool, left int)
	for n := 1; n <= maxLen; n++ {
		rec = func(seq []macro, called []bool, left int) {
			if left == 0 {
				f(append([]macro(nil), seq...))
				return
			}
			for _, m := range alpha {
				isJ, isL := m.op[0] == 'J' || m.op[0] == 'K', m.op[0] == 'L'
				if len(seq) == 0 && (!isJ || (symmetric && m.c != 0)) {
					continue
				}
				if isL && !called[m.c] {
					continue
				}
				was := called[m.c]
				if isJ {
					called[m.c] = true
				}
				rec(append(seq, m), called, left-1)
				called[m.c] = was
			}
		}
		rec(nil, make([]bool, len(addrs)), n)
	}
}

func macroLine(ms []macro) string {
	var l []string
	for _, m := range ms {
		l = append(l, m.String())
	}
	return strings.Join(l, " ")
}

// runContention: the exhaustive part of the runner, then random longer sequences over the
// full alphabets.
func runContention(r *common.Run) int {
	type conf struct {
		addrs, nicks []int
		kind         string
		maxLen       int
		ns           string // configuration token of the session ("" = jabber:client, with callbacks)
	}
	confs := []conf{
		{[]int{0, 0}, nil, "core", 5, ""},        // two channels for one occupant address
		{[]int{0, 0}, []int{10}, "plain", 3, ""}, // … which may also ask for another nickname
		{[]int{0, 10}, nil, "plain", 3, ""},      // two nicknames of one room, each channel may ask for the other's
		{[]int{0, 0}, nil, "full", 3, ""},        // with cancelled calls and occupant presences
		{[]int{0, 0}, nil, "core", 3, "%a"},      // the same on a component session …
		{[]int{0, 10}, nil, "plain", 2, "%sn"},   // … and on a server-to-server session, Client without callbacks
		{[]int{0, 0}, nil, "core", 4, "%cm"},     // round F: the two channels live on two sessions of one Client
		{[]int{0, 10}, nil, "plain", 3, "%clm"},  // … swapping nicknames, callbacks assigned late
	}
	if r.Tier == "thorough" {
		confs = []conf{
			{[]int{0, 0}, nil, "core", 5, ""},
			{[]int{0, 0}, []int{10}, "plain", 4, ""},
			{[]int{0, 10}, nil, "plain", 4, ""},
			{[]int{0, 0}, nil, "full", 3, ""},
			{[]int{0, 0, 10}, nil, "plain", 3, ""},
			{[]int{0, 0}, nil, "core", 4, "%a"},
			{[]int{0, 0}, []int{10}, "plain", 3, "%sn"},
			{[]int{0, 10}, nil, "plain", 3, "%an"},
			{[]int{0, 0}, nil, "full", 3, "%s"},
			{[]int{0, 0}, nil, "core", 5, "%cm"},
			{[]int{0, 10}, nil, "plain", 4, "%clm"},
			{[]int{0, 0}, []int{10}, "plain", 3, "%am"},
		}
	}
	n, pruned := 0, 0
	stop := func() bool { return tooMany(r) }
	for _, cf := range confs {
		alpha := macroAlphabet(cf.addrs, cf.nicks, cf.kind)
		// dead prefixes: an operation that does nothing in the state its prefix leads to (a Leave
		// while the Leave of that channel … , an error reply nobody waits for) makes the history
		// equal to the one without it, which — shortest first — has been run already; the
		// executor is deterministic, so every sequence with that prefix is skipped
		dead := map[string]bool{}
		enumMacros(alpha, cf.addrs, cf.maxLen, func(ms []macro) {
			if stop() {
				return
			}
			for k := 1; k <= len(ms); k++ {
				if dead[macroLine(ms[:k])] {
					pruned++
					return
				}
			}
			r.Mark("case contention %d", n)
			sess := nsConfs['c']
			if cf.ns != "" {
				sess, _ = splitConf([]string{cf.ns})
			}
			if d := runMacroCase(r, cf.addrs, sess, ms, "contention"); d > 0 {
				dead[macroLine(ms[:d])] = true
			}
			n++
		})
	}
	r.Notes = append(r.Notes, fmt.Sprintf("contention: %d sequences skipped because an operation of theirs does nothing after its prefix (equal to a shorter history)", pruned))
	rconfs := []conf{{[]int{0, 0}, []int{10}, "full", 0, ""}, {[]int{0, 10}, nil, "full", 0, ""}, {[]int{0, 0, 10}, nil, "full", 0, ""}, {[]int{0, 0}, nil, "core", 0, ""}}
	for k := r.Pick(500, 8000); k > 0 && !stop(); k-- {
		cf := rconfs[r.Rnd.Intn(len(rconfs))]
		alpha := macroAlphabet(cf.addrs, cf.nicks, cf.kind)
		var ms []macro
		for i := 5 + r.Rnd.Intn(5); i > 0; i-- {
			ms = append(ms, alpha[r.Rnd.Intn(len(alpha))])
		}
		r.Mark("case contention %d", n)
		runMacroCase(r, cf.addrs, nsConfs["ccccsa"[r.Rnd.Intn(6)]], ms, "contention-random")
		n++
	}
	return n
}
