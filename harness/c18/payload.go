package c18

import (
	"fmt"
	"strconv"
	"strings"

	"mellium.im/xmpp/muc"
)

// The muc#user payload of a presence the scripted room sends.  Token suffix
// (`A<a>:<payload>`, `U<a>:<payload>`; none = `mp110`):
//
//	<aff><role><codes><flags>
//	aff    - attribute absent, n none, o owner, a admin, m member, c outcast
//	role   - attribute absent, n none, m moderator, p participant, v visitor
//	codes  status codes, `+`-joined (110 self, 210, 301 banned, 303 nick change, 307 kicked, 321, 322, 332 …), may be empty
//	flags  r item carries jid / nick attributes and <actor/>, <reason/> children
//	       x no <item/> at all          d a <destroy/> element follows
//	       e an unknown element precedes the item
//	       s <show/>, <status/>, <priority/> and a caps element precede the muc#user x in the presence
//	       t the presence carries the muc#user x TWICE (round F): the multiplexer runs the handler once
//	         per child it is registered for, each time with the whole presence
type sentItem struct {
	aff, role string // attribute values; "" = absent
	codes     []int
	reason    bool
	noItem    bool
	destroy   bool
	unknown   bool
	siblings  bool
	twice     bool
	raw       string
}

var affLetters = map[byte]string{'-': "", 'n': "none", 'o': "owner", 'a': "admin", 'm': "member", 'c': "outcast"}
var roleLetters = map[byte]string{'-': "", 'n': "none", 'm': "moderator", 'p': "participant", 'v': "visitor"}

const defaultPayload = "mp110"

func parsePayload(p string) (*sentItem, bool) {
	if len(p) < 2 {
		return nil, false
	}
	it := &sentItem{raw: p}
	var ok bool
	if it.aff, ok = affLetters[p[0]]; !ok {
		return nil, false
	}
	if it.role, ok = roleLetters[p[1]]; !ok {
		return nil, false
	}
	rest := p[2:]
	k := 0
	for k < len(rest) && (rest[k] == '+' || (rest[k] >= '0' && rest[k] <= '9')) {
		k++
	}
	if k > 0 {
		for _, f := range strings.Split(rest[:k], "+") {
			n, err := strconv.Atoi(f)
			if err != nil {
				return nil, false
			}
			it.codes = append(it.codes, n)
		}
	}
	for _, f := range rest[k:] {
		switch f {
		case 'r':
			it.reason = true
		case 'x':
			it.noItem = true
		case 'd':
			it.destroy = true
		case 'e':
			it.unknown = true
		case 's':
			it.siblings = true
		case 't':
			it.twice = true
		default:
			return nil, false
		}
	}
	return it, true
}

// class is the coarse form of the payload used in failure keys.
func (it *sentItem) class() string {
	a, r := it.aff, it.role
	if a == "" {
		a = "absent"
	}
	if r == "" {
		r = "absent"
	}
	if it.noItem {
		return "no-item"
	}
	return "affiliation=" + a + ",role=" + r
}

// xml renders the children of the presence (siblings and the muc#user x).
func (it *sentItem) xml() string {
	var sb strings.Builder
	if it.siblings {
		sb.WriteString(`<show>away</show><status>gone fishing</status><priority>1</priority><c xmlns="http://jabber.org/protocol/caps" hash="sha-1" node="urn:verif" ver="AAAA"/>`)
	}
	sb.WriteString(`<x xmlns="http://jabber.org/protocol/muc#user">`)
	if it.unknown {
		sb.WriteString(`<future xmlns="urn:verif:future" affiliation="bogus"><item/></future>`)
	}
	if !it.noItem {
		sb.WriteString(`<item`)
		if it.aff != "" {
			fmt.Fprintf(&sb, ` affiliation="%s"`, it.aff)
		}
		if it.role != "" {
			fmt.Fprintf(&sb, ` role="%s"`, it.role)
		}
		if it.reason {
			sb.WriteString(` jid="real@example.org/res" nick="other"><actor nick="admin"/><reason>because</reason></item>`)
		} else {
			sb.WriteString(`/>`)
		}
	}
	for _, c := range it.codes {
		fmt.Fprintf(&sb, `<status code="%d"/>`, c)
	}
	if it.destroy {
		sb.WriteString(`<destroy jid="elsewhere@conf.example.net"><reason>moved</reason></destroy>`)
	}
	sb.WriteString(`</x>`)
	if it.twice {
		one := sb.String()
		if it.siblings {
			one = one[strings.Index(one, `<x xmlns="http://jabber.org/protocol/muc#user">`):]
		}
		sb.WriteString(one)
	}
	return sb.String()
}

// times: how often the handler runs for the presence (once per muc#user child).
func (it *sentItem) times() int {
	if it.twice {
		return 2
	}
	return 1
}

// differs compares what HandleUserPresence was given with what was sent; "" if equal.
func (it *sentItem) differs(got muc.Item) string {
	orNone := func(s string) string {
		if s == "" || it.noItem {
			return "none"
		}
		return s
	}
	if g, w := got.Affiliation.String(), orNone(it.aff); g != w {
		return fmt.Sprintf("affiliation %q, sent %q", g, w)
	}
	if g, w := got.Role.String(), orNone(it.role); g != w {
		return fmt.Sprintf("role %q, sent %q", g, w)
	}
	wantReason, wantNick := "", ""
	if it.reason && !it.noItem {
		wantReason, wantNick = "because", "other"
	}
	if got.Reason != wantReason {
		return fmt.Sprintf("reason %q, sent %q", got.Reason, wantReason)
	}
	if got.Nick != wantNick {
		return fmt.Sprintf("nick %q, sent %q", got.Nick, wantNick)
	}
	return ""
}

var payloadAffs = []byte("-noamc")
var payloadRoles = []byte("-nmpv")
var payloadCodes = []string{"", "110", "110+210", "301", "307", "303", "110+307", "321", "322", "332", "110+301", "100+110+170"}
var payloadFlags = []string{"", "", "", "r", "x", "d", "e", "s", "rs", "re", "t", "st"}

// allPayloads: every affiliation x role (with the plain flags) plus every code list / flag set
// with a few affiliation/role pairs — the small-scope enumeration of the payload dimension.
func allPayloads() []string {
	var out []string
	for _, a := range payloadAffs {
		for _, r := range payloadRoles {
			out = append(out, string([]byte{a, r})+"110")
		}
	}
	for _, c := range payloadCodes {
		for _, f := range []string{"", "r", "x", "d", "e", "s", "t"} {
			out = append(out, "cn"+c+f, "mp"+c+f)
		}
	}
	return out
}
