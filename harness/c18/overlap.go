package c18

import (
	"fmt"
	"strings"

	"verifharness/common"
)

// Round E: dimensions the earlier rounds held constant.
//
// (1) OVERLAPPING CALLS on one Channel.  "One Join at a time per Channel" was an assumption of the
// harness, not of the property ("every sequence of join, rejoin, leave and cancel calls … in any
// order").  Token K<c> / K<c>@<a>: a further Join call of channel c made with a context that is
// already over — while another Join of the channel is pending (its hand-off request fills the
// slot, the new call gives up before it queues its own), on a joined channel, on a channel whose
// join failed, as the very first call.  It must return the context's error (ErrOccupantInUse if
// another channel holds the address), leave nothing registered that was not registered before and
// not disturb the pending call: the room's self-presence still completes it.  Macro operation `K`
// in the alphabets of contend.go; enumerated exhaustively over one channel with two nicknames and
// over two channels of one address.
//
// (2) EXITS OTHER THAN THE ROOM'S ANSWER.  J<c>~ / L<c>~: the call is made while the connection
// refuses every write (the request cannot be sent); form `0` of an error reply: a type='error'
// presence without an error element.  Join / Leave return that error — neither a stanza error nor
// the context's — after the clean-up of a failed join / without touching anything (Leave).
//
// (3) SEVERAL muc#user PAYLOADS IN ONE MESSAGE (I<children> with more than one m / P / M / d): one
// callback per payload that carries an invitation, whatever stands next to it.
var corpusE = []struct {
	addrs string
	sched string
	fault bool // uses the write fault: not part of the race-detector run
}{
	// the pending change of nickname is not disturbed by calls that give up
	{"0", "J0,s0,A0,J0@10,s0,K0@20,K0,K0@10,A20,A10,A20,L0,l0,U10", false},
	{"0", "J0,s0,Ej0,J0,K0,K0@10,s0,A10,A0", false},
	{"0", "J0,s0,A0,J0,s0,K0,A0,A0", false},
	// on an idle channel: nothing stays registered under the nickname asked for
	{"0", "J0,s0,A0,K0@10,A10,U10,A0,K0,L0,l0,U0", false},
	{"0", "K0,A0,J0,s0,A0", false},
	{"0", "J0,s0,Xj0,K0,A0,K0@10,A10,J0,s0,A0", false},
	// refused while another channel holds the address; that channel is not disturbed
	{"0,0", "J0,s0,A0,K1,J0@10,s0,K1,K0,A10,K1,J1,s1,A0", false},
	{"0,10", "J0,s0,A0,J1,s1,K0@10,K1@0,A10,K0@10,U10,K0@10,A10", false},
	// the call empties depart like every Join: a Leave afterwards waits for a new departure
	{"0", "J0,s0,A0,U0,K0,L0,l0,Xl0", false},
	// several muc#user payloads in one message
	{"0", "Imm,Imd,Idm,ImP,IPbm,Idd,IMm,Imum,Immm,IdPd", false},
	{"0", "%an,Imm,Idm", false},
	// the request cannot be sent
	// (a failed write ends the session: the history ends with the call)
	{"0", "J0~", true},
	{"0", "J0,s0,A0,L0~", true},
	{"0", "%a,J0,s0,A0,J0@10~", true},
	{"0", "J0,s0,A0,U0,L0~", true},
	{"0,0", "J0,s0,A0,J1~", true},
	{"0,10", "%sn,J0,s0,A0,J1,s1,A10,L1,l1,U10,J1@0~", true},
	{"0,0", "J0,s0,Ej0,J1,s1,A0,L0~", true},
	// round F — configuration order: the callbacks are assigned after muc.HandleClient(h) was handed to
	// mux.New; they count from then on (invitations, occupant presences)
	{"0", "%cl,Im,IbP,Id,J0,s0,A0,A0,Im,L0,l0,U0", false},
	{"0,1", "%al,Ibm,J0,s0,A0,J1,s1,Ej1,A0:on110,IM,U0:cn301", false},
	{"0", "%sl,IP,J0,s0,A0,A0", false},
	// round F — one Client serving two live sessions (channel c on session c%2): the table is keyed
	// by the occupant JID alone, so a second channel for it is refused whatever session it lives on,
	// and the first keeps following the room
	{"0,0", "%cm,J0,s0,A0,J1,U0,J1,s1,A0,L1,l1,U0", false},
	{"0,0", "%am,J0,s0,A0,J1,A0,L0,l0,U0,J1,s1,A0,J0,U0", false},
	{"0,10", "%cm,J0,s0,A0,J1,s1,A10,J0@10,J1@0,U10,A0,L0,l0,U0", false},
	{"0,1", "%clm,J0,s0,A0,J1,s1,A1,Im,A0,A1,L1,l1,El1,U0", false},
	{"0,0", "%cm,J0,s0,Ej0,J1,s1,A0,L0,l0,El0,K0,U0", false},
	// a type='error' reply without an error element
	{"0", "J0,s0,Ej0:0,A0,J0,s0,A0,L0,l0,El0:x0,A0,L0,l0,U0", false},
	{"0", "%s,J0,Ej0:xw0,s0,J0,s0,A0,J0@10,s0,Ej0:p0,A0,A10,L0,El0:0,l0,U0", false},
}

func runCorpusE(r *common.Run) int {
	n := 0
	for i, c := range corpusE {
		if c.fault && r.Race() {
			continue
		}
		r.Mark("case corpusE %d", i)
		runCase(r, parseAddrs(c.addrs), strings.Split(c.sched, ","), "corpus")
		n++
	}
	return n
}

// overlapAlphabet: macro operations over the channels, with calls that give up at once.
func overlapAlphabet(addrs, nicks []int, wide bool) []macro {
	var out []macro
	for c := range addrs {
		out = append(out, macro{"JA", c, -1}, macro{"JP", c, -1}, macro{"K", c, -1})
		if wide {
			out = append(out, macro{"EJ", c, -1}, macro{"LU", c, -1})
		}
		for _, a := range nicks {
			if a%10 == addrs[c]%10 && a != addrs[c] {
				out = append(out, macro{"JP", c, a}, macro{"K", c, a})
				if wide {
					out = append(out, macro{"JA", c, a})
				}
			}
		}
	}
	seen := map[int]bool{}
	for _, a := range append(append([]int(nil), addrs...), nicks...) {
		if seen[a] {
			continue
		}
		seen[a] = true
		out = append(out, macro{"A", 0, a})
		if wide || a == addrs[0] {
			out = append(out, macro{"U", 0, a})
		}
	}
	return out
}

// runOverlap enumerates the overlap alphabets exhaustively, shortest first, with the dead-prefix
// pruning of the contention dimension; then the reply dimension with form 0 and random messages
// with several payloads are part of the random generator.
func runOverlap(r *common.Run) int {
	type conf struct {
		addrs, nicks []int
		wide         bool
		maxLen       int
		ns           string
	}
	confs := []conf{
		{[]int{0}, []int{10}, false, 4, ""},
		{[]int{0, 0}, nil, false, 3, ""},
		{[]int{0}, []int{10}, true, 3, "%a"},
		{[]int{0, 0}, nil, false, 3, "%cm"}, // the two channels on two sessions of one Client
	}
	if r.Tier == "thorough" {
		confs = []conf{
			{[]int{0}, []int{10}, true, 4, ""},
			{[]int{0}, []int{10, 20}, false, 4, ""},
			{[]int{0, 0}, []int{10}, false, 4, ""},
			{[]int{0, 10}, nil, true, 3, "%sn"},
			{[]int{0}, []int{10}, false, 4, "%a"},
			{[]int{0, 0}, []int{10}, false, 3, "%cm"},
		}
	}
	n, pruned := 0, 0
	for _, cf := range confs {
		alpha := overlapAlphabet(cf.addrs, cf.nicks, cf.wide)
		dead := map[string]bool{}
		enumMacros(alpha, cf.addrs, cf.maxLen, func(ms []macro) {
			if tooMany(r) {
				return
			}
			for k := 1; k <= len(ms); k++ {
				if dead[macroLine(ms[:k])] {
					pruned++
					return
				}
			}
			r.Mark("case overlap %d", n)
			sess := nsConfs['c']
			if cf.ns != "" {
				sess, _ = splitConf([]string{cf.ns})
			}
			if d := runMacroCase(r, cf.addrs, sess, ms, "overlap"); d > 0 {
				dead[macroLine(ms[:d])] = true
			}
			n++
		})
	}
	// the reply without an error element behind every echoed prefix, in every namespace
	for _, k := range []byte("csa") {
		for _, pre := range []string{"", "x", "w", "xw", "sp"} {
			if tooMany(r) {
				break
			}
			r.Mark("case overlap %d", n)
			sched := []string{"J0", "s0", "Ej0:" + pre + "0", "A0", "J0", "s0", "A0", "L0", "l0", "El0:" + pre + "0", "A0", "L0", "l0", "U0"}
			if cf := nsConfs[k]; cf.tok != "" {
				sched = append([]string{cf.tok}, sched...)
			}
			runCase(r, []int{0}, sched, "reply")
			n++
		}
	}
	r.Notes = append(r.Notes, fmt.Sprintf("overlap: %d histories with Join calls that give up at once next to pending calls (exhaustive over macro operations), %d skipped as equal to a shorter history", n, pruned))
	return n
}

// randInvite: a message with 0-3 muc#user payloads among other children, in a random order
func randInvite(rnd *common.Rand) string {
	var kids []byte
	for k := rnd.Intn(4); k > 0; k-- {
		kids = append(kids, "mmPMd"[rnd.Intn(5)])
	}
	for _, k := range "bslu" {
		if rnd.Chance(1, 2) {
			kids = append(kids, byte(k))
		}
	}
	if len(kids) == 0 {
		kids = []byte{'m'}
	}
	for i := len(kids) - 1; i > 0; i-- {
		j := rnd.Intn(i + 1)
		kids[i], kids[j] = kids[j], kids[i]
	}
	return "I" + string(kids)
}
