package main

import "verifharness/c10"

func init() { runners["C10"] = c10.Run; facts["C10"] = c10.Facts }
