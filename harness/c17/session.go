package c17

// Sessions: the Decoder API as a caller may drive it.  Several decoders are alive at the
// same time and used alternately from ONE goroutine, Next is called again after it has
// returned false, SkipSpan/SkipBlock are mixed with Next.  The property quantifies over
// inputs: what a decoder hands out is a function of its own input (and of the calls made on
// it), whatever other decoders exist or existed in the process.
//
//	sess <doc,…> <sizes/…> <dataEOF bits> <ops>  -> one observation per op, ","-joined
//	    ops: <k>c NewDecoder over document k, <k>n Next (+Token/Style/Quote), <k>s SkipSpan,
//	    <k>b SkipBlock.  Observations: c | len:style:quote:info | end:<err>:style:quote |
//	    s<ret>:<err>:style:quote | b<ret>:<err>:style:quote   (err: nil, eof, toolong, err)

import (
	"bufio"
	"bytes"
	"errors"
	"fmt"
	"io"
	"runtime/debug"
	"strconv"
	"strings"

	"mellium.im/xmpp/styling"

	"verifharness/common"
)

type sessDec struct {
	doc []byte
	s   sched
}

type sessOp struct {
	i  int
	op byte
}

func (o sessOp) String() string { return strconv.Itoa(o.i) + string(o.op) }

func errName(err error) string {
	switch {
	case err == nil:
		return "nil"
	case err == io.EOF:
		return "eof"
	case errors.Is(err, bufio.ErrTooLong):
		return "toolong"
	}
	return "err"
}

// session executes operations on a store of decoders and records what it sees.
type session struct {
	decs []sessDec
	d    []*styling.Decoder
	cr   []*chunkReader
	pos  []int // bytes consumed by the split function of decoder k
	ops  []sessOp
	obs  []string
	// per decoder
	evs      [][]event
	nextOnly []bool
	ended    []bool
	raw      [][]byte // the last token's data as handed out (aliases the decoder's buffer)
	rawCopy  [][]byte
	rawInfo  [][]byte // likewise its Info
	infoCopy [][]byte
	calls    int
	bad      []string // split results / windows that break the contract
	clobber  []string // token bytes that changed before the decoder's own next call
	unhooked int
}

func newSession(decs []sessDec) *session {
	n := len(decs)
	return &session{decs: decs, d: make([]*styling.Decoder, n), cr: make([]*chunkReader, n), pos: make([]int, n),
		evs: make([][]event, n), nextOnly: make([]bool, n), ended: make([]bool, n), raw: make([][]byte, n), rawCopy: make([][]byte, n), rawInfo: make([][]byte, n), infoCopy: make([][]byte, n)}
}

func (s *session) checkRaw(k int, when string) {
	if s.raw[k] != nil && !bytes.Equal(s.raw[k], s.rawCopy[k]) && len(s.clobber) < 4 {
		s.clobber = append(s.clobber, fmt.Sprintf("decoder %d: the data of its last token was %q when handed out and is %q %s (no call on this decoder in between)", k, s.rawCopy[k], s.raw[k], when))
	}
	if s.rawInfo[k] != nil && !bytes.Equal(s.rawInfo[k], s.infoCopy[k]) && len(s.clobber) < 4 {
		s.clobber = append(s.clobber, fmt.Sprintf("decoder %d: the info string of its last token was %q when handed out and is %q %s (no call on this decoder in between)", k, s.infoCopy[k], s.rawInfo[k], when))
	}
	s.raw[k] = nil
	s.rawInfo[k] = nil
}

// do executes one operation; it reports whether the decoder may have more to give.
func (s *session) do(k int, op byte) bool {
	if k < 0 || k >= len(s.decs) || (op != 'c' && s.d[k] == nil) || (op == 'c' && s.d[k] != nil) {
		return false // the generators never do this; the model answers "!" for it
	}
	s.ops = append(s.ops, sessOp{k, op})
	if op != 'c' {
		s.checkRaw(k, "before the next call on it")
	}
	var o string
	more := true
	switch op {
	case 'c':
		doc := s.decs[k].doc
		s.cr[k] = &chunkReader{b: append([]byte(nil), doc...), sizes: s.decs[k].s.sizes, dataEOF: s.decs[k].s.dataEOF}
		d := styling.NewDecoder(s.cr[k])
		s.d[k] = d
		s.nextOnly[k] = true
		hooked := hookDecoderSplit(d, func(orig bufio.SplitFunc) bufio.SplitFunc {
			return func(data []byte, atEOF bool) (int, []byte, error) {
				adv, tok, err := orig(data, atEOF)
				s.calls++
				p := s.pos[k]
				if p+len(data) > len(doc) || !bytes.Equal(data, doc[p:p+len(data)]) {
					if len(s.bad) < 4 {
						s.bad = append(s.bad, fmt.Sprintf("decoder %d: the window of %d bytes handed to its split function at offset %d is not its unconsumed input", k, len(data), p))
					}
				} else if _, b := judge(data, adv, tok, err); b != "" && len(s.bad) < 4 {
					s.bad = append(s.bad, fmt.Sprintf("decoder %d (%d bytes at offset %d, atEOF=%v): %s", k, len(data), p, atEOF, b))
				}
				if adv > 0 && adv <= len(data) {
					s.pos[k] += adv
				}
				return adv, tok, err
			}
		})
		if !hooked {
			s.unhooked++
		}
		o = "c"
	case 'n':
		d := s.d[k]
		if d.Next() {
			t := d.Token()
			s.raw[k] = t.Data
			cp := t.Copy()
			s.rawCopy[k] = cp.Data
			s.rawInfo[k] = t.Info
			s.infoCopy[k] = cp.Info
			e := event{data: cp.Data, style: d.Style(), quote: d.Quote(), info: cp.Info}
			s.evs[k] = append(s.evs[k], e)
			o = e.String()
		} else {
			more = false
			s.ended[k] = true
			o = fmt.Sprintf("end:%s:%d:%d", errName(d.Err()), uint32(d.Style()), d.Quote())
		}
	case 's', 'b':
		d := s.d[k]
		s.nextOnly[k] = false
		var ret bool
		if op == 's' {
			ret = d.SkipSpan()
		} else {
			ret = d.SkipBlock()
		}
		more = ret
		o = fmt.Sprintf("%c%s:%s:%d:%d", op, common.B(ret), errName(d.Err()), uint32(d.Style()), d.Quote())
	}
	s.obs = append(s.obs, o)
	return more
}

type sessRes struct {
	s     *session
	panic string
	hung  bool
}

// runScript runs script on a fresh session in one goroutine with the garbage collector
// off (process-wide caches such as sync.Pool keep what they were given for the whole
// session, so that the outcome does not depend on when a collection happens).
func runScript(decs []sessDec, script func(*session)) sessRes {
	res := sessRes{s: newSession(decs)}
	ok := watchdog(func() {
		defer debug.SetGCPercent(debug.SetGCPercent(-1))
		defer func() {
			if p := recover(); p != nil {
				res.panic = fmt.Sprint(p)
			}
		}()
		script(res.s)
		for k := range decs {
			res.s.checkRaw(k, "at the end of the session")
		}
	})
	if !ok {
		return sessRes{s: newSession(decs), hung: true}
	}
	return res
}

func replayScript(ops []sessOp) func(*session) {
	return func(s *session) {
		for _, o := range ops {
			s.do(o.i, o.op)
		}
	}
}

func (r sessRes) line() string {
	s := r.s
	docs := make([]string, len(s.decs))
	sizes := make([]string, len(s.decs))
	var eofs strings.Builder
	for k, d := range s.decs {
		docs[k] = common.Hex(d.doc)
		sizes[k] = "-"
		if s.cr[k] != nil {
			sizes[k] = ints(s.cr[k].got)
		}
		eofs.WriteString(common.B(d.s.dataEOF))
	}
	ops := make([]string, len(s.ops))
	for i, o := range s.ops {
		ops[i] = o.String()
	}
	return fmt.Sprintf("sess %s %s %s %s", strings.Join(docs, ","), strings.Join(sizes, "/"), eofs.String(), common.Join(ops, ","))
}

func (r sessRes) obsLine() string {
	switch {
	case r.hung:
		return "HANG"
	case r.panic != "":
		return "PANIC"
	}
	return common.Join(r.s.obs, ",")
}

// perDec splits the operations and observations by decoder.
func (s *session) perDec(k int) (ops []sessOp, obs []string) {
	for i, o := range s.ops {
		if o.i == k {
			ops = append(ops, sessOp{0, o.op})
			if i < len(s.obs) {
				obs = append(obs, s.obs[i])
			}
		}
	}
	return
}

// session runs one session, emits its protocol line and evaluates the oracle: no panic,
// terminates, every split call honours the contract on the decoder's own unconsumed input,
// a token's bytes stay what they were until the next call on that decoder, every decoder
// observes exactly what it observes when it is the only decoder in use, and the clauses of
// a single decoding hold for every decoder that was read to the end with Next alone.
func (c *ctx) session(decs []sessDec, script func(*session), class string) {
	r := c.r
	if c.hung {
		return
	}
	res := runScript(decs, script)
	line := res.line()
	r.Line(line, res.obsLine())
	lines := append(append([]string(nil), c.recent...), r.Prop+" "+line)
	c.recent = append(c.recent, r.Prop+" "+line)
	if len(c.recent) > 2 {
		c.recent = c.recent[1:]
	}
	skips := false
	for _, o := range res.s.ops {
		skips = skips || o.op == 's' || o.op == 'b'
	}
	r.Case(line, len(decs) > 1 || skips, class)
	c.sessions++
	switch {
	case res.hung:
		c.hung = true
		r.Fail("terminates", "session-hang", lines, "a session of decoders did not finish within 20s")
		return
	case res.panic != "":
		r.Fail("no-panic", "session", lines, "panic: "+res.panic)
		return
	}
	s := res.s
	c.judged += s.calls
	c.unhooked += s.unhooked
	for _, b := range s.bad {
		r.Fail("prefix", "session-split-result", lines, b)
	}
	for _, b := range s.clobber {
		r.Fail("input-determined", "token-overwritten", lines, b)
	}
	for k := range decs {
		ops, obs := s.perDec(k)
		if len(ops) == 0 {
			continue
		}
		if len(decs) > 1 {
			alone := runScript([]sessDec{decs[k]}, replayScript(ops))
			if alone.panic == "" && !alone.hung && strings.Join(alone.s.obs, ",") != strings.Join(obs, ",") {
				r.Fail("input-determined", "session-interference", lines,
					fmt.Sprintf("decoder %d over %q observes %s when used alternately with other decoders and %s for the same calls when it is the only decoder", k, clip(decs[k].doc), strings.Join(obs, ","), strings.Join(alone.s.obs, ",")))
			}
		}
		if s.nextOnly[k] && s.ended[k] {
			dr := decRes{evs: s.evs[k], end: "eof", hooked: true}
			if e := s.d[k].Err(); e != io.EOF {
				dr.end = endName(e)
			}
			c.clauses(decs[k].doc, decs[k].s, dr, line)
		}
	}
}

func clip(b []byte) string {
	if len(b) > 80 {
		return string(b[:80]) + "…"
	}
	return string(b)
}

// drain reads decoder k to the end with Next.
func drain(s *session, k int) {
	for n := 0; n < 4*len(s.decs[k].doc)+16 && s.do(k, 'n'); n++ {
	}
}

var sessDocs = []string{
	"one *strong* line\nsecond _emph_ line\nthird line\n> and a quote\n",
	"CCCC CCCC\n```\nCCCC CCCC CCCC\n```\nCCCC CCCC\n",
	"> a\n>> *b*\n> c\nd\n",
	"*a _b_ c* `d`\n~e~\n",
	"```go\ncode\n```\n*a* b\n",
	"just a short message\n",
	">  x",
	"",
}

var pokes = []string{"", "n", "b", "s", "nn", "bs"}

// sessionsPatterned: a decoder that is exhausted and then asked again (Next, SkipBlock,
// SkipSpan), followed by two decoders created afterwards and used in every interleaving
// pattern, each asked again after its end.
func (c *ctx) sessionsPatterned() {
	r := c.r
	scheds := []sched{{}, {sizes: []int{1}}, {sizes: []int{3}, dataEOF: true}, {dataEOF: true}}
	patterns := [][2]int{{1, 1}, {2, 1}, {1, 3}, {1000, 1000}}
	n := 0
	for hi, hist := range sessDocs[4:] {
		for _, poke := range pokes {
			for a := range sessDocs[:5] {
				for b := range sessDocs[:5] {
					pat := patterns[n%len(patterns)]
					sa, sb := scheds[n%len(scheds)], scheds[(n/len(scheds))%len(scheds)]
					n++
					if r.Quick() && (a+b+hi+n)%3 != 0 && !(a == 0 && b == 1) {
						continue
					}
					decs := []sessDec{{[]byte(hist), sched{}}, {[]byte(sessDocs[a]), sa}, {[]byte(sessDocs[b]), sb}}
					c.session(decs, func(s *session) {
						s.do(0, 'c')
						drain(s, 0)
						for _, p := range []byte(poke) {
							s.do(0, p)
						}
						s.do(1, 'c')
						s.do(2, 'c')
						more1, more2 := true, true
						for g := 0; g < 400 && (more1 || more2); g++ {
							for i := 0; i < pat[0] && more1; i++ {
								more1 = s.do(1, 'n')
							}
							for i := 0; i < pat[1] && more2; i++ {
								more2 = s.do(2, 'n')
							}
						}
						for _, p := range []byte(poke) {
							s.do(1, p)
							s.do(2, p)
						}
					}, "session-patterned")
				}
			}
		}
	}
}

// sessionsSkip: SkipSpan / SkipBlock from every position of a document's token stream,
// then Next to the end and once more.
func (c *ctx) sessionsSkip(doc []byte, s sched, class string) {
	probe := runScript([]sessDec{{doc, s}}, func(s *session) { s.do(0, 'c'); drain(s, 0) })
	if probe.hung || probe.panic != "" {
		return // the plain decoding of this document is judged elsewhere
	}
	n := len(probe.s.evs[0])
	for p := 0; p <= n; p++ {
		for _, op := range []byte{'s', 'b'} {
			c.session([]sessDec{{doc, s}}, func(s *session) {
				s.do(0, 'c')
				for i := 0; i < p; i++ {
					s.do(0, 'n')
				}
				s.do(0, op)
				if (p+int(op))%3 == 0 {
					s.do(0, op)
				}
				drain(s, 0)
				s.do(0, 'n')
			}, class)
		}
	}
}

// sessionsRandom: up to four decoders over random documents and schedules, created at
// random moments, random operations in random interleaving, every decoder asked again
// after its end.
func (c *ctx) sessionRandom(rnd *common.Rand) {
	k := 1 + rnd.Intn(4)
	decs := make([]sessDec, k)
	for i := range decs {
		var d []byte
		switch rnd.Intn(4) {
		case 0:
			d = []byte(corpus[rnd.Intn(len(corpus))])
		case 1:
			d = []byte(sessDocs[rnd.Intn(len(sessDocs))])
		default:
			d = genDoc(rnd, 16)
		}
		s := sched{}
		if rnd.Chance(1, 2) {
			s = genSched(rnd)
		}
		decs[i] = sessDec{d, s}
	}
	c.session(decs, func(s *session) {
		created := 0
		left := make([]int, k) // calls still allowed after the end of decoder i
		for i := range left {
			left[i] = rnd.Intn(3)
		}
		for n := 0; n < 300; n++ {
			if created < k && (created == 0 || rnd.Chance(1, 4)) {
				s.do(created, 'c')
				created++
				continue
			}
			var live []int
			for i := 0; i < created; i++ {
				if !s.ended[i] || left[i] > 0 {
					live = append(live, i)
				}
			}
			if len(live) == 0 {
				if created == k {
					return
				}
				s.do(created, 'c')
				created++
				continue
			}
			i := live[rnd.Intn(len(live))]
			if s.ended[i] {
				left[i]--
			}
			op := byte('n')
			switch rnd.Intn(12) {
			case 0:
				op = 's'
			case 1:
				op = 'b'
			}
			if !s.do(i, op) {
				s.ended[i] = true
			}
		}
	}, "session-random")
}

func parseSess(f []string) (decs []sessDec, ops []sessOp, ok bool) {
	if len(f) < 6 {
		return nil, nil, false
	}
	docs := strings.Split(f[2], ",")
	sizes := strings.Split(f[3], "/")
	if len(docs) != len(sizes) || len(docs) != len(f[4]) {
		return nil, nil, false
	}
	for k := range docs {
		d, err := common.UnHex(docs[k])
		if err != nil {
			return nil, nil, false
		}
		var s sched
		if sizes[k] != "-" {
			for _, x := range strings.Split(sizes[k], ",") {
				n, _ := strconv.Atoi(x)
				s.sizes = append(s.sizes, n)
			}
			s.sizes = append(s.sizes, 1<<30)
		}
		s.dataEOF = f[4][k] == '1'
		decs = append(decs, sessDec{d, s})
	}
	if f[5] != "-" {
		for _, x := range strings.Split(f[5], ",") {
			if len(x) < 2 {
				return nil, nil, false
			}
			i, err := strconv.Atoi(x[:len(x)-1])
			if err != nil {
				return nil, nil, false
			}
			ops = append(ops, sessOp{i, x[len(x)-1]})
		}
	}
	return decs, ops, true
}

// sessions is the session part of a generating run.
func (c *ctx) sessions_() {
	r := c.r
	c.sessionsPatterned()
	for _, d := range corpus {
		c.sessionsSkip([]byte(d), stdScheds[len(d)%len(stdScheds)], "session-skip")
	}
	for _, d := range sessDocs {
		c.sessionsSkip([]byte(d), sched{sizes: []int{2}}, "session-skip")
	}
	skipLen := r.Pick(3, 4)
	for n := 0; n <= skipLen; n++ {
		enumerate(small, n, func(d []byte) {
			c.sessionsSkip(d, sched{}, "session-skip-exhaustive")
		})
	}
	r.Exhaustive = append(r.Exhaustive, fmt.Sprintf("SkipSpan and SkipBlock from every position of the token stream of every document of length <= %d over %q", skipLen, small))
	nRandom := r.Pick(1500, 20000)
	for i := 0; i < nRandom && !c.hung; i++ {
		c.sessionRandom(r.Rnd)
	}
	r.Extra["sessions"] = c.sessions
}
