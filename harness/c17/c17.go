// Package c17 drives the message styling decoder (property C17).
//
// Protocol lines (byte strings hex, lists ","-joined, "-" empty):
//
//	hist  <doc> <len:eof,…>              -> <adv|m|P,…>
//	    a sequence of direct calls of the split function styling.Scan(); call k gets
//	    doc[pos:pos+len] where pos is the sum of the advances so far
//	split <doc> <sizes> <dataEOF> <lim>  -> <len:eof:adv,…>;<end>
//	    a real bufio.Scanner (token limit lim) with styling.Scan() over a reader that
//	    delivered the document in reads of the given sizes (the sizes actually read are
//	    logged), the last bytes together with io.EOF when dataEOF=1; every call of the
//	    split function up to the last token is listed
//	dec   <doc> <sizes> <dataEOF> <lim>  -> <len:style:quote:info,…>;<end>
//	    styling.NewDecoder read to the end with Next/Token/Style/Quote
//	longdec <prefix> <n> <suffix> <sizes> <dataEOF> <lim>  -> as dec
//	    the document is prefix + n x "a" + suffix (long-line probes; the document itself is
//	    not written out)
//
// <end> is eof | toolong | badsplit | PANIC | err.
package c17

import (
	"bufio"
	"bytes"
	"errors"
	"fmt"
	"go/ast"
	"go/constant"
	"go/importer"
	"go/parser"
	"go/token"
	"go/types"
	"io"
	"math"
	"os"
	"path/filepath"
	"reflect"
	"strconv"
	"strings"
	"time"
	"unicode/utf8"
	"unsafe"

	"mellium.im/xmpp/styling"

	"verifharness/common"
)

// chunkReader delivers b in reads of the given sizes (cyclic; at least one byte
// each) and records the sizes it actually delivered.
type chunkReader struct {
	b       []byte
	sizes   []int
	i       int
	dataEOF bool
	got     []int
	stalls  int // (0, nil) reads before every read that delivers data (round E, review C17-3)
	stalled int
}

func (c *chunkReader) Read(p []byte) (int, error) {
	if len(c.b) == 0 {
		return 0, io.EOF
	}
	// a reader may return (0, nil): "nothing happened", legal for io.Reader (discouraged);
	// bufio.Scanner tolerates 100 of them in a row.  Such a read delivers nothing, so it is
	// not part of the schedule the model sees (`got` records the reads that delivered data).
	if c.stalled < c.stalls && len(p) > 0 {
		c.stalled++
		return 0, nil
	}
	c.stalled = 0
	n := len(c.b)
	if len(c.sizes) > 0 {
		n = c.sizes[c.i%len(c.sizes)]
		c.i++
	}
	if n < 1 {
		n = 1
	}
	if n > len(p) {
		n = len(p)
	}
	if n > len(c.b) {
		n = len(c.b)
	}
	copy(p, c.b[:n])
	c.b = c.b[n:]
	c.got = append(c.got, n)
	if len(c.b) == 0 && c.dataEOF {
		return n, io.EOF
	}
	return n, nil
}

type sched struct {
	sizes   []int
	dataEOF bool
	stalls  int
}

func (s sched) String() string {
	if s.stalls > 0 {
		return fmt.Sprintf("%v/eof=%v/stalls=%d", s.sizes, s.dataEOF, s.stalls)
	}
	return fmt.Sprintf("%v/eof=%v", s.sizes, s.dataEOF)
}

type event struct {
	data  []byte
	style styling.Style
	quote uint
	info  []byte
}

func (e event) String() string {
	info := "~"
	if e.info != nil {
		info = common.Hex(e.info)
	}
	return fmt.Sprintf("%d:%d:%d:%s", len(e.data), uint32(e.style), e.quote, info)
}

type decRes struct {
	evs   []event
	end   string
	got   []int
	panic string
	hung  bool
	// every split call the real Decoder's scanner made, judged against the contract
	calls    int
	badCalls []string
	hooked   bool
}

func endName(err error) string {
	switch {
	case err == nil || err == io.EOF:
		return "eof"
	case errors.Is(err, bufio.ErrTooLong):
		return "toolong"
	case errors.Is(err, bufio.ErrAdvanceTooFar), errors.Is(err, bufio.ErrNegativeAdvance), errors.Is(err, bufio.ErrBadReadCount):
		return "badsplit"
	}
	return "err"
}

// watchdog runs f and reports whether it finished in time.
func watchdog(f func()) bool {
	done := make(chan struct{})
	go func() { defer close(done); f() }()
	select {
	case <-done:
		return true
	case <-time.After(20 * time.Second):
		return false
	}
}

func decode(doc []byte, s sched) decRes {
	var res decRes
	cr := &chunkReader{b: append([]byte(nil), doc...), sizes: s.sizes, dataEOF: s.dataEOF, stalls: s.stalls}
	ok := watchdog(func() {
		defer func() {
			if p := recover(); p != nil {
				res.panic = fmt.Sprint(p)
			}
		}()
		d := styling.NewDecoder(cr)
		pos := 0
		res.hooked = hookDecoderSplit(d, func(orig bufio.SplitFunc) bufio.SplitFunc {
			return func(data []byte, atEOF bool) (int, []byte, error) {
				adv, tok, err := orig(data, atEOF)
				res.calls++
				if pos+len(data) > len(doc) || !bytes.Equal(data, doc[pos:pos+len(data)]) {
					res.badCalls = append(res.badCalls, fmt.Sprintf("call %d: the window %d+%d is not the unconsumed input", res.calls, pos, len(data)))
				} else if _, bad := judge(data, adv, tok, err); bad != "" && len(res.badCalls) < 4 {
					res.badCalls = append(res.badCalls, fmt.Sprintf("call %d (%d bytes at offset %d, atEOF=%v): %s", res.calls, len(data), pos, atEOF, bad))
				}
				if adv > 0 && adv <= len(data) {
					pos += adv
				}
				return adv, tok, err
			}
		})
		for d.Next() {
			t := d.Token().Copy()
			res.evs = append(res.evs, event{data: t.Data, style: d.Style(), quote: d.Quote(), info: t.Info})
			if len(res.evs) > 4*len(doc)+16 {
				res.end = "err"
				return
			}
		}
		res.end = endName(d.Err())
	})
	if !ok {
		return decRes{hung: true, end: "HANG"}
	}
	res.got = cr.got
	if res.panic != "" {
		res.end = "PANIC"
	}
	return res
}

func (r decRes) obs() string {
	if r.panic != "" || r.hung {
		return r.end
	}
	l := make([]string, len(r.evs))
	for i, e := range r.evs {
		l[i] = e.String()
	}
	return common.Join(l, ",") + ";" + r.end
}

func ints(l []int) string {
	s := make([]string, len(l))
	for i, n := range l {
		s[i] = strconv.Itoa(n)
	}
	return common.Join(s, ",")
}

type call struct {
	n     int
	eof   bool
	adv   int
	more  bool
	panic bool
	bad   string // violation of "token = data[:advance]" / data not the expected window
}

func (c call) res() string {
	switch {
	case c.panic:
		return "P"
	case c.more:
		return "m"
	case c.bad != "":
		return "X" + strconv.Itoa(c.adv)
	}
	return strconv.Itoa(c.adv)
}

// judge holds one result of a split function against the bufio.SplitFunc contract as the
// property reads it (every consumed byte is handed out in a token): no error; 0 <= advance
// <= len(data); advance == 0 implies a nil token ("more"); advance > 0 implies a non-nil
// token equal to data[:advance].  It does not look at what the model predicts.
func judge(data []byte, adv int, tok []byte, err error) (more bool, bad string) {
	switch {
	case err != nil:
		return false, "error " + err.Error()
	case adv < 0 || adv > len(data):
		return false, fmt.Sprintf("advance %d outside 0..%d", adv, len(data))
	case adv == 0 && tok == nil:
		return true, ""
	case adv == 0:
		return false, fmt.Sprintf("token %q without advance", tok)
	case tok == nil:
		return false, fmt.Sprintf("advance %d with a nil token: %q is handed out in no token", adv, data[:adv])
	case !bytes.Equal(tok, data[:adv]):
		return false, fmt.Sprintf("token %q is not data[:%d] = %q", tok, adv, data[:adv])
	}
	return false, ""
}

// hookDecoderSplit replaces the split function of the bufio.Scanner inside a real
// styling.Decoder (unexported fields, reached with reflect+unsafe) by wrap(original), so
// that every split call the real Decoder makes can be judged.  It reports false when the
// layout is not the expected one (field `s *bufio.Scanner`, its field `split`).
func hookDecoderSplit(d *styling.Decoder, wrap func(bufio.SplitFunc) bufio.SplitFunc) (ok bool) {
	defer func() {
		if recover() != nil {
			ok = false
		}
	}()
	fs := reflect.ValueOf(d).Elem().FieldByName("s")
	if !fs.IsValid() || fs.Kind() != reflect.Ptr || fs.IsNil() {
		return false
	}
	sc := reflect.NewAt(fs.Type(), unsafe.Pointer(fs.UnsafeAddr())).Elem().Elem()
	if sc.Type() != reflect.TypeOf(bufio.Scanner{}) {
		return false
	}
	fsp := sc.FieldByName("split")
	if !fsp.IsValid() || fsp.Type() != reflect.TypeOf(bufio.SplitFunc(nil)) {
		return false
	}
	p := (*bufio.SplitFunc)(unsafe.Pointer(fsp.UnsafeAddr()))
	if *p == nil {
		return false
	}
	*p = wrap(*p)
	return true
}

// oneCall calls the split function once, recovering panics, and checks the
// SplitFunc result shape.
func oneCall(f bufio.SplitFunc, data []byte, eof bool) (c call) {
	c = call{n: len(data), eof: eof}
	defer func() {
		if p := recover(); p != nil {
			c.panic = true
			c.bad = fmt.Sprint(p)
		}
	}()
	in := append([]byte(nil), data...)
	adv, tok, err := f(in, eof)
	c.adv = adv
	c.more, c.bad = judge(data, adv, tok, err)
	return c
}

type splitRes struct {
	calls []call
	toks  [][]byte
	end   string
	got   []int
	panic string
}

// split runs a real bufio.Scanner with styling.Scan() and logs every call.
func split(doc []byte, s sched, limit int) splitRes {
	var res splitRes
	cr := &chunkReader{b: append([]byte(nil), doc...), sizes: s.sizes, dataEOF: s.dataEOF, stalls: s.stalls}
	f := styling.Scan()
	pos := 0
	var pending []call
	sc := bufio.NewScanner(cr)
	if limit > 0 {
		c := 16
		if c > limit {
			c = limit
		}
		sc.Buffer(make([]byte, 0, c), limit)
	}
	sc.Split(func(data []byte, atEOF bool) (int, []byte, error) {
		c := call{n: len(data), eof: atEOF}
		if pos+len(data) > len(doc) || !bytes.Equal(data, doc[pos:pos+len(data)]) {
			c.bad = "scanner handed a window that is not the unconsumed input"
		}
		adv, tok, err := f(data, atEOF)
		c.adv = adv
		var bad string
		c.more, bad = judge(data, adv, tok, err)
		if c.bad == "" {
			c.bad = bad
		}
		pending = append(pending, c)
		if !c.more {
			res.calls = append(res.calls, pending...)
			pending = nil
		}
		if adv > 0 && adv <= len(data) {
			pos += adv
		}
		return adv, tok, err
	})
	ok := watchdog(func() {
		defer func() {
			if p := recover(); p != nil {
				res.panic = fmt.Sprint(p)
			}
		}()
		for sc.Scan() {
			res.toks = append(res.toks, append([]byte(nil), sc.Bytes()...))
			if len(res.toks) > 4*len(doc)+16 {
				res.end = "err"
				return
			}
		}
		res.end = endName(sc.Err())
	})
	if !ok {
		return splitRes{end: "HANG"}
	}
	res.got = cr.got
	if res.panic != "" {
		res.end = "PANIC"
	}
	return res
}

func (r splitRes) obs() string {
	if r.end == "PANIC" || r.end == "HANG" {
		return r.end
	}
	l := make([]string, len(r.calls))
	for i, c := range r.calls {
		l[i] = fmt.Sprintf("%d:%s:%s", c.n, common.B(c.eof), c.res())
	}
	return common.Join(l, ",") + ";" + r.end
}

// ---- property oracle ---------------------------------------------------------

type kind struct {
	name             string
	style, start, en styling.Style
}

var kinds = []kind{
	{"blockpre", styling.BlockPre, styling.BlockPreStart, styling.BlockPreEnd},
	{"blockquote", styling.BlockQuote, styling.BlockQuoteStart, styling.BlockQuoteEnd},
	{"emph", styling.SpanEmph, styling.SpanEmphStart, styling.SpanEmphEnd},
	{"strong", styling.SpanStrong, styling.SpanStrongStart, styling.SpanStrongEnd},
	{"strike", styling.SpanStrike, styling.SpanStrikeStart, styling.SpanStrikeEnd},
	{"pre", styling.SpanPre, styling.SpanPreStart, styling.SpanPreEnd},
}

var spanKinds = kinds[2:]

// divergenceKey is the stable coarse normal form of a chunk-dependence witness:
// the construct the reference decoding is in at the first divergent token.
func divergenceKey(ref, got []event) string {
	k := 0
	for k < len(ref) && k < len(got) && ref[k].String() == got[k].String() {
		k++
	}
	if k >= len(ref) {
		return "extra-tokens"
	}
	st := ref[k].style
	switch {
	case st&styling.BlockQuoteStart != 0:
		return "quote-prefix"
	case st&styling.BlockPre != 0:
		return "pre-block"
	case st&styling.SpanDirective != 0:
		return "span-directive"
	case st&styling.Span != 0:
		return "span-text"
	}
	return "plain"
}

type ctx struct {
	r        *common.Run
	hung     bool
	unhooked int // decodes whose scanner's split function could not be wrapped
	judged   int // split calls of real Decoders held against the contract
	sessions int
	recent   []string // the last session lines (state left behind by a session may matter to the next)
	// nesting depth reached by the real decoder over the whole run (nest.go)
	byDepth       bool
	maxSpanDepth  int
	maxQuoteDepth uint
}

func decLine(doc []byte, got []int, s sched) string {
	return fmt.Sprintf("dec %s %s %s -", common.Hex(doc), ints(got), common.B(s.dataEOF))
}

// clauses checks the clauses of the property that concern one decoding.
func (c *ctx) clauses(doc []byte, s sched, res decRes, line string) {
	r := c.r
	lines := []string{r.Prop + " " + line, "#schedule " + s.String()}
	if res.hung {
		c.hung = true
		r.Fail("terminates", "hang", lines, "decoder did not finish within 20s")
		return
	}
	if res.panic != "" {
		r.Fail("no-panic", "decoder", lines, "panic: "+res.panic)
		return
	}
	for _, b := range res.badCalls {
		r.Fail("prefix", "decoder-split-result", lines, b)
	}
	if !res.hooked {
		c.unhooked++
	}
	c.judged += res.calls
	var cat []byte
	for _, e := range res.evs {
		cat = append(cat, e.data...)
	}
	if res.end != "eof" || !bytes.Equal(cat, doc) {
		key := res.end
		if res.end == "eof" {
			key = "data-differs"
		}
		r.Fail("lossless", key, lines, fmt.Sprintf("end=%s, %d of %d bytes returned", res.end, len(cat), len(doc)))
	}
	var stack []kind
	inBlockPre := false
	for i, e := range res.evs {
		for _, k := range kinds {
			if e.style&(k.start|k.en) != 0 && e.style&k.style == 0 {
				r.Fail("style-consistent", k.name, lines, fmt.Sprintf("token %d %q style %#x: directive bit without its style bit", i, e.data, uint32(e.style)))
			}
		}
		inSpanPre := len(stack) > 0 && stack[len(stack)-1].name == "pre"
		// inside an inline pre span nothing starts; inside a pre block no span and no second pre
		// block starts (the quote prefix of an enclosing block quote is the only directive allowed)
		if (inSpanPre && e.style&styling.StartDirective != 0) || (inBlockPre && e.style&(styling.SpanStartDirective|styling.BlockPreStart) != 0) {
			r.Fail("no-directive-in-pre", "start-in-pre", lines, fmt.Sprintf("token %d %q style %#x starts a directive inside preformatted text", i, e.data, uint32(e.style)))
		}
		if e.style&styling.BlockPreStart != 0 {
			inBlockPre = true
		}
		if e.style&styling.BlockPreEnd != 0 || e.style&styling.BlockPre == 0 {
			inBlockPre = false
		}
		for _, k := range spanKinds {
			if e.style&k.start != 0 {
				stack = append(stack, k)
			}
			if e.style&k.en != 0 {
				if len(stack) == 0 || stack[len(stack)-1].name != k.name {
					r.Fail("bracketing", "end-mismatch", lines, fmt.Sprintf("token %d %q ends %s which is not the innermost open span", i, e.data, k.name))
				} else {
					stack = stack[:len(stack)-1]
				}
			}
		}
		// every style bit of an open span is on, and no span style is on without an open span
		for _, k := range spanKinds {
			open := false
			for _, s := range stack {
				open = open || s.name == k.name
			}
			if e.style&k.en != 0 {
				open = true
			}
			if open != (e.style&k.style != 0) {
				r.Fail("bracketing", "style-without-span", lines, fmt.Sprintf("token %d %q style %#x: %s bit does not match the open spans", i, e.data, uint32(e.style), k.name))
			}
		}
		if bytes.IndexByte(e.data, '\n') >= 0 && len(stack) > 0 {
			r.Fail("bracketing", "open-at-line-end", lines, fmt.Sprintf("token %d %q: span %s still open at the end of its line", i, e.data, stack[len(stack)-1].name))
			stack = nil
		}
	}
	if len(stack) > 0 {
		r.Fail("bracketing", "open-at-end", lines, fmt.Sprintf("span %s still open at the end of the input", stack[len(stack)-1].name))
	}
}

// maskBracketed is the caller's bracket automaton over the returned masks (the same automaton
// as Model/StylingNest.lean maskStep): a span start bit pushes its kind, an end bit must name
// the innermost open span, the span style bits are the open spans (plus the one just ended),
// a token with a newline leaves nothing open, nothing is open at the end.
func maskBracketed(evs []event) bool {
	var stack []int
	for _, e := range evs {
		for k, sk := range spanKinds {
			if e.style&sk.start != 0 {
				stack = append(stack, k)
			}
			if e.style&sk.en != 0 {
				if len(stack) == 0 || stack[len(stack)-1] != k {
					return false
				}
				stack = stack[:len(stack)-1]
			}
		}
		for k, sk := range spanKinds {
			open := e.style&sk.en != 0
			for _, s := range stack {
				open = open || s == k
			}
			if open != (e.style&sk.style != 0) {
				return false
			}
		}
		if bytes.IndexByte(e.data, '\n') >= 0 && len(stack) > 0 {
			return false
		}
	}
	return len(stack) == 0
}

// doc runs one document under the reference delivery and the given schedules,
// emits the protocol lines and evaluates the oracle.
func (c *ctx) doc(doc []byte, scheds []sched, modelLines int, class string) {
	r := c.r
	if c.hung {
		return
	}
	hd := common.Hex(doc)
	refS := sched{}
	ref := decode(doc, refS)
	refLine := decLine(doc, ref.got, refS)
	r.Line(refLine, ref.obs())
	c.clauses(doc, refS, ref, refLine)
	nontriv := false
	for _, e := range ref.evs {
		nontriv = nontriv || e.style != 0
	}
	if sp, q := depthClass(ref.evs); sp > c.maxSpanDepth || q > c.maxQuoteDepth {
		if sp > c.maxSpanDepth {
			c.maxSpanDepth = sp
		}
		if q > c.maxQuoteDepth {
			c.maxQuoteDepth = q
		}
	}
	if c.byDepth {
		class += depthSuffix(ref.evs)
	}
	r.Case("doc "+hd, nontriv, class)
	if len(doc) <= 200 && ref.panic == "" && !ref.hung && ref.end == "eof" {
		// the Lean automaton on the model's masks vs the same automaton on the real masks
		r.Line("brk "+hd, common.B(maskBracketed(ref.evs)))
	}
	refObs := ref.obs()
	for k, s := range scheds {
		res := decode(doc, s)
		line := decLine(doc, res.got, s)
		if k < modelLines {
			r.Line(line, res.obs())
		}
		c.clauses(doc, s, res, line)
		if res.panic == "" && !res.hung && ref.panic == "" && res.obs() != refObs {
			r.Fail("chunk-independent", divergenceKey(ref.evs, res.evs),
				[]string{r.Prop + " " + refLine, r.Prop + " " + line, "#schedule " + s.String()},
				fmt.Sprintf("doc %q: one read gives %s, schedule %s gives %s", doc, refObs, s, res.obs()))
		}
	}
}

// splitDoc ties the split function under a real bufio.Scanner to the model.
func (c *ctx) splitDoc(doc []byte, s sched, limit int) {
	r := c.r
	res := split(doc, s, limit)
	lim := "-"
	if limit > 0 {
		lim = strconv.Itoa(limit)
	} else {
		lim = strconv.Itoa(bufio.MaxScanTokenSize)
	}
	line := fmt.Sprintf("split %s %s %s %s", common.Hex(doc), ints(res.got), common.B(s.dataEOF), lim)
	r.Line(line, res.obs())
	r.Case(line, res.end == "eof", "split-"+res.end)
	lines := []string{r.Prop + " " + line}
	switch res.end {
	case "PANIC":
		r.Fail("no-panic", "split", lines, "panic: "+res.panic)
		return
	case "HANG":
		c.hung = true
		r.Fail("terminates", "hang", lines, "scanner did not finish within 20s")
		return
	}
	for _, cl := range res.calls {
		if cl.bad != "" {
			r.Fail("prefix", "split-result", lines, cl.bad)
		}
	}
	if res.end == "eof" && !bytes.Equal(bytes.Join(res.toks, nil), doc) {
		r.Fail("lossless", "data-differs", lines, "tokens of the scanner do not concatenate to the input")
	}
}

// hist replays a sequence of direct split-function calls.
func (c *ctx) hist(doc []byte, lens []int, eofs []bool) {
	r := c.r
	f := styling.Scan()
	pos := 0
	var spec, obs []string
	bad := ""
	for k := range lens {
		n := lens[k]
		if pos+n > len(doc) {
			n = len(doc) - pos
		}
		spec = append(spec, fmt.Sprintf("%d:%s", n, common.B(eofs[k])))
		cl := oneCall(f, doc[pos:pos+n], eofs[k])
		obs = append(obs, cl.res())
		if cl.panic {
			bad = "panic: " + cl.bad
			break
		}
		if cl.bad != "" && bad == "" {
			bad = cl.bad
		}
		if !cl.more && cl.adv > 0 && cl.adv <= n {
			pos += cl.adv
		}
	}
	line := fmt.Sprintf("hist %s %s", common.Hex(doc), common.Join(spec, ","))
	r.Line(line, common.Join(obs, ","))
	r.Case(line, true, "hist")
	if strings.HasPrefix(bad, "panic") {
		r.Fail("no-panic", "split-call", []string{r.Prop + " " + line}, bad)
	} else if bad != "" {
		r.Fail("prefix", "split-result", []string{r.Prop + " " + line}, bad)
	}
}

// ---- generators ----------------------------------------------------------------

var small = []byte{'*', '_', '`', '~', '>', ' ', '\n', 'a'}

func enumerate(alpha []byte, n int, f func([]byte)) {
	buf := make([]byte, n)
	var rec func(i int)
	rec = func(i int) {
		if i == n {
			f(append([]byte(nil), buf...))
			return
		}
		for _, c := range alpha {
			buf[i] = c
			rec(i + 1)
		}
	}
	rec(0)
}

// compositions lists every way of cutting n bytes into reads.
func compositions(n int) [][]int {
	if n <= 1 {
		return [][]int{{1}}
	}
	var out [][]int
	for m := 0; m < 1<<(n-1); m++ {
		var sz []int
		run := 1
		for i := 0; i < n-1; i++ {
			if m>>i&1 == 1 {
				sz = append(sz, run)
				run = 1
			} else {
				run++
			}
		}
		sz = append(sz, run)
		out = append(out, sz)
	}
	return out
}

var symbols = []string{"*", "_", "`", "~", ">", " ", "\n", "a", "b", "*", "_", "`", ">", " ", "\n",
	"```", "```\n", "> ", ">> ", "```go\n", "\t", "\u00a0", "\u0085", "\u1680", "\u2003", "\u3000", "\u2028", "\u205f",
	"\xe2", "\xe2\x80", "\xc2", "\xff", "\x80", "\xe3\x80", "\u00e9", "\u4e16", "\r", "**", "~~", "x y", "\u200b", "\xf0\x9f",
	"\ufeff", "\xef\xbb", "\xef", "\xef\xbb\xbe", "\uff01", "\ufffd", "\u200c", "\u200d", "\u2060", "\ufeff> ", "\ufeff```"}

func genDoc(rnd *common.Rand, maxSym int) []byte {
	n := rnd.Intn(maxSym + 1)
	var b []byte
	restrict := rnd.Intn(3) // 0: everything, 1: ascii directive alphabet, 2: quotes and fences favoured
	for i := 0; i < n; i++ {
		switch restrict {
		case 1:
			b = append(b, symbols[rnd.Intn(15)]...)
		case 2:
			if rnd.Chance(1, 2) {
				b = append(b, symbols[15+rnd.Intn(5)]...)
			} else {
				b = append(b, symbols[rnd.Intn(len(symbols))]...)
			}
		default:
			b = append(b, symbols[rnd.Intn(len(symbols))]...)
		}
	}
	return b
}

func genSched(rnd *common.Rand) sched {
	s := sched{dataEOF: rnd.Chance(1, 3)}
	if rnd.Chance(1, 5) {
		s.stalls = 1 + rnd.Intn(3)
	}
	n := 1 + rnd.Intn(4)
	for i := 0; i < n; i++ {
		k := 1 + rnd.Intn(3)
		if rnd.Chance(1, 6) {
			k = 1 + rnd.Intn(40)
		}
		s.sizes = append(s.sizes, k)
	}
	return s
}

var stdScheds = []sched{{sizes: []int{1}}, {sizes: []int{2}}, {sizes: []int{3}}, {sizes: []int{7}}, {sizes: []int{4096}},
	{dataEOF: true}, {sizes: []int{1}, dataEOF: true}, {sizes: []int{2, 1}, dataEOF: true}}

var corpus = []string{
	">  x\n", ">  x", ">\n x", "> \u2003x", ">\u2003\u2003x\n", ">\u00a0x", "*a*>  b\n", ">> a\n> b\nc\n", "> a\n>> b\n",
	"```\n```\n", "```\nabc\ndef", "```\n```abc\nxyz", "```\n```", "```go\ncode\n```\nafter", "```", "``", "```\n``",
	"> ```\n> code\n> ```\nplain\n", "> ```x\n```\n", "*strong* _emph_ ~strike~ `pre`\n", "*a _b* c_\n", "*a `b* c`\n",
	"`a *b* c`\n", "* a*\n", "**\n", "*a*", "*a", "*\n", "_*a*_", "*_a_*\n", "*a**\n", "> *a\n> b*\n", "> *>a*\n",
	">> *>  a*\n", "\xe2", ">\xe2", "> \xe2\x80", "*\u2003a*\n", "*a\u2003*\n", "a\u2003*b*\n", "a\xe2\x80*b*\n", "",
	"\n", "\n\n", ">", ">\n", "> \n> \n", "a\n> b\nc", "~a~~b~\n", "*a*\n*b\n", "> a\n```\n> b\n```\n", "```\n> a\n```\n",
	"> a\n```info\nx\n", ">> a\nb\n", "``` `a`\n", "``` *a*", "```\n```\nx", "> ```\n> ```abc\n> x", "~a~~b~\n",
	"\ufeff", "\ufeff> a\n", "\ufeff```\ncode\n```\n", "\ufeff*a*\n", "\ufeffa", "\xef\xbb", "\xef", "\xef\xbb> a", "\xef> a",
	"\ufeff\ufeff> x", "a\ufeff> b\n", "> \ufeff> b\n", "\xef\xbb\xbe> a", "\uff01> a\n", "\u200b> a\n", "\u2060*a*\n", "\u200d```\n", "\n\ufeff> a\n",
	"*_~`x`~_*", "> *a _b ~c `d` e~ f_ g* h\nplain *strong*\n", "~_*`x`*_~\n", "*_~`x`~_", ">>>> *_a_*\n> b\nc\n", ">> ```\n>> x\n> y\n",
	">\u00a0x", ">\u3000\u3000", "> \xe3\x80", "*a _b *c* d_ e*\n", "_a *b* c_ *d*\n", "`a` `b`\n", "`*a*`*b*\n",
}

func (c *ctx) longDocs() {
	r := c.r
	// documents around the scanner's initial buffer (4096) and token limit (65536)
	mk := func(prefix string, n int, suffix string) []byte {
		return []byte(prefix + strings.Repeat("a", n) + suffix)
	}
	docs := [][]byte{
		mk("", 4095, "\n> x\n"), mk("", 4094, ">  x\n"), mk("", 4090, "\n>     x\n"), mk("*", 5000, "*\nrest"),
		mk("", 70000, ""), mk("> ", 66000, "\nnext\n"), mk("```\n", 70000, "\n```\n"), mk("*", 65534, "*"),
		[]byte(">" + strings.Repeat(" ", 5000) + "x\n"), mk("", 65535, "\n"), mk("", 65536, "\n"), mk("", 65537, "\n"),
	}
	for _, d := range docs {
		c.doc(d, []sched{{sizes: []int{1000}}, {dataEOF: true}, {sizes: []int{4096}, dataEOF: true}}, 1, "long")
		c.splitDoc(d, sched{}, 0)
	}
	_ = r
}

// longProbe decodes prefix + n*"a" + suffix (one very long line) under the single-read
// delivery and one with EOF on the last read; the model line is emitted only when withModel.
func (c *ctx) longProbe(prefix string, n int, suffix string, withModel bool) {
	r := c.r
	if c.hung {
		return
	}
	doc := make([]byte, 0, len(prefix)+n+len(suffix))
	doc = append(doc, prefix...)
	for i := 0; i < n; i++ {
		doc = append(doc, 'a')
	}
	doc = append(doc, suffix...)
	mk := func(res decRes, s sched) string {
		return fmt.Sprintf("longdec %s %d %s %s %s -", common.HexS(prefix), n, common.HexS(suffix), ints(res.got), common.B(s.dataEOF))
	}
	refS := sched{}
	ref := decode(doc, refS)
	refLine := mk(ref, refS)
	if withModel {
		r.Line(refLine, ref.obs())
	}
	c.clauses(doc, refS, ref, refLine)
	r.Case(fmt.Sprintf("longdec %q %d %q", prefix, n, suffix), true, "long-probe")
	s2 := sched{sizes: []int{1 << 20}, dataEOF: true}
	res := decode(doc, s2)
	line := mk(res, s2)
	c.clauses(doc, s2, res, line)
	if res.panic == "" && !res.hung && ref.panic == "" && res.obs() != ref.obs() {
		r.Fail("chunk-independent", divergenceKey(ref.evs, res.evs), []string{r.Prop + " " + refLine, r.Prop + " " + line},
			fmt.Sprintf("long line probe %q+%d*a+%q: one read gives %.200s, reads of 1 MiB give %.200s", prefix, n, suffix, ref.obs(), res.obs()))
	}
}

// longProbes: lines far beyond bufio's default token limit, so that any cap NewDecoder puts
// on its scanner below the largest probe shows as a concrete failing input; when the source
// shows a finite cap (DecoderLimit) a line just above that cap is probed as well.
func (c *ctx) longProbes() {
	c.longProbe("", 70<<10, "", true)
	c.longProbe("> *", 200<<10, "*\nnext", true)
	c.longProbe("", 3<<20, "\n", true)
	c.longProbe("```\n", 3<<20, "", false)
	c.longProbe("", 40<<20, "", false)
	if known, unb, n := DecoderLimit(repoDir()); known && !unb {
		c.r.Notes = append(c.r.Notes, fmt.Sprintf("NewDecoder limits tokens to %d bytes", n))
		if n <= 256<<20 {
			c.longProbe("", int(n)+1, "", false)
		}
	}
}

// Run is the C17 runner.
func Run(r *common.Run) error {
	c := &ctx{r: r}
	if r.Replay != "" {
		lines, err := common.ReplayLines(r.Replay)
		if err != nil {
			return err
		}
		for _, l := range lines {
			f := strings.Fields(l)
			if len(f) < 3 || f[0] != "C17" {
				continue
			}
			doc, _ := common.UnHex(f[2])
			switch f[1] {
			case "longdec":
				if len(f) < 8 {
					continue
				}
				n, _ := strconv.Atoi(f[3])
				suf, _ := common.UnHex(f[4])
				c.longProbe(string(doc), n, string(suf), n <= 4<<20)
			case "dec", "split":
				if len(f) < 6 {
					continue
				}
				var s sched
				if f[3] != "-" {
					for _, x := range strings.Split(f[3], ",") {
						n, _ := strconv.Atoi(x)
						s.sizes = append(s.sizes, n)
					}
					// the recorded sizes are played back exactly; what is left comes in one read
					s.sizes = append(s.sizes, 1<<30)
				}
				s.dataEOF = f[4] == "1"
				if f[1] == "dec" {
					c.doc(doc, append(append([]sched{s}, stdScheds...), sched{sizes: s.sizes, dataEOF: s.dataEOF, stalls: 1}, sched{sizes: s.sizes, dataEOF: s.dataEOF, stalls: 3}), 1+len(stdScheds), "replay")
				} else {
					lim, _ := strconv.Atoi(f[5])
					if lim == bufio.MaxScanTokenSize {
						lim = 0
					}
					c.splitDoc(doc, s, lim)
				}
			case "sess":
				if decs, ops, ok := parseSess(f); ok {
					c.session(decs, replayScript(ops), "replay")
				}
			case "hist":
				if len(f) < 4 {
					continue
				}
				var lens []int
				var eofs []bool
				if f[3] != "-" {
					for _, x := range strings.Split(f[3], ",") {
						p := strings.Split(x, ":")
						if len(p) != 2 {
							continue
						}
						n, _ := strconv.Atoi(p[0])
						lens = append(lens, n)
						eofs = append(eofs, p[1] == "1")
					}
				}
				c.hist(doc, lens, eofs)
			}
		}
		return nil
	}

	// 1. corpus of past witnesses and the repo's own test inputs
	for _, s := range corpus {
		d := []byte(s)
		c.doc(d, append(append([]sched(nil), stdScheds...), sched{sizes: []int{1}, stalls: 1}, sched{sizes: []int{3}, stalls: 3}, sched{sizes: []int{2, 1}, dataEOF: true, stalls: 2}), len(stdScheds), "corpus")
		for _, sc := range []sched{{}, {sizes: []int{1}}, {sizes: []int{2}, dataEOF: true}} {
			c.splitDoc(d, sc, 0)
			c.splitDoc(d, sc, 8)
		}
	}
	c.longDocs()
	c.longProbes()

	// 1b. sessions: several decoders alive at once and used alternately, calls after the end,
	// SkipSpan/SkipBlock (session.go)
	c.sessions_()

	// 1c. nesting depth: documents generated from the grammar (nest.go)
	c.nests()
	c.quoteCost()

	// 2. small scope, exhaustive: every document up to length L over the directive alphabet
	// under every way of cutting it into reads, with and without EOF on the last read
	maxLen := r.Pick(4, 6)
	for n := 0; n <= maxLen; n++ {
		comps := compositions(n)
		var scheds []sched
		for _, sz := range comps {
			scheds = append(scheds, sched{sizes: append(append([]int(nil), sz...), 1<<30)}, sched{sizes: append(append([]int(nil), sz...), 1<<30), dataEOF: true})
		}
		if n == 0 {
			scheds = []sched{{dataEOF: true}}
		}
		enumerate(small, n, func(d []byte) {
			// model lines: the reference and, rotating through them, two of the schedules
			k := r.Rnd.Intn(len(scheds))
			sc := append([]sched{scheds[k], scheds[(k+1)%len(scheds)]}, scheds...)
			c.doc(d, sc, r.Pick(2, 2), "exhaustive")
			if n <= 4 {
				c.splitDoc(d, scheds[k], 0)
			}
		})
	}
	r.Exhaustive = append(r.Exhaustive, fmt.Sprintf("all documents of length <= %d over %q x all cuts into reads x EOF with/after the last read (oracle on all, model tie on the reference and two schedules each)", maxLen, small))

	// 2b. byte order mark and its neighbours: every document up to length L over the bytes of
	// the BOM, a sibling byte, and the block starters, under every cut into reads; and every
	// 1..3 byte prefix of the BOM, of sequences sharing a prefix with it and of zero-width
	// characters, in front of every kind of first line, under every cut
	bomAlpha := []byte{0xef, 0xbb, 0xbf, 0xbe, '>', ' ', '`', '\n', 'a'}
	bomLen := r.Pick(4, 5)
	allScheds := func(n int) []sched {
		if n == 0 {
			return []sched{{dataEOF: true}}
		}
		var out []sched
		for _, sz := range compositions(n) {
			out = append(out, sched{sizes: append(append([]int(nil), sz...), 1<<30)}, sched{sizes: append(append([]int(nil), sz...), 1<<30), dataEOF: true})
		}
		return out
	}
	for n := 1; n <= bomLen; n++ {
		scheds := allScheds(n)
		enumerate(bomAlpha, n, func(d []byte) {
			if d[0] < 0x80 && !bytes.Contains(d, []byte{0xef}) {
				return // covered by the directive alphabet
			}
			k := r.Rnd.Intn(len(scheds))
			c.doc(d, append([]sched{scheds[k]}, scheds...), 1, "exhaustive-bom")
			if n <= 3 {
				c.splitDoc(d, scheds[k], 0)
			}
		})
	}
	heads := []string{"\xef\xbb\xbf", "\xef\xbb\xbe", "\xef\xbc\x81", "\xef\xbf\xbd", "\xe2\x80\x8b", "\xe2\x80\x8d", "\xe2\x81\xa0", "\xe2\x80\x83"}
	tails := []string{"", ">", "> a\n", "```\n", "*a*\n", "\n", "a", ">> "}
	for _, h := range heads {
		for cut := 1; cut <= len(h); cut++ {
			for _, t := range tails {
				for _, pre := range []string{"", "\n"} {
					d := []byte(pre + h[:cut] + t)
					scheds := allScheds(len(d))
					c.doc(d, append([]sched{scheds[len(scheds)-1], scheds[0]}, scheds...), 2, "bom-family")
					c.splitDoc(d, sched{sizes: []int{1}}, 0)
				}
			}
		}
	}
	r.Exhaustive = append(r.Exhaustive, fmt.Sprintf("all documents of length <= %d over % x containing EF x all cuts x EOF with/after; every 1..3 byte prefix of %d three-byte heads (BOM, siblings, zero-width) x %d first lines x all cuts", bomLen, bomAlpha, len(heads), len(tails)))

	// 3. direct split-function call sequences (arbitrary windows, not only bufio's discipline)
	rnd := r.Rnd
	nHist := r.Pick(3000, 40000)
	for i := 0; i < nHist && !c.hung; i++ {
		d := genDoc(rnd, 14)
		var lens []int
		var eofs []bool
		for k := 0; k < 2*len(d)+4; k++ {
			lens = append(lens, rnd.Intn(len(d)+2))
			eofs = append(eofs, rnd.Chance(1, 5))
		}
		c.hist(d, lens, eofs)
	}

	// 4. random documents under random schedules
	nRandom := r.Pick(4000, 60000)
	for i := 0; i < nRandom && !c.hung; i++ {
		maxSym := 12
		if i%8 == 0 {
			maxSym = 60
		}
		d := genDoc(rnd, maxSym)
		if i%500 == 0 {
			// a document crossing the scanner's initial buffer
			pad := 4096 - 8 + rnd.Intn(16) - len(d)/2
			if pad < 0 {
				pad = 0
			}
			d = append(append(append([]byte(nil), d[:len(d)/2]...), bytes.Repeat([]byte("a"), pad)...), d[len(d)/2:]...)
		}
		scheds := []sched{genSched(rnd), genSched(rnd), {sizes: []int{1}}, {dataEOF: true}}
		c.doc(d, scheds, 2, "random")
		if i%4 == 0 {
			lim := 0
			if rnd.Chance(1, 3) {
				lim = 4 + rnd.Intn(12)
			}
			c.splitDoc(d, genSched(rnd), lim)
		}
	}
	if c.hung {
		r.Notes = append(r.Notes, "a decode hung; the run was cut short")
	} else if !r.Quick() {
		// last: a decoder that does not finish keeps its goroutine busy until the process ends
		c.deepQuote(40000)
	}
	r.Extra["decoder_split_calls_judged"] = c.judged
	r.Extra["max_span_depth"] = c.maxSpanDepth
	r.Extra["max_quote_depth"] = c.maxQuoteDepth
	if c.unhooked > 0 {
		r.Notes = append(r.Notes, fmt.Sprintf("%d decodes: the Decoder's scanner could not be hooked (layout changed); its split calls were not judged, only the returned tokens", c.unhooked))
	}
	return nil
}

// DecoderLimit reads the token size limit NewDecoder gives its bufio.Scanner from the
// source: the call `<scanner>.Buffer(buf, max)` inside func NewDecoder, with `max` (and the
// capacity of a `make([]byte, n, c)` first argument) evaluated as typed constants.
// known=false: the shape was not recognised; unbounded=true: the limit is math.MaxInt or
// more; otherwise n is the limit (bufio.MaxScanTokenSize when Buffer is never called).
func DecoderLimit(repo string) (known, unbounded bool, n uint64) {
	if known, unbounded, n = probeDecoderLimit(); known {
		return known, unbounded, n
	}
	return decoderLimitAST(repo)
}

// probeDecoderLimit (round E, review C17-2a) asks the value, not the source: the Decoder the
// real NewDecoder returns is searched (reflect, any field name, through pointers and nested
// structs of package styling) for its *bufio.Scanner, whose token limit is read from the
// scanner itself.  Where the Buffer call is written (NewDecoder, a helper, another file) and
// how its argument is spelled does not matter.  known=false: no scanner or more than one, or
// bufio.Scanner has no maxTokenSize field any more (then the source reader below is used).
func probeDecoderLimit() (known, unbounded bool, n uint64) {
	defer func() {
		if recover() != nil {
			known = false
		}
	}()
	d := styling.NewDecoder(bytes.NewReader(nil))
	var found []reflect.Value
	seen := map[uintptr]bool{}
	var walk func(v reflect.Value, depth int)
	walk = func(v reflect.Value, depth int) {
		if depth > 6 || !v.IsValid() {
			return
		}
		switch v.Kind() {
		case reflect.Ptr:
			if v.IsNil() || seen[v.Pointer()] {
				return
			}
			seen[v.Pointer()] = true
			if v.Type() == reflect.TypeOf(&bufio.Scanner{}) {
				found = append(found, v.Elem())
				return
			}
			if v.Elem().Kind() == reflect.Struct {
				walk(v.Elem(), depth+1)
			}
		case reflect.Struct:
			if v.Type() == reflect.TypeOf(bufio.Scanner{}) {
				found = append(found, v)
				return
			}
			for i := 0; i < v.NumField(); i++ {
				f := v.Field(i)
				if f.CanAddr() {
					f = reflect.NewAt(f.Type(), unsafe.Pointer(f.UnsafeAddr())).Elem()
				}
				walk(f, depth+1)
			}
		case reflect.Interface:
			if !v.IsNil() {
				walk(v.Elem(), depth+1)
			}
		}
	}
	walk(reflect.ValueOf(d), 0)
	if len(found) != 1 {
		return false, false, 0
	}
	f := found[0].FieldByName("maxTokenSize")
	if !f.IsValid() || f.Kind() != reflect.Int {
		return false, false, 0
	}
	v := f.Int()
	if v >= math.MaxInt64>>1 {
		return true, true, 0
	}
	if v < 0 {
		return false, false, 0
	}
	// "the maximum token size is the larger of max and cap(buf)"
	if b := found[0].FieldByName("buf"); b.IsValid() && b.Kind() == reflect.Slice && int64(b.Cap()) > v {
		v = int64(b.Cap())
	}
	return true, false, uint64(v)
}

// decoderLimitAST: the source reader of the earlier rounds (fallback only).
func decoderLimitAST(repo string) (known, unbounded bool, n uint64) {
	fset := token.NewFileSet()
	f, err := parser.ParseFile(fset, filepath.Join(repo, "styling", "styling.go"), nil, 0)
	if err != nil {
		return false, false, 0
	}
	info := &types.Info{Types: map[ast.Expr]types.TypeAndValue{}}
	conf := types.Config{Importer: importer.ForCompiler(fset, "source", nil), Error: func(error) {}}
	_, _ = conf.Check("styling", fset, []*ast.File{f}, info)
	constOf := func(e ast.Expr) (uint64, bool, bool) { // value, isConst, atLeastMaxInt
		tv, ok := info.Types[e]
		if !ok || tv.Value == nil || tv.Value.Kind() != constant.Int {
			return 0, false, false
		}
		if constant.Compare(tv.Value, token.GEQ, constant.MakeInt64(math.MaxInt64)) {
			return 0, true, true
		}
		v, exact := constant.Uint64Val(tv.Value)
		if !exact {
			return 0, false, false
		}
		return v, true, false
	}
	var fn *ast.FuncDecl
	for _, d := range f.Decls {
		if fd, ok := d.(*ast.FuncDecl); ok && fd.Name.Name == "NewDecoder" && fd.Recv == nil {
			fn = fd
		}
	}
	if fn == nil || fn.Body == nil {
		return false, false, 0
	}
	var calls []*ast.CallExpr
	ast.Inspect(fn.Body, func(nd ast.Node) bool {
		if c, ok := nd.(*ast.CallExpr); ok {
			if sel, ok := c.Fun.(*ast.SelectorExpr); ok && sel.Sel.Name == "Buffer" {
				calls = append(calls, c)
			}
		}
		return true
	})
	switch len(calls) {
	case 0:
		// bufio.NewScanner's default
		return true, false, bufio.MaxScanTokenSize
	case 1:
	default:
		return false, false, 0
	}
	c := calls[0]
	if len(c.Args) != 2 {
		return false, false, 0
	}
	max, ok, big := constOf(c.Args[1])
	if !ok {
		return false, false, 0
	}
	if big {
		return true, true, 0
	}
	// "the maximum token size is the larger of max and cap(buf)"
	switch a := c.Args[0].(type) {
	case *ast.Ident:
		if a.Name != "nil" {
			return false, false, 0
		}
	case *ast.CallExpr:
		id, isMake := a.Fun.(*ast.Ident)
		if !isMake || id.Name != "make" || len(a.Args) < 2 {
			return false, false, 0
		}
		cp, ok, big := constOf(a.Args[len(a.Args)-1])
		if !ok {
			return false, false, 0
		}
		if big {
			return true, true, 0
		}
		if cp > max {
			max = cp
		}
	default:
		return false, false, 0
	}
	return true, false, max
}

func repoDir() string {
	if d := os.Getenv("VERIF_REPO"); d != "" {
		return d
	}
	return "/repo"
}

// Facts regenerates lean/XmppModel/Generated/C17.lean: the UTF-8 encodings of all runes
// the real code treats as white space (every rune evaluated through the split function:
// ">" + rune + "x" at EOF is a prefix of 1+len(rune) bytes exactly when isSpace is true),
// the values of the exported Style constants, and the code fence as a probe table.
func Facts(repo string) (string, error) {
	var sb strings.Builder
	sb.WriteString("-- GENERATED by `harness facts C17` from styling/styling.go; do not edit.\n")
	sb.WriteString("namespace XmppModel.Generated.C17\n\n")

	var encs []string
	bad := false
	for r := rune(0); r <= utf8.MaxRune; r++ {
		if r >= 0xD800 && r <= 0xDFFF {
			continue
		}
		enc := []byte(string(r))
		doc := append(append([]byte{'>'}, enc...), 'x')
		c := oneCall(styling.Scan(), doc, true)
		switch {
		case c.panic || c.more || c.bad != "":
			bad = true
		case c.adv == 1+len(enc):
			var el []string
			for _, b := range enc {
				el = append(el, fmt.Sprintf("0x%02x", b))
			}
			encs = append(encs, "["+strings.Join(el, ", ")+"]")
		case c.adv != 1:
			bad = true
		}
	}
	if bad {
		sb.WriteString("def spaceEncs : Option (List (List UInt8)) := none\n\n")
	} else {
		fmt.Fprintf(&sb, "/-- encodings of every rune for which the real block quote prefix scan treats the rune as white space (all %d runes evaluated) -/\ndef spaceEncs : Option (List (List UInt8)) := some [\n  %s]\n\n", utf8.MaxRune+1-0x800, strings.Join(encs, ",\n  "))
	}

	consts := []styling.Style{styling.BlockPre, styling.BlockQuote, styling.SpanEmph, styling.SpanStrong, styling.SpanStrike, styling.SpanPre,
		styling.BlockPreStart, styling.BlockPreEnd, styling.BlockQuoteStart, styling.BlockQuoteEnd, styling.SpanEmphStart, styling.SpanEmphEnd,
		styling.SpanStrongStart, styling.SpanStrongEnd, styling.SpanStrikeStart, styling.SpanStrikeEnd, styling.SpanPreStart, styling.SpanPreEnd}
	var cl []string
	for _, k := range consts {
		cl = append(cl, strconv.Itoa(int(k)))
	}
	fmt.Fprintf(&sb, "/-- values of the exported Style constants, in declaration order -/\ndef styleConsts : Option (List Nat) := some [%s]\n\n", strings.Join(cl, ", "))

	// the code fence, probed: for every byte value b and n = 1..5, does a line of n x b followed
	// by "x\n" open a pre block in the real decoder?
	var fp []string
	probeOK := true
	for b := 0; b < 256 && probeOK; b++ {
		for n := 1; n <= 5; n++ {
			doc := append(bytes.Repeat([]byte{byte(b)}, n), 'x', '\n')
			res := decode(doc, sched{})
			if res.panic != "" || res.hung || len(res.evs) == 0 {
				probeOK = false
				break
			}
			if res.evs[0].style&styling.BlockPreStart != 0 {
				fp = append(fp, fmt.Sprintf("(%d, %d)", b, n))
			}
		}
	}
	if probeOK {
		fmt.Fprintf(&sb, "/-- every (byte b, n <= 5) for which a line of n x b + \"x\" opens a pre block in the real decoder (all 256 x 5 probed) -/\ndef fenceProbe : Option (List (Nat × Nat)) := some [%s]\n", strings.Join(fp, ", "))
	} else {
		sb.WriteString("def fenceProbe : Option (List (Nat × Nat)) := none\n")
	}
	sb.WriteString("\n/-- the token size limit `NewDecoder` gives its scanner (second argument of `Buffer`, or the\ncapacity of its first argument if larger; `some none` = math.MaxInt or more, i.e. unbounded;\n`none` = the call has a shape the extractor does not recognise) -/\n")
	switch known, unb, n := DecoderLimit(repo); {
	case !known:
		sb.WriteString("def decoderLimit : Option (Option Nat) := none\n")
	case unb:
		sb.WriteString("def decoderLimit : Option (Option Nat) := some none\n")
	default:
		fmt.Fprintf(&sb, "def decoderLimit : Option (Option Nat) := some (some %d)\n", n)
	}
	fmt.Fprintf(&sb, "\n/-- the derived masks SkipSpan/SkipBlock test: StartDirective, EndDirective, BlockStartDirective, BlockEndDirective -/\ndef directiveMasks : Option (List Nat) := some [%d, %d, %d, %d]\n",
		uint32(styling.StartDirective), uint32(styling.EndDirective), uint32(styling.BlockStartDirective), uint32(styling.BlockEndDirective))
	sb.WriteString("\n/-- package level variables of package styling that the decoder's code uses and that are not\nread-only (assigned, address taken, method called on it, handed to a function that is not a pure\nstandard library predicate, aliased): state shared by all decoders of the process.\n`none` = the package could not be analysed -/\n")
	if names, ok := SharedState(repo); ok {
		q := make([]string, len(names))
		for i, n := range names {
			q[i] = strconv.Quote(n)
		}
		fmt.Fprintf(&sb, "def sharedState : Option (List String) := some [%s]\n", strings.Join(q, ", "))
	} else {
		sb.WriteString("def sharedState : Option (List String) := none\n")
	}
	sb.WriteString("\n/-- nesting depth, probed: for every sequence of span kinds of length 1..4 over * _ ~ ` (in\nlexicographic order, shortest first) the real decoder is run on the spans opened one inside the\nother around \"x\" and closed again; the entry is the largest number of span styles that were on at\nonce in a returned style.  `none` = a decoding panicked, hung or did not reach the end -/\n")
	if depths, ok := nestProbe(); ok {
		fmt.Fprintf(&sb, "def nestProbe : Option (List Nat) := some [%s]\n", ints(depths))
	} else {
		sb.WriteString("def nestProbe : Option (List Nat) := none\n")
	}
	sb.WriteString("\nend XmppModel.Generated.C17\n")
	return sb.String(), nil
}
