package c17

import (
	"go/ast"
	"go/importer"
	"go/parser"
	"go/token"
	"go/types"
	"os"
	"path/filepath"
	"sort"
	"strings"
)

// SharedState lists the package level variables of package styling that the decoder's code
// (NewDecoder, Scan, every method of Decoder and the package functions they reach, closures
// and method values included) uses and that are not read-only: somewhere in the package
// the variable is assigned, has its address taken, has a method called on it, is passed to a
// function that is not a pure standard library predicate, or is aliased.  Such a variable is
// state that all decoders of the process share; the model has none.  Nothing here depends on
// the names of variables, fields or helpers (only on the exported API names).
// ok=false: the package could not be parsed.
func SharedState(repo string) (names []string, ok bool) {
	dir := filepath.Join(repo, "styling")
	ents, err := os.ReadDir(dir)
	if err != nil {
		return nil, false
	}
	fset := token.NewFileSet()
	var files []*ast.File
	for _, e := range ents {
		n := e.Name()
		if e.IsDir() || !strings.HasSuffix(n, ".go") || strings.HasSuffix(n, "_test.go") {
			continue
		}
		f, err := parser.ParseFile(fset, filepath.Join(dir, n), nil, 0)
		if err != nil {
			return nil, false
		}
		files = append(files, f)
	}
	if len(files) == 0 {
		return nil, false
	}
	info := &types.Info{Types: map[ast.Expr]types.TypeAndValue{}, Uses: map[*ast.Ident]types.Object{}, Defs: map[*ast.Ident]types.Object{}}
	conf := types.Config{Importer: importer.ForCompiler(fset, "source", nil), Error: func(error) {}}
	pkg, _ := conf.Check("mellium.im/xmpp/styling", fset, files, info)
	if pkg == nil {
		return nil, false
	}
	isPkgVar := func(o types.Object) bool {
		v, ok := o.(*types.Var)
		return ok && !v.IsField() && v.Parent() == pkg.Scope()
	}

	// function declarations by object, roots, reachability over references to package functions
	decls := map[types.Object]*ast.FuncDecl{}
	var roots []*ast.FuncDecl
	for _, f := range files {
		for _, d := range f.Decls {
			fd, ok := d.(*ast.FuncDecl)
			if !ok || fd.Body == nil {
				continue
			}
			decls[info.Defs[fd.Name]] = fd
			switch {
			case fd.Recv == nil && (fd.Name.Name == "NewDecoder" || fd.Name.Name == "Scan"):
				roots = append(roots, fd)
			case fd.Recv != nil && len(fd.Recv.List) == 1:
				t := fd.Recv.List[0].Type
				if s, ok := t.(*ast.StarExpr); ok {
					t = s.X
				}
				if id, ok := t.(*ast.Ident); ok && (id.Name == "Decoder" || id.Name == "Token" || id.Name == "Style") {
					roots = append(roots, fd)
				}
			}
		}
	}
	if len(roots) == 0 {
		return nil, false
	}
	reach := map[*ast.FuncDecl]bool{}
	var visit func(fd *ast.FuncDecl)
	visit = func(fd *ast.FuncDecl) {
		if reach[fd] {
			return
		}
		reach[fd] = true
		ast.Inspect(fd.Body, func(n ast.Node) bool {
			if id, ok := n.(*ast.Ident); ok {
				if callee, ok := decls[info.Uses[id]]; ok {
					visit(callee)
				}
			}
			return true
		})
	}
	for _, fd := range roots {
		visit(fd)
	}

	basic := func(t types.Type) bool {
		if t == nil {
			return false
		}
		switch u := t.Underlying().(type) {
		case *types.Basic:
			return true
		case *types.Tuple:
			for i := 0; i < u.Len(); i++ {
				if _, ok := u.At(i).Type().Underlying().(*types.Basic); !ok {
					return false
				}
			}
			return true
		}
		return false
	}
	elemBasic := func(t types.Type) bool {
		if t == nil {
			return false
		}
		switch u := t.Underlying().(type) {
		case *types.Slice:
			return basic(u.Elem())
		case *types.Array:
			return basic(u.Elem())
		case *types.Map:
			return basic(u.Elem())
		case *types.Basic:
			return u.Info()&types.IsString != 0
		}
		return false
	}
	pureStd := map[string]bool{"bytes": true, "strings": true, "unicode": true, "unicode/utf8": true}

	// readOnly: is this use (the ident is the last node of stack) a read that neither changes
	// the variable nor lets it or its elements escape?
	readOnly := func(stack []ast.Node, v *types.Var) bool {
		i := len(stack) - 1
		node := ast.Node(stack[i])
		isElem := false // node now denotes an element / a value copied out of the variable
		for i > 0 {
			parent := stack[i-1]
			switch p := parent.(type) {
			case *ast.ParenExpr:
			case *ast.CallExpr:
				if p.Fun == node {
					return false // calling a function variable: its behaviour is whatever was stored
				}
				if tv, ok := info.Types[p.Fun]; ok && tv.IsType() {
					return basic(tv.Type) // conversion such as string(v): a copy
				}
				if id, ok := p.Fun.(*ast.Ident); ok {
					if _, isBuiltin := info.Uses[id].(*types.Builtin); isBuiltin && (id.Name == "len" || id.Name == "cap") {
						return true
					}
				}
				if sel, ok := p.Fun.(*ast.SelectorExpr); ok {
					if x, ok := sel.X.(*ast.Ident); ok {
						if pn, ok := info.Uses[x].(*types.PkgName); ok && pureStd[pn.Imported().Path()] {
							if tv, ok := info.Types[p]; ok && basic(tv.Type) {
								return true
							}
						}
					}
				}
				return isElem
			case *ast.IndexExpr:
				if p.X != node {
					return true // used as an index: a value
				}
				if !isElem && !elemBasic(v.Type()) {
					return false
				}
				isElem = true
			case *ast.SliceExpr:
				if p.X != node {
					return true
				}
				if isElem {
					return true
				}
			case *ast.RangeStmt:
				if p.X == node {
					return isElem || elemBasic(v.Type()) || basic(v.Type())
				}
				return false // range key/value position: assigned
			case *ast.BinaryExpr:
				return true
			case *ast.UnaryExpr:
				if p.Op == token.AND || p.Op == token.ARROW {
					return false
				}
				return true
			case *ast.IncDecStmt:
				return false
			case *ast.AssignStmt:
				for _, l := range p.Lhs {
					if l == node {
						return false
					}
				}
				return isElem || basic(v.Type())
			case *ast.ValueSpec:
				return isElem || basic(v.Type())
			case *ast.SelectorExpr:
				return false // field or method of the variable: may write, may alias
			case *ast.StarExpr:
				return false
			case *ast.KeyValueExpr, *ast.CompositeLit, *ast.ReturnStmt, *ast.SendStmt:
				return isElem || basic(v.Type())
			case *ast.IfStmt, *ast.SwitchStmt, *ast.CaseClause, *ast.ForStmt, *ast.ExprStmt:
				return true
			default:
				return isElem || basic(v.Type())
			}
			node = parent
			i--
		}
		return false
	}

	used := map[*types.Var]bool{}
	dirty := map[*types.Var]bool{}
	for _, f := range files {
		var stack []ast.Node
		var cur *ast.FuncDecl
		ast.Inspect(f, func(n ast.Node) bool {
			if n == nil {
				if fd, ok := stack[len(stack)-1].(*ast.FuncDecl); ok && fd == cur {
					cur = nil
				}
				stack = stack[:len(stack)-1]
				return true
			}
			stack = append(stack, n)
			if fd, ok := n.(*ast.FuncDecl); ok {
				cur = fd
			}
			id, ok := n.(*ast.Ident)
			if !ok {
				return true
			}
			o := info.Uses[id]
			if o == nil || !isPkgVar(o) {
				return true
			}
			v := o.(*types.Var)
			if cur != nil && reach[cur] {
				used[v] = true
			}
			if !readOnly(stack, v) {
				dirty[v] = true
			}
			return true
		})
	}
	// a package level variable initialised from another one inherits its uses: keep it simple
	// and conservative, anything used and dirty is reported
	names = []string{}
	for v := range used {
		if dirty[v] {
			names = append(names, v.Name())
		}
	}
	sort.Strings(names)
	return names, true
}
