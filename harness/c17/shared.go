package c17

import (
	"go/ast"
	"go/importer"
	"go/parser"
	"go/token"
	"go/types"
	"os"
	"path/filepath"
	"sort"
	"strings"
)

// SharedState lists the package level variables of package styling that the decoder's code
// (NewDecoder, Scan, every method of Decoder and the package functions they reach, closures
// and method values included) uses and that are not read-only: somewhere in the package
// the variable is assigned, has its address taken, has a method called on it, is passed to a
// function that is not a pure standard library predicate, or is aliased.  Such a variable is
// state that all decoders of the process share; the model has none.  Nothing here depends on
// the names of variables, fields or helpers (only on the exported API names).
// ok=false: the package could not be parsed.
func SharedState(repo string) (names []string, ok bool) {
	dir := filepath.Join(repo, "styling")
	ents, err := os.ReadDir(dir)
	if err != nil {
		return nil, false
	}
	fset := token.NewFileSet()
	var files []*ast.File
	for _, e := range ents {
		n := e.Name()
		if e.IsDir() || !strings.HasSuffix(n, ".go") || strings.HasSuffix(n, "_test.go") {
			continue
		}
		f, err := parser.ParseFile(fset, filepath.Join(dir, n), nil, 0)
		if err != nil {
			return nil, false
		}
		files = append(files, f)
	}
	if len(files) == 0 {
		return nil, false
	}
	info := &types.Info{Types: map[ast.Expr]types.TypeAndValue{}, Uses: map[*ast.Ident]types.Object{}, Defs: map[*ast.Ident]types.Object{}, Selections: map[*ast.SelectorExpr]*types.Selection{}}
	conf := types.Config{Importer: importer.ForCompiler(fset, "source", nil), Error: func(error) {}}
	pkg, _ := conf.Check("mellium.im/xmpp/styling", fset, files, info)
	if pkg == nil {
		return nil, false
	}
	isPkgVar := func(o types.Object) bool {
		v, ok := o.(*types.Var)
		return ok && !v.IsField() && v.Parent() == pkg.Scope()
	}

	// function declarations by object, roots, reachability over references to package functions
	decls := map[types.Object]*ast.FuncDecl{}
	var roots []*ast.FuncDecl
	for _, f := range files {
		for _, d := range f.Decls {
			fd, ok := d.(*ast.FuncDecl)
			if !ok || fd.Body == nil {
				continue
			}
			decls[info.Defs[fd.Name]] = fd
			switch {
			case fd.Recv == nil && (fd.Name.Name == "NewDecoder" || fd.Name.Name == "Scan"):
				roots = append(roots, fd)
			case fd.Recv != nil && len(fd.Recv.List) == 1:
				t := fd.Recv.List[0].Type
				if s, ok := t.(*ast.StarExpr); ok {
					t = s.X
				}
				if id, ok := t.(*ast.Ident); ok && (id.Name == "Decoder" || id.Name == "Token" || id.Name == "Style") {
					roots = append(roots, fd)
				}
			}
		}
	}
	if len(roots) == 0 {
		return nil, false
	}
	reach := map[*ast.FuncDecl]bool{}
	var visit func(fd *ast.FuncDecl)
	visit = func(fd *ast.FuncDecl) {
		if reach[fd] {
			return
		}
		reach[fd] = true
		ast.Inspect(fd.Body, func(n ast.Node) bool {
			if id, ok := n.(*ast.Ident); ok {
				if callee, ok := decls[info.Uses[id]]; ok {
					visit(callee)
				}
			}
			return true
		})
	}
	for _, fd := range roots {
		visit(fd)
	}

	basic := func(t types.Type) bool {
		if t == nil {
			return false
		}
		switch u := t.Underlying().(type) {
		case *types.Basic:
			return true
		case *types.Tuple:
			for i := 0; i < u.Len(); i++ {
				if _, ok := u.At(i).Type().Underlying().(*types.Basic); !ok {
					return false
				}
			}
			return true
		}
		return false
	}
	// flat: a value of this type holds no reference, so reading it is taking a copy
	var flat func(t types.Type, depth int) bool
	flat = func(t types.Type, depth int) bool {
		if t == nil || depth > 6 {
			return false
		}
		switch u := t.Underlying().(type) {
		case *types.Basic:
			return u.Kind() != types.UnsafePointer
		case *types.Array:
			return flat(u.Elem(), depth+1)
		case *types.Struct:
			for i := 0; i < u.NumFields(); i++ {
				if !flat(u.Field(i).Type(), depth+1) {
					return false
				}
			}
			return true
		case *types.Tuple:
			for i := 0; i < u.Len(); i++ {
				if !flat(u.At(i).Type(), depth+1) {
					return false
				}
			}
			return true
		}
		return false
	}
	elemFlat := func(t types.Type) bool {
		if t == nil {
			return false
		}
		switch u := t.Underlying().(type) {
		case *types.Slice:
			return flat(u.Elem(), 0)
		case *types.Array:
			return flat(u.Elem(), 0)
		case *types.Map:
			return flat(u.Elem(), 0) && flat(u.Key(), 0)
		case *types.Basic:
			return u.Info()&types.IsString != 0
		}
		return false
	}
	typeOf := func(e ast.Node) types.Type {
		if x, ok := e.(ast.Expr); ok {
			if tv, ok := info.Types[x]; ok {
				return tv.Type
			}
			if id, ok := x.(*ast.Ident); ok {
				if o := info.Uses[id]; o != nil {
					return o.Type()
				}
			}
		}
		return nil
	}
	pureStd := map[string]bool{"bytes": true, "strings": true, "unicode": true, "unicode/utf8": true}

	// readOnly: is this use (the ident is the last node of stack) a read that neither changes
	// the variable nor lets it, or anything reachable from it, escape?  The use is followed
	// through index, field and slice expressions (`v[i].f`, `v[a:b]`); what is finally read must
	// be handed to len/cap or a pure standard library predicate, ranged over for reference-free
	// elements, compared, or be a reference-free value (a copy).
	readOnly := func(stack []ast.Node, v *types.Var) bool {
		i := len(stack) - 1
		node := ast.Node(stack[i])
		for i > 0 {
			parent := stack[i-1]
			switch p := parent.(type) {
			case *ast.ParenExpr:
			case *ast.IndexExpr:
				if p.X != node {
					return flat(typeOf(node), 0) // used as an index: a value
				}
			case *ast.SliceExpr:
				if p.X != node {
					return flat(typeOf(node), 0)
				}
			case *ast.SelectorExpr:
				if p.X != node {
					return false
				}
				if sel, ok := info.Selections[p]; !ok || sel.Kind() != types.FieldVal {
					return false // a method of the variable (or unresolved): may write, may alias
				}
			case *ast.CallExpr:
				if p.Fun == node {
					return false // calling a function variable: its behaviour is whatever was stored
				}
				if tv, ok := info.Types[p.Fun]; ok && tv.IsType() {
					return basic(tv.Type) // conversion such as string(v): a copy
				}
				if id, ok := p.Fun.(*ast.Ident); ok {
					if _, isBuiltin := info.Uses[id].(*types.Builtin); isBuiltin && (id.Name == "len" || id.Name == "cap") {
						return true
					}
				}
				follow := false
				if sel, ok := p.Fun.(*ast.SelectorExpr); ok {
					if x, ok := sel.X.(*ast.Ident); ok {
						if pn, ok := info.Uses[x].(*types.PkgName); ok && pureStd[pn.Imported().Path()] {
							if tv, ok := info.Types[p]; ok && basic(tv.Type) {
								return true
							}
							// The functions of bytes/strings/unicode never write to their arguments, and
							// a result that is not a fresh value is a piece of the FIRST argument only
							// (Trim*, Fields, Split, Cut ...): a separator / prefix / suffix / cutset
							// argument is only read; the first argument is followed into the result.
							if len(p.Args) > 0 && p.Args[0] != node {
								return true
							}
							follow = true
						}
					}
				}
				if !follow {
					return flat(typeOf(node), 0)
				}
			case *ast.RangeStmt:
				if p.X == node {
					return elemFlat(typeOf(node))
				}
				return false // range key/value position: assigned
			case *ast.BinaryExpr:
				return true
			case *ast.UnaryExpr:
				if p.Op == token.AND || p.Op == token.ARROW {
					return false
				}
				return flat(typeOf(node), 0)
			case *ast.IncDecStmt, *ast.StarExpr:
				return false
			case *ast.AssignStmt:
				for _, l := range p.Lhs {
					if l == node {
						return false
					}
				}
				return flat(typeOf(node), 0)
			case *ast.IfStmt, *ast.SwitchStmt, *ast.CaseClause, *ast.ForStmt, *ast.ExprStmt:
				return true
			default:
				return flat(typeOf(node), 0)
			}
			node = parent
			i--
		}
		return false
	}

	used := map[*types.Var]bool{}
	dirty := map[*types.Var]bool{}
	for _, f := range files {
		var stack []ast.Node
		var cur *ast.FuncDecl
		ast.Inspect(f, func(n ast.Node) bool {
			if n == nil {
				if fd, ok := stack[len(stack)-1].(*ast.FuncDecl); ok && fd == cur {
					cur = nil
				}
				stack = stack[:len(stack)-1]
				return true
			}
			stack = append(stack, n)
			if fd, ok := n.(*ast.FuncDecl); ok {
				cur = fd
			}
			id, ok := n.(*ast.Ident)
			if !ok {
				return true
			}
			o := info.Uses[id]
			if o == nil || !isPkgVar(o) {
				return true
			}
			v := o.(*types.Var)
			if cur != nil && reach[cur] {
				used[v] = true
			}
			if !readOnly(stack, v) {
				dirty[v] = true
			}
			return true
		})
	}
	// a package level variable initialised from another one inherits its uses: keep it simple
	// and conservative, anything used and dirty is reported
	names = []string{}
	for v := range used {
		if dirty[v] {
			names = append(names, v.Name())
		}
	}
	sort.Strings(names)
	return names, true
}
