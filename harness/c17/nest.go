package c17

// Nesting depth as a generator dimension of its own (round D).
//
// Byte-wise enumeration reaches documents of 4 (quick) / 6 (thorough) bytes and the random
// generator strings symbols together; neither produces *structure*: a span needs its closer
// on the same line to open at all, so the shortest document with n spans open at once has
// 2n+1 bytes and one particular shape.  This file generates documents from the grammar of
// XEP-0393 instead of from bytes:
//
//   - every sequence of span kinds of length <= 5 (also with a kind repeated: the second
//     occurrence closes the first) opened one inside the other, in several framings (bare,
//     with text and spaces, inside a block quote, with crossing closers, with a closer
//     missing, twice on consecutive lines);
//   - block quote depth profiles: every pair of depths of two consecutive lines, with plain
//     text / the deepest span nest / a code fence as the content, and single very deep quotes;
//   - random documents drawn from the grammar (lines of random quote depth holding random
//     trees of spans, fences, some of them damaged: closer dropped, space after the opener).
//
// The depth that the real decoder reached (span styles on at once, Quote()) is recorded as
// evidence (extra.max_span_depth / max_quote_depth) and classifies the cases.

import (
	"bytes"
	"fmt"
	"math/bits"
	"strings"

	"mellium.im/xmpp/styling"

	"verifharness/common"
)

// the span directive bytes in the order of the enumeration (and of the Lean model's nestKinds)
var spanBytes = []byte{'*', '_', '~', '`'}

// nestDoc opens the spans ks one inside the other around "x" and closes them again.
func nestDoc(ks []byte, variant int) []byte {
	var b []byte
	rev := func() []byte {
		r := make([]byte, len(ks))
		for i, k := range ks {
			r[len(ks)-1-i] = k
		}
		return r
	}
	switch variant {
	case 0: // *_~`x`~_*
		b = append(append(append(b, ks...), 'x'), rev()...)
	case 1: // *a _b ~c `x` e~ f_ g* h\n
		for i, k := range ks {
			if i < len(ks)-1 {
				b = append(b, k, byte('a'+i), ' ')
			} else {
				b = append(b, k)
			}
		}
		b = append(b, 'x')
		for i, k := range rev() {
			if i == 0 {
				b = append(b, k)
			} else {
				b = append(b, ' ', byte('e'+i), k)
			}
		}
		b = append(b, " h\n"...)
	case 2: // inside a block quote, followed by another quoted line
		b = append(append([]byte("> "), nestDoc(ks, 0)...), "\n> *next*\n"...)
	case 3: // crossing: closers in the order of the openers
		b = append(append(append(append(b, ks...), 'x'), ks...), '\n')
	case 4: // the outermost closer is missing
		d := nestDoc(ks, 0)
		b = append(append(b, d[:len(d)-1]...), '\n')
	case 5: // the same line twice (nothing of the first line may survive into the second)
		d := nestDoc(ks, 0)
		b = append(append(append(b, d...), '\n'), d...)
	}
	return b
}

const nestVariants = 6

// spanDepthOf is the number of span styles that are on in a style mask.
func spanDepthOf(s styling.Style) int { return bits.OnesCount32(uint32(s & styling.Span)) }

// depthClass names the deepest nesting the real decoder reported for a decoding.
func depthClass(evs []event) (span int, quote uint) {
	for _, e := range evs {
		if d := spanDepthOf(e.style); d > span {
			span = d
		}
		if e.quote > quote {
			quote = e.quote
		}
	}
	return span, quote
}

// nestCase runs one grammar-generated document; the case is classified by the depth reached.
func (c *ctx) nestCase(doc []byte, scheds []sched, modelLines int, what string) {
	c.byDepth = true
	c.doc(doc, scheds, modelLines, what)
	c.byDepth = false
}

// depthSuffix classifies a decoding by the deepest nesting the real decoder reported.
func depthSuffix(evs []event) string {
	sp, q := depthClass(evs)
	cl := fmt.Sprintf("-span%d", sp)
	if q > 0 {
		if q > 4 {
			q = 4
		}
		cl += fmt.Sprintf("-quote%d", q)
	}
	return cl
}

// nests is the nesting part of a generating run.
func (c *ctx) nests() {
	r := c.r
	// 1. all sequences of span kinds of length <= 5, one inside the other
	full := r.Pick(4, 5) // all framings up to this length, the bare framing up to 5
	for n := 1; n <= 5; n++ {
		enumerate(spanBytes, n, func(ks []byte) {
			for v := 0; v < nestVariants; v++ {
				if v > 0 && n > full {
					break
				}
				c.nestCase(nestDoc(ks, v), stdScheds, 2, "nest")
			}
		})
	}
	r.Exhaustive = append(r.Exhaustive, fmt.Sprintf("every sequence of span kinds of length <= 5 over %q opened one inside the other (bare; length <= %d also with text and spaces, inside a block quote, with crossing closers, with the outermost closer missing, twice on consecutive lines) x %d schedules", spanBytes, full, len(stdScheds)))

	// 2. block quote depth profiles
	maxQ := r.Pick(6, 12)
	bodies := []string{"a", "*_~`x`~_*", "```", "*a"}
	for d1 := 0; d1 <= maxQ; d1++ {
		for d2 := 0; d2 <= maxQ; d2++ {
			for _, body := range bodies {
				doc := quoteLine(d1, body) + quoteLine(d2, "b")
				c.nestCase([]byte(doc), stdScheds[:4], 1, "quote-profile")
			}
		}
	}
	// three lines: leave a quote level (or a pre block, or an unclosed span inside one) and come back to it
	maxQ3 := r.Pick(3, 4)
	for d1 := 0; d1 <= maxQ3; d1++ {
		for d2 := 0; d2 <= maxQ3; d2++ {
			for d3 := 0; d3 <= maxQ3; d3++ {
				for _, body := range []string{"a", "```", "*a", "_~x~_"} {
					doc := quoteLine(d1, body) + quoteLine(d2, "b") + quoteLine(d3, "*c* `d`")
					c.nestCase([]byte(doc), stdScheds[:2], 1, "quote-profile3")
				}
			}
		}
	}
	for _, d := range []int{16, 40, r.Pick(100, 400)} {
		doc := quoteLine(d, "*_~`x`~_*") + quoteLine(d/2, "```") + quoteLine(d/2, "*a*") + quoteLine(1, "b") + "c\n"
		c.nestCase([]byte(doc), stdScheds[:3], 1, "quote-deep")
		c.nestCase([]byte(strings.Repeat("> ", d)+"_x_"), stdScheds[:3], 1, "quote-deep")
	}
	r.Exhaustive = append(r.Exhaustive, fmt.Sprintf("every pair of block quote depths 0..%d of two consecutive lines x %d contents; every triple of depths 0..%d of three lines x 4 contents; quotes of depth 16, 40, %d", maxQ, len(bodies), maxQ3, r.Pick(100, 400)))

	// 3. random documents drawn from the grammar
	n := r.Pick(2500, 40000)
	for i := 0; i < n && !c.hung; i++ {
		doc := genStructured(r.Rnd)
		c.nestCase(doc, []sched{genSched(r.Rnd), {sizes: []int{1}}, {sizes: []int{2}, dataEOF: true}}, 1, "grammar")
	}
}

// quoteCost (round E, review C17-5): every '>' of a line is a token of its own and opens one more
// nested quote decoder; scan, Style and Quote recurse along that chain for every token, so
// the work for a line of n markers grows with n*n.  The small depths are compared with the
// model (whose table of level visits is C17_quote_depth_cost_partial; the visits are a function
// of the events compared here) and the sum is demanded of the real decoder; one deep line
// (thorough tier, last thing of the run because a decoder that does not finish keeps its
// goroutine busy) is decoded under the watchdog.
func (c *ctx) quoteCost() {
	r := c.r
	for _, n := range []int{1, 2, 3, 4, 8, 16, 32, 64} {
		doc := []byte(strings.Repeat(">", n) + " a\n")
		c.nestCase(doc, stdScheds[:3], 3, "quote-cost")
		res := decode(doc, sched{})
		if res.panic != "" || res.hung {
			continue
		}
		visits := 0
		for _, e := range res.evs {
			visits += int(e.quote) + 1
		}
		if want := (n*n + 5*n + 2) / 2; visits != want {
			r.Fail("well-bracketed", "quote-depths", []string{fmt.Sprintf("%s dec %s - 0", r.Prop, common.Hex(doc))},
				fmt.Sprintf("%d block quote markers: the quote depths of the tokens plus one sum to %d, want %d (depths 1..n, the text at depth n)", n, visits, want))
		}
	}
}

// deepQuote: one line of n block quote markers under the watchdog.
func (c *ctx) deepQuote(n int) {
	r := c.r
	if c.hung {
		return
	}
	doc := []byte(strings.Repeat(">", n) + " a\n")
	res := decode(doc, sched{})
	r.Case(fmt.Sprintf("deep-quote %d", n), true, "deep-quote")
	line := fmt.Sprintf("%s longdec %s %d %s - 0 -", r.Prop, common.HexS(strings.Repeat(">", n)), 0, common.HexS(" a\n"))
	switch {
	case res.hung:
		c.hung = true
		r.Fail("terminates", "quote-depth-cost", []string{line, fmt.Sprintf("#a line of %d '>' followed by \" a\\n\"", n)},
			fmt.Sprintf("a line of %d block quote markers (%d bytes) was not decoded within 20s: the work grows with the square of the quote depth", n, len(doc)))
	case res.panic != "":
		r.Fail("no-panic", "deep-quote", []string{line}, "decoder panicked on a line of block quote markers: "+res.panic)
	}
}

func quoteLine(depth int, body string) string {
	if depth == 0 {
		return body + "\n"
	}
	return strings.Repeat(">", depth) + " " + body + "\n"
}

var words = []string{"a", "bc", "x y", "d", "é", "1 2", "w v"}

// genSpan writes a random tree of spans.  open holds the kinds that are open around it.
func genSpan(rnd *common.Rand, b *bytes.Buffer, depth int, open []byte) {
	k := spanBytes[rnd.Intn(len(spanBytes))]
	if rnd.Chance(3, 4) {
		// prefer a kind that is not open yet: that is what nests
		for try := 0; try < 4 && bytes.IndexByte(open, k) >= 0; try++ {
			k = spanBytes[rnd.Intn(len(spanBytes))]
		}
	}
	b.WriteByte(k)
	if rnd.Chance(1, 12) {
		b.WriteByte(' ') // not a start directive after all
	}
	items := 1 + rnd.Intn(3)
	for i := 0; i < items; i++ {
		if i > 0 {
			b.WriteByte(' ')
		}
		if depth > 0 && rnd.Chance(1, 2) {
			genSpan(rnd, b, depth-1, append(open, k))
		} else {
			b.WriteString(words[rnd.Intn(len(words))])
		}
	}
	if !rnd.Chance(1, 10) {
		b.WriteByte(k) // otherwise the closer is missing
	}
}

// genStructured draws a document from the grammar: lines with a block quote prefix of random
// depth holding a fence line, plain text or a tree of spans.
func genStructured(rnd *common.Rand) []byte {
	var b bytes.Buffer
	lines := 1 + rnd.Intn(4)
	q := rnd.Intn(4)
	for l := 0; l < lines; l++ {
		if rnd.Chance(1, 2) {
			q = rnd.Intn(5)
		}
		if q > 0 {
			if rnd.Chance(1, 3) {
				b.WriteString(strings.Repeat("> ", q))
			} else {
				b.WriteString(strings.Repeat(">", q))
				b.WriteByte(' ')
			}
		}
		switch rnd.Intn(6) {
		case 0:
			b.WriteString("```")
			if rnd.Chance(1, 2) {
				b.WriteString("go")
			}
		case 1:
			b.WriteString(words[rnd.Intn(len(words))])
		default:
			items := 1 + rnd.Intn(2)
			for i := 0; i < items; i++ {
				if i > 0 {
					b.WriteString(" t ")
				}
				genSpan(rnd, &b, 1+rnd.Intn(4), nil)
			}
		}
		if l < lines-1 || rnd.Chance(2, 3) {
			b.WriteByte('\n')
		}
	}
	return b.Bytes()
}

// nestProbe runs the real decoder on the bare nest document of every sequence of span kinds
// of length 1..4 (in the order of `enumerate`) and reports the largest number of span styles
// that were on at once in a returned style.  ok=false when a decoding panicked, hung or did
// not reach the end of its input.
func nestProbe() (depths []int, ok bool) {
	ok = true
	for n := 1; n <= 4 && ok; n++ {
		enumerate(spanBytes, n, func(ks []byte) {
			res := decode(nestDoc(ks, 0), sched{})
			if res.panic != "" || res.hung || res.end != "eof" {
				ok = false
				return
			}
			d, _ := depthClass(res.evs)
			depths = append(depths, d)
		})
	}
	return depths, ok
}
