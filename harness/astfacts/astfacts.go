// Package astfacts extracts, with go/ast, facts about closures that several sessions share.
package astfacts

import (
	"go/ast"
	"go/parser"
	"go/token"
	"sort"
)

// SharedWrites parses file and returns, for the function fn, the names of the variables that
// are declared in fn itself (parameters, results, locals outside every function literal) and
// that some function literal inside fn assigns to, increments, ranges into, or takes the
// address of.  Such a variable is state shared by every use of the value fn returns (for a
// stream feature: by every session negotiating with the same feature value).  found is false
// when fn does not exist.  Not seen: mutation through a method call on a captured pointer.
func SharedWrites(file, fn string) (names []string, found bool, err error) {
	fset := token.NewFileSet()
	f, err := parser.ParseFile(fset, file, nil, 0)
	if err != nil {
		return nil, false, err
	}
	for _, d := range f.Decls {
		fd, ok := d.(*ast.FuncDecl)
		if !ok || fd.Name.Name != fn || fd.Recv != nil || fd.Body == nil {
			continue
		}
		found = true
		var lits []*ast.FuncLit
		ast.Inspect(fd.Body, func(n ast.Node) bool {
			if fl, ok := n.(*ast.FuncLit); ok {
				lits = append(lits, fl)
			}
			return true
		})
		inLit := func(p token.Pos) bool {
			for _, fl := range lits {
				if fl.Pos() <= p && p < fl.End() {
					return true
				}
			}
			return false
		}
		set := map[string]bool{}
		shared := func(e ast.Expr) {
			for {
				switch x := e.(type) {
				case *ast.ParenExpr:
					e = x.X
					continue
				case *ast.IndexExpr:
					e = x.X
					continue
				case *ast.SelectorExpr:
					e = x.X
					continue
				case *ast.StarExpr:
					e = x.X
					continue
				case *ast.SliceExpr:
					e = x.X
					continue
				}
				break
			}
			id, ok := e.(*ast.Ident)
			if !ok || id.Obj == nil || id.Obj.Kind != ast.Var {
				return
			}
			dp := id.Obj.Pos()
			if dp >= fd.Pos() && dp < fd.End() && !inLit(dp) {
				set[id.Name] = true
			}
		}
		for _, fl := range lits {
			ast.Inspect(fl.Body, func(n ast.Node) bool {
				switch x := n.(type) {
				case *ast.AssignStmt:
					if x.Tok != token.DEFINE {
						for _, l := range x.Lhs {
							shared(l)
						}
					}
				case *ast.IncDecStmt:
					shared(x.X)
				case *ast.RangeStmt:
					if x.Tok == token.ASSIGN {
						if x.Key != nil {
							shared(x.Key)
						}
						if x.Value != nil {
							shared(x.Value)
						}
					}
				case *ast.UnaryExpr:
					if x.Op == token.AND {
						shared(x.X)
					}
				}
				return true
			})
		}
		for n := range set {
			names = append(names, n)
		}
		sort.Strings(names)
	}
	return names, found, nil
}

// CapturedCallResults returns the names of the variables that are declared in fn itself
// (outside every function literal), whose initial value contains a function call, and that
// some function literal inside fn refers to.  For the function that builds a stream feature
// such a variable is computed once per feature value and then used by every session that
// negotiates with it (the classic case: a "random" value drawn when the feature is built).
// Conversions and builtins count as calls (the extractor does not type-check); found is
// false when fn does not exist.
func CapturedCallResults(file, fn string) (names []string, found bool, err error) {
	fset := token.NewFileSet()
	f, err := parser.ParseFile(fset, file, nil, 0)
	if err != nil {
		return nil, false, err
	}
	for _, d := range f.Decls {
		fd, ok := d.(*ast.FuncDecl)
		if !ok || fd.Name.Name != fn || fd.Recv != nil || fd.Body == nil {
			continue
		}
		found = true
		var lits []*ast.FuncLit
		ast.Inspect(fd.Body, func(n ast.Node) bool {
			if fl, ok := n.(*ast.FuncLit); ok {
				lits = append(lits, fl)
			}
			return true
		})
		inLit := func(p token.Pos) bool {
			for _, fl := range lits {
				if fl.Pos() <= p && p < fl.End() {
					return true
				}
			}
			return false
		}
		hasCall := func(e ast.Expr) bool {
			call := false
			ast.Inspect(e, func(n ast.Node) bool {
				switch n.(type) {
				case *ast.FuncLit:
					return false
				case *ast.CallExpr:
					call = true
				}
				return true
			})
			return call
		}
		// objects of call-initialised variables declared outside the literals
		cand := map[*ast.Object]string{}
		ast.Inspect(fd.Body, func(n ast.Node) bool {
			switch x := n.(type) {
			case *ast.FuncLit:
				return false
			case *ast.AssignStmt:
				if x.Tok == token.DEFINE {
					for i, l := range x.Lhs {
						id, ok := l.(*ast.Ident)
						if !ok || id.Obj == nil {
							continue
						}
						rhs := x.Rhs[0]
						if len(x.Rhs) == len(x.Lhs) {
							rhs = x.Rhs[i]
						}
						if hasCall(rhs) {
							cand[id.Obj] = id.Name
						}
					}
				}
			case *ast.ValueSpec:
				for i, id := range x.Names {
					if id.Obj != nil && i < len(x.Values) && hasCall(x.Values[i]) {
						cand[id.Obj] = id.Name
					}
				}
			}
			return true
		})
		set := map[string]bool{}
		for _, fl := range lits {
			ast.Inspect(fl.Body, func(n ast.Node) bool {
				if id, ok := n.(*ast.Ident); ok && id.Obj != nil {
					if name, ok := cand[id.Obj]; ok && !inLit(id.Obj.Pos()) {
						set[name] = true
					}
				}
				return true
			})
		}
		for n := range set {
			names = append(names, n)
		}
		sort.Strings(names)
	}
	return names, found, nil
}
