package main

import "verifharness/c19"

func init() { runners["C19"] = c19.Run; facts["C19"] = c19.Facts }
