package main

import (
	"verifharness/c06"
	"verifharness/c15"
	"verifharness/c18"
	"verifharness/common"
)

func init() {
	runners["C06"] = func(r *common.Run) error {
		if err := c06.Run(r); err != nil {
			return err
		}
		if len(r.Failures) >= 8 {
			// the session core itself is broken (failing inputs recorded): the helper scenarios of
			// C15 / C18 would only add watchdogs
			return nil
		}
		if r.Replay == "" && !r.Race() {
			// the extension helpers that block on a correlated reply
			c15.RunWaits(r)
			c18.RunWaits(r)
			// round C: bounded-exhaustive MUC wait episodes (harness/c18/waits_c06.go, a file of
			// the C06 builder inside that package; the listener histories are in c06/expect.go)
			c18.RunC06Waits(r)
		}
		return nil
	}
	facts["C06"] = func(repo string) (string, error) {
		base, err := c15.FactsNS(repo, "C06")
		if err != nil {
			return "", err
		}
		// round E: probe facts (behaviour of the linked code, no source text)
		return c06.Facts(base), nil
	}
}
