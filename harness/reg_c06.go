package main

import "verifharness/c06"

func init() { runners["C06"] = c06.Run }
