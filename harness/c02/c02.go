// Package c02 drives the initiating side of session negotiation with
// STARTTLS configured (property C02) against a scripted peer and a real
// crypto/tls server.
//
// Protocol lines:
//
//	run <tee> <explicit> <domain> <remote> <state0> <rr> <rt> <others> <clear> <prot> <oracle>  -> <trace> <outcome>
//	sni <explicit> <sessions>                                      -> <names>
//
// tee: tee variant + 4 * connection kind.  Tee variant: 0 off, 1 TeeIn, 2 TeeOut, 3 both (the
// model only distinguishes 0 / not 0); connection kind: see connKinds in scenario.go.
// Kinds 0-3: TCP framing (net.Conn, io.ReadWriter, ConnectionState() wrapper, *tls.Conn); 4-8: the
// WebSocket framing (raw carriers, client *websocket.Conn with an http: / https: / wss: origin).
// explicit: StartTLS(cfg) with ServerName explicit.example / StartTLS(nil).
// domain: index of the domainpart of the session's own address (origin);
// remote: of the remote address (location) — equal or different.
// state0: initial SessionState (decimal).  rr, rt: two behaviours of features.go
// that C02 does not constrain and that are probed once per run (see ctx).
// others: id.nec.proh.negotiable,…  — instrumented features besides STARTTLS.
// clear: clear-text segments '/'-separated, units ','-separated (see unit).
// prot: what the peer sends in the TLS phase: units, or J = raw junk below TLS, or (first item) C1 /
// C2 = the ClientHello is answered with a certificate for another name / of an unknown CA.
// Units: see scenario.go (D: a stream error that declares its namespace itself).  A scenario with
// oversized units carries the segmentation the decoder's 4096-byte reads induce; the comment
// #oversized=<script with sizes> of its case keeps the original for the replay.
// oracle: id.mask.restart.err,… — the features the implementation negotiated,
// in order, with the scripted results of their Negotiate callbacks (the model
// checks each pick against the set its selection rule allows).
// trace: h s o<id> = header / STARTTLS request / feature marker written in
// clear text, H S O<id> = the same inside the TLS layer, Nd<k> / Nex = a
// ClientHello naming domain k / the explicit name left during NewSession.
// outcome: done.<state>.<layer>.<hs> (layer: 1 when a probe written through the
// session's connection does not show up in clear on the raw wire; hs:
// Session.ConnectionState().HandshakeComplete) or err.<class>.
//
// sni: one feature value (explicit config or StartTLS(nil)) reused for a list
// of sessions <domain>.<kind>; answer: the server name of each ClientHello.
package c02

import (
	"bytes"
	"fmt"
	"strconv"
	"strings"
	"sync"

	"mellium.im/xmpp"

	"verifharness/common"
)

func u(kind byte) unit         { return unit{kind: kind} }
func hdr(ok bool) unit         { return unit{kind: 'H', ok: ok} }
func list(items ...item) unit  { return unit{kind: 'L', items: items} }
func it(id int, req bool) item { return item{id: id, req: req, ok: true} }

// secureCompliant: the premise of the property — not secure, not ready, and no
// configured feature besides STARTTLS can be negotiated in the initial state.
func secureCompliant(sc scenario) bool {
	if sc.state0&uint8(xmpp.Secure|xmpp.Ready|xmpp.Received) != 0 {
		return false
	}
	if sc.ck == 3 {
		return false // a *tls.Conn: the connection is already secure
	}
	for _, o := range sc.others {
		if o.id == idSASL || o.id == idBind {
			// the property names the built-in authentication and binding features as
			// features that require a secured stream: whatever masks the code gives
			// them, a session that is neither secure nor authenticated is covered
			if sc.state0&uint8(xmpp.Authn) != 0 {
				return false
			}
			continue
		}
		if sc.state0&o.nec == o.nec && sc.state0&o.proh == 0 {
			return false
		}
	}
	return true
}

// firstClass / answerClass: coarse normal form of a script for failure keys.
func firstClass(sc scenario) string {
	for _, seg := range sc.clear {
		for _, un := range seg {
			if un.kind == 'H' || un.kind == 'W' {
				continue
			}
			if un.kind != 'L' {
				return "nolist-" + string(un.kind)
			}
			if len(un.items) == 0 {
				return "empty"
			}
			cl := "notls"
			for _, i := range un.items {
				if i.id == 0 {
					if i.req {
						cl = "tls-req"
					} else {
						cl = "tls-opt"
					}
				}
			}
			return cl
		}
	}
	return "none"
}

func answerClass(sc scenario) string {
	seenList := false
	for _, seg := range sc.clear {
		for _, un := range seg {
			if seenList {
				return string(un.kind)
			}
			if un.kind == 'L' {
				seenList = true
			}
		}
	}
	return "-"
}

// flags: the measured behaviours of features.go that share one field: bit 0 rt, bit 1 sk.
func (c *ctx) flags() string {
	n := 0
	if c.rt {
		n |= 1
	}
	if c.sk {
		n |= 2
	}
	return strconv.Itoa(n)
}

func (c *ctx) line(sc scenario, res result) string {
	return fmt.Sprintf("run %d %s %d %d %d %s %s %s %s %s %s", sc.tee+4*sc.ck, common.B(sc.explicit), sc.domain, sc.remote, sc.state0, common.B(c.rr), c.flags(),
		sc.othersField(), sc.clearField(), sc.protField(), res.oracleField())
}

// check runs sc with the tee off and in the requested tee variants, writes the
// correspondence lines and evaluates the property's clauses on the real code.
func (c *ctx) check(sc scenario, tees []int, class string) (base result) {
	r := c.r
	sc.tee = 0
	sc = sc.normal()
	base = c.exec(sc, nil)
	baseLine := c.line(sc, base)
	compliant := secureCompliant(sc)
	done := strings.HasPrefix(base.outcome, "done.")
	r.Case(baseLine, done || base.outcome != "err.read", class)
	r.Hist["outcome:"+strings.SplitN(base.outcome, ".", 3)[0]+"."+lastField(base.outcome, done)]++
	key := scriptKey(sc)
	emit := func(sc scenario, res result) []string { return c.emit(sc, res) }
	oracle := func(sc scenario, res result, lines []string) { c.judge(sc, res, lines) }
	_ = compliant
	lines := emit(sc, base)
	oracle(sc, base, lines)
	return c.checkTees(sc, base, lines, tees, key)
}

// normal: with the WebSocket framing no header element declares the stream prefix, so the only
// stream error a peer can send is the one that declares the namespace itself (unit D)
func (sc scenario) normal() scenario {
	if !sc.ws() {
		return sc
	}
	var clear [][]unit
	for _, seg := range sc.clear {
		ns := append([]unit(nil), seg...)
		for i := range ns {
			if ns[i].kind == 'E' {
				ns[i].kind = 'D'
			}
		}
		clear = append(clear, ns)
	}
	sc.clear = clear
	prot := append([]pu(nil), sc.prot...)
	for i := range prot {
		if !prot[i].junk && prot[i].u.kind == 'E' {
			prot[i].u.kind = 'D'
		}
	}
	sc.prot = prot
	return sc
}

// scriptKey: coarse, stable normal form of the script: shape of the first features list and
// whether the answer to the STARTTLS request was <proceed/> or anything else
func scriptKey(sc scenario) string {
	key := firstClass(sc)
	switch a := answerClass(sc); {
	case a == "P":
		key += "/proceed"
	case key == "tls-opt" || key == "tls-req":
		key += "/refused"
	}
	return key
}

// emit writes the correspondence line of one executed scenario and returns its case lines.
func (c *ctx) emit(sc scenario, res result) []string {
	l := c.line(sc, res)
	c.r.Line(l, res.trace()+" "+res.outcome+" "+res.adv+" "+res.local)
	return caseLines(c.r.Prop, l, sc)
}

// judge evaluates the clauses of the property that concern a single run on the real code.
func (c *ctx) judge(sc scenario, res result, lines []string) {
	r := c.r
	key := scriptKey(sc)
	compliant := secureCompliant(sc)
	{
		teeK := "tee0"
		if sc.tee != 0 {
			teeK = "tee"
		}
		if res.stalled || res.panicked != "" {
			r.Fail("terminates", teeK+"/"+key, lines, res.outcome+" "+res.panicked)
			return
		}
		// "when no TLS configuration was supplied the handshake names the domain of that
		// session's own address": the server name offered is the domainpart of the session's
		// OWN address (origin), not of the remote one (location), whatever else is configured
		for _, n := range res.sni {
			if sc.ck == 3 {
				break // the handshake is the connection's own, not STARTTLS's
			}
			wantN := domains[sc.domain]
			if sc.explicit {
				wantN = "explicit.example"
			}
			if n != wantN {
				k := "single/other-name"
				if !sc.explicit && n == domains[sc.remote] {
					k = "single/names-remote-address"
				}
				r.Fail("servername", k, lines, fmt.Sprintf("the server name offered is %q; it must be the domainpart of the session's own address %s: %q (remote address: %s)", n, sc.originStr(), wantN, domains[sc.remote]))
			}
		}
		// "that session's own address" is the address the session was created with: nothing the
		// peer puts into a stream header — least of all one received in clear text — may become
		// the session's address (StartTLS(nil) verifies the certificate against its domainpart),
		// and the address values the caller passed in are the caller's
		phase := "clear"
		if res.hello != "" || sc.ck == 3 {
			phase = "tls"
		}
		if want := "T" + sc.ownAddr().code(); res.local != "T-" && res.local != want {
			k := "other-domain"
			if strings.HasPrefix(res.local, "T") && strings.Contains(res.local, fmt.Sprintf(".%d.", sc.domain)) {
				k = "same-domain"
			}
			r.Fail("own-address", teeK+"/local-address/"+k, lines, fmt.Sprintf("after NewSession LocalAddr() is %s (a 'to' the peer sent, %s phase); the session was created with %s", strings.TrimPrefix(res.local, "T"), phase, sc.originStr()))
		}
		if res.remoteCh != "" {
			r.Fail("own-address", teeK+"/remote-address", lines, fmt.Sprintf("after NewSession RemoteAddr() is %s; the session was created for %s", res.remoteCh, domains[sc.remote]))
		}
		if res.callerCh != "" {
			r.Fail("own-address", teeK+"/caller-value-overwritten", lines, res.callerCh)
		}
		// `Secure` in State() implies TLS observable at the peer: whatever the connection is
		// (a wrapper with a ConnectionState() method is not TLS), a session that says Secure
		// has sent a ClientHello, and nothing it writes afterwards is readable on the wire
		// "clear-text data is never interpreted as part of the protected stream": once the
		// session speaks TLS, Session.Feature reports only what a features list read inside
		// TLS advertised — nothing of the lists the peer (or an attacker) sent in clear text
		if res.hello != "" {
			inTLS := map[int]bool{}
			for _, p := range sc.prot {
				if !p.junk && p.u.kind == 'L' {
					for _, it := range p.u.items {
						inTLS[it.id] = true
					}
				}
			}
			for _, id := range res.advIDs {
				if !inTLS[id] {
					k := "other"
					if id == 0 {
						k = "starttls"
					}
					r.Fail("features-from-clear-text", teeK+"/"+k, lines, fmt.Sprintf("on the TLS-protected stream Session.Feature(%q) reports a feature that was only advertised in clear text before <proceed/> (reported %s)", sc.namespace(id), res.adv))
					break
				}
			}
		}
		// "a TLS-protected stream or an error": protected means the peer was authenticated — a
		// session whose ClientHello was answered with a certificate for another name, or of a CA
		// the configuration does not trust, must not come about (default and explicit config alike)
		if k := sc.badCert(); k != 0 && strings.HasPrefix(res.outcome, "done.") && (res.hello != "" || sc.ck == 3) {
			cfgK := "default-config"
			if sc.explicit {
				cfgK = "explicit-config"
			}
			if sc.ck == 3 {
				cfgK = "tls-conn"
			}
			r.Fail("certificate-verified", fmt.Sprintf("%s/%s/cert%d", teeK, cfgK, k), lines,
				fmt.Sprintf("NewSession returned a session (%s) although the peer presented a %s", res.outcome, certKinds[k]))
		}
		scriptedSecure := false // an instrumented feature was told to return the Secure bit itself
		for _, p := range res.picks {
			if p.id != 0 && p.res.mask&uint8(xmpp.Secure) != 0 {
				scriptedSecure = true
			}
		}
		if strings.HasPrefix(res.outcome, "done.") && res.state&uint8(xmpp.Secure) != 0 && !scriptedSecure {
			f := strings.Split(res.outcome, ".")
			if len(res.sni) == 0 || len(f) < 3 || f[2] != "1" {
				r.Fail("secure-without-tls", teeK+"/"+connKinds[sc.ck], lines, fmt.Sprintf("State() has Secure on a %s, but the peer saw %d ClientHello(s) and the probe written through the session %s", connKinds[sc.ck], len(res.sni), map[bool]string{true: "is protected", false: "is readable in clear text on the wire"}[len(f) >= 3 && f[2] == "1"]))
			}
		}
		if sc.ck == 3 {
			// already secure: nothing at all in clear text, no STARTTLS
			if len(res.clearEv) > 0 {
				r.Fail("clear-writes", teeK+"/tls-conn", lines, fmt.Sprintf("clear-text writes %v on a *tls.Conn", res.clearEv))
			}
			for _, e := range res.protEv {
				if e == "s" {
					r.Fail("starttls-on-secure-connection", teeK, lines, "STARTTLS requested on a connection that is already a *tls.Conn")
				}
			}
		}
		if !compliant {
			return
		}
		// nothing but the header and the STARTTLS request leaves in clear text
		want := []string{"h", "s"}
		for i, e := range res.clearEv {
			if i >= len(want) || e != want[i] {
				k := e
				if strings.HasPrefix(k, "?") {
					k = "?"
				}
				r.Fail("clear-writes", teeK+"/"+key+"/"+k, lines, fmt.Sprintf("clear-text writes %v (raw %q)", res.clearEv, res.rawClear))
				break
			}
		}
		// ready only on a protected stream
		if strings.HasPrefix(res.outcome, "done.") {
			if f := strings.Split(res.outcome, "."); res.state&uint8(xmpp.Secure) == 0 || len(f) < 3 || f[2] != "1" {
				r.Fail("ready-in-clear", teeK+"/"+key, lines, fmt.Sprintf("NewSession returned nil error, state %d, outcome %s, clear-text writes %v", res.state, res.outcome, res.clearEv))
			}
		}
	}
}

// checkTees runs the tee variants of a scenario whose tee-off run is base.
func (c *ctx) checkTees(sc scenario, base result, lines []string, tees []int, key string) result {
	r := c.r
	emit := func(sc scenario, res result) []string { return c.emit(sc, res) }
	oracle := func(sc scenario, res result, lines []string) { c.judge(sc, res, lines) }
	for _, t := range tees {
		if t == 0 {
			continue
		}
		sct := sc
		sct.tee = t
		res := c.exec(sct, nil)
		tl := emit(sct, res)
		r.Evaluations++
		oracle(sct, res, tl)
		// the tee changes neither the bytes on the wire nor the outcome
		both := append(append([]string(nil), lines...), tl...)
		cmp := base
		if res.oracleField() != base.oracleField() {
			// Different features were negotiated.  Go's map iteration order may explain
			// that when several cached features are selectable: look for a run without
			// the tee that made the same choices.
			found := false
			tries := 400
			if c.teeNegFails >= 8 {
				tries = 0 // a broken tree: do not spend time on further reruns
			}
			for k := 0; k < tries && !found; k++ {
				again := c.exec(sc, nil)
				if again.oracleField() == res.oracleField() {
					cmp, found = again, true
				}
			}
			if !found {
				c.teeNegFails++
				r.Fail("tee-transparent", fmt.Sprintf("negotiated/%s", key), both, fmt.Sprintf("tee=%d negotiated %s, tee off %s (no tee-off run with these choices in %d reruns)", t, res.oracleField(), base.oracleField(), tries))
				continue
			}
			r.Hist["tee-compare-after-rerun"]++
		}
		base := cmp
		switch {
		case res.outcome != base.outcome:
			r.Fail("tee-transparent", fmt.Sprintf("outcome/%s", key), both, fmt.Sprintf("tee=%d outcome %s, tee off %s", t, res.outcome, base.outcome))
		case !bytes.Equal(res.rawClear, base.rawClear):
			r.Fail("tee-transparent", fmt.Sprintf("clear-bytes/%s", key), both, fmt.Sprintf("tee=%d clear-text bytes %q, tee off %q", t, res.rawClear, base.rawClear))
		case !bytes.Equal(res.prot, base.prot):
			r.Fail("tee-transparent", fmt.Sprintf("protected-bytes/%s", key), both, fmt.Sprintf("tee=%d bytes inside TLS %q, tee off %q", t, res.prot, base.prot))
		case fmt.Sprint(res.sni) != fmt.Sprint(base.sni):
			r.Fail("tee-transparent", fmt.Sprintf("sni/%s", key), both, fmt.Sprintf("tee=%d server names %v, tee off %v", t, res.sni, base.sni))
		}
	}
	return base
}

func lastField(outcome string, done bool) string {
	f := strings.Split(outcome, ".")
	if done && len(f) >= 4 {
		return "layer" + f[2] + ".hs" + f[3]
	}
	return strings.Join(f[1:], ".")
}

// pipelined checks the clause about clear text received before the layer
// switch: the same script with and without extra clear text behind <proceed/>
// in the same segment must behave identically.
// caseLines: the protocol line of a scenario plus, as a comment the replay understands, how
// its units were split across reads (the model does not see that).
func caseLines(prop, line string, sc scenario) []string {
	out := []string{prop + " " + line}
	if sc.split != nil {
		var f []string
		for _, n := range sc.split {
			f = append(f, strconv.Itoa(n))
		}
		out = append(out, "#split="+strings.Join(f, ","))
	}
	if sc.hasPad() {
		// the script as the peer sends it, with the sizes of its oversized units (the line has the
		// segmentation the decoder's bounded reads induce)
		out = append(out, "#oversized="+clearFieldOf(sc.clear, true))
	}
	if sc.mech != 0 {
		// which mechanisms the real SASL feature is configured with (the model sees its masks)
		out = append(out, "#mech="+strconv.Itoa(sc.mech))
	}
	return out
}

// pipelinedOf reports whether sp is sc with extra clear text behind the first <proceed/> that
// ends a segment (and nothing else changed).
func pipelinedOf(sc, sp scenario) bool {
	if len(sc.clear) != len(sp.clear) || sc.protField() != sp.protField() || sc.othersField() != sp.othersField() ||
		sc.domain != sp.domain || sc.remote != sp.remote || sc.explicit != sp.explicit || sc.state0 != sp.state0 {
		return false
	}
	found := false
	for i := range sc.clear {
		a, b := sc.clear[i], sp.clear[i]
		switch {
		case len(a) == len(b):
			for k := range a {
				if a[k].String() != b[k].String() {
					return false
				}
			}
		case !found && len(b) > len(a) && len(a) > 0 && a[len(a)-1].kind == 'P':
			for k := range a {
				if a[k].String() != b[k].String() {
					return false
				}
			}
			found = true
		default:
			return false
		}
	}
	return found
}

// comparePair evaluates the pre-buffer clause on a script and the same script with clear text
// pipelined behind <proceed/>: they must behave identically.
func (c *ctx) comparePair(sc, sp scenario, base, res result) {
	if res.outcome == base.outcome && res.trace() == base.trace() && bytes.Equal(res.prot, base.prot) {
		return
	}
	k := "-"
	for i := range sc.clear {
		if len(sp.clear[i]) > len(sc.clear[i]) {
			k = string(sp.clear[i][len(sc.clear[i])].kind)
			break
		}
	}
	lines := append(caseLines(c.r.Prop, c.line(sc, base), sc), caseLines(c.r.Prop, c.line(sp, res), sp)...)
	c.r.Fail("prebuffer-dropped", "pipelined/"+k, lines,
		fmt.Sprintf("clear text received before the TLS layer was installed is interpreted afterwards: with it pipelined behind <proceed/>: %s %s; without: %s %s", res.trace(), res.outcome, base.trace(), base.outcome))
}

func (c *ctx) pipelined(sc scenario, extra []unit, tees []int, class string) {
	base := c.check(sc, tees, class)
	sp := sc
	sp.clear = nil
	done := false
	for _, seg := range sc.clear {
		ns := append([]unit(nil), seg...)
		if !done && len(seg) > 0 && seg[len(seg)-1].kind == 'P' {
			ns = append(ns, extra...)
			done = true
		}
		sp.clear = append(sp.clear, ns)
	}
	if !done {
		return
	}
	res := c.check(sp, tees, class+"-pipelined")
	c.comparePair(sc, sp, base, res)
}

// ---- histories over ONE negotiator value --------------------------------------------------------

// sharedHistory negotiates the sessions scs with one value returned by xmpp.NewNegotiator
// (and one STARTTLS feature value), one after the other or all at once, and compares every
// session with the same session run alone: a Negotiator may be shared, so whatever one
// session did — read its first features list, for instance — must not change another.
func (c *ctx) sharedHistory(scs []scenario, parallel bool, class string) {
	r := c.r
	if len(scs) == 0 {
		return
	}
	tee := scs[0].tee
	mode := "sequential"
	if parallel {
		mode = "parallel"
	}
	r.Mark("case shared-negotiator %s %d sessions", mode, len(scs))
	for i := range scs {
		scs[i].tee = tee
		scs[i].user = fmt.Sprintf("u%d", i)
		if scs[i].state0&uint8(xmpp.S2S) != 0 {
			scs[i].state0 &^= uint8(xmpp.S2S) // sessions are told apart by their own address
		}
	}
	sn := newSharedNeg(tee)
	base := xmpp.StartTLS(c.tlsConfig(scs[0].explicit))
	for i := range scs {
		scs[i].explicit = scs[0].explicit
	}
	got := make([]result, len(scs))
	if parallel {
		var wg sync.WaitGroup
		for i := range scs {
			wg.Add(1)
			go func(i int) {
				defer wg.Done()
				got[i] = c.exec1(scs[i], &base, sn)
			}(i)
		}
		wg.Wait()
	} else {
		for i := range scs {
			got[i] = c.exec1(scs[i], &base, sn)
		}
	}
	var all []string
	per := make([][]string, len(scs))
	for i := range scs {
		per[i] = c.emit(scs[i], got[i])
		all = append(all, per[i]...)
	}
	all = append(all, "#shared-negotiator "+mode)
	r.Case("shared "+mode+" "+strings.Join(all, " "), true, class)
	for i := range scs {
		c.judge(scs[i], got[i], all)
		alone := c.exec(scs[i], nil)
		if alone.oracleField() != got[i].oracleField() {
			// Go's map order chose differently: look for an alone run with the same choices
			for k := 0; k < 100 && alone.oracleField() != got[i].oracleField(); k++ {
				alone = c.exec(scs[i], nil)
			}
		}
		if alone.outcome != got[i].outcome || alone.trace() != got[i].trace() || alone.adv != got[i].adv ||
			!bytes.Equal(alone.rawClear, got[i].rawClear) || !bytes.Equal(alone.prot, got[i].prot) {
			pos := "later-session"
			if i == 0 {
				pos = "first-session"
			}
			r.Fail("sessions-independent", mode+"/"+pos+"/"+scriptKey(scs[i]), all,
				fmt.Sprintf("session %d of %d negotiated with one shared Negotiator: %s %s %s; the same session alone: %s %s %s",
					i+1, len(scs), got[i].trace(), got[i].outcome, got[i].adv, alone.trace(), alone.outcome, alone.adv))
		}
	}
}

// historyPool: per-session scripts for the histories.
func historyPool() []scenario {
	f1 := other{id: 1, nec: 1, negotiable: true}
	tlsDone := []pu{{u: hdr(true)}, {u: list()}}
	return []scenario{
		{clear: [][]unit{{hdr(true), list()}, {u('P')}}, prot: tlsDone},            // empty list: forced attempt
		{clear: [][]unit{{hdr(true), list()}}},                                     // … and the peer silent
		{clear: [][]unit{{hdr(true), list(it(0, true))}, {u('P')}}, prot: tlsDone}, // advertised, proceed
		{clear: [][]unit{{hdr(true), list(it(0, true))}, {u('F')}}},                // refused
		{others: []other{f1}, clear: [][]unit{{hdr(true), list(it(1, true))}, {u('P')}}, prot: []pu{{u: hdr(true)}, {u: list(it(1, true))}, {u: list()}}, results: []negRes{{mask: 2}}}, // stripped list
		{clear: [][]unit{{hdr(true), list(item{id: 9, req: true, ok: true})}, {u('P')}}, prot: tlsDone},                                                                                 // unknown feature only
		{clear: [][]unit{{hdr(false)}}},        // header refused: no list read
		{clear: [][]unit{{hdr(true), u('E')}}}, // stream error instead of a list
		{others: []other{f1}, clear: [][]unit{{hdr(true), list(it(0, false), it(1, false))}, {u('P')}}, prot: tlsDone, results: []negRes{{mask: 0}}},
	}
}

func (c *ctx) histories(n int, parallel bool) {
	rnd := c.r.Rnd
	pool := historyPool()
	// every ordered pair, then random triples
	if !parallel {
		for i := range pool {
			for j := range pool {
				a, b := pool[i], pool[j]
				a.domain, b.domain = i%4, j%4
				a.remote, b.remote = a.domain, (j+1)%4
				a.tee, b.tee = (i+j)%4, (i+j)%4
				a.ck, b.ck = i%3, j%3
				c.sharedHistory([]scenario{a, b}, false, "history-pairs")
			}
		}
	}
	for k := 0; k < n; k++ {
		m := 2 + rnd.Intn(2)
		var scs []scenario
		tee := rnd.Intn(4)
		for i := 0; i < m; i++ {
			s := pool[rnd.Intn(len(pool))]
			s.domain, s.remote, s.ck, s.tee = rnd.Intn(4), rnd.Intn(4), rnd.Intn(3), tee
			scs = append(scs, s)
		}
		cl := "history-random"
		if parallel {
			cl = "history-parallel"
		}
		c.sharedHistory(scs, parallel, cl)
	}
}

// ---- sni: one feature value, many sessions ------------------------------------------------

type sess struct {
	domain int  // own domain (origin)
	remote int  // remote domain (location)
	s2s    bool // server-to-server session (origin is a bare domain)
	kind   byte // p: advertised, proceed; x: not advertised (forced), proceed; f: failure; n: header refused
}

func mkSess(domain, remote int, kind byte) sess {
	return sess{domain: domain, remote: remote, kind: kind}
}

// sniScenario is the session of a server-name history: how far it gets is s.kind.
func sniScenario(s sess, explicit bool, i int) scenario {
	sc := scenario{domain: s.domain, remote: s.remote, explicit: explicit}
	if s.s2s {
		sc.state0 = uint8(xmpp.S2S)
	}
	switch s.kind {
	case 'p':
		sc.clear = [][]unit{{hdr(true), list(it(0, true))}, {u('P')}}
		sc.prot = []pu{{u: hdr(true)}, {u: list()}}
	case 'x':
		sc.clear = [][]unit{{hdr(true), list()}, {u('P')}}
		sc.prot = []pu{{u: hdr(true)}, {u: list()}}
	case 'f':
		sc.clear = [][]unit{{hdr(true), list(it(0, true))}, {u('F')}}
	default:
		sc.clear = [][]unit{{hdr(false)}}
	}
	if i%2 == 1 {
		sc.tee = 3
	}
	return sc
}

func (c *ctx) sni(explicit bool, ss []sess, class string) {
	r := c.r
	base := xmpp.StartTLS(c.tlsConfig(explicit))
	var names, fields []string
	bad, badRemote := -1, false
	for i, s := range ss {
		sc := sniScenario(s, explicit, i)
		res := c.exec(sc, &base)
		n := "none"
		if len(res.sni) > 0 {
			n = res.sni[0]
			want := domains[s.domain]
			if explicit {
				want = "explicit.example"
			}
			if n != want && bad < 0 {
				bad = i
				badRemote = !explicit && n == domains[s.remote]
			}
			switch {
			case n == "explicit.example":
				n = "ex"
			default:
				for k, d := range domains {
					if d == res.sni[0] {
						n = fmt.Sprintf("d%d", k)
					}
				}
			}
		}
		names = append(names, n)
		fields = append(fields, fmt.Sprintf("%d.%d.%s.%c", s.domain, s.remote, common.B(s.s2s), s.kind))
	}
	line := fmt.Sprintf("sni %s %s", common.B(explicit), common.Join(fields, ","))
	r.Line(line, common.Join(names, ","))
	r.Case(line, true, class)
	if bad >= 0 {
		k := "later-session-offers-earlier-domain"
		switch {
		case badRemote:
			k = "names-remote-address"
		case bad == 0:
			k = "first-session"
		}
		r.Fail("servername", "reuse/"+k, []string{r.Prop + " " + line},
			fmt.Sprintf("sessions (own.remote.s2s.kind) %v offered server names %v: the server name offered must be the domainpart of each session's own address", fields, names))
	}
}

// ---- probes of the two features.go behaviours the model takes as parameters ---------------------

func (c *ctx) probe() {
	// rr: optional STARTTLS, nothing required, <proceed/>: is Ready set together with the new layer?
	res := c.exec(scenario{clear: [][]unit{{hdr(true), list(it(0, false))}, {u('P')}}}, nil)
	c.rr = strings.HasPrefix(res.outcome, "done.") && len(res.protEv) == 0
	// rt: a voluntary feature sets Authn; another cached feature is prohibited by Authn.
	sc := scenario{
		others:  []other{{id: 1, nec: 1, negotiable: true}, {id: 2, nec: 1, proh: 2, negotiable: true}},
		clear:   [][]unit{{hdr(true), list(it(0, true))}, {u('P')}},
		prot:    []pu{{u: hdr(true)}, {u: list(it(1, false), it(2, true))}},
		results: []negRes{{mask: 2}, {mask: 0}},
	}
	res = c.exec(sc, nil)
	c.rt = true
	for _, p := range res.picks {
		if p.id == 2 {
			c.rt = false
		}
	}
	// sk: a voluntary feature sets Authn; a required feature of the same list needs Authn and
	// was therefore skipped when the list was read.  Ready, or "advertised out of order"?
	res = c.exec(scenario{
		others:  []other{{id: 1, nec: 1, negotiable: true}, {id: 2, nec: 3, negotiable: true}},
		clear:   [][]unit{{hdr(true), list(it(0, true))}, {u('P')}},
		prot:    []pu{{u: hdr(true)}, {u: list(it(1, false), it(2, true))}},
		results: []negRes{{mask: 2}, {mask: 0}},
	}, nil)
	c.sk = strings.HasPrefix(res.outcome, "err.")
	c.r.Extra["features.go: a skipped required feature that became negotiable makes the list an error (sk)"] = c.sk
	c.r.Extra["features.go: Ready together with a new layer when nothing is required (rr)"] = c.rr
	c.r.Extra["features.go: masks re-tested at selection (rt)"] = c.rt
}

// ---- generators ------------------------------------------------------------------------------------

func segs(one bool, rounds ...[]unit) [][]unit {
	if one {
		var all []unit
		for _, r := range rounds {
			all = append(all, r...)
		}
		return [][]unit{all}
	}
	var out [][]unit
	for _, r := range rounds {
		if len(r) > 0 {
			out = append(out, r)
		}
	}
	return out
}

func (c *ctx) corpus(tees []int) {
	// 1. tee on, empty first features list (negotiator.go: first := data == nil)
	c.check(scenario{clear: [][]unit{{hdr(true), list()}}}, []int{1, 2, 3}, "corpus")
	c.check(scenario{clear: [][]unit{{hdr(true), list(item{id: 9, req: true, ok: true})}}}, []int{1, 2, 3}, "corpus")
	// 2. one feature value, two domains (starttls.go: default config captured)
	c.sni(false, []sess{mkSess(0, 0, 'p'), mkSess(1, 1, 'p')}, "corpus")
	c.sni(false, []sess{mkSess(0, 0, 'f'), mkSess(1, 1, 'x'), mkSess(2, 2, 'p')}, "corpus")
	c.sni(true, []sess{mkSess(0, 0, 'p'), mkSess(1, 1, 'p')}, "corpus")
	// own address and remote address with different domainparts: an account on a hosted
	// domain (NewSession with an explicit location), and server-to-server sessions
	c.sni(false, []sess{mkSess(0, 1, 'p')}, "corpus")
	c.sni(false, []sess{mkSess(0, 1, 'x'), mkSess(0, 0, 'p'), mkSess(2, 3, 'p'), mkSess(3, 2, 'p')}, "corpus")
	c.sni(false, []sess{{domain: 0, remote: 1, s2s: true, kind: 'p'}, {domain: 1, remote: 0, s2s: true, kind: 'x'}, {domain: 2, remote: 2, s2s: true, kind: 'p'}}, "corpus")
	c.sni(true, []sess{mkSess(0, 1, 'p'), {domain: 2, remote: 3, s2s: true, kind: 'p'}}, "corpus")
	for d := 0; d < 4; d++ {
		for rm := 0; rm < 4; rm++ {
			for _, s2s := range []bool{false, true} {
				c.sni(false, []sess{{domain: d, remote: rm, s2s: s2s, kind: 'p'}, {domain: rm, remote: d, s2s: !s2s, kind: 'x'}}, "corpus-address-pairs")
			}
		}
	}
	// 3. optional STARTTLS refused (features.go: error of a voluntary feature overwritten)
	for _, a := range []byte{'F', 'G', 'O', 'W', 'E'} {
		c.check(scenario{clear: [][]unit{{hdr(true), list(it(0, false))}, {u(a)}}}, tees, "corpus")
	}
	// 4. optional STARTTLS accepted, nothing else required
	c.check(scenario{clear: [][]unit{{hdr(true), list(it(0, false))}, {u('P')}}, prot: []pu{{u: hdr(true)}, {u: list()}}}, tees, "corpus")
	// 6. the real SASL and bind features advertised in clear text, with and without STARTTLS
	// … for every configuration of mechanisms (PLAIN only, SCRAM only, channel binding, mixed):
	// the property names the built-in authentication feature, not one configuration of it
	bi := builtinOthers(0)
	sa, bd := item{id: idSASL, req: true, ok: true}, item{id: idBind, req: true, ok: true}
	for mech := range mechSets {
		bim := builtinOthers(mech)
		tt := tees
		if mech > 0 {
			tt = []int{1 + mech%3}
		}
		for _, l := range []unit{list(sa), list(sa, bd), list(it(0, true), sa, bd), list(it(0, false), sa), list(bd)} {
			for _, a := range []byte{'P', 'F'} {
				c.check(scenario{mech: mech, others: bim, clear: [][]unit{{hdr(true), l}, {u(a)}}, prot: []pu{{u: hdr(true)}, {u: list()}}}, tt, "corpus-builtin")
			}
		}
		// (were SASL selectable in clear text, Go's map order would decide between it and a
		// required STARTTLS: repeat so that either order is seen)
		for k := 0; k < 12; k++ {
			c.check(scenario{mech: mech, others: bim, clear: [][]unit{{hdr(true), list(it(0, true), sa)}, {u('P')}}, prot: []pu{{u: hdr(true)}, {u: list()}}}, tt, "corpus-builtin")
		}
	}
	// 9. the addresses in the peer's stream headers: every 'to' of the universe (own address,
	// other localpart / domain / resource of the same and of another shape, bare domain, absent)
	// x every 'from', in the clear-text header and in the header after the TLS switch; own and
	// remote domain equal and different, c2s and s2s, default and explicit TLS configuration
	c.headerAddresses(tees)
	// 7. after the TLS switch: lists that name STARTTLS again, unknown features, features whose
	// Prohibited mask holds now, and a required feature that only becomes negotiable once a
	// voluntary one of the same list has set Authn (round 3: thorough seed 7)
	after := func(others []other, l unit, results ...negRes) {
		c.check(scenario{others: others, clear: [][]unit{{hdr(true), list()}, {u('P')}},
			prot: []pu{{u: hdr(true)}, {u: l}, {u: hdr(true)}, {u: list()}}, results: results, domain: 1}, tees, "corpus-after-tls")
	}
	a1 := []other{{id: 1, nec: 1, negotiable: true}, {id: 2, nec: 3, proh: 4, negotiable: true}, {id: 3, nec: 1, proh: 2, negotiable: true}}
	after(a1, list(it(2, true), it(1, false), item{id: 9, ok: true}), negRes{mask: 2})
	after(a1, list(it(1, false), it(2, true), it(2, true)), negRes{mask: 2})
	after(a1, list(it(1, false), it(2, false)), negRes{mask: 2})                  // skipped but voluntary
	after(a1, list(it(1, false), it(2, true)), negRes{mask: 0})                   // stays non-negotiable
	after(a1, list(it(1, true), it(2, true)), negRes{mask: 2})                    // the required one first
	after(a1, list(it(1, false), it(2, true)), negRes{mask: 2, restart: true})    // a restart comes first
	after(a1, list(it(0, false), it(1, false)), negRes{mask: 0})                  // STARTTLS advertised again
	after(a1, list(it(0, true)))                                                  // … alone and required
	after(a1, list(it(3, false), it(1, false)), negRes{mask: 2}, negRes{mask: 0}) // 3 prohibited once Authn
	after(a1, list(it(3, true), it(1, false)), negRes{mask: 2}, negRes{mask: 0})
	after([]other{{id: 1, nec: 1, negotiable: true}, {id: 2, nec: 3, negotiable: false}}, list(it(1, false), it(2, true)), negRes{mask: 2}) // informational
	// 8. what makes a session start Secure: every kind of connection.  STARTTLS required next to
	// SASL PLAIN (the real feature: its <auth/> carries the password), next to an instrumented
	// feature, an empty list, STARTTLS alone; on a *tls.Conn the same lists arrive inside TLS.
	for ck := range connKinds {
		for _, l := range []unit{list(it(0, true), sa), list(sa), list(it(0, true), sa, bd), list()} {
			sc := scenario{ck: ck, others: bi, clear: [][]unit{{hdr(true), l}, {u('P')}}, prot: []pu{{u: hdr(true)}, {u: list()}}, domain: 2, remote: 2}
			if ck == 3 {
				sc.clear, sc.prot = nil, []pu{{u: hdr(true)}, {u: list()}}
			}
			for k := 0; k < 3; k++ {
				c.check(sc, tees, "corpus-conn-kinds")
			}
		}
		for _, l := range []unit{list(it(0, true), it(1, true)), list(it(1, true)), list(it(0, false), it(1, false)), list(it(0, true))} {
			sc := scenario{ck: ck, others: []other{{id: 1, nec: 1, negotiable: true}}, clear: [][]unit{{hdr(true), l}, {u('P')}},
				prot: []pu{{u: hdr(true)}, {u: list(it(1, true))}, {u: list()}}, results: []negRes{{mask: 2}, {mask: 0}}, domain: 1, remote: 3}
			if ck == 3 {
				sc.clear = nil
			}
			c.check(sc, tees, "corpus-conn-kinds")
		}
	}
	// 10. the WebSocket framing (websocket.Negotiator, websocket.NewSession): the same negotiator
	// with <open/> headers, on raw carriers and on real client *websocket.Conn values whose origin
	// is an http:, https: or wss: URL while the location is ws: (clear text).  Lists without
	// STARTTLS (empty, unknown feature, SASL only), with it, next to the real SASL/bind features
	// and an instrumented one; proceed / refused; the tee.
	for _, ck := range wsKinds {
		for mech := 0; mech < 2; mech++ {
			bim := builtinOthers(mech)
			for _, l := range []unit{list(), list(item{id: 9, req: true, ok: true}), list(sa), list(sa, bd), list(it(0, true), sa, bd), list(it(0, false), sa), list(it(0, true))} {
				for _, a := range []byte{'P', 'F'} {
					sc := scenario{ck: ck, mech: mech, others: bim, clear: [][]unit{{hdr(true), l}, {u(a)}}, prot: []pu{{u: hdr(true)}, {u: list()}}, domain: 1 + mech, remote: 1 + mech}
					c.check(sc, []int{1 + (ck+mech)%3}, "corpus-websocket")
				}
			}
			for k := 0; k < 6; k++ {
				c.check(scenario{ck: ck, mech: mech, others: bim, clear: [][]unit{{hdr(true), list(it(0, true), sa)}, {u('P')}}, prot: []pu{{u: hdr(true)}, {u: list()}}}, nil, "corpus-websocket")
			}
		}
		for _, l := range []unit{list(), list(it(0, true), it(1, true)), list(it(1, true)), list(it(0, false), it(1, false))} {
			for _, st0 := range []uint8{0, uint8(xmpp.S2S)} {
				sc := scenario{ck: ck, state0: st0, others: []other{{id: 1, nec: 1, negotiable: true}}, clear: [][]unit{{hdr(true), l}, {u('P')}},
					prot: []pu{{u: hdr(true)}, {u: list(it(1, true))}, {u: list()}}, results: []negRes{{mask: 2}, {mask: 0}}, domain: 1, remote: 3}
				c.check(sc, tees, "corpus-websocket")
			}
		}
		// the header of the other framing, a stream error in place of the header, a header with
		// another 'to'
		for _, h := range []unit{{kind: 'H', variant: 3}, u('D'), u('E'), hdrA(1, &addr{1, 2, 0}), hdrA(0, nil)} {
			c.check(scenario{ck: ck, clear: [][]unit{{h, list(it(0, true))}, {u('P')}}, prot: []pu{{u: hdr(true)}, {u: list()}}, domain: 1, remote: 1}, []int{3}, "corpus-websocket")
		}
		c.pipelined(scenario{ck: ck, clear: [][]unit{{hdr(true), list(it(0, true))}, {u('P')}}, prot: []pu{{u: hdr(true)}, {u: list()}}},
			[]unit{hdr(true), list()}, []int{2}, "corpus-websocket")
	}
	// 11. "TLS-protected" means the peer was authenticated: a certificate for another name / of an
	// unknown CA ends the negotiation with a TLS error — default and explicit configuration,
	// advertised and forced STARTTLS, every clear kind of connection and the *tls.Conn
	for _, ck := range []int{0, 1, 2, 3, 4, 5, 6, 7} {
		for cert := 1; cert <= 2; cert++ {
			for _, explicit := range []bool{false, true} {
				for _, l := range []unit{list(it(0, true)), list(), list(it(0, false), sa)} {
					sc := scenario{ck: ck, explicit: explicit, others: bi, clear: [][]unit{{hdr(true), l}, {u('P')}},
						prot: []pu{{junk: true, cert: cert}, {u: hdr(true)}, {u: list()}}, domain: cert, remote: cert}
					if ck == 3 {
						sc.clear = nil
					}
					c.check(sc, []int{1 + (ck+cert)%3}, "corpus-bad-certificate")
				}
			}
		}
	}
	// a stream error that declares its namespace itself, in every position (TCP framing)
	for _, cl := range [][][]unit{{{u('D')}}, {{hdr(true), u('D')}}, {{hdr(true), list(it(0, true))}, {u('D')}}} {
		c.check(scenario{clear: cl}, []int{3}, "corpus")
	}
	c.check(scenario{clear: [][]unit{{hdr(true), list(it(0, true))}, {u('P')}}, prot: []pu{{u: u('D')}}}, []int{3}, "corpus")
	c.check(scenario{clear: [][]unit{{hdr(true), list(it(0, true))}, {u('P')}}, prot: []pu{{u: hdr(true)}, {u: u('D')}}}, []int{3}, "corpus")
	// 5. clear text pipelined behind <proceed/>
	c.pipelined(scenario{clear: [][]unit{{hdr(true), list(it(0, true))}, {u('P')}}, prot: []pu{{u: hdr(true)}, {u: list()}}},
		[]unit{hdr(true), list()}, tees, "corpus")
}

// oversized: units larger than the decoder's read-ahead (4096 bytes), around its boundary and well
// beyond it: white space before the header, a foreign element where the list is expected, and —
// the interesting one — clear text pipelined behind <proceed/> in the same segment: what fits into
// the read-ahead is dropped with it, what does not is still on the connection when the TLS layer
// starts.  Raw carriers only (a *websocket.Conn reads through a buffer of its own).
func (c *ctx) oversized(tees []int) {
	n := 0
	for _, pad := range []int{100, 3900, 3990, 4020, 4050, 4080, 4110, 5000, 8300, 13000} {
		for _, ck := range []int{0, 1, 2, 4, 5} {
			big := func(k byte) unit { return unit{kind: k, pad: pad} }
			tls := []pu{{u: hdr(true)}, {u: list()}}
			for _, cl := range [][][]unit{
				{{hdr(true), list(it(0, true))}, {u('P'), big('O')}},
				{{hdr(true), list(it(0, true))}, {u('P'), big('W'), hdr(true), list()}},
				{{hdr(true), list(it(0, true)), u('P'), big('W')}},
				{{hdr(true), list()}, {u('P'), big('O'), u('M')}},
				{{big('W'), hdr(true), list(it(0, false))}, {u('P')}},
				{{hdr(true), big('O'), list(it(0, true))}},
				{{hdr(true), list(it(0, true))}, {big('W'), u('P')}},
				{{hdr(true), list(it(0, true))}, {big('O'), u('P')}},
			} {
				n++
				c.check(scenario{ck: ck, clear: cl, prot: tls, domain: n % 4, remote: (n / 2) % 4, explicit: n%3 == 0}, []int{1 + n%3}, "oversized")
			}
		}
	}
}

// headerTos: every 'to' a header can carry (nil: none)
// wsKinds: the kinds of connection with the WebSocket framing; allClearKinds: every clear-text kind
var wsKinds = []int{4, 5, 6, 7, 8}
var allClearKinds = []int{0, 1, 2, 4, 5, 6, 7, 8, 0, 1, 2}

func headerTos() []*addr {
	out := []*addr{nil}
	for loc := 0; loc < 3; loc++ {
		for dom := 0; dom < len(domains); dom++ {
			for res := 0; res < 2; res++ {
				out = append(out, &addr{loc, dom, res})
			}
		}
	}
	return out
}

func hdrA(from int, to *addr) unit {
	h := unit{kind: 'A', from: from}
	if to != nil {
		h.hasTo, h.to = true, *to
	}
	return h
}

func (c *ctx) headerAddresses(tees []int) {
	n := 0
	for _, to := range headerTos() {
		for from := range hdrFromKinds {
			for _, s2s := range []bool{false, true} {
				for inTLS := 0; inTLS < 2; inTLS++ {
					if from >= 2 && n%3 != 0 && to != nil {
						n++
						continue // a foreign 'from' is refused whatever the 'to': keep a third
					}
					sc := scenario{domain: n % 4, remote: (n / 4) % 4, explicit: n%5 == 0, ck: n % 3}
					if s2s {
						sc.state0 = uint8(xmpp.S2S)
					}
					n++
					h1, h2 := hdr(true), hdrA(from, to)
					if inTLS == 0 {
						h1, h2 = h2, h1
					}
					sc.clear = [][]unit{{h1, list(it(0, true))}, {u('P')}}
					sc.prot = []pu{{u: h2}, {u: list()}}
					tt := []int{1 + n%3}
					if n%7 == 0 {
						tt = tees
					}
					c.check(sc, tt, "corpus-header-addresses")
				}
			}
		}
	}
}

func (c *ctx) exhaustive(tees []int) {
	r := c.r
	f1 := other{id: 1, nec: 1, negotiable: true}
	f2 := other{id: 2, nec: 1, negotiable: true} // writes through the session's encoder
	firsts := [][]unit{
		{list()},
		{list(it(0, false))},
		{list(it(0, true))},
		{list(it(1, true))},
		{list(item{id: 9, req: true, ok: true})},
		{list(it(0, true), it(1, true))},
		{list(it(1, false), it(0, false))},
		{list(it(0, false), it(0, true))},
		{list(item{id: 1, req: true, ok: false})},
		{u('E')}, {u('W'), list(it(0, true))}, {u('M')}, {u('P')}, {hdr(true)}, {u('O')}, {u('F')}, {u('G')}, {hdr(false)}, {},
	}
	answers := [][]unit{{u('P')}, {u('F')}, {u('E')}, {u('G')}, {u('O')}, {u('W'), u('P')}, {u('M')}, {hdr(true)}, {list()}, {}}
	prots := [][]pu{
		nil,
		{{u: hdr(true)}, {u: list()}},
		{{u: hdr(true)}, {u: list(it(1, true))}, {u: list()}},
		{{junk: true}},
		{{u: hdr(true)}, {junk: true}},
		{{u: hdr(false)}},
		{{u: hdr(true)}, {u: list(it(0, true))}},
	}
	if r.Quick() {
		prots = prots[:5]
	}
	hdrs := [][]unit{{hdr(true)}, {u('W'), hdr(true)}, {hdr(false)}, {u('E')}, {}, {list()}, {u('P')}, {u('F')}, {u('G')}, {u('O')}, {u('M')},
		// a 'to' that is another domain of the same shape / the bare own domain; no addresses at all
		{hdrA(1, &addr{1, 5, 0})}, {hdrA(1, &addr{0, 6, 0})}, {hdrA(0, nil)}}
	n := 0
	for hi, h := range hdrs {
		for _, f := range firsts {
			if hi > 1 && hi != 13 && len(f) > 0 && !(f[0].kind == 'L' && len(f[0].items) == 0) {
				continue // a refused header: the rest of the script is irrelevant, keep one
			}
			for _, a := range answers {
				for pi, p := range prots {
					if len(a) > 0 && a[len(a)-1].kind != 'P' && pi > 1 {
						continue // no TLS phase without <proceed/>: keep two
					}
					for _, one := range []bool{false, true} {
						if one && r.Quick() && pi > 1 {
							continue
						}
						sc := scenario{others: []other{f1}, clear: segs(one, h, f, a), prot: p,
							results: []negRes{{mask: 2}, {mask: 0}}, domain: n % 4, remote: (n / 4) % 4, explicit: n%3 == 0, ck: allClearKinds[(n/2)%len(allClearKinds)]}
						if n%6 == 5 {
							// a server-to-server initiator (own address = the bare domain, jabber:server)
							sc.state0 = uint8(xmpp.S2S)
						}
						sc.clear = relDomains(sc.clear, sc.domain)
						if n%2 == 1 {
							sc = useFeature2(sc, f2)
						}
						if !one && n%3 == 1 {
							// every unit that starts a segment arrives split across two reads
							sc.split = []int{0, 1 + n%17, 1 + n%29, 1 + n%7}
						}
						n++
						tt := tees
						if r.Quick() && n%4 != 0 {
							tt = []int{3}
						}
						if len(a) > 0 && a[len(a)-1].kind == 'P' && !one {
							c.pipelined(sc, []unit{hdr(true), list()}, tt, "exhaustive")
							if pi <= 1 {
								c.pipelined(sc, []unit{u('M')}, tt, "exhaustive")
							}
						} else {
							c.check(sc, tt, "exhaustive")
						}
					}
				}
			}
		}
	}
	r.Exhaustive = append(r.Exhaustive, fmt.Sprintf("%d scripts: header classes x %d first-list shapes x %d answers to the STARTTLS request x %d TLS-phase continuations x segmentation x tee variants x pipelined clear text", n, len(firsts), len(answers), len(prots)))
}

// relDomains resolves the domain codes 5 and 6 of header addresses: 5 = the domain after the
// session's own (same shape), 6 = the session's own.
func relDomains(clear [][]unit, own int) [][]unit {
	var out [][]unit
	for _, seg := range clear {
		var ns []unit
		for _, u := range seg {
			if u.kind == 'A' && u.hasTo && u.to.dom >= 5 {
				if u.to.dom == 5 {
					u.to.dom = (own + 1) % 4
				} else {
					u.to.dom = own
				}
			}
			ns = append(ns, u)
		}
		out = append(out, ns)
	}
	return out
}

// useFeature2 renames feature 1 to feature 2 everywhere in a scenario.
func useFeature2(sc scenario, f2 other) scenario {
	sc.others = []other{f2}
	ren := func(u unit) unit {
		if u.kind != 'L' {
			return u
		}
		nu := unit{kind: 'L'}
		for _, i := range u.items {
			if i.id == 1 {
				i.id = 2
			}
			nu.items = append(nu.items, i)
		}
		return nu
	}
	var clear [][]unit
	for _, seg := range sc.clear {
		var ns []unit
		for _, u := range seg {
			ns = append(ns, ren(u))
		}
		clear = append(clear, ns)
	}
	sc.clear = clear
	var prot []pu
	for _, p := range sc.prot {
		if !p.junk {
			p.u = ren(p.u)
		}
		prot = append(prot, p)
	}
	sc.prot = prot
	return sc
}

func (c *ctx) random(n int, tees []int) {
	rnd := c.r.Rnd
	kinds := []byte{'P', 'F', 'E', 'G', 'O', 'W', 'M', 'D'}
	for i := 0; i < n; i++ {
		sc := scenario{domain: rnd.Intn(4), explicit: rnd.Chance(1, 3)}
		sc.remote = sc.domain
		if rnd.Bool() {
			sc.remote = rnd.Intn(4)
		}
		sc.ck = allClearKinds[rnd.Intn(len(allClearKinds))]
		if sc.wsConn() && rnd.Bool() {
			sc.remote = sc.domain // (what websocket.NewSession fixes)
		}
		tlsConn := rnd.Chance(1, 8)
		if rnd.Chance(1, 6) {
			sc.state0 = []uint8{2, 64, 66}[rnd.Intn(3)] // Authn, S2S
		}
		compliant := !rnd.Chance(1, 5)
		no := rnd.Intn(4)
		for k := 1; k <= no; k++ {
			o := other{id: k, nec: 1, negotiable: !rnd.Chance(1, 6)}
			if rnd.Chance(1, 3) {
				o.nec |= 2
			}
			if !compliant && rnd.Chance(1, 2) {
				o.nec &^= 1
			}
			if rnd.Chance(1, 3) {
				o.proh = []uint8{2, 4, 2, 1}[rnd.Intn(4)]
			}
			sc.others = append(sc.others, o)
		}
		for k := 0; k < 6; k++ {
			res := negRes{mask: []uint8{0, 2, 2, 4, 6, 1, 64}[rnd.Intn(7)], restart: rnd.Chance(1, 4), err: rnd.Chance(1, 10)}
			sc.results = append(sc.results, res)
		}
		single := !rnd.Chance(1, 6) // mostly lists in which the selection is forced
		genList := func(secure bool) unit {
			l := unit{kind: 'L'}
			ni := rnd.Intn(4)
			haveOther := false
			for k := 0; k < ni; k++ {
				id := rnd.Intn(no + 2)
				if id > no {
					id = 9
				}
				if secure && id == 0 && !rnd.Chance(1, 4) {
					id = 1 + rnd.Intn(no+1)
					if id > no {
						id = 9
					}
				}
				if single && id >= 1 && id <= no {
					if haveOther || (!compliant && !secure) {
						id = 9
					}
					haveOther = true
				}
				l.items = append(l.items, item{id: id, req: rnd.Bool(), ok: !(id != 0 && id != 9 && rnd.Chance(1, 12))})
			}
			return l
		}
		// a header: mostly the expected one; one in five carries addresses of the peer's choosing
		// (mostly near misses of the session's own address)
		genHdr := func(okOdds int) unit {
			if rnd.Chance(1, 5) {
				h := unit{kind: 'A', from: []int{1, 1, 1, 0, 2, 3}[rnd.Intn(6)]}
				if !rnd.Chance(1, 5) {
					h.hasTo = true
					h.to = addr{1, sc.domain, 0}
					if sc.state0&uint8(xmpp.S2S) != 0 {
						h.to.loc = 0
					}
					switch rnd.Intn(6) {
					case 0:
						h.to.loc = rnd.Intn(3)
					case 1, 2:
						h.to.dom = rnd.Intn(len(domains))
					case 3:
						h.to.res = 1
					case 4:
						h.to = addr{rnd.Intn(3), rnd.Intn(len(domains)), rnd.Intn(2)}
					}
				}
				return h
			}
			h := hdr(!rnd.Chance(1, okOdds))
			h.variant = rnd.Intn(12)
			return h
		}
		any := func() unit {
			switch rnd.Intn(10) {
			case 0:
				return genHdr(4)
			case 1, 2:
				return genList(false)
			default:
				return u(kinds[rnd.Intn(len(kinds))])
			}
		}
		// clear phase: mostly well formed
		var rounds [][]unit
		rounds = append(rounds, []unit{genHdr(12)})
		if rnd.Chance(1, 10) {
			rounds[0] = append([]unit{u('W')}, rounds[0]...)
		}
		if rnd.Chance(9, 10) {
			rounds = append(rounds, []unit{genList(false)})
		} else {
			rounds = append(rounds, []unit{any()})
		}
		switch rnd.Intn(8) {
		case 0:
		case 1, 2:
			rounds = append(rounds, []unit{any()})
		default:
			rounds = append(rounds, []unit{{kind: 'P', variant: rnd.Intn(2)}})
		}
		for rnd.Chance(1, 4) {
			rounds = append(rounds, []unit{any()})
		}
		// segmentation
		var clear [][]unit
		for _, rd := range rounds {
			if len(clear) > 0 && rnd.Chance(1, 2) {
				clear[len(clear)-1] = append(clear[len(clear)-1], rd...)
			} else {
				clear = append(clear, rd)
			}
		}
		sc.clear = clear
		if tlsConn {
			// the session is created on a *tls.Conn: everything the peer says is inside TLS
			sc.ck = 3
			if rnd.Chance(3, 4) {
				sc.clear = nil
			}
		}
		if rnd.Chance(1, 3) {
			// some units arrive split across two reads
			sc.split = make([]int, len(clear))
			for k := 1; k < len(clear); k++ {
				if rnd.Chance(1, 2) {
					sc.split[k] = 1 + rnd.Intn(40)
				}
			}
		}
		// TLS phase
		if rnd.Chance(1, 15) {
			sc.prot = append(sc.prot, pu{junk: true, cert: 1 + rnd.Intn(2)})
		}
		np := rnd.Intn(5)
		for k := 0; k < np; k++ {
			// (a round without a header: what follows a required feature that was
			// negotiated without a stream restart)
			if k == 0 || !rnd.Chance(1, 3) {
				sc.prot = append(sc.prot, pu{u: genHdr(15)})
			}
			if rnd.Chance(1, 12) {
				sc.prot = append(sc.prot, pu{junk: true})
			}
			if rnd.Chance(9, 10) {
				sc.prot = append(sc.prot, pu{u: genList(true)})
			} else {
				sc.prot = append(sc.prot, pu{u: any()})
			}
			for rnd.Chance(1, 5) {
				sc.prot = append(sc.prot, pu{u: any()})
			}
		}
		tt := []int{1 + rnd.Intn(3)}
		if i%8 == 0 {
			tt = tees
		}
		c.check(sc, tt, "random")
		if i%10 == 0 {
			var ss []sess
			ns := 1 + rnd.Intn(4)
			for k := 0; k < ns; k++ {
				s := sess{domain: rnd.Intn(4), kind: "ppxfn"[rnd.Intn(5)], s2s: rnd.Chance(1, 3)}
				s.remote = s.domain
				if rnd.Bool() {
					s.remote = rnd.Intn(4)
				}
				ss = append(ss, s)
			}
			c.sni(rnd.Chance(1, 4), ss, "random-sni")
		}
	}
}

// deep generates scripts that get far into the TLS phase: a valid clear phase, then a chain of
// rounds each advertising one configured feature, with the header only where the previous
// result asked for a restart, so that the selection loop, restarts, rounds without a header
// and the final empty list are all reached.
func (c *ctx) deep(n int, tees []int) {
	rnd := c.r.Rnd
	for i := 0; i < n; i++ {
		sc := scenario{domain: rnd.Intn(4), remote: rnd.Intn(4), explicit: rnd.Chance(1, 3)}
		if rnd.Chance(1, 4) {
			sc.state0 = uint8(xmpp.S2S)
		}
		for k := 1; k <= 3; k++ {
			o := other{id: k, nec: 1, negotiable: true}
			if rnd.Chance(1, 4) {
				o.proh = 2
			}
			if rnd.Chance(1, 3) {
				o.nec = 3 // needs Authn as well: skipped when the list is read before Authn is set
			}
			sc.others = append(sc.others, o)
		}
		sc.clear = [][]unit{{hdr(true), list(it(0, !rnd.Chance(1, 5)))}, {u('P')}}
		if rnd.Chance(1, 3) {
			sc.clear = [][]unit{{hdr(true), list()}, {u('P')}} // forced attempt
		}
		sc.ck = allClearKinds[rnd.Intn(len(allClearKinds))]
		if rnd.Chance(1, 6) {
			sc.ck = 3
			sc.clear = nil
		}
		needHdr := true
		rounds := 1 + rnd.Intn(4)
		for k := 0; k < rounds; k++ {
			if needHdr {
				sc.prot = append(sc.prot, pu{u: hdr(true)})
			}
			id := 1 + rnd.Intn(3)
			req := rnd.Chance(2, 3)
			l := list(item{id: id, req: req, ok: true})
			if rnd.Chance(1, 4) {
				l.items = append(l.items, item{id: 9, req: rnd.Bool(), ok: true})
			}
			if rnd.Chance(1, 3) {
				// a second configured feature in the same list
				l.items = append(l.items, item{id: 1 + rnd.Intn(3), req: rnd.Bool(), ok: true})
			}
			sc.prot = append(sc.prot, pu{u: l})
			res := negRes{mask: []uint8{0, 2, 2, 64, 0}[rnd.Intn(5)], restart: rnd.Chance(1, 2), err: rnd.Chance(1, 15)}
			sc.results = append(sc.results, res, negRes{mask: []uint8{0, 2}[rnd.Intn(2)], restart: rnd.Chance(1, 3)})
			needHdr = res.restart
		}
		if needHdr {
			sc.prot = append(sc.prot, pu{u: hdr(true)})
		}
		if rnd.Chance(3, 4) {
			sc.prot = append(sc.prot, pu{u: list()})
		}
		tt := []int{1 + rnd.Intn(3)}
		if i%6 == 0 {
			tt = tees
		}
		c.check(sc, tt, "deep")
	}
}

// Run is the C02 runner.
func Run(r *common.Run) error {
	p, err := newPKI(r.Dir)
	if err != nil {
		return err
	}
	c := &ctx{r: r, pki: p}
	c.probe()
	all := []int{1, 2, 3}
	if r.Replay != "" {
		lines, err := common.ReplayLines(r.Replay)
		if err != nil {
			return err
		}
		// every op of the replayed case is executed again exactly as it was emitted: the run
		// lines with their tee variants (and the split of their units, kept in a comment),
		// adjacent pairs that are a script and its pipelined version are compared under the
		// pre-buffer clause, sni lines with their histories
		var scs []scenario
		sharedMode := ""
		for _, l := range lines {
			if strings.HasPrefix(l, "#shared-negotiator") {
				sharedMode = strings.TrimSpace(strings.TrimPrefix(l, "#shared-negotiator"))
				continue
			}
			if strings.HasPrefix(l, "#mech=") && len(scs) > 0 {
				scs[len(scs)-1].mech, _ = strconv.Atoi(strings.TrimPrefix(l, "#mech="))
				continue
			}
			if strings.HasPrefix(l, "#oversized=") && len(scs) > 0 {
				var clear [][]unit
				for _, seg := range strings.Split(strings.TrimPrefix(l, "#oversized="), "/") {
					var us []unit
					for _, x := range strings.Split(seg, ",") {
						if un, err := parseUnit(x); err == nil {
							us = append(us, un)
						}
					}
					clear = append(clear, us)
				}
				scs[len(scs)-1].clear = clear
				continue
			}
			if strings.HasPrefix(l, "#split=") && len(scs) > 0 {
				var sp []int
				for _, x := range strings.Split(strings.TrimPrefix(l, "#split="), ",") {
					n, _ := strconv.Atoi(x)
					sp = append(sp, n)
				}
				scs[len(scs)-1].split = sp
				continue
			}
			f := strings.Fields(l)
			if len(f) >= 3 && f[0] == "C02" && f[1] == "run" {
				sc, err := parseScenario(f[2:])
				if err != nil {
					return err
				}
				scs = append(scs, sc)
			}
		}
		if sharedMode != "" {
			// the lines are the sessions of one history over a shared Negotiator value
			hs := append([]scenario(nil), scs...)
			c.sharedHistory(hs, sharedMode == "parallel", "replay")
		}
		var results []result
		for _, sc := range scs {
			results = append(results, c.check(sc, all, "replay"))
		}
		for i := 0; i+1 < len(scs); i++ {
			if pipelinedOf(scs[i], scs[i+1]) {
				a, b := scs[i], scs[i+1]
				a.tee, b.tee = 0, 0
				c.comparePair(a, b, results[i], results[i+1])
			}
		}
		for _, sc := range scs {
			c.pipelined(sc, []unit{hdr(true), list()}, all, "replay")
		}
		for _, l := range lines {
			f := strings.Fields(l)
			if len(f) < 3 || f[0] != "C02" {
				continue
			}
			switch f[1] {
			case "sni":
				if len(f) < 4 {
					continue
				}
				var ss []sess
				for _, s := range strings.Split(f[3], ",") {
					p := strings.Split(s, ".")
					switch {
					case len(p) == 2 && len(p[1]) == 1: // line written before remote/s2s were added
						d, _ := strconv.Atoi(p[0])
						ss = append(ss, mkSess(d%4, d%4, p[1][0]))
					case len(p) == 4 && len(p[3]) == 1:
						d, _ := strconv.Atoi(p[0])
						rm, _ := strconv.Atoi(p[1])
						ss = append(ss, sess{domain: d % 4, remote: rm % 4, s2s: p[2] == "1", kind: p[3][0]})
					}
				}
				c.sni(f[2] == "1", ss, "replay")
			}
		}
		return nil
	}
	if r.Race() {
		// the race-detector run: only the concurrent scenarios
		c.histories(300, true)
		return nil
	}
	c.corpus(all)
	c.histories(r.Pick(60, 600), false)
	c.histories(r.Pick(40, 300), true)
	c.oversized(all)
	c.exhaustive(all)
	c.random(r.Pick(2500, 20000), all)
	c.deep(r.Pick(800, 8000), all)
	return nil
}

// Facts regenerates lean/XmppModel/Generated/C02.lean: the bit values of the session-state
// constants and the masks of the real xmpp.StartTLS / SASL / bind features (evaluated on the
// linked library), the shared mutable state of the values returned by NewNegotiator and StartTLS
// (read from the source, astwalk.go) and the probe tables (probes.go).
func Facts(repo string) (string, error) {
	var sb strings.Builder
	sb.WriteString("import XmppModel.Model.StartTLSProbe\n/-! GENERATED by `harness facts C02`; do not edit. -/\nnamespace XmppModel.Generated.C02\nopen XmppModel XmppModel.StartTLS\n\n")
	st := xmpp.StartTLS(nil)
	fmt.Fprintf(&sb, "def secureBit : Option Nat := some %d\n", uint8(xmpp.Secure))
	fmt.Fprintf(&sb, "def authnBit : Option Nat := some %d\n", uint8(xmpp.Authn))
	fmt.Fprintf(&sb, "def readyBit : Option Nat := some %d\n", uint8(xmpp.Ready))
	fmt.Fprintf(&sb, "def receivedBit : Option Nat := some %d\n", uint8(xmpp.Received))
	fmt.Fprintf(&sb, "def outputClosedBit : Option Nat := some %d\n", uint8(xmpp.OutputStreamClosed))
	fmt.Fprintf(&sb, "def inputClosedBit : Option Nat := some %d\n", uint8(xmpp.InputStreamClosed))
	fmt.Fprintf(&sb, "def s2sBit : Option Nat := some %d\n", uint8(xmpp.S2S))
	fmt.Fprintf(&sb, "def startTLSNecessary : Option Nat := some %d\n", uint8(st.Necessary))
	fmt.Fprintf(&sb, "def startTLSProhibited : Option Nat := some %d\n", uint8(st.Prohibited))
	fmt.Fprintf(&sb, "def startTLSNegotiable : Option Bool := some %v\n", st.Negotiate != nil)
	sf, bf := builtin(0)
	fmt.Fprintf(&sb, "/-- masks of the real `xmpp.SASL(…)` and `xmpp.BindResource()` values -/\n")
	fmt.Fprintf(&sb, "def saslNecessary : Option Nat := some %d\n", uint8(sf.Necessary))
	fmt.Fprintf(&sb, "def saslProhibited : Option Nat := some %d\n", uint8(sf.Prohibited))
	fmt.Fprintf(&sb, "def bindNecessary : Option Nat := some %d\n", uint8(bf.Necessary))
	fmt.Fprintf(&sb, "def bindProhibited : Option Nat := some %d\n", uint8(bf.Prohibited))

	// Shared mutable state of the two values that many sessions are negotiated with (the only
	// facts read from the source text; see astwalk.go).
	for _, x := range []struct{ def, root, doc string }{
		{"negotiatorSharedWrites", "NewNegotiator", "state shared by every session negotiated with one value returned by `NewNegotiator` (closure variables written by the closure, package-level variables, fields of an object built with the value) that the code reached from it writes"},
		{"startTLSSharedWrites", "StartTLS", "the same for a feature value returned by `StartTLS` (in particular: the captured configuration)"},
	} {
		shared := "none"
		if names, found, err := sharedState(repo, x.root); err == nil && found {
			var q []string
			for _, n := range names {
				q = append(q, strconv.Quote(n))
			}
			shared = "some [" + strings.Join(q, ", ") + "]"
		}
		fmt.Fprintf(&sb, "/-- %s -/\ndef %s : Option (List String) := %s\n", x.doc, x.def, shared)
	}
	sb.WriteString("\n")

	// Everything else about the behaviour of the anchored functions is PROBED: the real functions
	// are run over complete finite domains and the tables are emitted (probes.go).
	pr, err := probes()
	if err != nil {
		return "", err
	}
	sb.WriteString(pr)
	sb.WriteString("\nend XmppModel.Generated.C02\n")
	return sb.String(), nil
}
