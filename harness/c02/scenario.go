package c02

import (
	"context"
	"crypto/tls"
	"encoding/xml"
	"errors"
	"fmt"
	"io"
	"net"
	"runtime"
	"sort"
	"strconv"
	"strings"
	"sync"
	"time"

	"mellium.im/sasl"
	"mellium.im/xmpp"
	"mellium.im/xmpp/jid"
	"mellium.im/xmpp/stream"
	xmppws "mellium.im/xmpp/websocket"

	"golang.org/x/net/websocket"

	"verifharness/common"
)

const nsTLS = "urn:ietf:params:xml:ns:xmpp-tls"

// ---- script syntax (shared with lean/XmppModel/Driver/C02.lean) -------------------------

type item struct {
	id      int
	req, ok bool
}

// unit is one top-level thing the peer sends.
//
//	H1/H0  stream header, acceptable / not acceptable (its addresses are the expected ones)
//	A…     an otherwise acceptable stream header with addresses of the peer's choosing:
//	       A<from> (no 'to') or A<from>.<loc>.<dom>.<res>; see hdrFromKinds, addr
//	L…     features list, items id.req.ok joined by '+'
//	P F    <proceed/> <failure/> (TLS namespace)
//	E      <stream:error/> (relies on the prefix the stream header declared)
//	D      <stream:error xmlns:stream='…'/>: declares the stream namespace itself
//	G      another element in the TLS namespace
//	O      an element in a foreign namespace
//	W      white space
//	M      bytes that are not XML
type unit struct {
	kind  byte
	ok    bool
	items []item
	// variant selects among equivalent concrete spellings (never seen by the model)
	variant int
	// kind 'A': the 'from' attribute (index into hdrFromKinds) and the 'to' attribute
	from  int
	hasTo bool
	to    addr
	// pad > 0 (kinds O and W): that many extra bytes — an oversized unit.  The model does not see
	// sizes; it sees the segmentation the decoder's bounded reads induce (scenario.induced).
	pad int
}

// readAhead: the size of the bufio.Reader encoding/xml reads a connection through
const readAhead = 4096

// padString: the unit with its size (only in the #oversized comment of a case, for the replay)
func (u unit) padString() string {
	if u.pad > 0 {
		return u.String() + "~" + strconv.Itoa(u.pad)
	}
	return u.String()
}

func (sc scenario) hasPad() bool {
	for _, seg := range sc.clear {
		for _, u := range seg {
			if u.pad > 0 {
				return true
			}
		}
	}
	return false
}

// spelled: the bytes of every unit of the clear-text script, as exec sends them
func (sc *scenario) spelled() [][][]byte {
	// an XML declaration is only legal at the very start of a document: a header that
	// follows white space is spelled without one
	prevW := false
	var out [][][]byte
	for _, seg := range sc.clear {
		var us [][]byte
		for _, u := range seg {
			if u.kind == 'H' && u.ok && prevW {
				u.variant = 1
			}
			prevW = u.kind == 'W'
			us = append(us, u.bytes(sc))
		}
		out = append(out, us)
	}
	return out
}

// induced: the segmentation of the clear-text script that the decoder's reads induce.  A segment
// is what the peer sends at once; the decoder reads it through a buffer of readAhead bytes that it
// fills when it is empty, so a longer segment arrives as several reads, and a unit belongs to the
// read that completes it (Model/ByteDecoder.lean: boundedReads, absChunks).  Without oversized
// units every segment fits into one read.
func (sc scenario) induced() [][]unit {
	if !sc.hasPad() {
		return sc.clear
	}
	sp := sc.spelled()
	var out [][]unit
	for i, seg := range sc.clear {
		var chunks [][]unit
		off := 0
		for k, u := range seg {
			off += len(sp[i][k])
			n := 0
			if off > 0 {
				n = (off - 1) / readAhead
			}
			for len(chunks) <= n {
				chunks = append(chunks, nil)
			}
			chunks[n] = append(chunks[n], u)
		}
		out = append(out, chunks...)
	}
	return out
}

// addr is an address of the universe the peer picks the 'to' of its stream headers from,
// spelled relative to the scenario: loc 0 no localpart, 1 the localpart of the session's own
// address, 2 another localpart of the same length; dom: index into domains (0-3 have the same
// length, 4 is longer); res 0 no resourcepart, 1 "r".  Equal codes = equal addresses.
type addr struct{ loc, dom, res int }

func (a addr) code() string { return fmt.Sprintf("%d.%d.%d", a.loc, a.dom, a.res) }

// hdrFromKinds: the 'from' of a header the peer sends: absent, the remote address the session
// was created with, another domain of the same shape, another domain of another shape (the
// model only knows absent / same / differs).
var hdrFromKinds = []string{"absent", "remote address", "other domain, same length", "other domain"}

func (sc *scenario) userName() string {
	if sc.user == "" {
		return "user"
	}
	return sc.user
}

// altUser: another localpart with the length of the session's own
func (sc *scenario) altUser() string {
	u := []byte(sc.userName())
	if u[len(u)-1] == 'x' {
		u[len(u)-1] = 'y'
	} else {
		u[len(u)-1] = 'x'
	}
	return string(u)
}

func (sc *scenario) addrStr(a addr) string {
	s := domains[a.dom%len(domains)]
	switch a.loc {
	case 1:
		s = sc.userName() + "@" + s
	case 2:
		s = sc.altUser() + "@" + s
	}
	if a.res != 0 {
		s += "/r"
	}
	return s
}

// ownAddr: the session's own address in the codes of addr
func (sc *scenario) ownAddr() addr {
	if sc.state0&uint8(xmpp.S2S) != 0 {
		return addr{0, sc.domain, 0}
	}
	return addr{1, sc.domain, 0}
}

// addrCode: the code of a concrete address, "?<hex>" when it is not in the universe
func (sc *scenario) addrCode(j jid.JID) string {
	a := addr{dom: -1}
	switch j.Localpart() {
	case "":
	case sc.userName():
		a.loc = 1
	case sc.altUser():
		a.loc = 2
	default:
		return "?" + common.HexS(j.String())
	}
	for k, d := range domains {
		if d == j.Domainpart() {
			a.dom = k
		}
	}
	switch j.Resourcepart() {
	case "":
	case "r":
		a.res = 1
	default:
		a.dom = -1
	}
	if a.dom < 0 {
		return "?" + common.HexS(j.String())
	}
	return a.code()
}

func (u unit) String() string {
	switch u.kind {
	case 'H':
		return "H" + common.B(u.ok)
	case 'A':
		if !u.hasTo {
			return fmt.Sprintf("A%d", u.from)
		}
		return fmt.Sprintf("A%d.%s", u.from, u.to.code())
	case 'L':
		var s []string
		for _, it := range u.items {
			s = append(s, fmt.Sprintf("%d.%s.%s", it.id, common.B(it.req), common.B(it.ok)))
		}
		return "L" + strings.Join(s, "+")
	}
	return string(u.kind)
}

type pu struct {
	junk bool
	// cert != 0 (junk is set as well): instead of junk below the layer, the peer answers the
	// ClientHello with a certificate the client must not accept: 1 — issued by the CA the client
	// trusts, but for another name; 2 — for the right names, issued by a CA it does not know.
	// Spelled C1 / C2 on the line; to the model it is what junk is: bytes that do not make a
	// handshake the client accepts.
	cert int
	u    unit
}

var certKinds = []string{"", "valid certificate for another name", "certificate of an unknown CA"}

// badCert: the scenario's TLS phase begins with a certificate that must be refused
func (sc *scenario) badCert() int {
	if len(sc.prot) > 0 {
		return sc.prot[0].cert
	}
	return 0
}

type other struct {
	id         int
	nec, proh  uint8
	negotiable bool
}

type negRes struct {
	mask         uint8
	restart, err bool
}

// ids of the two built-in features when a scenario uses the real values of
// xmpp.SASL and xmpp.BindResource instead of instrumented features
const (
	idSASL = 7
	idBind = 8
)

// mechSets: the mechanism configurations of the built-in authentication feature that scenarios
// use (index = scenario.mech); mechUniverse: the mechanisms the facts enumerate all subsets of.
var mechUniverse = []sasl.Mechanism{sasl.Plain, sasl.ScramSha1, sasl.ScramSha1Plus, sasl.ScramSha256, sasl.ScramSha256Plus}

var mechSets = [][]sasl.Mechanism{
	{sasl.Plain},
	{sasl.ScramSha256, sasl.ScramSha1},
	{sasl.ScramSha1},
	{sasl.ScramSha256Plus, sasl.ScramSha256},
	{sasl.ScramSha1, sasl.Plain},
}

func builtin(mech int) (saslF, bindF xmpp.StreamFeature) {
	return xmpp.SASL("", "secret", mechSets[mech%len(mechSets)]...), xmpp.BindResource()
}

// builtinOthers describes the two real features with the masks they really have.
func builtinOthers(mech int) []other {
	sf, bf := builtin(mech)
	return []other{
		{id: idSASL, nec: uint8(sf.Necessary), proh: uint8(sf.Prohibited), negotiable: sf.Negotiate != nil},
		{id: idBind, nec: uint8(bf.Necessary), proh: uint8(bf.Prohibited), negotiable: bf.Negotiate != nil},
	}
}

type scenario struct {
	tee      int    // 0 off, 1 TeeIn, 2 TeeOut, 3 both
	user     string // localpart of the own address (default "user"); histories over one negotiator use distinct ones
	ck       int    // kind of connection the session is created on (see connKinds)
	explicit bool
	state0   uint8
	mech     int // which mechanisms the real SASL feature is configured with (index into mechSets)
	domain   int // index of the domainpart of the session's OWN address (origin)
	remote   int // index of the domainpart of the REMOTE address (location); may differ
	others   []other
	clear    [][]unit
	prot     []pu
	results  []negRes
	// split[i] > 0: that many bytes of the first unit of clear segment i travel at the
	// end of segment i-1 (a unit split across two reads).  The model's view of the
	// script is unchanged: the unit completes in segment i.
	split []int
}

func (sc scenario) clearField() string { return clearFieldOf(sc.induced(), false) }

func clearFieldOf(clear [][]unit, pads bool) string {
	var segs []string
	for _, s := range clear {
		var us []string
		for _, u := range s {
			if pads {
				us = append(us, u.padString())
			} else {
				us = append(us, u.String())
			}
		}
		if len(us) > 0 {
			segs = append(segs, strings.Join(us, ","))
		}
	}
	return common.Join(segs, "/")
}

func (sc scenario) protField() string {
	var us []string
	for _, p := range sc.prot {
		if p.cert != 0 {
			us = append(us, "C"+strconv.Itoa(p.cert))
		} else if p.junk {
			us = append(us, "J")
		} else {
			us = append(us, p.u.String())
		}
	}
	return common.Join(us, ",")
}

func (sc scenario) othersField() string {
	var s []string
	for _, o := range sc.others {
		s = append(s, fmt.Sprintf("%d.%d.%d.%s", o.id, o.nec, o.proh, common.B(o.negotiable)))
	}
	return common.Join(s, ",")
}

// parsing (used by replay)

func parseUnit(s string) (unit, error) {
	if i := strings.IndexByte(s, '~'); i > 0 {
		u, err := parseUnit(s[:i])
		u.pad, _ = strconv.Atoi(s[i+1:])
		return u, err
	}
	if s == "" {
		return unit{}, fmt.Errorf("empty unit")
	}
	switch s[0] {
	case 'H':
		if s == "H1" || s == "H0" {
			return unit{kind: 'H', ok: s == "H1"}, nil
		}
	case 'A':
		p := strings.Split(s[1:], ".")
		if len(p) != 1 && len(p) != 4 {
			return unit{}, fmt.Errorf("bad header %q", s)
		}
		var n [4]int
		for i := range p {
			v, err := strconv.Atoi(p[i])
			if err != nil || v < 0 {
				return unit{}, fmt.Errorf("bad header %q", s)
			}
			n[i] = v
		}
		u := unit{kind: 'A', from: n[0] % len(hdrFromKinds)}
		if len(p) == 4 {
			u.hasTo, u.to = true, addr{n[1] % 3, n[2] % len(domains), n[3] % 2}
		}
		return u, nil
	case 'L':
		u := unit{kind: 'L'}
		if s == "L" {
			return u, nil
		}
		for _, f := range strings.Split(s[1:], "+") {
			p := strings.Split(f, ".")
			if len(p) != 3 {
				return u, fmt.Errorf("bad item %q", f)
			}
			id, err := strconv.Atoi(p[0])
			if err != nil {
				return u, err
			}
			u.items = append(u.items, item{id: id, req: p[1] == "1", ok: p[2] == "1"})
		}
		return u, nil
	case 'P', 'F', 'E', 'D', 'G', 'O', 'W', 'M':
		if len(s) == 1 {
			return unit{kind: s[0]}, nil
		}
	}
	return unit{}, fmt.Errorf("bad unit %q", s)
}

func parseScenario(f []string) (sc scenario, err error) {
	// f = tee explicit domain remote state0 rr rt others clear prot oracle
	// (lines written before the remote domain was added have one field less)
	if len(f) < 10 {
		return sc, fmt.Errorf("short run line")
	}
	sc.tee, _ = strconv.Atoi(f[0])
	sc.ck = sc.tee / 4 % len(connKinds) // the field carries tee + 4*kind
	sc.tee %= 4
	sc.explicit = f[1] == "1"
	sc.domain, _ = strconv.Atoi(f[2])
	sc.domain %= 4
	sc.remote = sc.domain
	if len(f) >= 11 {
		sc.remote, _ = strconv.Atoi(f[3])
		sc.remote %= 4
		f = f[1:]
	}
	f = f[2:]
	st, _ := strconv.Atoi(f[1])
	sc.state0 = uint8(st)
	if f[4] != "-" {
		for _, o := range strings.Split(f[4], ",") {
			p := strings.Split(o, ".")
			if len(p) != 4 {
				return sc, fmt.Errorf("bad other %q", o)
			}
			id, _ := strconv.Atoi(p[0])
			nec, _ := strconv.Atoi(p[1])
			proh, _ := strconv.Atoi(p[2])
			sc.others = append(sc.others, other{id: id, nec: uint8(nec), proh: uint8(proh), negotiable: p[3] == "1"})
		}
	}
	if f[5] != "-" {
		for _, seg := range strings.Split(f[5], "/") {
			var us []unit
			for _, s := range strings.Split(seg, ",") {
				u, err := parseUnit(s)
				if err != nil {
					return sc, err
				}
				us = append(us, u)
			}
			sc.clear = append(sc.clear, us)
		}
	}
	if f[6] != "-" {
		for _, s := range strings.Split(f[6], ",") {
			if s == "J" {
				sc.prot = append(sc.prot, pu{junk: true})
				continue
			}
			if s == "C1" || s == "C2" {
				sc.prot = append(sc.prot, pu{junk: true, cert: int(s[1] - '0')})
				continue
			}
			u, err := parseUnit(s)
			if err != nil {
				return sc, err
			}
			sc.prot = append(sc.prot, pu{u: u})
		}
	}
	if f[7] != "-" {
		for _, s := range strings.Split(f[7], ",") {
			p := strings.Split(s, ".")
			if len(p) != 4 {
				return sc, fmt.Errorf("bad oracle entry %q", s)
			}
			id, _ := strconv.Atoi(p[0])
			if id == 0 {
				continue
			}
			m, _ := strconv.Atoi(p[1])
			sc.results = append(sc.results, negRes{mask: uint8(m), restart: p[2] == "1", err: p[3] == "1"})
		}
	}
	return sc, nil
}

// ---- concrete bytes ---------------------------------------------------------------------------

// originStr is the session's own address: user@domain, or the bare domain of a server
// on an s2s stream.  location is the address of the remote entity.
func (sc *scenario) originStr() string {
	if sc.state0&uint8(xmpp.S2S) != 0 {
		return domains[sc.domain]
	}
	return sc.userName() + "@" + domains[sc.domain]
}
func (sc *scenario) origin() jid.JID   { return jid.MustParse(sc.originStr()) }
func (sc *scenario) location() jid.JID { return jid.MustParse(domains[sc.remote]) }

func (u unit) bytes(sc *scenario) []byte {
	ns := "jabber:client"
	if sc.state0&uint8(xmpp.S2S) != 0 {
		ns = "jabber:server"
	}
	dom := domains[sc.remote] // the peer is the remote entity: its headers come from there
	own := sc.originStr()
	if sc.ws() {
		// RFC 7395 framing: the header is an <open/> document, every other top-level element
		// declares what it needs itself
		const open = "<open xmlns='urn:ietf:params:xml:ns:xmpp-framing'"
		switch u.kind {
		case 'H':
			if u.ok {
				switch u.variant % 3 {
				case 0:
					return []byte(fmt.Sprintf(`%s version='1.0' id='sid' from='%s' to='%s'/>`, open, dom, own))
				case 1:
					return []byte(fmt.Sprintf(`%s version='1.0' id='sid' from='%s'></open>`, open, dom))
				default:
					return []byte(fmt.Sprintf(`<open from='%s' id='x' version='1.0' xmlns="urn:ietf:params:xml:ns:xmpp-framing"/>`, dom))
				}
			}
			switch u.variant % 4 {
			case 0: // wrong origin
				return []byte(fmt.Sprintf(`%s version='1.0' id='sid' from='evil.example' to='%s'/>`, open, own))
			case 1: // no stream id
				return []byte(fmt.Sprintf(`%s version='1.0' from='%s'/>`, open, dom))
			case 2: // unsupported version
				return []byte(fmt.Sprintf(`%s version='0.9' id='sid' from='%s'/>`, open, dom))
			default: // the header of the other framing
				return []byte(fmt.Sprintf(`<stream:stream xmlns='%s' xmlns:stream='http://etherx.jabber.org/streams' version='1.0' id='sid' from='%s'>`, ns, dom))
			}
		case 'A':
			var b strings.Builder
			b.WriteString(open + " version='1.0' id='sid'")
			switch u.from {
			case 1:
				fmt.Fprintf(&b, ` from='%s'`, dom)
			case 2:
				fmt.Fprintf(&b, ` from='%s'`, domains[(sc.remote+1)%4])
			case 3:
				b.WriteString(` from='evil.example'`)
			}
			if u.hasTo {
				fmt.Fprintf(&b, ` to='%s'`, sc.addrStr(u.to))
			}
			b.WriteString("/>")
			return []byte(b.String())
		case 'L':
			tcp := *sc
			tcp.ck = 0
			b := u.bytes(&tcp)
			return append([]byte("<stream:features xmlns:stream='http://etherx.jabber.org/streams'>"), b[len("<stream:features>"):]...)
		case 'E':
			// (there is no header element that could have declared the prefix)
			u.kind = 'D'
		}
	}
	switch u.kind {
	case 'H':
		if u.ok {
			switch u.variant % 3 {
			case 0:
				return []byte(fmt.Sprintf(`<?xml version='1.0'?><stream:stream xmlns='%s' xmlns:stream='http://etherx.jabber.org/streams' version='1.0' id='sid' from='%s' to='%s'>`, ns, dom, own))
			case 1:
				// no XML declaration, no 'to' (allowed by the negotiator)
				return []byte(fmt.Sprintf(`<stream:stream xmlns='%s' xmlns:stream='http://etherx.jabber.org/streams' version='1.0' id='sid' from='%s'>`, ns, dom))
			default:
				return []byte(fmt.Sprintf("<?xml version='1.0'?>\n<stream:stream from='%s' id='x' version='1.0' xmlns:stream='http://etherx.jabber.org/streams' xmlns='%s'>", dom, ns))
			}
		}
		switch u.variant % 4 {
		case 0: // wrong origin
			return []byte(fmt.Sprintf(`<stream:stream xmlns='%s' xmlns:stream='http://etherx.jabber.org/streams' version='1.0' id='sid' from='evil.example' to='%s'>`, ns, own))
		case 1: // no stream id
			return []byte(fmt.Sprintf(`<stream:stream xmlns='%s' xmlns:stream='http://etherx.jabber.org/streams' version='1.0' from='%s'>`, ns, dom))
		case 2: // unsupported version
			return []byte(fmt.Sprintf(`<stream:stream xmlns='%s' xmlns:stream='http://etherx.jabber.org/streams' version='0.9' id='sid' from='%s'>`, ns, dom))
		default: // wrong default namespace
			return []byte(fmt.Sprintf(`<stream:stream xmlns='jabber:nope' xmlns:stream='http://etherx.jabber.org/streams' version='1.0' id='sid' from='%s'>`, dom))
		}
	case 'A':
		var b strings.Builder
		fmt.Fprintf(&b, `<stream:stream xmlns='%s' xmlns:stream='http://etherx.jabber.org/streams' version='1.0' id='sid'`, ns)
		switch u.from {
		case 1:
			fmt.Fprintf(&b, ` from='%s'`, dom)
		case 2:
			fmt.Fprintf(&b, ` from='%s'`, domains[(sc.remote+1)%4])
		case 3:
			b.WriteString(` from='evil.example'`)
		}
		if u.hasTo {
			fmt.Fprintf(&b, ` to='%s'`, sc.addrStr(u.to))
		}
		b.WriteString(">")
		return []byte(b.String())
	case 'L':
		var b strings.Builder
		b.WriteString("<stream:features>")
		for _, it := range u.items {
			configured := it.id == 0
			for _, o := range sc.others {
				if o.id == it.id {
					configured = true
				}
			}
			switch {
			case it.id == idSASL && configured:
				b.WriteString("<mechanisms xmlns='urn:ietf:params:xml:ns:xmpp-sasl'>")
				for _, m := range mechSets[sc.mech%len(mechSets)] {
					b.WriteString("<mechanism>" + m.Name + "</mechanism>")
				}
				b.WriteString("</mechanisms>")
			case it.id == idBind && configured:
				b.WriteString("<bind xmlns='urn:ietf:params:xml:ns:xmpp-bind'/>")
			case it.id == 0:
				b.WriteString("<starttls xmlns='" + nsTLS + "'>")
				if it.req {
					b.WriteString("<required/>")
				}
				b.WriteString("</starttls>")
			case configured:
				fmt.Fprintf(&b, "<f%d xmlns='urn:x:f%d'>", it.id, it.id)
				if it.req {
					b.WriteString("<required/>")
				}
				if !it.ok {
					b.WriteString("<bad/>")
				}
				fmt.Fprintf(&b, "</f%d>", it.id)
			default:
				fmt.Fprintf(&b, "<u%d xmlns='urn:x:u%d'><required/></u%d>", it.id, it.id, it.id)
			}
		}
		b.WriteString("</stream:features>")
		return []byte(b.String())
	case 'P':
		if u.variant%2 == 1 {
			return []byte("<proceed xmlns='" + nsTLS + "'></proceed>")
		}
		return []byte("<proceed xmlns='" + nsTLS + "'/>")
	case 'F':
		return []byte("<failure xmlns='" + nsTLS + "'/>")
	case 'E':
		return []byte("<stream:error><host-unknown xmlns='urn:ietf:params:xml:ns:xmpp-streams'/></stream:error>")
	case 'D':
		return []byte("<stream:error xmlns:stream='http://etherx.jabber.org/streams'><host-unknown xmlns='urn:ietf:params:xml:ns:xmpp-streams'/></stream:error>")
	case 'G':
		return []byte("<continue xmlns='" + nsTLS + "'/>")
	case 'O':
		if u.pad > 0 {
			return []byte("<proceed xmlns='urn:x:elsewhere' pad='" + strings.Repeat("x", u.pad) + "'/>")
		}
		return []byte("<proceed xmlns='urn:x:elsewhere'/>")
	case 'W':
		return []byte(strings.Repeat(" ", u.pad) + " \n")
	case 'M':
		return []byte("<<")
	}
	return nil
}

// ---- execution on the real code ---------------------------------------------------------------

type pick struct {
	id  int
	res negRes
}

type result struct {
	advIDs   []int
	local    string   // T<code>: what LocalAddr() returns after the call (T- : no session value)
	remoteCh string   // "" or what RemoteAddr() returns when it is not the address the session was created with
	callerCh string   // "" or how the caller's own JID values (the arguments of NewSession) were changed
	adv      string   // A<ids>: what Session.Feature reports as advertised after the call
	hello    string   // N<name> when a ClientHello left during NewSession, else ""
	clearEv  []string // what the client wrote in clear text, classified
	protEv   []string // what it wrote inside the TLS layer
	outcome  string
	picks    []pick
	sni      []string
	rawClear []byte
	prot     []byte
	state    uint8
	err      error
	stalled  bool
	panicked string
	teeIn    []byte
	teeOut   []byte
}

func (r result) trace() string {
	var ev []string
	ev = append(ev, r.clearEv...)
	if r.hello != "" {
		ev = append(ev, r.hello)
	}
	for _, e := range r.protEv {
		ev = append(ev, strings.ToUpper(e[:1])+e[1:])
	}
	return common.Join(ev, ",")
}

func (r result) oracleField() string {
	var s []string
	for _, p := range r.picks {
		s = append(s, fmt.Sprintf("%d.%d.%s.%s", p.id, p.res.mask, common.B(p.res.restart), common.B(p.res.err)))
	}
	return common.Join(s, ",")
}

var (
	errNeg   = errors.New("c02: scripted negotiate error")
	errParse = errors.New("c02: scripted parse error")
)

func errClass(err error) string {
	var se stream.Error
	var rhe tls.RecordHeaderError
	var syn *xml.SyntaxError
	switch {
	case err == nil:
		return "nil"
	case errors.Is(err, errNeg), errors.Is(err, errParse):
		return "feat"
	case errors.As(err, &se):
		if se.Err == "host-unknown" {
			return "streamerr"
		}
		return "proto"
	case errors.As(err, &rhe), strings.Contains(err.Error(), "tls:"), strings.Contains(err.Error(), "x509:"):
		return "tls"
	case errors.Is(err, io.EOF), errors.Is(err, io.ErrUnexpectedEOF), errors.As(err, &syn):
		return "read"
	case strings.Contains(err.Error(), "receiver indicated that TLS negotiation failed"):
		return "refused"
	case errors.Is(err, context.DeadlineExceeded), errors.Is(err, errClosed):
		return "harness:" + err.Error()
	}
	return "proto"
}

// classify splits what the client wrote into events by tag name: h = stream
// header, s = STARTTLS request, o<id> = the marker an instrumented feature
// writes when it is negotiated, c = stream close; anything else is reported
// verbatim as ?<hex>.
func classify(b []byte) []string {
	var ev []string
	for len(b) > 0 {
		switch {
		case b[0] == ' ' || b[0] == '\n' || b[0] == '\t' || b[0] == '\r':
			b = b[1:]
			continue
		case b[0] != '<':
			ev = append(ev, "?"+common.Hex(b))
			return ev
		}
		end := strings.IndexByte(string(b), '>')
		if end < 0 {
			ev = append(ev, "?"+common.Hex(b))
			return ev
		}
		tag := string(b[1:end])
		b = b[end+1:]
		if strings.HasPrefix(tag, "?") {
			continue // XML declaration
		}
		name := tag
		if i := strings.IndexAny(name, " \t\n/"); i > 0 {
			name = name[:i]
		}
		switch {
		case name == "stream:stream":
			ev = append(ev, "h")
		case name == "open" && strings.Contains(tag, "urn:ietf:params:xml:ns:xmpp-framing"):
			ev = append(ev, "h") // the header of the WebSocket framing
		case name == "/stream:stream", name == "close" && strings.Contains(tag, "urn:ietf:params:xml:ns:xmpp-framing"):
			ev = append(ev, "c")
		case name == "starttls" && (strings.Contains(tag, "'"+nsTLS+"'") || strings.Contains(tag, `"`+nsTLS+`"`)) && strings.HasSuffix(tag, "/"):
			ev = append(ev, "s")
		case len(name) > 1 && name[0] == 'n':
			if _, err := strconv.Atoi(name[1:]); err == nil {
				ev = append(ev, "o"+name[1:])
				continue
			}
			ev = append(ev, "?"+common.HexS("<"+tag+">"))
		case len(name) > 2 && name[0] == '/' && name[1] == 'n':
			if _, err := strconv.Atoi(name[2:]); err == nil {
				continue // end tag of a marker written through the encoder
			}
			ev = append(ev, "?"+common.HexS("<"+tag+">"))
		default:
			ev = append(ev, "?"+common.HexS("<"+tag+">"))
		}
	}
	return ev
}

type ctx struct {
	r           *common.Run
	pki         *pki
	teeNegFails int
	sk          bool // features.go: a skipped required feature that became negotiable makes the list an error
	rr          bool // features.go ORs Ready into a result that carries a new ReadWriter
	rt          bool // features.go re-tests the masks of a cached feature when it is selected
}

// startTLSFeature wraps base (a value returned by xmpp.StartTLS) so that its
// negotiation is recorded; the wrapped value shares base's closure.
func startTLSFeature(base xmpp.StreamFeature, rec func(pick)) xmpp.StreamFeature {
	f := base
	orig := base.Negotiate
	f.Negotiate = func(ctx context.Context, s *xmpp.Session, data interface{}) (xmpp.SessionState, io.ReadWriter, error) {
		rec(pick{id: 0})
		return orig(ctx, s, data)
	}
	return f
}

func (c *ctx) tlsConfig(explicit bool) *tls.Config {
	if !explicit {
		return nil
	}
	return &tls.Config{ServerName: "explicit.example", RootCAs: c.pki.pool, MinVersion: tls.VersionTLS12}
}

// The kinds of io.ReadWriter a session is created on.  Only kind 3 is secure.
//
//	0  a net.Conn in clear text
//	1  a plain io.ReadWriter (nothing but Read and Write)
//	2  a clear-text net.Conn wrapper that has a ConnectionState() method (a byte counter, a
//	   logging connection): it satisfies the library's tlsConn interface and is not TLS
//	3  a real *tls.Conn (client side, handshake not yet performed): already secure
//
// WebSocket framing (the negotiator of the websocket package; the carrier is clear text):
//
//	4  a net.Conn
//	5  a plain io.ReadWriter
//	6  a client *websocket.Conn (x/net/websocket, after a real opening handshake) whose location
//	   is a ws: URL and whose origin is an http: URL
//	7  the same with an https: origin — the origin says nothing about the transport
//	8  the same with a wss: origin
//
// On 6 and 7 the session is created with websocket.NewSession (which decides itself whether the
// session starts Secure) when the scenario has what that function fixes: no tee, initial state
// 0, remote domain = own domain; otherwise with xmpp.NewSession and websocket.Negotiator.
var connKinds = []string{"net.Conn", "io.ReadWriter", "net.Conn+ConnectionState()", "*tls.Conn",
	"ws-framing/net.Conn", "ws-framing/io.ReadWriter", "ws-framing/*websocket.Conn(origin http, location ws)", "ws-framing/*websocket.Conn(origin https, location ws)",
	"ws-framing/*websocket.Conn(origin wss, location ws)"}

// ws: the session uses the WebSocket framing
func (sc *scenario) ws() bool { return sc.ck >= 4 }

// wsConn: the session is created on a *websocket.Conn
func (sc *scenario) wsConn() bool { return sc.ck >= 6 }

// wsEntry: the session is created by websocket.NewSession itself
func (sc *scenario) wsEntry() bool {
	return sc.wsConn() && sc.tee == 0 && sc.state0 == 0 && sc.remote == sc.domain
}

var wsOrigins = map[int]string{6: "http://", 7: "https://", 8: "wss://"}

// dialWS performs the opening handshake of a client *websocket.Conn on the wire (whose other end
// answers it) for the given origin and location URLs.
func dialWS(w *wire, origin, location string) (*websocket.Conn, error) {
	cfg, err := websocket.NewConfig(location, origin)
	if err != nil {
		return nil, err
	}
	cfg.Protocol = []string{"xmpp"}
	return websocket.NewClient(cfg, clientConn{w})
}

type plainRW struct{ c clientConn }

func (p plainRW) Read(b []byte) (int, error)  { return p.c.Read(b) }
func (p plainRW) Write(b []byte) (int, error) { return p.c.Write(b) }

type stateConn struct {
	net.Conn
	read, written int
}

func (c *stateConn) Read(p []byte) (int, error) {
	n, err := c.Conn.Read(p)
	c.read += n
	return n, err
}

func (c *stateConn) Write(p []byte) (int, error) {
	n, err := c.Conn.Write(p)
	c.written += n
	return n, err
}

// ConnectionState forwards the state of a wrapped *tls.Conn; here the wrapped connection is
// clear text, so it is the zero value.
func (c *stateConn) ConnectionState() tls.ConnectionState {
	if tc, ok := c.Conn.(*tls.Conn); ok {
		return tc.ConnectionState()
	}
	return tls.ConnectionState{}
}

func (c *ctx) conn(sc scenario, w *wire) io.ReadWriter {
	base := clientConn{w}
	switch sc.ck {
	case 1:
		return plainRW{base}
	case 2:
		return &stateConn{Conn: base}
	case 3:
		return tls.Client(base, &tls.Config{ServerName: domains[sc.domain], RootCAs: c.pki.pool, MinVersion: tls.VersionTLS12})
	case 5:
		return plainRW{base}
	case 6, 7, 8:
		wc, err := dialWS(w, wsOrigins[sc.ck]+domains[sc.domain], "ws://"+domains[sc.remote]+"/xmpp-websocket")
		if err != nil {
			panic("c02: WebSocket opening handshake on the scripted wire: " + err.Error())
		}
		return wc
	}
	return base
}

// exec runs one scenario on the real code.  base is the StartTLS feature value
// to use (nil: a fresh one).
func (c *ctx) exec(sc scenario, base *xmpp.StreamFeature) (res result) {
	res = c.exec1(sc, base, nil)
	if res.stalled {
		// A watchdog expired.  Keep the goroutine dump of the first such event for the
		// evidence and try once more: only a stall that happens again is an observation
		// (an overloaded machine must not look like a session that hangs).
		c.r.Hist["watchdog-expired-then-retried"]++
		again := c.exec1(sc, base, nil)
		if !again.stalled {
			return again
		}
	}
	return res
}

// sharedNeg is ONE value returned by xmpp.NewNegotiator that several sessions are negotiated
// with.  Its config function hands every session its own features (looked up by the session's
// own address), so the per-session instrumentation stays apart while whatever state the
// negotiator value itself keeps is shared.
type sharedNeg struct {
	mu     sync.Mutex
	feats  map[string][]xmpp.StreamFeature
	tee    int
	teeIn  *common.SafeBuffer
	teeOut *common.SafeBuffer
	neg    xmpp.Negotiator
}

func newSharedNeg(tee int) *sharedNeg {
	sn := &sharedNeg{feats: map[string][]xmpp.StreamFeature{}, tee: tee, teeIn: &common.SafeBuffer{}, teeOut: &common.SafeBuffer{}}
	sn.neg = xmpp.NewNegotiator(func(s *xmpp.Session, _ *xmpp.StreamConfig) xmpp.StreamConfig {
		var cfg xmpp.StreamConfig
		if s != nil {
			sn.mu.Lock()
			cfg.Features = sn.feats[s.LocalAddr().String()]
			sn.mu.Unlock()
		}
		if sn.tee&1 != 0 {
			cfg.TeeIn = sn.teeIn
		}
		if sn.tee&2 != 0 {
			cfg.TeeOut = sn.teeOut
		}
		return cfg
	})
	return sn
}

func (c *ctx) exec1(sc scenario, base *xmpp.StreamFeature, shared *sharedNeg) (res result) {
	prevW := false
	spell := func(u unit) []byte {
		if u.kind == 'H' && u.ok && prevW {
			u.variant = 1
		}
		prevW = u.kind == 'W'
		return u.bytes(&sc)
	}
	sp := sc.spelled()
	var clear [][]byte
	for i, seg := range sc.clear {
		var b []byte
		for k := range seg {
			ub := sp[i][k]
			if k == 0 && i > 0 && i < len(sc.split) && sc.split[i] > 0 && len(ub) > 1 && len(clear[i-1]) > 0 {
				n := sc.split[i]
				if n > len(ub)-1 {
					n = len(ub) - 1
				}
				clear[i-1] = append(clear[i-1], ub[:n]...)
				ub = ub[n:]
			}
			b = append(b, ub...)
		}
		clear = append(clear, b)
	}
	prevW = false
	w := newWire(clear)
	if sc.wsConn() {
		w = newWSWire(clear)
	}
	peer := &tlsPeer{w: w, cfg: c.pki.server, bad: []*tls.Config{nil, c.pki.wrongName, c.pki.unknownCA}}
	var items []pitem
	for _, p := range sc.prot {
		if p.junk {
			items = append(items, pitem{junk: true, cert: p.cert, b: []byte("<stream:features/> this is not a TLS record")})
		} else {
			items = append(items, pitem{b: spell(p.u)})
		}
	}
	peer.run(items)

	var mu sync.Mutex
	rec := func(p pick) {
		mu.Lock()
		res.picks = append(res.picks, p)
		mu.Unlock()
	}
	var st xmpp.StreamFeature
	if base != nil {
		st = *base
	} else {
		st = xmpp.StartTLS(c.tlsConfig(sc.explicit))
	}
	features := []xmpp.StreamFeature{startTLSFeature(st, rec)}
	calls := 0
	for _, o := range sc.others {
		o := o
		if o.id == idSASL || o.id == idBind {
			// the real built-in feature; its negotiation is recorded
			sf, bf := builtin(sc.mech)
			f := sf
			if o.id == idBind {
				f = bf
			}
			orig := f.Negotiate
			f.Negotiate = func(ctx context.Context, s *xmpp.Session, data interface{}) (xmpp.SessionState, io.ReadWriter, error) {
				rec(pick{id: o.id})
				return orig(ctx, s, data)
			}
			features = append(features, f)
			continue
		}
		f := xmpp.StreamFeature{
			Name:       xml.Name{Space: fmt.Sprintf("urn:x:f%d", o.id), Local: fmt.Sprintf("f%d", o.id)},
			Necessary:  xmpp.SessionState(o.nec),
			Prohibited: xmpp.SessionState(o.proh),
			Parse: func(ctx context.Context, d *xml.Decoder, start *xml.StartElement) (bool, interface{}, error) {
				req, bad := false, false
				for {
					t, err := d.Token()
					if err != nil {
						break
					}
					if se, ok := t.(xml.StartElement); ok {
						switch se.Name.Local {
						case "required":
							req = true
						case "bad":
							bad = true
						}
					}
				}
				if bad {
					return req, nil, errParse
				}
				return req, nil, nil
			},
		}
		if o.negotiable {
			f.Negotiate = func(ctx context.Context, s *xmpp.Session, data interface{}) (xmpp.SessionState, io.ReadWriter, error) {
				mu.Lock()
				var r negRes
				if calls < len(sc.results) {
					r = sc.results[calls]
				}
				calls++
				mu.Unlock()
				rec(pick{id: o.id, res: r})
				if o.id%2 == 1 {
					// written to the connection directly …
					fmt.Fprintf(s.Conn(), "<n%d xmlns='urn:x:f%d'/>", o.id, o.id)
				} else {
					// … or through the session's XML encoder, as the built-in SASL and
					// bind features do
					w := s.TokenWriter()
					st := xml.StartElement{Name: xml.Name{Space: fmt.Sprintf("urn:x:f%d", o.id), Local: fmt.Sprintf("n%d", o.id)}}
					_ = w.EncodeToken(st)
					_ = w.EncodeToken(st.End())
					_ = w.Flush()
					_ = w.Close()
				}
				if r.err {
					return 0, nil, errNeg
				}
				if r.restart {
					return xmpp.SessionState(r.mask), s.Conn(), nil
				}
				return xmpp.SessionState(r.mask), nil, nil
			}
		}
		features = append(features, f)
	}
	teeIn, teeOut := &common.SafeBuffer{}, &common.SafeBuffer{}
	cfgFn := func(*xmpp.Session, *xmpp.StreamConfig) xmpp.StreamConfig {
		cfg := xmpp.StreamConfig{Features: features}
		if sc.tee&1 != 0 {
			cfg.TeeIn = teeIn
		}
		if sc.tee&2 != 0 {
			cfg.TeeOut = teeOut
		}
		return cfg
	}
	neg := xmpp.NewNegotiator(cfgFn)
	if sc.ws() {
		neg = xmppws.Negotiator(cfgFn)
	}
	if shared != nil {
		shared.mu.Lock()
		shared.feats[sc.originStr()] = features
		shared.mu.Unlock()
		neg, teeIn, teeOut = shared.neg, shared.teeIn, shared.teeOut
	}

	var s *xmpp.Session
	var err error
	// the caller's address values: they are the caller's, whatever the library does with copies
	argOrigin, argLocation := sc.origin(), sc.location()
	cctx, cancel := context.WithTimeout(context.Background(), 20*time.Second)
	defer cancel()
	ok := common.WithTimeout(10*time.Second, func() {
		res.panicked = common.Recover(func() {
			if sc.wsEntry() && shared == nil {
				// the entry point of the websocket package: it builds the negotiator and
				// decides from the connection whether the session starts Secure
				s, err = xmppws.NewSession(cctx, sc.origin(), c.conn(sc, w), features...)
				return
			}
			s, err = xmpp.NewSession(cctx, sc.location(), sc.origin(), c.conn(sc, w), xmpp.SessionState(sc.state0), neg)
		})
	})
	out, tlsStart := w.snapshot()
	switch {
	case !ok:
		res.stalled = true
		res.outcome = "STALL"
		if len(c.r.Notes) < 2 {
			buf := make([]byte, 1<<16)
			buf = buf[:runtime.Stack(buf, true)]
			c.r.Notes = append(c.r.Notes, "watchdog expired on "+sc.clearField()+" | "+sc.protField()+"; goroutines:\n"+string(buf))
		}
	case res.panicked != "":
		res.outcome = "PANIC"
	case err != nil:
		res.err = err
		res.outcome = "err." + errClass(err)
	default:
		res.state = uint8(s.State())
		// (taken before the probe below, which would trigger a pending handshake)
		hsDone := common.B(s.ConnectionState().HandshakeComplete)
		// Is a TLS layer in place?  Write a probe through the session's connection and
		// look for it on the raw wire.
		// One probe goes to the connection, one through the session's XML encoder.
		layer := "1"
		common.WithTimeout(5*time.Second, func() {
			common.Recover(func() { _, _ = s.Conn().Write([]byte("<probe/>")) })
			common.Recover(func() {
				tw := s.TokenWriter()
				pe := xml.StartElement{Name: xml.Name{Local: "probe2"}}
				_ = tw.EncodeToken(pe)
				_ = tw.EncodeToken(pe.End())
				_ = tw.Flush()
				_ = tw.Close()
			})
		})
		after, _ := w.snapshot()
		if strings.Contains(string(after[len(out):]), "<probe") {
			layer = "0"
		}
		res.outcome = fmt.Sprintf("done.%d.%s.%s", res.state, layer, hsDone)
	}
	// closing lets the TLS server drain what the client wrote last, then stop
	w.close()
	peer.wg.Wait()
	peer.mu.Lock()
	res.sni = append([]string(nil), peer.sni...)
	res.prot = append([]byte(nil), peer.prot...)
	peer.mu.Unlock()
	if tlsStart >= 0 {
		// a ClientHello left before NewSession returned (not one triggered by the probe)
		res.hello = "N?"
		if len(res.sni) > 0 {
			switch {
			case res.sni[0] == "explicit.example":
				res.hello = "Nex"
			default:
				for k, d := range domains {
					if d == res.sni[0] {
						res.hello = fmt.Sprintf("Nd%d", k)
					}
				}
			}
		}
		res.rawClear = out[:tlsStart]
	} else {
		res.rawClear = out
	}
	res.clearEv = classify(res.rawClear)
	protBytes := res.prot
	if i := strings.Index(string(protBytes), "<probe"); i >= 0 {
		protBytes = protBytes[:i]
	}
	res.prot = protBytes
	res.protEv = classify(protBytes)
	res.teeIn, res.teeOut = teeIn.Bytes(), teeOut.Bytes()
	// the addresses afterwards: the session's, and the values the caller passed in
	res.local = "T-"
	if ok && res.panicked == "" && s != nil {
		common.Recover(func() {
			res.local = "T" + sc.addrCode(s.LocalAddr())
			if ra := s.RemoteAddr(); ra.String() != domains[sc.remote] {
				res.remoteCh = ra.String()
			}
		})
	}
	if ok {
		if got := argOrigin.String(); got != sc.originStr() {
			res.callerCh = fmt.Sprintf("the origin value passed to NewSession was %s and is now %s", sc.originStr(), got)
		} else if got := argLocation.String(); got != domains[sc.remote] {
			res.callerCh = fmt.Sprintf("the location value passed to NewSession was %s and is now %s", domains[sc.remote], got)
		}
	}
	// what Session.Feature reports as advertised, for every namespace that occurs in a list
	// of the script
	res.adv = "A-"
	if ok && res.panicked == "" && s != nil {
		seen := map[int]bool{}
		var ids []int
		note := func(u unit) {
			if u.kind != 'L' {
				return
			}
			for _, it := range u.items {
				if !seen[it.id] {
					seen[it.id] = true
					ids = append(ids, it.id)
				}
			}
		}
		for _, seg := range sc.clear {
			for _, u := range seg {
				note(u)
			}
		}
		for _, p := range sc.prot {
			if !p.junk {
				note(p.u)
			}
		}
		sort.Ints(ids)
		var rep []string
		for _, id := range ids {
			if _, advertised := s.Feature(sc.namespace(id)); advertised {
				rep = append(rep, strconv.Itoa(id))
				res.advIDs = append(res.advIDs, id)
			}
		}
		if len(rep) > 0 {
			res.adv = "A" + strings.Join(rep, "+")
		}
	}
	return res
}

// namespace of the feature element the script writes for item id.
func (sc *scenario) namespace(id int) string {
	configured := false
	for _, o := range sc.others {
		if o.id == id {
			configured = true
		}
	}
	switch {
	case id == 0:
		return nsTLS
	case id == idSASL && configured:
		return "urn:ietf:params:xml:ns:xmpp-sasl"
	case id == idBind && configured:
		return "urn:ietf:params:xml:ns:xmpp-bind"
	case configured:
		return fmt.Sprintf("urn:x:f%d", id)
	}
	return fmt.Sprintf("urn:x:u%d", id)
}
