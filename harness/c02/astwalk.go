package c02

// The one kind of fact about C02 that cannot be probed by running code: which state do all
// sessions negotiated with ONE value (a Negotiator returned by NewNegotiator, a StreamFeature
// returned by StartTLS) share and write?  sharedState answers it from the source, tolerant of
// how the source is organised:
//
//   - the walk starts at an EXPORTED constructor (API, stable name) and follows references to
//     unexported package-level functions — called, or passed/returned as values — two levels deep,
//     across all files of the package: renaming or extracting helpers changes nothing;
//   - identifiers are resolved through go/parser's scopes (objects, not names): renaming locals,
//     shadowing (`cfg := cfg`) and reusing a name for a new variable inside the closure are not
//     writes to the captured variable;
//   - a function reached from outside every function literal runs when the value is BUILT; of
//     such a function it reports (a) the variables that a function literal inside it writes
//     (assignment, ++/--, range assignment, address taken) — closure state — and (c) when it
//     builds a struct value of a package type outside every function literal (the closure turned
//     into an object with a method), the receiver fields written by that type's methods;
//   - of every function reached (also those that run once per session, whose own variables are
//     per call) it reports (b) the package-level variables it writes.
//
// Not seen: mutation through a method call on a captured pointer, or through a parameter.

import (
	"go/ast"
	"go/parser"
	"go/token"
	"os"
	"path/filepath"
	"sort"
	"strings"
)

type pkgIndex struct {
	funcs   map[string]*ast.FuncDecl
	methods map[string][]*ast.FuncDecl
	vars    map[string]bool
}

func indexPackage(dir string) (*pkgIndex, error) {
	ents, err := os.ReadDir(dir)
	if err != nil {
		return nil, err
	}
	ix := &pkgIndex{funcs: map[string]*ast.FuncDecl{}, methods: map[string][]*ast.FuncDecl{}, vars: map[string]bool{}}
	fset := token.NewFileSet()
	for _, e := range ents {
		n := e.Name()
		if e.IsDir() || !strings.HasSuffix(n, ".go") || strings.HasSuffix(n, "_test.go") {
			continue
		}
		f, err := parser.ParseFile(fset, filepath.Join(dir, n), nil, 0)
		if err != nil {
			return nil, err
		}
		for _, d := range f.Decls {
			switch d := d.(type) {
			case *ast.FuncDecl:
				if d.Body == nil {
					continue
				}
				if d.Recv == nil {
					ix.funcs[d.Name.Name] = d
					continue
				}
				if len(d.Recv.List) == 1 {
					t := d.Recv.List[0].Type
					if s, ok := t.(*ast.StarExpr); ok {
						t = s.X
					}
					if id, ok := t.(*ast.Ident); ok {
						ix.methods[id.Name] = append(ix.methods[id.Name], d)
					}
				}
			case *ast.GenDecl:
				if d.Tok != token.VAR {
					continue
				}
				for _, sp := range d.Specs {
					if vs, ok := sp.(*ast.ValueSpec); ok {
						for _, id := range vs.Names {
							ix.vars[id.Name] = true
						}
					}
				}
			}
		}
	}
	return ix, nil
}

func rootIdent(e ast.Expr) *ast.Ident {
	for {
		switch x := e.(type) {
		case *ast.ParenExpr:
			e = x.X
		case *ast.IndexExpr:
			e = x.X
		case *ast.SelectorExpr:
			e = x.X
		case *ast.StarExpr:
			e = x.X
		case *ast.SliceExpr:
			e = x.X
		default:
			id, _ := e.(*ast.Ident)
			return id
		}
	}
}

// writes calls f for every expression that n writes (and, when addr is set, takes the address of).
func writes(n ast.Node, addr bool, f func(ast.Expr)) {
	ast.Inspect(n, func(n ast.Node) bool {
		switch x := n.(type) {
		case *ast.AssignStmt:
			if x.Tok != token.DEFINE {
				for _, l := range x.Lhs {
					f(l)
				}
			}
		case *ast.IncDecStmt:
			f(x.X)
		case *ast.RangeStmt:
			if x.Tok == token.ASSIGN {
				if x.Key != nil {
					f(x.Key)
				}
				if x.Value != nil {
					f(x.Value)
				}
			}
		case *ast.UnaryExpr:
			if addr && x.Op == token.AND {
				f(x.X)
			}
		}
		return true
	})
}

// sharedState: see the comment at the top of the file.  found is false when root does not exist.
func sharedState(dir, root string) (names []string, found bool, err error) {
	ix, err := indexPackage(dir)
	if err != nil {
		return nil, false, err
	}
	rfd, ok := ix.funcs[root]
	if !ok {
		return nil, false, nil
	}
	set := map[string]bool{}
	type visitKey struct {
		fd    *ast.FuncDecl
		build bool
	}
	seen := map[visitKey]bool{}
	// build: fd runs when the value is built (once per value); otherwise it runs once per
	// session, its own variables are per call and only package-level state is shared
	var visit func(fd *ast.FuncDecl, depth int, recvOf string, build bool)
	visit = func(fd *ast.FuncDecl, depth int, recvOf string, build bool) {
		if seen[visitKey{fd, build}] {
			return
		}
		seen[visitKey{fd, build}] = true
		var lits []*ast.FuncLit
		ast.Inspect(fd.Body, func(n ast.Node) bool {
			if fl, ok := n.(*ast.FuncLit); ok {
				lits = append(lits, fl)
			}
			return true
		})
		inLit := func(p token.Pos) bool {
			for _, fl := range lits {
				if fl.Pos() <= p && p < fl.End() {
					return true
				}
			}
			return false
		}
		local := func(id *ast.Ident) bool {
			return id.Obj != nil && id.Obj.Pos() >= fd.Pos() && id.Obj.Pos() < fd.End()
		}
		// (a) closure state
		for _, fl := range lits {
			if !build {
				break
			}
			writes(fl.Body, true, func(e ast.Expr) {
				id := rootIdent(e)
				if id == nil || id.Obj == nil || id.Obj.Kind != ast.Var {
					return
				}
				if local(id) && !inLit(id.Obj.Pos()) {
					set[fd.Name.Name+"."+id.Name] = true
				}
			})
		}
		// (b) package-level state
		writes(fd.Body, false, func(e ast.Expr) {
			id := rootIdent(e)
			if id != nil && id.Name != "_" && ix.vars[id.Name] && !local(id) {
				set["package."+id.Name] = true
			}
		})
		// (c) receiver state of an object built together with the value
		if recvOf != "" && len(fd.Recv.List[0].Names) == 1 {
			recv := fd.Recv.List[0].Names[0]
			writes(fd.Body, true, func(e ast.Expr) {
				id := rootIdent(e)
				if id != nil && id.Obj != nil && id.Obj == recv.Obj {
					set[recvOf+"."+fd.Name.Name+"."+id.Name] = true
				}
			})
		}
		// (helpers are followed five levels deep — NewNegotiator → negotiator → negotiateFeatures →
		// readStreamFeatures / writeStreamFeatures → their helpers; `seen` keeps the walk finite)
		if depth >= 5 {
			return
		}
		ast.Inspect(fd.Body, func(n ast.Node) bool {
			switch x := n.(type) {
			case *ast.Ident:
				if callee, ok := ix.funcs[x.Name]; ok && !local(x) && !ast.IsExported(x.Name) {
					visit(callee, depth+1, "", build && !inLit(x.Pos()))
				}
			case *ast.CompositeLit:
				if build && depth <= 1 && !inLit(x.Pos()) {
					if id, ok := x.Type.(*ast.Ident); ok {
						for _, m := range ix.methods[id.Name] {
							visit(m, depth+1, id.Name, false)
						}
					}
				}
			}
			return true
		})
	}
	visit(rfd, 0, "", true)
	for n := range set {
		names = append(names, n)
	}
	sort.Strings(names)
	return names, true, nil
}
