package c02

// Probe facts: `harness facts C02` RUNS the real functions over complete finite domains and emits
// the resulting tables as Lean definitions; theorems of Props/C02.lean prove that the model
// agrees with every entry (`decide +kernel`).  A probe fact does not depend on how the Go source
// is written (helpers, switch or if, names), only on what it does.
//
//	startStateProbe   session.go negotiateSession: SessionState at the first negotiator call,
//	                  for every kind of connection x four initial states
//	firstListProbe    negotiator.go + features.go: trace and outcome of NewSession for every tee
//	                  variant x clear connection kind x shape of the first features list x
//	                  (peer silent | <proceed/>, header, empty list inside TLS)
//	negotiateProbe    starttls.go: (bytes written, mask, new ReadWriter, error class) returned by
//	                  ONE direct call of the real StartTLS(cfg).Negotiate for every kind of answer
//	                  x (default | explicit configuration)
//	serverNameProbe   starttls.go: ClientHello names of every history of one or two sessions
//	                  (5 session shapes with different own/remote domains, c2s and s2s, proceed /
//	                  forced / refused / header refused) sharing ONE StartTLS value
//
//	headerAddressProbe negotiator.go: trace, outcome and LocalAddr() of NewSession for every 'to'
//	                  of an address universe x every kind of 'from' in the peer's stream header,
//	                  in the clear-text header and in the header after the TLS switch, c2s and s2s
//	infoCopyProbe     stream.Info.FromStartElement / jid unmarshalling: parsing a header into a
//	                  shallow copy of a stream info, for every ordered pair of an address
//	                  universe: what the copy holds and what the value it was copied from holds
//	saslMaskProbe     sasl.go: the masks of xmpp.SASL(...) for every non-empty set of mechanisms
//
// The Lean side enumerates the same domains in the same order (Model/StartTLSProbe.lean).

import (
	"context"
	"crypto/tls"
	"encoding/xml"
	"fmt"
	"io"
	"os"
	"strconv"
	"strings"
	"time"

	"mellium.im/sasl"
	"mellium.im/xmpp"
	"mellium.im/xmpp/jid"
	"mellium.im/xmpp/stream"
	xmppws "mellium.im/xmpp/websocket"

	"verifharness/common"
)

func leanBool(b bool) string {
	if b {
		return "true"
	}
	return "false"
}

// leanEvents renders what the client wrote (and the ClientHello name) as a list of model events.
func leanEvents(clearEv []string, hello string, protEv []string) (string, error) {
	var ev []string
	one := func(e string, tls bool) error {
		switch {
		case e == "h":
			ev = append(ev, ".wHdr "+leanBool(tls))
		case e == "s":
			ev = append(ev, ".wStartTLS "+leanBool(tls))
		case len(e) > 1 && e[0] == 'o':
			if _, err := strconv.Atoi(e[1:]); err != nil {
				return fmt.Errorf("unexpected write %q", e)
			}
			ev = append(ev, fmt.Sprintf(".wOther %s %s", e[1:], leanBool(tls)))
		default:
			return fmt.Errorf("unexpected write %q", e)
		}
		return nil
	}
	for _, e := range clearEv {
		if err := one(e, false); err != nil {
			return "", err
		}
	}
	switch {
	case hello == "":
	case hello == "Nex":
		ev = append(ev, ".hello .explicit")
	case strings.HasPrefix(hello, "Nd"):
		ev = append(ev, ".hello (.dom "+hello[2:]+")")
	default:
		return "", fmt.Errorf("unexpected ClientHello name %q", hello)
	}
	for _, e := range protEv {
		if err := one(e, true); err != nil {
			return "", err
		}
	}
	return "[" + strings.Join(ev, ", ") + "]", nil
}

func leanErrClass(class string) (string, error) {
	switch class {
	case "read", "tls", "streamerr", "refused", "proto", "feat":
		return "." + class, nil
	}
	return "", fmt.Errorf("unexpected error class %q", class)
}

func leanOutcome(outcome string) (string, error) {
	f := strings.Split(outcome, ".")
	switch {
	case len(f) == 4 && f[0] == "done":
		st, err := strconv.Atoi(f[1])
		if err != nil {
			return "", err
		}
		return fmt.Sprintf(".done %d %s %s", st, leanBool(f[2] == "1"), leanBool(f[3] == "1")), nil
	case len(f) == 2 && f[0] == "err":
		e, err := leanErrClass(f[1])
		if err != nil {
			return "", err
		}
		return ".stop (.err " + e + ")", nil
	}
	return "", fmt.Errorf("unexpected outcome %q", outcome)
}

func leanItems(items []item) string {
	var s []string
	for _, it := range items {
		s = append(s, fmt.Sprintf("⟨%d, %s, %s⟩", it.id, leanBool(it.req), leanBool(it.ok)))
	}
	return "[" + strings.Join(s, ", ") + "]"
}

func leanUnit(u unit) string {
	switch u.kind {
	case 'H':
		return ".hdr " + leanBool(u.ok)
	case 'L':
		return ".list " + leanItems(u.items)
	case 'P':
		return ".proceed"
	case 'F':
		return ".failure"
	case 'E':
		return ".streamErr"
	case 'D':
		return ".streamErrD"
	case 'G':
		return ".tlsOther"
	case 'O':
		return ".foreign"
	case 'W':
		return ".space"
	}
	return ".malformed"
}

// table writes `def name : Option T := some [rows]`, or `none` with the reason as a comment.
func table(sb *strings.Builder, doc, name, typ string, rows []string, err error) {
	fmt.Fprintf(sb, "/-- %s -/\n", doc)
	if err != nil {
		fmt.Fprintf(sb, "def %s : Option (%s) := none -- %s\n\n", name, typ, strings.ReplaceAll(err.Error(), "\n", " "))
		return
	}
	fmt.Fprintf(sb, "def %s : Option (%s) := some [\n  %s]\n\n", name, typ, strings.Join(rows, ",\n  "))
}

// ---- session.go: the state a session starts with -----------------------------------------------

func (c *ctx) probeStartState(sb *strings.Builder) {
	var rows []string
	var perr error
	for kind := 0; kind < 4; kind++ { // (the entry point of the websocket package: probeWSStart)
		for _, st0 := range []uint8{0, uint8(xmpp.Secure), uint8(xmpp.Authn), uint8(xmpp.S2S)} {
			sc := scenario{ck: kind, state0: st0}
			w := newWire(nil)
			seen := -1
			neg := func(ctx context.Context, in, out *stream.Info, s *xmpp.Session, data interface{}) (xmpp.SessionState, io.ReadWriter, interface{}, error) {
				if seen < 0 {
					seen = int(s.State())
				}
				return xmpp.Ready, nil, nil, nil
			}
			var err error
			ok := common.WithTimeout(10*time.Second, func() {
				_, err = xmpp.NewSession(context.Background(), sc.location(), sc.origin(), c.conn(sc, w), xmpp.SessionState(st0), neg)
			})
			w.close()
			if !ok || err != nil || seen < 0 {
				perr = fmt.Errorf("NewSession on a %s with state %d: stalled=%v err=%v", connKinds[kind], st0, !ok, err)
			}
			rows = append(rows, fmt.Sprintf("((%d, %d), some %d)", kind, st0, seen))
		}
	}
	table(sb, "session.go: the `SessionState` the negotiator sees at its first call, for (connection kind, initial state)",
		"startStateProbe", "List ((Nat × Nat) × Option Nat)", rows, perr)
}

// ---- websocket/ws.go: the state a session created by websocket.NewSession starts with ----------

var wsSchemes = []string{"http", "https", "ws", "wss"}

func (c *ctx) probeWSStart(sb *strings.Builder) {
	var rows []string
	var perr error
	type pt struct{ carrier, origin, location int }
	pts := []pt{{0, 0, 0}, {1, 0, 0}}
	for o := range wsSchemes {
		for _, l := range []int{2, 3} {
			pts = append(pts, pt{2, o, l})
		}
	}
	for _, p := range pts {
		w := newWire(nil)
		var rw io.ReadWriter = clientConn{w}
		switch p.carrier {
		case 1:
			rw = plainRW{clientConn{w}}
		case 2:
			w = newWSWire(nil)
			wc, err := dialWS(w, wsSchemes[p.origin]+"://a.example", wsSchemes[p.location]+"://a.example/xmpp-websocket")
			if err != nil {
				perr = err
				continue
			}
			rw = wc
		}
		seen := -1
		ok := common.WithTimeout(10*time.Second, func() {
			// the peer says nothing: the call fails after the header was written; the session value
			// that is returned with the error has the state the session started with
			s, _ := xmppws.NewSession(context.Background(), jid.MustParse("user@a.example"), rw, xmpp.StartTLS(nil))
			if s != nil {
				seen = int(s.State())
			}
		})
		w.close()
		if !ok || seen < 0 {
			perr = fmt.Errorf("websocket.NewSession on carrier %v: stalled=%v", p, !ok)
		}
		rows = append(rows, fmt.Sprintf("((%d, %d, %d), some %d)", p.carrier, p.origin, p.location, seen))
	}
	table(sb, "websocket/ws.go: the `SessionState` of a session created by `websocket.NewSession`, for (carrier: 0 net.Conn / 1 plain io.ReadWriter / 2 client `*websocket.Conn`, scheme of its origin URL, scheme of its location URL; schemes: 0 http 1 https 2 ws 3 wss)",
		"wsStartProbe", "List ((Nat × Nat × Nat) × Option Nat)", rows, perr)
}

// ---- negotiator.go / features.go: the first features list, with and without the tee ------------

// clearKinds: the kinds of connection that are clear text (every kind but the *tls.Conn), TCP and
// WebSocket framing
var clearKinds = []int{0, 1, 2, 4, 5, 6, 7, 8}

var firstListShapes = [][]item{
	{},
	{{id: 9, req: true, ok: true}},
	{{id: 0, req: false, ok: true}},
	{{id: 0, req: true, ok: true}},
}

func (c *ctx) probeFirstList(sb *strings.Builder) {
	var rows []string
	var perr error
	for tee := 0; tee < 4; tee++ {
		for _, kind := range clearKinds {
			for _, items := range firstListShapes {
				for _, proceed := range []bool{false, true} {
					sc := scenario{tee: tee, ck: kind, clear: [][]unit{{hdr(true), list(items...)}}}
					if proceed {
						sc.clear = append(sc.clear, []unit{u('P')})
						sc.prot = []pu{{u: hdr(true)}, {u: list()}}
					}
					res := c.exec(sc, nil)
					ev, err := leanEvents(res.clearEv, res.hello, res.protEv)
					if err != nil {
						perr = err
					}
					out, err := leanOutcome(res.outcome)
					if err != nil {
						perr = err
					}
					rows = append(rows, fmt.Sprintf("((%d, %d, %s, %s), some (%s, %s))", tee, kind, leanItems(items), leanBool(proceed), ev, out))
				}
			}
		}
	}
	table(sb, "negotiator.go, features.go: (tee variant, connection kind, first features list, peer says proceed?) ↦ observable trace and outcome of `NewSession` with only STARTTLS configured",
		"firstListProbe", "List ((Nat × Nat × List Item × Bool) × Option (List Ev × Outcome))", rows, perr)
}

// ---- starttls.go: one direct call of the real Negotiate ------------------------------------------

var negotiateAnswers = []*unit{nil, {kind: 'P'}, {kind: 'F'}, {kind: 'E'}, {kind: 'G'}, {kind: 'O'}, {kind: 'W'}, {kind: 'M'},
	{kind: 'H', ok: true}, {kind: 'H', ok: false}, {kind: 'L'}}

func (c *ctx) probeNegotiate(sb *strings.Builder) {
	const drv = 5 // id of the instrumented feature that calls the real Negotiate
	var rows []string
	var perr error
	for _, explicit := range []bool{false, true} {
		for _, ans := range negotiateAnswers {
			sc := scenario{explicit: explicit, others: []other{{id: drv, negotiable: true}},
				clear: [][]unit{{hdr(true), list(it(drv, true))}}}
			if ans != nil {
				sc.clear = append(sc.clear, []unit{*ans})
			}
			w := newWire(func() [][]byte {
				var b [][]byte
				for _, seg := range sc.clear {
					var x []byte
					for _, u := range seg {
						x = append(x, u.bytes(&sc)...)
					}
					b = append(b, x)
				}
				return b
			}())
			st := xmpp.StartTLS(c.tlsConfig(explicit))
			called := false
			var mask xmpp.SessionState
			var rw io.ReadWriter
			var nerr error
			f := xmpp.StreamFeature{
				Name: xml.Name{Space: fmt.Sprintf("urn:x:f%d", drv), Local: fmt.Sprintf("f%d", drv)},
				Parse: func(ctx context.Context, d *xml.Decoder, start *xml.StartElement) (bool, interface{}, error) {
					return true, nil, d.Skip()
				},
				Negotiate: func(ctx context.Context, s *xmpp.Session, data interface{}) (xmpp.SessionState, io.ReadWriter, error) {
					called = true
					mask, rw, nerr = st.Negotiate(ctx, s, nil)
					// whatever it returned, the session ends here
					return 0, nil, errNeg
				},
			}
			neg := xmpp.NewNegotiator(func(*xmpp.Session, *xmpp.StreamConfig) xmpp.StreamConfig {
				return xmpp.StreamConfig{Features: []xmpp.StreamFeature{f}}
			})
			cctx, cancel := context.WithTimeout(context.Background(), 20*time.Second)
			ok := common.WithTimeout(10*time.Second, func() {
				_, _ = xmpp.NewSession(cctx, sc.location(), sc.origin(), c.conn(sc, w), 0, neg)
			})
			cancel()
			out, _ := w.snapshot()
			w.close()
			ev := classify(out)
			if !ok || !called || len(ev) == 0 || ev[0] != "h" {
				perr = fmt.Errorf("the instrumented feature was not reached (stalled=%v, wrote %v)", !ok, ev)
				continue
			}
			evs, err := leanEvents(ev[1:], "", nil)
			if err != nil {
				perr = err
			}
			obs := ""
			if nerr != nil {
				cl, err := leanErrClass(errClass(nerr))
				if err != nil {
					perr = err
				}
				obs = ".err " + cl
			} else {
				kind := ".same"
				switch rw.(type) {
				case nil:
					kind = ".none"
				case *tls.Conn:
					kind = ".tls"
				}
				obs = fmt.Sprintf(".ok %d %s", uint8(mask), kind)
			}
			a := "none"
			if ans != nil {
				a = "some (" + leanUnit(*ans) + ")"
			}
			rows = append(rows, fmt.Sprintf("((%s, %s), (%s, %s))", leanBool(explicit), a, evs, obs))
		}
	}
	table(sb, "starttls.go: one direct call of the real `StartTLS(cfg).Negotiate` on a clear-text stream: (explicit configuration?, the peer's answer — `none`: end of input) ↦ (what it wrote, what it returned)",
		"negotiateProbe", "List ((Bool × Option StartTLS.Unit) × (List Ev × NegObs))", rows, perr)
}

// ---- starttls.go: server names of histories over one feature value --------------------------------

var sniUniverse = []sess{
	{domain: 0, remote: 1, kind: 'p'},
	{domain: 1, remote: 0, kind: 'p'},
	{domain: 1, remote: 1, s2s: true, kind: 'x'},
	{domain: 2, remote: 0, kind: 'f'},
	{domain: 0, remote: 2, kind: 'n'},
}

func (c *ctx) probeServerName(sb *strings.Builder) {
	var rows []string
	var perr error
	hist := func(explicit bool, ss []sess) {
		base := xmpp.StartTLS(c.tlsConfig(explicit))
		var in, names []string
		for i, s := range ss {
			res := c.exec(sniScenario(s, explicit, i), &base)
			n := "none"
			if len(res.sni) > 0 {
				n = ""
				if res.sni[0] == "explicit.example" {
					n = "some .explicit"
				}
				for k, d := range domains[:4] {
					if d == res.sni[0] {
						n = fmt.Sprintf("some (.dom %d)", k)
					}
				}
				if n == "" {
					perr = fmt.Errorf("unexpected server name %q", res.sni[0])
				}
			}
			names = append(names, n)
			in = append(in, fmt.Sprintf("⟨%d, %d, %s, .%c⟩", s.domain, s.remote, leanBool(s.s2s), s.kind))
		}
		rows = append(rows, fmt.Sprintf("((%s, [%s]), [%s])", leanBool(explicit), strings.Join(in, ", "), strings.Join(names, ", ")))
	}
	for _, explicit := range []bool{false, true} {
		for _, a := range sniUniverse {
			hist(explicit, []sess{a})
			for _, b := range sniUniverse {
				hist(explicit, []sess{a, b})
				// (three sessions: in particular the patterns A,B,A and A,A,B — a value that is
				// restored, cached per domain or changed by every second call shows here)
				for _, c3 := range sniUniverse {
					hist(explicit, []sess{a, b, c3})
				}
			}
		}
	}
	table(sb, "starttls.go: (explicit configuration?, sessions negotiated one after the other with ONE `StartTLS` value) ↦ the server name in each session's ClientHello",
		"serverNameProbe", "List ((Bool × List SniSess) × List (Option Name))", rows, perr)
}

// ---- negotiator.go: the addresses in the peer's stream header ------------------------------------

func leanAddr(a addr) string { return fmt.Sprintf("⟨%d, %d, %d⟩", a.loc, a.dom, a.res) }

func (c *ctx) probeHeaderAddress(sb *strings.Builder) {
	var rows, rows2 []string
	var perr error
	for _, s2s := range []bool{false, true} {
		for _, inTLS := range []bool{false, true} {
			for from := 0; from < len(hdrFromKinds); from++ {
				// (a domain small enough for the kernel to compare in a second, and for a failed
				// comparison to be explained: the whole universe runs in the differential corpus)
				tos := []*addr{nil, {1, 0, 0}, {0, 0, 0}, {1, 1, 0}, {2, 0, 0}, {1, 0, 1}, {1, 4, 0}, {0, 1, 0}}
				if from >= 2 {
					tos = []*addr{nil}
				}
				for toCode, to := range tos {
					sc := scenario{domain: 0, remote: 1}
					if s2s {
						sc.state0 = uint8(xmpp.S2S)
					}
					h1, h2 := hdrA(from, to), hdr(true)
					if inTLS {
						h1, h2 = h2, h1
					}
					sc.clear = [][]unit{{h1, list(it(0, true))}, {u('P')}}
					sc.prot = []pu{{u: h2}, {u: list()}}
					res := c.exec(sc, nil)
					ev, err := leanEvents(res.clearEv, res.hello, res.protEv)
					if err != nil {
						perr = err
					}
					out, err := leanOutcome(res.outcome)
					if err != nil {
						perr = err
					}
					var la addr
					if _, err := fmt.Sscanf(res.local, "T%d.%d.%d", &la.loc, &la.dom, &la.res); err != nil {
						perr = fmt.Errorf("LocalAddr() after the call: %s", res.local)
					}
					if res.remoteCh != "" || res.callerCh != "" {
						perr = fmt.Errorf("addresses changed: %s %s", res.remoteCh, res.callerCh)
					}
					rows = append(rows, fmt.Sprintf("((%s, %s, %d, %d), some (%s, %s))", leanBool(s2s), leanBool(inTLS), from, toCode, ev, out))
					rows2 = append(rows2, fmt.Sprintf("((%s, %s, %d, %d), (%d, %d, %d))", leanBool(s2s), leanBool(inTLS), from, toCode, la.loc, la.dom, la.res))
				}
			}
		}
	}
	table(sb, "negotiator.go: (s2s?, header inside TLS?, kind of 'from', index of the 'to') of the peer's stream header ↦ observable trace and outcome of a `NewSession` with only STARTTLS configured (own address user@d0 / d0, remote d1)",
		"headerAddressProbe", "List ((Bool × Bool × Nat × Nat) × Option (List Ev × Outcome))", rows, perr)
	table(sb, "negotiator.go: the same domain ↦ what `LocalAddr()` returns after the call (localpart, domain, resourcepart codes)",
		"headerLocalProbe", "List ((Bool × Bool × Nat × Nat) × (Nat × Nat × Nat))", rows2, perr)
}

// ---- stream.Info / jid: a header parsed into a copy leaves the original alone --------------------

var copyUniverse = []addr{{1, 0, 0}, {1, 1, 0}, {2, 0, 0}, {0, 0, 0}, {0, 1, 0}, {1, 4, 0}, {1, 0, 1}, {0, 4, 1}}

func (c *ctx) probeInfoCopy(sb *strings.Builder) {
	var rows []string
	var perr error
	sc := scenario{}
	for _, a := range copyUniverse {
		for _, b := range copyUniverse {
			// the value a session (or its caller) holds, and the negotiator's shallow copy of it
			held := stream.Info{To: jid.MustParse(sc.addrStr(a)), From: jid.MustParse(sc.addrStr(a))}
			cp := held
			start := xml.StartElement{Name: xml.Name{Space: "http://etherx.jabber.org/streams", Local: "stream"}, Attr: []xml.Attr{
				{Name: xml.Name{Local: "to"}, Value: sc.addrStr(b)}, {Name: xml.Name{Local: "from"}, Value: sc.addrStr(b)}}}
			if err := cp.FromStartElement(start); err != nil {
				perr = err
			}
			code := func(j jid.JID) string {
				var x addr
				if _, err := fmt.Sscanf(sc.addrCode(j), "%d.%d.%d", &x.loc, &x.dom, &x.res); err != nil {
					perr = fmt.Errorf("address %s outside the universe", j)
				}
				return leanAddr(x)
			}
			if !cp.To.Equal(cp.From) || !held.To.Equal(held.From) {
				perr = fmt.Errorf("'to' and 'from' of one header parsed differently: %s %s / %s %s", cp.To, cp.From, held.To, held.From)
			}
			rows = append(rows, fmt.Sprintf("((%s, %s), (%s, %s))", leanAddr(a), leanAddr(b), code(cp.To), code(held.To)))
		}
	}
	table(sb, "stream.Info.FromStartElement on a shallow copy of a stream info: (address held, address in the header) ↦ (what the copy holds afterwards, what the value it was copied from holds)",
		"infoCopyProbe", "List ((Addr × Addr) × (Addr × Addr))", rows, perr)
}

// ---- sasl.go: the masks of the authentication feature for every set of mechanisms ----------------

func (c *ctx) probeSASLMasks(sb *strings.Builder) {
	var rows []string
	var perr error
	for set := 1; set < 1<<len(mechUniverse); set++ {
		var ms []sasl.Mechanism
		for k, m := range mechUniverse {
			if set&(1<<k) != 0 {
				ms = append(ms, m)
			}
		}
		var f xmpp.StreamFeature
		if p := common.Recover(func() { f = xmpp.SASL("", "secret", ms...) }); p != "" {
			perr = fmt.Errorf("xmpp.SASL panicked: %s", p)
		}
		rows = append(rows, fmt.Sprintf("(%d, (%d, %d, %s))", set, uint8(f.Necessary), uint8(f.Prohibited), leanBool(f.Negotiate != nil)))
	}
	table(sb, "sasl.go: set of configured mechanisms (bit k = mechanism k of PLAIN, SCRAM-SHA-1, SCRAM-SHA-1-PLUS, SCRAM-SHA-256, SCRAM-SHA-256-PLUS) ↦ (Necessary, Prohibited, negotiable) of the value `xmpp.SASL` returns",
		"saslMaskProbe", "List (Nat × (Nat × Nat × Bool))", rows, perr)
}

// probes runs every probe and returns the Lean text.
func probes() (string, error) {
	dir, err := os.MkdirTemp("", "c02facts")
	if err != nil {
		return "", err
	}
	defer os.RemoveAll(dir)
	p, err := newPKI(dir)
	if err != nil {
		return "", err
	}
	c := &ctx{r: &common.Run{Prop: "C02", Hist: map[string]int{}, Extra: map[string]interface{}{}}, pki: p}
	c.probe()
	var sb strings.Builder
	fmt.Fprintf(&sb, "/-- three behaviours of features.go that C02 does not constrain, measured on the code: (rr, rt, sk) -/\n")
	fmt.Fprintf(&sb, "def featuresFlags : Option (Bool × Bool × Bool) := some (%s, %s, %s)\n\n", leanBool(c.rr), leanBool(c.rt), leanBool(c.sk))
	c.probeStartState(&sb)
	c.probeWSStart(&sb)
	c.probeFirstList(&sb)
	c.probeNegotiate(&sb)
	c.probeServerName(&sb)
	c.probeHeaderAddress(&sb)
	c.probeInfoCopy(&sb)
	c.probeSASLMasks(&sb)
	return sb.String(), nil
}
