package c02

import (
	"bytes"
	"crypto/ecdsa"
	"crypto/elliptic"
	"crypto/rand"
	"crypto/sha1"
	"crypto/tls"
	"crypto/x509"
	"crypto/x509/pkix"
	"encoding/base64"
	"encoding/pem"
	"errors"
	"io"
	"math/big"
	"net"
	"os"
	"path/filepath"
	"strings"
	"sync"
	"time"
)

// wire is the scripted, fully in-memory connection between the real client
// (xmpp.NewSession) and the scripted peer.
//
//   - everything the client writes is appended to out (never blocks, never
//     fails): the raw bytes on the wire;
//   - the client reads the clear-text segments of the script one Read per
//     segment, on demand; when they are exhausted it gets EOF unless it has
//     started TLS (a 0x16 byte — a TLS handshake record — appeared on the
//     wire; XML never contains that byte), in which case it reads what the
//     real crypto/tls server (or the attacker's raw junk) produced.
//
// A client Read therefore never depends on timing: the order of everything it
// can read is fixed by the script.
type wire struct {
	mu       sync.Mutex
	cond     *sync.Cond
	out      []byte   // raw bytes written by the client
	clear    [][]byte // remaining clear-text segments
	tlsq     [][]byte // chunks for the client produced in the TLS phase
	srvDone  bool     // the server side will not produce anything more
	closed   bool
	tlsStart int // offset in out of the first TLS record, -1 if none
	srvOff   int // read offset of the TLS server in out
	// ws != nil: the client end is a *websocket.Conn (golang.org/x/net/websocket).  The wire
	// then is the peer's WebSocket endpoint: it answers the HTTP upgrade request, takes the
	// client's (masked) frames apart — out holds their payload, so everything above is the
	// same as on a raw carrier — and frames what the peer sends.
	ws *wsEnd
}

type wsEnd struct {
	upgraded bool
	req      []byte // the HTTP request so far
	resp     []byte // the upgrade response the client has not read yet
	in       []byte // bytes of an incomplete frame
	raw      []byte // everything the client wrote, as written
}

const wsGUID = "258EAFA5-E914-47DA-95CA-C5AB0DC85B11"

// feed takes bytes the client wrote and returns the payload of the data frames in them.
func (e *wsEnd) feed(p []byte) (payload []byte) {
	e.raw = append(e.raw, p...)
	if !e.upgraded {
		e.req = append(e.req, p...)
		i := bytes.Index(e.req, []byte("\r\n\r\n"))
		if i < 0 {
			return nil
		}
		key := ""
		for _, l := range strings.Split(string(e.req[:i]), "\r\n") {
			if k, v, ok := strings.Cut(l, ":"); ok && strings.EqualFold(strings.TrimSpace(k), "Sec-WebSocket-Key") {
				key = strings.TrimSpace(v)
			}
		}
		h := sha1.Sum([]byte(key + wsGUID))
		e.resp = []byte("HTTP/1.1 101 Switching Protocols\r\nUpgrade: websocket\r\nConnection: Upgrade\r\nSec-WebSocket-Accept: " +
			base64.StdEncoding.EncodeToString(h[:]) + "\r\nSec-WebSocket-Protocol: xmpp\r\n\r\n")
		e.upgraded = true
		p = e.req[i+4:]
		e.req = nil
	}
	e.in = append(e.in, p...)
	for {
		b := e.in
		if len(b) < 2 {
			return payload
		}
		op, masked, n, off := b[0]&0x0f, b[1]&0x80 != 0, int(b[1]&0x7f), 2
		switch n {
		case 126:
			if len(b) < 4 {
				return payload
			}
			n, off = int(b[2])<<8|int(b[3]), 4
		case 127:
			if len(b) < 10 {
				return payload
			}
			n, off = int(b[6])<<24|int(b[7])<<16|int(b[8])<<8|int(b[9]), 10
		}
		var mask []byte
		if masked {
			if len(b) < off+4 {
				return payload
			}
			mask, off = b[off:off+4], off+4
		}
		if len(b) < off+n {
			return payload
		}
		if op <= 2 { // continuation, text, binary (close/ping/pong carry no stream data)
			for k := 0; k < n; k++ {
				c := b[off+k]
				if masked {
					c ^= mask[k%4]
				}
				payload = append(payload, c)
			}
		}
		e.in = append([]byte(nil), b[off+n:]...)
	}
}

// wsFrame: one unmasked text frame (what a server sends)
func wsFrame(p []byte) []byte {
	b := []byte{0x81}
	switch {
	case len(p) < 126:
		b = append(b, byte(len(p)))
	case len(p) < 1<<16:
		b = append(b, 126, byte(len(p)>>8), byte(len(p)))
	default:
		b = append(b, 127, 0, 0, 0, 0, byte(len(p)>>24), byte(len(p)>>16), byte(len(p)>>8), byte(len(p)))
	}
	return append(b, p...)
}

// newWSWire: a wire whose client end is a *websocket.Conn
func newWSWire(clear [][]byte) *wire {
	var framed [][]byte
	for _, s := range clear {
		if len(s) > 0 {
			framed = append(framed, wsFrame(s))
		}
	}
	w := newWire(framed)
	w.ws = &wsEnd{}
	return w
}

func newWire(clear [][]byte) *wire {
	w := &wire{tlsStart: -1}
	w.cond = sync.NewCond(&w.mu)
	for _, s := range clear {
		if len(s) > 0 {
			w.clear = append(w.clear, append([]byte(nil), s...))
		}
	}
	return w
}

func (w *wire) close() {
	w.mu.Lock()
	w.closed = true
	w.cond.Broadcast()
	w.mu.Unlock()
}

func (w *wire) snapshot() (out []byte, tlsStart int) {
	w.mu.Lock()
	defer w.mu.Unlock()
	return append([]byte(nil), w.out...), w.tlsStart
}

type dummyAddr struct{}

func (dummyAddr) Network() string { return "script" }
func (dummyAddr) String() string  { return "script" }

// clientConn is the net.Conn handed to xmpp.NewSession.
type clientConn struct{ w *wire }

var errClosed = errors.New("c02: connection closed by harness")

func (c clientConn) Read(p []byte) (int, error) {
	w := c.w
	w.mu.Lock()
	defer w.mu.Unlock()
	for {
		if w.closed {
			return 0, errClosed
		}
		if len(p) == 0 {
			return 0, nil
		}
		if w.ws != nil {
			if !w.ws.upgraded {
				return 0, io.EOF // (the client writes its request before it reads)
			}
			if len(w.ws.resp) > 0 {
				n := copy(p, w.ws.resp)
				w.ws.resp = w.ws.resp[n:]
				return n, nil
			}
		}
		if len(w.clear) > 0 {
			n := copy(p, w.clear[0])
			if n == len(w.clear[0]) {
				w.clear = w.clear[1:]
			} else {
				w.clear[0] = w.clear[0][n:]
			}
			return n, nil
		}
		if w.tlsStart < 0 {
			return 0, io.EOF
		}
		if len(w.tlsq) > 0 {
			n := copy(p, w.tlsq[0])
			if n == len(w.tlsq[0]) {
				w.tlsq = w.tlsq[1:]
			} else {
				w.tlsq[0] = w.tlsq[0][n:]
			}
			return n, nil
		}
		if w.srvDone {
			return 0, io.EOF
		}
		w.cond.Wait()
	}
}

func (c clientConn) Write(p []byte) (int, error) {
	w := c.w
	w.mu.Lock()
	defer w.mu.Unlock()
	if w.closed {
		return 0, errClosed
	}
	written := len(p)
	if w.ws != nil {
		p = w.ws.feed(p)
	}
	if w.tlsStart < 0 {
		if i := bytes.IndexByte(p, 0x16); i >= 0 {
			w.tlsStart = len(w.out) + i
			w.srvOff = w.tlsStart
		}
	}
	w.out = append(w.out, p...)
	w.cond.Broadcast()
	return written, nil
}

func (c clientConn) Close() error                     { return nil }
func (c clientConn) LocalAddr() net.Addr              { return dummyAddr{} }
func (c clientConn) RemoteAddr() net.Addr             { return dummyAddr{} }
func (c clientConn) SetDeadline(time.Time) error      { return nil }
func (c clientConn) SetReadDeadline(time.Time) error  { return nil }
func (c clientConn) SetWriteDeadline(time.Time) error { return nil }

// srvConn is the net.Conn the real tls.Server runs on: it reads the client's
// bytes from the first TLS record on and writes into the client's read queue.
type srvConn struct{ w *wire }

func (c srvConn) Read(p []byte) (int, error) {
	w := c.w
	w.mu.Lock()
	defer w.mu.Unlock()
	for {
		if w.tlsStart >= 0 && w.srvOff < len(w.out) {
			n := copy(p, w.out[w.srvOff:])
			w.srvOff += n
			return n, nil
		}
		if w.closed {
			return 0, io.EOF
		}
		w.cond.Wait()
	}
}

func (c srvConn) Write(p []byte) (int, error) {
	w := c.w
	w.mu.Lock()
	defer w.mu.Unlock()
	if w.closed {
		return 0, errClosed
	}
	if w.ws != nil {
		w.tlsq = append(w.tlsq, wsFrame(p))
	} else {
		w.tlsq = append(w.tlsq, append([]byte(nil), p...))
	}
	w.cond.Broadcast()
	return len(p), nil
}

func (c srvConn) Close() error                     { return nil }
func (c srvConn) LocalAddr() net.Addr              { return dummyAddr{} }
func (c srvConn) RemoteAddr() net.Addr             { return dummyAddr{} }
func (c srvConn) SetDeadline(time.Time) error      { return nil }
func (c srvConn) SetReadDeadline(time.Time) error  { return nil }
func (c srvConn) SetWriteDeadline(time.Time) error { return nil }

// pushRaw puts attacker bytes (not TLS records) into the TLS-phase queue.
func (w *wire) pushRaw(b []byte) {
	w.mu.Lock()
	if w.ws != nil {
		b = wsFrame(b)
	}
	w.tlsq = append(w.tlsq, append([]byte(nil), b...))
	w.cond.Broadcast()
	w.mu.Unlock()
}

// waitTLS blocks until the client has started TLS (true) or the wire was
// closed (false).
func (w *wire) waitTLS() bool {
	w.mu.Lock()
	defer w.mu.Unlock()
	for w.tlsStart < 0 && !w.closed {
		w.cond.Wait()
	}
	return w.tlsStart >= 0
}

func (w *wire) setSrvDone() {
	w.mu.Lock()
	w.srvDone = true
	w.cond.Broadcast()
	w.mu.Unlock()
}

// pitem is one item of the TLS phase of a script: plaintext sent inside the
// TLS layer by the real server, or raw junk injected below it.
type pitem struct {
	junk bool
	cert int // != 0, first item: a real handshake with a certificate that must be refused (see pu)
	b    []byte
}

// tlsPeer runs the TLS phase of the script with a real crypto/tls server.
type tlsPeer struct {
	w    *wire
	cfg  *tls.Config
	bad  []*tls.Config // server configurations with certificates the client must refuse (index: pu.cert)
	wg   sync.WaitGroup
	mu   sync.Mutex
	sni  []string // server names seen in ClientHellos
	prot []byte   // decrypted bytes the client sent inside TLS
	hsOK bool
}

func (p *tlsPeer) run(items []pitem) {
	p.wg.Add(1)
	go func() {
		defer p.wg.Done()
		defer p.w.setSrvDone()
		var srv *tls.Conn
		start := func() bool {
			if !p.w.waitTLS() {
				return false
			}
			cfg := p.cfg.Clone()
			cfg.GetConfigForClient = func(chi *tls.ClientHelloInfo) (*tls.Config, error) {
				p.mu.Lock()
				p.sni = append(p.sni, chi.ServerName)
				p.mu.Unlock()
				return nil, nil
			}
			srv = tls.Server(srvConn{p.w}, cfg)
			if err := srv.Handshake(); err != nil {
				return false
			}
			p.mu.Lock()
			p.hsOK = true
			p.mu.Unlock()
			p.wg.Add(1)
			go func() {
				defer p.wg.Done()
				buf := make([]byte, 4096)
				for {
					n, err := srv.Read(buf)
					p.mu.Lock()
					p.prot = append(p.prot, buf[:n]...)
					p.mu.Unlock()
					if err != nil {
						return
					}
				}
			}()
			return true
		}
		for i, it := range items {
			if it.cert != 0 && i == 0 && it.cert < len(p.bad) {
				p.cfg = p.bad[it.cert]
				if !start() {
					return
				}
				continue // (the client accepted the certificate: go on, so that the session comes about)
			}
			if it.junk {
				p.w.pushRaw(it.b)
				continue
			}
			if srv == nil && !start() {
				return
			}
			if _, err := srv.Write(it.b); err != nil {
				return
			}
		}
		if srv == nil {
			start()
		}
	}()
}

// PKI: one self-signed CA/server certificate valid for every domain the
// harness uses.  The default configuration of xmpp.StartTLS(nil) verifies
// against the system roots, so the certificate is written to a file and
// SSL_CERT_FILE/SSL_CERT_DIR point at it before the first verification.
var domains = []string{"a.example", "b.example", "c.example", "d.example", "explicit.example"}

type pki struct {
	server *tls.Config
	pool   *x509.CertPool
	// certificates a client must refuse: issued by the trusted CA for another name; self-signed by
	// an unknown CA for the right names
	wrongName, unknownCA *tls.Config
}

func leafConfig(tmpl, parent *x509.Certificate, parentKey *ecdsa.PrivateKey) (*tls.Config, error) {
	key, err := ecdsa.GenerateKey(elliptic.P256(), rand.Reader)
	if err != nil {
		return nil, err
	}
	signer := parentKey
	if parent == nil {
		parent, signer = tmpl, key
	}
	der, err := x509.CreateCertificate(rand.Reader, tmpl, parent, &key.PublicKey, signer)
	if err != nil {
		return nil, err
	}
	return &tls.Config{Certificates: []tls.Certificate{{Certificate: [][]byte{der}, PrivateKey: key}}, MinVersion: tls.VersionTLS12}, nil
}

func newPKI(dir string) (*pki, error) {
	key, err := ecdsa.GenerateKey(elliptic.P256(), rand.Reader)
	if err != nil {
		return nil, err
	}
	tmpl := &x509.Certificate{
		SerialNumber:          big.NewInt(1),
		Subject:               pkix.Name{CommonName: "c02 harness"},
		NotBefore:             time.Now().Add(-time.Hour),
		NotAfter:              time.Now().Add(24 * time.Hour),
		KeyUsage:              x509.KeyUsageDigitalSignature | x509.KeyUsageCertSign,
		ExtKeyUsage:           []x509.ExtKeyUsage{x509.ExtKeyUsageServerAuth},
		BasicConstraintsValid: true,
		IsCA:                  true,
		DNSNames:              domains,
	}
	der, err := x509.CreateCertificate(rand.Reader, tmpl, tmpl, &key.PublicKey, key)
	if err != nil {
		return nil, err
	}
	cert, err := x509.ParseCertificate(der)
	if err != nil {
		return nil, err
	}
	pemBytes := pem.EncodeToMemory(&pem.Block{Type: "CERTIFICATE", Bytes: der})
	caDir := filepath.Join(dir, "ca")
	if err := os.MkdirAll(caDir, 0o755); err != nil {
		return nil, err
	}
	caFile := filepath.Join(caDir, "ca.pem")
	if err := os.WriteFile(caFile, pemBytes, 0o644); err != nil {
		return nil, err
	}
	os.Setenv("SSL_CERT_FILE", caFile)
	os.Setenv("SSL_CERT_DIR", caDir)
	pool := x509.NewCertPool()
	pool.AddCert(cert)
	leaf := func(serial int64, names []string) *x509.Certificate {
		return &x509.Certificate{
			SerialNumber: big.NewInt(serial), Subject: pkix.Name{CommonName: "c02 harness leaf"},
			NotBefore: time.Now().Add(-time.Hour), NotAfter: time.Now().Add(24 * time.Hour),
			KeyUsage: x509.KeyUsageDigitalSignature | x509.KeyUsageCertSign, ExtKeyUsage: []x509.ExtKeyUsage{x509.ExtKeyUsageServerAuth},
			BasicConstraintsValid: true, IsCA: true, DNSNames: names,
		}
	}
	wrongName, err := leafConfig(leaf(2, []string{"elsewhere.example"}), cert, key)
	if err != nil {
		return nil, err
	}
	unknownCA, err := leafConfig(leaf(3, domains), nil, nil)
	if err != nil {
		return nil, err
	}
	return &pki{
		wrongName: wrongName, unknownCA: unknownCA,
		server: &tls.Config{
			Certificates: []tls.Certificate{{Certificate: [][]byte{der}, PrivateKey: key}},
			MinVersion:   tls.VersionTLS12,
		},
		pool: pool,
	}, nil
}
