package c01

import (
	"fmt"
	"sort"
	"strings"
)

// Failure is one violated clause of C01 / C04 on an observed run of the real code.
type Failure struct {
	Prop   string // C01 or C04
	Clause string
	Key    string
	Detail string
}

type cacheEnt struct {
	idx int
	req bool
}

// Judge evaluates the clauses of C01 and C04 directly on the recorded run (it does not
// use the Lean model).
func Judge(cs Case, res Result) []Failure {
	var out []Failure
	add := func(prop, clause, key, format string, a ...interface{}) {
		out = append(out, Failure{prop, clause, key, fmt.Sprintf(format, a...)})
	}
	cfg := cs.Cfg
	server := cs.St0&Received != 0
	// the configured feature of that name: the first one the config function returns for a
	// session in state st (the function is called for every negotiator call, state does not
	// change between that call and the features list)
	find := func(ns, loc int, st uint8) int {
		for i, b := range cfg {
			if b.NS == ns && b.Loc == loc && b.Configured(st) {
				return i
			}
		}
		return -1
	}

	switch res.Outcome {
	case "PANIC":
		key := "panic:" + panicKey(res.Err)
		// the last item delivered before the panic
		last := byte(0)
		var lastAdv []AdvItem
		for _, e := range res.Events {
			if e.Kind == "R" && e.Res == "got" {
				last = res.Script[e.Item].Kind
				lastAdv = res.Script[e.Item].Adv
			}
		}
		switch {
		case last == 'X':
			key = "panic:stream-error-at-header"
		case last == 'A' && !server:
			// a nil Negotiate was called: the forced STARTTLS attempt with an informational
			// feature, or an informational feature picked from the list
			forced, picked := false, false
			for _, b := range cfg {
				if b.Negotiable {
					continue
				}
				if b.NS == 1 {
					forced = true
				}
				for _, a := range lastAdv {
					if !a.Junk && a.NS == b.NS && a.Loc == b.Loc {
						picked = true
					}
				}
			}
			switch {
			case picked:
				add("C01", "negotiable", "informational-feature-negotiated", "an informational feature (Negotiate == nil) of the features list was selected: %s", res.Err)
				key = "panic:informational-feature-negotiated"
			case forced:
				add("C01", "negotiable", "forced-starttls-informational", "an informational feature (Negotiate == nil) in the STARTTLS namespace was selected for the unconditional STARTTLS attempt: %s", res.Err)
				key = "panic:forced-starttls-informational"
			}
		}
		add("C04", "panic", key, "negotiation panicked: %s", res.Err)
		return out
	case "STALL":
		// a call may stay blocked for as long as its peer is silent or does not read — but not
		// once its context is done
		fs, _ := parseFault(cs.Fault)
		blocked, wr := false, false
		for _, e := range res.Events {
			if e.Res == "blocked" {
				blocked, wr = true, e.Kind != "R"
			}
		}
		cancelled := (fs.cancel && len(res.Events) >= fs.cancelAt) || (fs.cancelB && blocked)
		switch {
		case blocked && !cancelled:
			// legitimately blocked: nobody cancelled
		case blocked && wr:
			add("C04", "stall", "blocked-write-outlives-cancel", "the context was cancelled while session establishment was blocked in a write; it did not return")
		case blocked:
			add("C04", "stall", "blocked-read-outlives-cancel", "the context was cancelled while session establishment was blocked in a read; it did not return")
		default:
			add("C04", "stall", "stall", "session establishment did not return")
		}
		return out
	}

	negd := map[int]bool{}
	tried := map[int]bool{}     // namespaces whose Negotiate has been called on the current stream (failed calls too)
	cache := map[int]cacheEnt{} // namespace -> entry of the current list
	lists := 0                  // features lists seen on this session
	listSt := uint8(0)
	var advNames []string // initiator: names offered by the current list
	var advReq []string   // initiator: names offered as mandatory by the current list
	claimedReady := cs.St0&Ready != 0
	pending := 0 // restart bookkeeping: 1 = restart just negotiated, 2 = server read the header
	expectHdr := true
	prev := cs.St0
	faulty := -1 // index of the first faulty event
	faultyKind := ""
	var selRefuse bool // server: the selection just read must be refused
	var selDesc string
	negInList := 0

	for i, e := range res.Events {
		// ---- monotone
		if prev&^e.St != 0 {
			add("C01", "monotone", "bit-cleared", "event %d (%s): state went from %d to %d", i, e.String(cfg), prev, e.St)
		}
		prev = e.St
		// ---- nothing after a fault
		if faulty >= 0 {
			ok := e.Kind == "Wp" && i == faulty+1 && res.Events[faulty].Kind == "L"
			if !ok {
				add("C04", "no-continue", "after:"+faultyKind, "event %d (%s) follows the failed step %d (%s)", i, e.String(cfg), faulty, res.Events[faulty].String(cfg))
			}
		}
		// ---- restart is followed by a header
		switch pending {
		case 1:
			switch {
			case !server && e.Kind == "Wh":
				pending = 0
			case server && e.Kind == "R":
				if e.Res == "got" {
					pending = 2
				} else {
					pending = 0
				}
			default:
				add("C01", "restart-header", "no-header-after-restart", "event %d (%s) follows a feature that returned a new connection layer, expected a stream header", i, e.String(cfg))
				pending = 0
			}
		case 2:
			if e.Kind != "Wh" {
				add("C01", "restart-header", "no-header-after-restart", "event %d (%s): receiver did not answer the restart with a header", i, e.String(cfg))
			}
			pending = 0
		}
		if selRefuse {
			if e.Kind == "N" {
				add("C01", "recv-refuse", "ran:"+selDesc, "selection %s was negotiated (%s) although it had to be refused", selDesc, e.String(cfg))
			}
			selRefuse = false
		}

		// ---- only features of the current stream config: the config function is called for every
		// negotiator call, so the callbacks that run belong to features it returns for the state
		// in which the current features list is written / read
		switch {
		case e.Kind == "L" && !cfg[e.F].Configured(e.St):
			add("C01", "recv-advert", "not-configured", "%s: List of a feature the stream config function does not return for state %d", e.String(cfg), e.St)
		case e.Kind == "P" && !cfg[e.F].Configured(e.St):
			add("C01", "advertised", "not-configured", "%s: Parse of a feature the stream config function does not return for state %d", e.String(cfg), e.St)
		case e.Kind == "N" && lists > 0 && !cfg[e.F].Configured(listSt):
			key := "not-configured"
			if server {
				key = "receiver:" + key
			}
			add("C01", "advertised", key, "%s: Negotiate of a feature the stream config function does not return for the state %d of the current features list", e.String(cfg), listSt)
		}
		switch e.Kind {
		case "Wh":
			negd = map[int]bool{}
			tried = map[int]bool{}
			expectHdr = false
		case "R":
			if e.Res != "got" {
				break
			}
			it := res.Script[e.Item]
			if !server {
				if it.Kind == 'A' && !expectHdrClient(res.Events, i) {
					lists++
					listSt = e.St
					negInList = 0
					cache = map[int]cacheEnt{}
					advNames = nil
					advReq = nil
					for _, a := range it.Adv {
						if a.Junk {
							break
						}
						advNames = append(advNames, fmt.Sprintf("%d.%d", a.NS, a.Loc))
						if a.Req {
							advReq = append(advReq, fmt.Sprintf("%d.%d", a.NS, a.Loc))
						}
						if k := find(a.NS, a.Loc, listSt); k >= 0 {
							if cfg[k].ParseErr {
								break
							}
							if cfg[k].Eligible(listSt) {
								cache[a.NS] = cacheEnt{k, a.Req}
							}
						}
					}
				}
				break
			}
			if expectHdr {
				expectHdr = false
				break
			}
			// receiver: a selection
			if it.Kind == 'T' || (it.Kind == 'E' && it.IQ && !it.Payload) {
				break
			}
			ns := -1
			selDesc = "stream-level"
			if it.Kind == 'E' {
				ns = it.NS
				selDesc = "unsent"
			}
			ent, sent := cache[ns]
			switch {
			case !sent:
				selRefuse = true
			case negd[ns]:
				selRefuse, selDesc = true, "repeated"
			case !cfg[ent.idx].Negotiable:
				selRefuse, selDesc = true, "informational"
			case !cfg[ent.idx].Eligible(e.St):
				selRefuse, selDesc = true, "ineligible-now"
			}
		case "Wl":
			if e.Res != "ok" {
				break
			}
			lists++
			listSt = e.St
			negInList = 0
			cache = map[int]cacheEnt{}
			var want []string
			for k, b := range cfg {
				if b.Configured(e.St) && b.Eligible(e.St) {
					want = append(want, b.Name())
					cache[b.NS] = cacheEnt{k, b.ListReq}
				}
			}
			got := append([]string(nil), e.Names...)
			w := append([]string(nil), want...)
			sort.Strings(got)
			sort.Strings(w)
			if strings.Join(got, "+") != strings.Join(w, "+") {
				key := "extra"
				if len(got) < len(w) {
					key = "missing"
				}
				add("C01", "recv-advert", key, "features list written at state %d is [%s], the currently configured features whose prerequisites hold are [%s]", e.St, strings.Join(e.Names, "+"), strings.Join(want, "+"))
			}
		case "N":
			b := cfg[e.F]
			forced := false
			offered := false
			if server {
				ent, ok := cache[b.NS]
				offered = ok && ent.idx == e.F
			} else {
				for _, n := range advNames {
					if n == b.Name() {
						offered = true
					}
				}
			}
			if !offered {
				if !server && b.NS == 1 && lists == 1 && negInList == 0 {
					forced = true
				} else {
					key := "not-in-current-list"
					if server {
						key = "receiver:" + key
					}
					add("C01", "advertised", key, "%s negotiated although the current features list does not offer it", e.String(cfg))
				}
			}
			if e.Data != "" {
				// the data handed to Negotiate: on the initiating side what Parse of this same feature
				// returned for the current list (Session.features, keyed by namespace, cleared on a
				// restart); nil for the unconditional STARTTLS attempt and on the receiving side
				want := "own"
				if server || forced {
					want = "nil"
				}
				if e.Data != want {
					add("C01", "advertised", "negotiate-data:"+e.Data, "%s was handed %s data, expected %s (the value its own Parse returned for the current features list / nil)", e.String(cfg), e.Data, want)
				}
			}
			if !b.Eligible(e.St) {
				key := "at-selection"
				switch {
				case forced, !server && b.NS == 1 && lists == 1 && negInList == 0 && !b.Eligible(listSt):
					key = "forced-starttls"
				case b.Eligible(listSt):
					key = "state-changed-since-list"
				}
				if server {
					key = "receiver:" + key
				}
				add("C01", "prereq", key, "%s negotiated at state %d, necessary=%d prohibited=%d", e.String(cfg), e.St, b.Nec, b.Proh)
			}
			if negd[b.NS] {
				add("C01", "once", "twice-on-one-stream", "%s: namespace negotiated twice without a stream restart", e.String(cfg))
			} else if tried[b.NS] {
				// a Negotiate that failed ends the negotiation; calling it again on the same stream
				// is a second negotiation of the feature all the same
				add("C01", "once", "retried-after-error", "%s: Negotiate called again on the same stream after it had failed", e.String(cfg))
			}
			tried[b.NS] = true
			if ent, ok := cache[b.NS]; ok && ent.idx == e.F && ent.req && !server && !forced {
				for ns, o := range cache {
					ob := cfg[o.idx]
					if ns != b.NS && !o.req && ob.Negotiable && !negd[ns] && ob.Eligible(e.St) {
						add("C01", "voluntary-first", "mandatory-before-voluntary", "%s (mandatory) negotiated while voluntary %s was still open", e.String(cfg), ob.Name())
						break
					}
				}
			}
			negInList++
			// after a voluntary, non-restarting feature the selection loop goes on with the same
			// list: the next thing must be another Negotiate or the end of negotiation, never a
			// read (a feature that the list marked voluntary must not end the list)
			if ent, ok := cache[b.NS]; ok && ent.idx == e.F && !ent.req && !server && !forced && !b.NegErr && !b.Restart {
				if i+1 < len(res.Events) && res.Events[i+1].Kind == "R" {
					add("C01", "voluntary-first", "list-left-after-voluntary", "%s was advertised as voluntary and does not restart the stream, yet the features list was abandoned after it (next event is a read)", e.String(cfg))
				}
			}
			if !b.NegErr {
				negd[b.NS] = true
				if b.Mask&Ready != 0 {
					claimedReady = true
				}
				if b.Restart {
					pending = 1
					expectHdr = true
				}
			}
		}
		// ---- faults
		if faulty < 0 {
			k := ""
			switch {
			case (e.Kind == "R" || strings.HasPrefix(e.Kind, "W")) && e.Res != "ok" && e.Res != "got" && e.Res != "blocked":
				k = e.Kind[:1] + ":" + e.Res
			case e.Kind == "L" && cfg[e.F].ListErr:
				k = "List"
			case e.Kind == "P" && cfg[e.F].ParseErr:
				k = "Parse"
			case e.Kind == "N" && cfg[e.F].NegErr:
				k = "Negotiate"
				if ent, ok := cache[cfg[e.F].NS]; ok && !ent.req && !cfg[e.F].Restart {
					k = "Negotiate:voluntary"
				}
			}
			if k != "" {
				faulty, faultyKind = i, k
			}
		}
	}
	failed := strings.HasPrefix(res.Outcome, "fail")
	if prev&^res.State != 0 {
		add("C01", "monotone", "bit-cleared", "final state %d lost bits of %d", res.State, prev)
	}
	if pending != 0 && !failed && !claimedReady {
		add("C01", "restart-header", "ready-without-header", "the session was reported established right after a feature returned a new connection layer, without a new stream header")
	}
	if selRefuse && !failed {
		add("C01", "recv-refuse", "not-refused:"+selDesc, "a selection that had to be refused did not end the negotiation with an error")
	}
	if fs, err := parseFault(cs.Fault); err == nil && ((fs.cancel && len(res.Events) >= fs.cancelAt) || (fs.cancelB && anyBlocked(res))) && cs.St0&Ready == 0 && !failed {
		add("C04", "cancel", "nil-after-cancel", "the context was cancelled (%s) before negotiation had completed, but session establishment returned %s", cs.Fault, res.Outcome)
	}
	if faulty >= 0 && !failed {
		add("C04", "fail-closed", "swallowed:"+faultyKind, "step %d (%s) failed but session establishment returned %s (state %d)", faulty, res.Events[faulty].String(cfg), res.Outcome, res.State)
	}
	if failed && res.State&Ready != 0 && !claimedReady {
		add("C04", "fail-closed", "ready-on-error", "session establishment failed (%s) but the ready bit is set", res.Err)
	}
	if !failed {
		if res.State&Ready == 0 {
			add("C01", "ready-sound", "done-without-ready", "established without the ready bit (state %d)", res.State)
		}
		if !claimedReady && !server {
			// stronger reading: a mandatory feature of the last list that was not eligible when
			// the list was read (so it was not cached) but is eligible now
			for _, n := range advReq {
				k := -1
				for i, b := range cfg {
					if b.Name() == n && b.Configured(listSt) {
						k = i
						break
					}
				}
				if k < 0 {
					continue
				}
				b := cfg[k]
				if _, cached := cache[b.NS]; !cached && b.Negotiable && !negd[b.NS] && !b.ParseErr && b.Eligible(res.State&^Ready) {
					add("C01", "ready-sound", "mandatory-eligible-after-list", "established although mandatory %s of the last features list became eligible after the list was read (state %d) and was not negotiated", b.Name(), res.State)
					break
				}
			}
		}
		if claimedReady && cs.St0&Ready == 0 {
			// the ready bit came from a feature's own mask (BindResource does that): the clause
			// "no eligible mandatory feature of the last advertisement left un-negotiated" still
			// applies (review A, C01-1; Lean: C01_ready_sound_feat_fails)
			for ns, o := range cache {
				b := cfg[o.idx]
				if o.req && b.Negotiable && !negd[ns] && b.Eligible(res.State&^Ready) {
					add("C01", "ready-sound", "feature-ready-leaves-mandatory", "established through the ready bit of a feature's own mask although mandatory %s of the last features list is eligible and was not negotiated", b.Name())
					break
				}
			}
		}
		if !claimedReady {
			for ns, o := range cache {
				b := cfg[o.idx]
				if o.req && b.Negotiable && !negd[ns] && b.Eligible(res.State&^Ready) {
					add("C01", "ready-sound", "mandatory-left", "established although mandatory %s of the last features list is eligible and was not negotiated", b.Name())
					break
				}
			}
		}
	}
	return out
}

// expectHdrClient reports whether the initiator's read at event i answers a header it has
// just written (so the item is consumed by the header exchange, not as a features list).
func expectHdrClient(ev []Event, i int) bool {
	for j := i - 1; j >= 0; j-- {
		switch ev[j].Kind {
		case "Wh":
			return true
		case "R":
			return false
		}
	}
	return false
}

func panicKey(s string) string {
	switch {
	case strings.Contains(s, "nil pointer"), strings.Contains(s, "invalid memory address"):
		return "nil-deref"
	case strings.Contains(s, "index out of range"):
		return "index"
	}
	if len(s) > 24 {
		s = s[:24]
	}
	return strings.Map(func(r rune) rune {
		if r == ' ' {
			return '_'
		}
		return r
	}, s)
}

func anyBlocked(res Result) bool {
	for _, e := range res.Events {
		if e.Res == "blocked" {
			return true
		}
	}
	return false
}
