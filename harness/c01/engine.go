// Package c01 drives stream negotiation (NewSession / ReceiveSession with the default
// negotiator, TCP and WebSocket framing) with instrumented xmpp.StreamFeature values and
// a scripted in-memory peer (properties C01 and C04 share this engine).
//
// Protocol line (see lean/XmppModel/Driver/C01.lean):
//
//	run <st0> <ws> <cfg> <script> <picks> <fault>   ->   <events> <outcome> <state>
//
// One peer item is delivered per Read of the connection and every logical write of the
// library is one Write, so the index of a Read/Write call is the index of the model's I/O
// operation; `fault` makes the call with that index (or every call from it on) fail.
package c01

import (
	"context"
	"encoding/xml"
	"errors"
	"fmt"
	"io"
	"net"
	"os"
	"runtime"
	"strconv"
	"strings"
	"sync"
	"sync/atomic"
	"time"

	"mellium.im/xmlstream"
	"mellium.im/xmpp"
	"mellium.im/xmpp/jid"
	"mellium.im/xmpp/stream"
	"mellium.im/xmpp/websocket"

	"verifharness/common"
)

// Session state bits (checked against the source by the regenerated facts).
const (
	Secure   = 1
	Authn    = 2
	Ready    = 4
	Received = 8
	S2S      = 64
)

const nsTLS = "urn:ietf:params:xml:ns:xmpp-tls"

// Beh is one configured feature together with the scripted behaviour of its callbacks.
type Beh struct {
	NS, Loc    int
	Nec, Proh  uint8
	Negotiable bool
	ListReq    bool
	ListErr    bool
	ParseErr   bool
	Mask       uint8
	Restart    bool
	NegErr     bool
	// Layer: a restarting Negotiate returns a new connection layer (a wrapper that is not the
	// session's connection) instead of session.Conn()
	Layer bool
	// CNec, CProh: the stream config function (NewNegotiator's argument, called for every
	// negotiator call with the session) returns this feature only while the session state has
	// every bit of CNec and no bit of CProh; 0, 0: always configured
	CNec, CProh uint8
}

// Configured: is the feature part of the StreamConfig the config function returns for a session in
// state st
func (b Beh) Configured(st uint8) bool { return st&b.CNec == b.CNec && st&b.CProh == 0 }

// Dynamic: does any feature of the configuration depend on the session
func Dynamic(cfg []Beh) bool {
	for _, b := range cfg {
		if b.CNec != 0 || b.CProh != 0 {
			return true
		}
	}
	return false
}

func (b Beh) Name() string { return fmt.Sprintf("%d.%d", b.NS, b.Loc) }

func (b Beh) Enc() string {
	s := fmt.Sprintf("%s:%d:%d:%s:%s:%s:%s:%d:%s:%s", b.Name(), b.Nec, b.Proh, common.B(b.Negotiable),
		common.B(b.ListReq), common.B(b.ListErr), common.B(b.ParseErr), b.Mask, common.B(b.Restart), common.B(b.NegErr))
	switch {
	case b.CNec != 0 || b.CProh != 0:
		s += fmt.Sprintf(":%s:%d:%d", common.B(b.Layer), b.CNec, b.CProh)
	case b.Layer:
		s += ":1"
	}
	return s
}

func (b Beh) Eligible(st uint8) bool { return st&b.Nec == b.Nec && st&b.Proh == 0 }

func nsURI(n int) string {
	if n == 1 {
		return nsTLS
	}
	return "urn:x:" + strconv.Itoa(n)
}

func (b Beh) XMLName() xml.Name {
	return xml.Name{Space: nsURI(b.NS), Local: "f" + strconv.Itoa(b.Loc)}
}

// AdvItem is a child of a features list.
type AdvItem struct {
	Junk    bool
	NS, Loc int
	Req     bool
}

// Item is one peer item (one Read).
type Item struct {
	Kind    byte // 'H' header, 'A' features list, 'E' element, 'X' stream error, 'T' non-start token
	OK      bool // H
	Adv     []AdvItem
	NS, Loc int  // E
	IQ      bool // E
	Payload bool // E
}

func (it Item) Enc() string {
	switch it.Kind {
	case 'H':
		if it.NS == 1 {
			return "Hx"
		}
		return "H" + common.B(it.OK)
	case 'A':
		var s []string
		for _, a := range it.Adv {
			if a.Junk {
				s = append(s, "J")
			} else {
				s = append(s, fmt.Sprintf("%d.%d.%s", a.NS, a.Loc, common.B(a.Req)))
			}
		}
		return "A" + strings.Join(s, ",")
	case 'E':
		return fmt.Sprintf("E%d.%d.%s.%s", it.NS, it.Loc, common.B(it.IQ), common.B(it.Payload))
	case 'X':
		return "X"
	}
	return "T"
}

func EncScript(s []Item) string {
	l := make([]string, len(s))
	for i, it := range s {
		l[i] = it.Enc()
	}
	return common.Join(l, ";")
}

func EncCfg(c []Beh) string {
	l := make([]string, len(c))
	for i, b := range c {
		l[i] = b.Enc()
	}
	return common.Join(l, ";")
}

// Case is one negotiation run.
type Case struct {
	St0    uint8
	WS     bool
	Cfg    []Beh
	Script []Item
	Fault  string // "-", "k", "k+", "Cn" (cancel the context once n events were observed)
	// Tee: the StreamConfig carries TeeIn and TeeOut.
	Tee bool
	// Ctx: the kind of context whose Done() fires at the cancellation point of the case:
	// 0 / 'c' WithCancel + cancel; 'd' WithDeadline(one hour ahead) + explicit cancel; 'p'
	// WithTimeout(one hour) nested in a cancellable parent, the parent is cancelled; 'n'
	// WithDeadline(near): the harness waits at the cancellation point until it has expired.
	Ctx byte
	// ErrKind: what kind of error value the injected failures (failing reads and writes, failing
	// List / Parse / Negotiate callbacks) return, see ErrKinds; 0 = a plain errors.New value.
	ErrKind byte
	// Raw: the library is handed a plain io.ReadWriter (no deadline methods, not a net.Conn)
	// instead of a net.Conn: the context watcher has nothing to act on (Oracle.dlRd = dlWr =
	// false in the model), everything else must hold all the same. Not combined with blocking
	// operations (nothing could end them).
	Raw bool
	// Block: a read at the end of the script blocks until the connection's deadline passes
	// (what a silent peer looks like on a transport with deadlines) instead of returning EOF.
	Block bool
	// Custom, when set, is called instead of NewSession/ReceiveSession with the default
	// negotiator (other front-ends, e.g. the component handshake); Render then produces the bytes
	// of the script items.
	Custom func(ctx context.Context, c net.Conn) (*xmpp.Session, error)
	Render func(it Item, pos int) []byte
	// Peer, when set, supplies items once Script is exhausted (nil, false = end of input);
	// the items it supplies are appended to the script of the result.
	Peer func(v *View) (Item, bool)
}

// View is what an adaptive peer may look at.
type View struct {
	Events []Event
	Server bool // the library is the receiving side
	Cfg    []Beh
}

// Event is one observation of the run.
type Event struct {
	Kind  string   // Wh Wl Wp Wo R L P N
	Res   string   // W*: ok|fault ; R: got|eof|fault
	Item  int      // R got: index of the delivered script item
	Names []string // Wl, Wp: names written
	F     int      // L P N: index into Cfg
	St    uint8    // state when observed
	Req   bool     // P: the element carried req='1'
	Srv   bool     // N: session was on the receiving side
	// N: what the `data` argument of Negotiate was: "own" the value the most recent Parse call of
	// this same feature returned, "nil", "stale" the value of an earlier Parse call of this
	// feature, "other" anything else (not part of the protocol line; judged by the oracle)
	Data string
}

// parseTok is what the instrumented Parse returns as its data: which feature, which Parse call
type parseTok struct{ F, Seq int }

func (e Event) String(cfg []Beh) string {
	switch e.Kind {
	case "R":
		switch e.Res {
		case "got":
			return "R"
		case "eof":
			return "Re"
		case "blocked":
			return "Rb"
		}
		return "R!"
	case "Wh", "Wp", "Wo":
		if e.Res == "blocked" {
			return "Wb"
		}
		if e.Res != "ok" {
			return e.Kind + "!"
		}
		return e.Kind
	case "Wl":
		if e.Res == "blocked" {
			return "Wb"
		}
		if e.Res != "ok" {
			return "Wl!"
		}
		return "Wl[" + strings.Join(e.Names, "+") + "]"
	}
	return fmt.Sprintf("%s%s@%d", e.Kind, cfg[e.F].Name(), e.St)
}

// Result of a run.
type Result struct {
	Events  []Event
	Script  []Item
	Outcome string // done | fail:<class> | PANIC | STALL
	Err     string
	State   uint8
	Picks   []string
}

func (r Result) Trace(cfg []Beh) string {
	l := make([]string, len(r.Events))
	for i, e := range r.Events {
		l[i] = e.String(cfg)
	}
	return common.Join(l, ",")
}

func (r Result) Obs(cfg []Beh) string {
	return fmt.Sprintf("%s %s %d", r.Trace(cfg), r.Outcome, r.State)
}

func (c Case) Line(r Result) string {
	flags := common.B(c.WS)
	if c.Block {
		flags += "b"
	}
	if c.Tee {
		flags += "t"
	}
	if c.Ctx != 0 && c.Ctx != 'c' {
		flags += "k" + string(c.Ctx)
	}
	if c.ErrKind != 0 {
		flags += "e" + string(c.ErrKind)
	}
	if c.Raw {
		flags += "r"
	}
	return fmt.Sprintf("run %d %s %s %s %s %s", c.St0, flags, EncCfg(c.Cfg), EncScript(r.Script), common.Join(r.Picks, ","), c.Fault)
}

var (
	jidNet = jid.MustParse("example.net")
	jidMe  = jid.MustParse("me@example.net")
)

var (
	errFault = errors.New("harness: injected connection fault")
	errCB    = errors.New("harness: scripted callback error")
)

// ErrKinds are the kinds of error value an injected failure can return besides a plain
// errors.New value. What the property demands does not depend on the kind ("an error reported by
// any step is never swallowed"), so the model does not see it; the code under test may well
// look at it (errors.As(net.Error), Timeout(), errors.Is(context.DeadlineExceeded), == io.EOF ...).
//
//	T  a net.Error with Timeout() and Temporary() true that wraps os.ErrDeadlineExceeded (what a
//	   connection returns when a deadline set by the caller, or the transport itself, times out)
//	X  a net.Error with Temporary() true only
//	N  *net.OpError wrapping net.ErrClosed
//	U  io.ErrUnexpectedEOF (wrapped)
//	D  context.DeadlineExceeded itself - although the context of the call is alive
//	C  context.Canceled itself - although the context of the call is alive
//	E  io.EOF itself
var ErrKinds = []byte{'T', 'X', 'N', 'U', 'D', 'C', 'E'}

// kindErr wraps a base error and adds the methods / identities of its kind.
type kindErr struct {
	base error
	kind byte
}

func (e kindErr) Error() string   { return e.base.Error() + " (kind " + string(e.kind) + ")" }
func (e kindErr) Unwrap() error   { return e.base }
func (e kindErr) Timeout() bool   { return e.kind == 'T' }
func (e kindErr) Temporary() bool { return e.kind == 'T' || e.kind == 'X' }
func (e kindErr) Is(target error) bool {
	switch e.kind {
	case 'T':
		return target == os.ErrDeadlineExceeded
	case 'U':
		return target == io.ErrUnexpectedEOF
	}
	return false
}

// wrapBase lets errors.Is find the harness's base error below a *net.OpError.
type wrapBase struct{ base, also error }

func (w wrapBase) Error() string   { return w.also.Error() + ": " + w.base.Error() }
func (w wrapBase) Unwrap() []error { return []error{w.base, w.also} }

// InjErr is the error value an injected failure of the given kind returns. The kinds D, C, E
// are the sentinel values themselves (code may compare with ==), the others wrap base.
func InjErr(kind byte, base error) error {
	switch kind {
	case 0:
		return base
	case 'N':
		return &net.OpError{Op: "read", Net: "mem", Err: wrapBase{base, net.ErrClosed}}
	case 'D':
		return context.DeadlineExceeded
	case 'C':
		return context.Canceled
	case 'E':
		return io.EOF
	}
	return kindErr{base, kind}
}

// faultSpec is the decoded `fault` field: `/`-separated parts `k` / `k+` (failing operations),
// `Cn` (cancel after n events), `CB` (cancel as soon as an operation blocks), `Hk` (operation k
// blocks until its deadline passes), `Bk` = `CB/Hk`.
type faultSpec struct {
	k        int
	from     bool
	none     bool // no failing operation
	cancel   bool // cancelAt = number of events after which the context is cancelled
	cancelAt int
	cancelB  bool // cancel when an operation blocks
	block    int  // index of the blocking operation (-1 none)
}

func parseFault(s string) (faultSpec, error) {
	f := faultSpec{none: true, block: -1}
	if s == "" {
		return f, nil
	}
	for _, part := range strings.Split(s, "/") {
		var err error
		switch {
		case part == "-":
		case part == "CB":
			f.cancelB = true
		case strings.HasPrefix(part, "C"):
			f.cancel = true
			f.cancelAt, err = strconv.Atoi(part[1:])
		case strings.HasPrefix(part, "H"):
			f.block, err = strconv.Atoi(part[1:])
		case strings.HasPrefix(part, "B"):
			f.cancelB = true
			f.block, err = strconv.Atoi(part[1:])
		default:
			f.none = false
			if strings.HasSuffix(part, "+") {
				f.from = true
				part = part[:len(part)-1]
			}
			f.k, err = strconv.Atoi(part)
		}
		if err != nil {
			return f, err
		}
	}
	return f, nil
}

func (f faultSpec) at(i int) bool {
	if f.none {
		return false
	}
	if f.from {
		return i >= f.k
	}
	return i == f.k
}

type runState struct {
	mu     sync.Mutex
	cs     *Case
	fault  faultSpec
	ops    int
	pos    int
	script []Item
	events []Event
	sess   *xmpp.Session
	server bool
	s2s    bool
	rest   []byte

	cancel    context.CancelFunc
	cancelled bool
	dmu       sync.Mutex
	rdl, wdl  time.Time     // read and write deadline of the connection
	pastR     chan struct{} // closed when a read deadline in the past has been set
	pastW     chan struct{}
	gaveUp    map[bool]bool

	cbInjected bool // a callback returned its injected error
	// dead: Exec has given the run up (watchdog). The library goroutine may still be running -
	// a mutated selection loop can spin for ever without touching the connection - so every
	// further call into the harness (Read, Write, a callback) ends that goroutine.
	dead    bool
	runaway bool // more than maxEvents events: the library is in a loop that does not end
}

// maxEvents bounds the events of one run: a legitimate run has a few dozen; a run that passes this
// bound is a loop that does not end (reported as a stall, like a call that never returns).
const maxEvents = 5000

// abandoned ends the calling goroutine when the run has been given up or has run away (r.mu not
// held).
func (r *runState) abandoned() {
	r.mu.Lock()
	if len(r.events) > maxEvents {
		r.dead, r.runaway = true, true
	}
	d := r.dead
	r.mu.Unlock()
	if d {
		runtime.Goexit()
	}
}

// add records an event (r.mu held) and cancels the context when the case asks for it.
func (r *runState) add(e Event) {
	r.events = append(r.events, e)
	r.maybeCancel()
}

func (r *runState) maybeCancel() {
	hit := r.fault.cancel && len(r.events) >= r.fault.cancelAt
	if r.fault.cancelB && len(r.events) > 0 && r.events[len(r.events)-1].Res == "blocked" {
		hit = true
	}
	if hit && !r.cancelled {
		r.cancelled = true
		r.cancel()
	}
}

// expired reports whether the connection's read (wr = false) or write deadline has passed;
// once the context has been cancelled it first gives the library's deadline goroutine time to
// act.
func (r *runState) expired(wr bool, wait time.Duration) bool {
	if r.cancelled && wait > 0 && !r.gaveUp[wr] {
		ch := r.pastR
		if wr {
			ch = r.pastW
		}
		select {
		case <-ch:
		case <-time.After(wait):
			// the watcher does not move this deadline: do not wait for it again
			r.gaveUp[wr] = true
		}
	}
	r.dmu.Lock()
	defer r.dmu.Unlock()
	d := r.rdl
	if wr {
		d = r.wdl
	}
	return !d.IsZero() && d.Before(time.Now())
}

func (r *runState) setDeadline(t time.Time, rd, wr bool) {
	r.dmu.Lock()
	defer r.dmu.Unlock()
	past := !t.IsZero() && t.Before(time.Now())
	mark := func(ch chan struct{}) {
		select {
		case <-ch:
		default:
			close(ch)
		}
	}
	if rd {
		r.rdl = t
		if past {
			mark(r.pastR)
		}
	}
	if wr {
		r.wdl = t
		if past {
			mark(r.pastW)
		}
	}
}

// blockUntilDeadline emulates an operation that does not complete (r.mu held on entry and
// exit): it waits until the deadline of its direction is in the past. If that does not happen
// the watchdog of Exec reports the stall; the goroutine itself gives up later.
func (r *runState) blockUntilDeadline(wr bool) {
	r.mu.Unlock()
	for i := 0; i < 400 && !r.expired(wr, 0); i++ {
		time.Sleep(5 * time.Millisecond)
	}
	r.mu.Lock()
}

func (r *runState) state() uint8 {
	if r.sess == nil {
		return r.cs.St0
	}
	return uint8(r.sess.State())
}

type conn struct{ r *runState }

// rawRW hides everything but Read and Write of the scripted connection.
type rawRW struct {
	io.Reader
	io.Writer
}

type addr struct{}

func (addr) Network() string { return "mem" }
func (addr) String() string  { return "mem" }

func (c conn) Close() error                       { return nil }
func (c conn) LocalAddr() net.Addr                { return addr{} }
func (c conn) RemoteAddr() net.Addr               { return addr{} }
func (c conn) SetDeadline(t time.Time) error      { c.r.setDeadline(t, true, true); return nil }
func (c conn) SetReadDeadline(t time.Time) error  { c.r.setDeadline(t, true, false); return nil }
func (c conn) SetWriteDeadline(t time.Time) error { c.r.setDeadline(t, false, true); return nil }

func (c conn) Read(p []byte) (int, error) {
	r := c.r
	r.abandoned()
	r.mu.Lock()
	defer r.mu.Unlock()
	if len(r.rest) > 0 {
		n := copy(p, r.rest)
		r.rest = r.rest[n:]
		return n, nil
	}
	idx := r.ops
	r.ops++
	st := r.state()
	if r.fault.at(idx) {
		r.add(Event{Kind: "R", Res: "fault", St: st})
		return 0, InjErr(r.cs.ErrKind, errFault)
	}
	if r.expired(false, 300*time.Millisecond) {
		r.add(Event{Kind: "R", Res: "fault", St: st})
		return 0, os.ErrDeadlineExceeded
	}
	if idx == r.fault.block {
		// the peer is silent: the read returns only when its deadline passes
		r.add(Event{Kind: "R", Res: "blocked", St: st})
		r.blockUntilDeadline(false)
		r.add(Event{Kind: "R", Res: "fault", St: st})
		return 0, os.ErrDeadlineExceeded
	}
	if r.pos >= len(r.script) && r.cs.Peer != nil {
		if it, ok := r.cs.Peer(&View{Events: r.events, Server: r.server, Cfg: r.cs.Cfg}); ok {
			r.script = append(r.script, it)
		}
	}
	if r.pos >= len(r.script) {
		if r.cs.Block {
			// a silent peer: the read blocks until the deadline is in the past (if that
			// never happens the watchdog of Exec reports a stall)
			r.blockUntilDeadline(false)
			r.add(Event{Kind: "R", Res: "fault", St: st})
			return 0, os.ErrDeadlineExceeded
		}
		r.add(Event{Kind: "R", Res: "eof", St: st})
		return 0, io.EOF
	}
	it := r.script[r.pos]
	r.add(Event{Kind: "R", Res: "got", Item: r.pos, St: st})
	var b []byte
	if r.cs.Render != nil {
		b = r.cs.Render(it, r.pos)
	} else {
		b = render(it, r.pos, r.server, r.s2s, r.cs.WS)
	}
	r.pos++
	n := copy(p, b)
	r.rest = append([]byte(nil), b[n:]...)
	return n, nil
}

func (c conn) Write(p []byte) (int, error) {
	r := c.r
	r.abandoned()
	r.mu.Lock()
	defer r.mu.Unlock()
	idx := r.ops
	r.ops++
	e := classifyWrite(p)
	e.St = r.state()
	if r.fault.at(idx) {
		e.Res = "fault"
		r.add(e)
		return 0, InjErr(r.cs.ErrKind, errFault)
	}
	if r.expired(true, 300*time.Millisecond) {
		e.Res = "fault"
		r.add(e)
		return 0, os.ErrDeadlineExceeded
	}
	if idx == r.fault.block && e.Kind != "Wp" {
		// the peer does not read: the write returns only when its deadline passes
		b := e
		b.Res = "blocked"
		r.add(b)
		r.blockUntilDeadline(true)
		e.Res = "fault"
		r.add(e)
		return 0, os.ErrDeadlineExceeded
	}
	e.Res = "ok"
	r.add(e)
	return len(p), nil
}

// classifyWrite recognises stream headers and features lists among the writes.
func classifyWrite(p []byte) Event {
	s := string(p)
	t := strings.TrimPrefix(s, `<?xml version="1.0" encoding="UTF-8"?>`)
	switch {
	case strings.HasPrefix(t, "<stream:stream ") || strings.HasPrefix(t, "<open "):
		return Event{Kind: "Wh"}
	case strings.HasPrefix(t, "<stream:features") || strings.HasPrefix(t, "<features"):
		whole := strings.HasSuffix(t, "</stream:features>") || strings.HasSuffix(t, "</features>")
		names := []string{}
		d := xml.NewDecoder(strings.NewReader(t))
		depth := 0
		for {
			tok, err := d.RawToken()
			if err != nil {
				break
			}
			switch tk := tok.(type) {
			case xml.StartElement:
				depth++
				if depth == 2 {
					n := "?"
					for _, a := range tk.Attr {
						if a.Name.Local == "xmlns" {
							n = a.Value
						}
					}
					names = append(names, unName(n, tk.Name.Local))
				}
			case xml.EndElement:
				depth--
			}
		}
		if whole {
			return Event{Kind: "Wl", Names: names}
		}
		return Event{Kind: "Wp", Names: names}
	}
	return Event{Kind: "Wo"}
}

func unName(space, local string) string {
	n := "?"
	switch {
	case space == nsTLS:
		n = "1"
	case strings.HasPrefix(space, "urn:x:"):
		n = strings.TrimPrefix(space, "urn:x:")
	}
	return n + "." + strings.TrimPrefix(local, "f")
}

const streamNS = "http://etherx.jabber.org/streams"

// render produces the bytes of a peer item.
func render(it Item, pos int, server, s2s, ws bool) []byte {
	xmlns := "jabber:client"
	if s2s {
		xmlns = "jabber:server"
	}
	switch it.Kind {
	case 'H':
		attrs := map[string]string{"version": "1.0"}
		if server {
			attrs["to"] = "example.net"
		} else {
			attrs["id"] = "sid" + strconv.Itoa(pos)
			attrs["from"] = "example.net"
		}
		name := "stream:stream"
		if it.NS == 1 {
			// a good header of the other framing
			ws = !ws
		}
		if !it.OK && it.NS != 1 {
			v := pos % 5
			if server && (v == 1 || v == 3) {
				v = 0
			}
			if ws && (v == 2 || v == 4) {
				v = 0
			}
			switch v {
			case 0:
				attrs["version"] = "0.9"
			case 1:
				delete(attrs, "id")
			case 2:
				name = "stream:other"
			case 3:
				attrs["from"] = "evil.example"
			case 4:
				xmlns = "jabber:foo"
			}
		}
		var b strings.Builder
		if ws {
			b.WriteString(`<open xmlns='urn:ietf:params:xml:ns:xmpp-framing'`)
		} else {
			fmt.Fprintf(&b, `<%s xmlns='%s' xmlns:stream='%s'`, name, xmlns, streamNS)
		}
		for _, k := range []string{"version", "id", "from", "to"} {
			if v, ok := attrs[k]; ok {
				fmt.Fprintf(&b, " %s='%s'", k, v)
			}
		}
		if ws {
			b.WriteString("/>")
		} else {
			b.WriteString(">")
		}
		return []byte(b.String())
	case 'A':
		var b strings.Builder
		fmt.Fprintf(&b, `<stream:features xmlns:stream='%s'>`, streamNS)
		for _, a := range it.Adv {
			if a.Junk {
				b.WriteString("zz")
				continue
			}
			fmt.Fprintf(&b, `<f%d xmlns='%s' req='%s'/>`, a.Loc, nsURI(a.NS), common.B(a.Req))
		}
		b.WriteString(`</stream:features>`)
		return []byte(b.String())
	case 'E':
		el := fmt.Sprintf(`<f%d xmlns='%s'/>`, it.Loc, nsURI(it.NS))
		if it.IQ {
			if !it.Payload {
				el = "zz"
			}
			return []byte(fmt.Sprintf(`<iq xmlns='%s' type='set' id='q%d'>%s</iq>`, xmlns, pos, el))
		}
		return []byte(el)
	case 'X':
		return []byte(fmt.Sprintf(`<stream:error xmlns:stream='%s'><host-gone xmlns='urn:ietf:params:xml:ns:xmpp-streams'/></stream:error>`, streamNS))
	}
	return []byte(`zz<y xmlns='urn:y'/>`)
}

// cbErr is the error a failing callback of this run returns (and notes that one was returned:
// the sentinel kinds cannot carry the harness's marker).
func (r *runState) cbErr() error {
	r.mu.Lock()
	r.cbInjected = true
	r.mu.Unlock()
	return InjErr(r.cs.ErrKind, errCB)
}

func classifyErr(err error, cbSentinel ...error) string {
	switch {
	case err == nil:
		return "done"
	case errors.Is(err, errCB):
		return "fail:cb"
	case len(cbSentinel) == 1 && cbSentinel[0] != nil && errors.Is(err, cbSentinel[0]):
		return "fail:cb"
	case errors.Is(err, errFault), errors.Is(err, io.EOF), errors.Is(err, io.ErrUnexpectedEOF),
		errors.Is(err, context.Canceled), errors.Is(err, context.DeadlineExceeded), errors.Is(err, os.ErrDeadlineExceeded):
		return "fail:io"
	case isUnexpectedEOF(err):
		return "fail:io"
	case errors.Is(err, stream.PolicyViolation):
		return "fail:policy"
	case errors.Is(err, stream.HostGone):
		return "fail:streamerr"
	}
	return "fail:proto"
}

// features builds the instrumented stream features of a case.
func (r *runState) features() []xmpp.StreamFeature {
	var out []xmpp.StreamFeature
	for i := range r.cs.Cfg {
		i := i
		b := r.cs.Cfg[i]
		f := xmpp.StreamFeature{
			Name:       b.XMLName(),
			Necessary:  xmpp.SessionState(b.Nec),
			Prohibited: xmpp.SessionState(b.Proh),
			List: func(ctx context.Context, e xmlstream.TokenWriter, start xml.StartElement) (bool, error) {
				r.abandoned()
				r.mu.Lock()
				r.add(Event{Kind: "L", F: i, St: r.state()})
				r.mu.Unlock()
				if b.ListErr {
					return b.ListReq, r.cbErr()
				}
				if err := e.EncodeToken(start); err != nil {
					return b.ListReq, err
				}
				return b.ListReq, e.EncodeToken(start.End())
			},
			Parse: func(ctx context.Context, d *xml.Decoder, start *xml.StartElement) (bool, interface{}, error) {
				req := false
				for _, a := range start.Attr {
					if a.Name.Local == "req" && a.Value == "1" {
						req = true
					}
				}
				r.abandoned()
				r.mu.Lock()
				r.add(Event{Kind: "P", F: i, St: r.state(), Req: req})
				seq := len(r.events)
				r.mu.Unlock()
				if err := d.Skip(); err != nil {
					return req, nil, err
				}
				if b.ParseErr {
					return req, nil, r.cbErr()
				}
				return req, parseTok{F: i, Seq: seq}, nil
			},
		}
		if b.Negotiable {
			f.Negotiate = func(ctx context.Context, s *xmpp.Session, data interface{}) (xmpp.SessionState, io.ReadWriter, error) {
				st := uint8(s.State())
				srv := st&Received != 0
				r.abandoned()
				r.mu.Lock()
				dk := "other"
				switch tok := data.(type) {
				case nil:
					dk = "nil"
				case parseTok:
					last := -1
					for k, ev := range r.events {
						if ev.Kind == "P" && ev.F == i {
							last = k + 1
						}
					}
					switch {
					case tok.F == i && tok.Seq == last:
						dk = "own"
					case tok.F == i:
						dk = "stale"
					}
				}
				r.add(Event{Kind: "N", F: i, St: st, Srv: srv, Data: dk})
				r.mu.Unlock()
				if srv {
					// consume the selection element (and its IQ wrapper)
					tr := s.TokenReader()
					d := xml.NewTokenDecoder(tr)
					tok, err := d.Token()
					if err == nil {
						if _, ok := tok.(xml.StartElement); ok {
							err = d.Skip()
						}
					}
					tr.Close()
					if err != nil {
						return 0, nil, err
					}
				}
				var rw io.ReadWriter
				if b.Restart {
					rw = s.Conn()
					if b.Layer {
						rw = layerConn{s.Conn()}
					}
				}
				if b.NegErr {
					return xmpp.SessionState(b.Mask), rw, r.cbErr()
				}
				return xmpp.SessionState(b.Mask), rw, nil
			}
		}
		out = append(out, f)
	}
	return out
}

// Exec runs one case against the real code.
func Exec(cs Case) Result {
	fs, err := parseFault(cs.Fault)
	if err != nil {
		return Result{Outcome: "BADCASE", Err: err.Error()}
	}
	r := &runState{cs: &cs, fault: fs, script: append([]Item(nil), cs.Script...),
		server: cs.St0&Received != 0, s2s: cs.St0&S2S != 0, pastR: make(chan struct{}), pastW: make(chan struct{}), gaveUp: map[bool]bool{}}
	ctx, fire, release := MakeCtx(cs.Ctx)
	defer release()
	r.cancel = fire
	var rw io.ReadWriter = conn{r}
	if cs.Raw {
		rw = rawRW{conn{r}, conn{r}}
		r.gaveUp[false], r.gaveUp[true] = true, true
	}
	r.mu.Lock()
	r.maybeCancel()
	r.mu.Unlock()
	feats := r.features()
	cfgf := func(s *xmpp.Session, prev *xmpp.StreamConfig) xmpp.StreamConfig {
		if s != nil {
			r.mu.Lock()
			r.sess = s
			r.mu.Unlock()
		}
		cur := feats
		if Dynamic(cs.Cfg) {
			// a config function that looks at the session: the features configured for its
			// current state (feats[i] belongs to cs.Cfg[i])
			st := cs.St0
			if s != nil {
				st = uint8(s.State())
			}
			cur = nil
			for i, b := range cs.Cfg {
				if b.Configured(st) {
					cur = append(cur, feats[i])
				}
			}
		}
		if cs.Tee {
			return xmpp.StreamConfig{Features: cur, TeeIn: io.Discard, TeeOut: io.Discard}
		}
		return xmpp.StreamConfig{Features: cur}
	}
	var neg xmpp.Negotiator
	if cs.WS {
		neg = websocket.Negotiator(cfgf)
	} else {
		neg = xmpp.NewNegotiator(cfgf)
	}
	type ret struct {
		s     *xmpp.Session
		err   error
		panic string
	}
	ch := make(chan ret, 1)
	go func() {
		var out ret
		defer func() {
			if p := recover(); p != nil {
				out.panic = fmt.Sprint(p)
			}
			ch <- out
		}()
		location := jid.MustParse("example.net")
		origin := jid.MustParse("me@example.net")
		if r.s2s {
			origin = jid.MustParse("example.org")
		}
		if cs.Custom != nil {
			out.s, out.err = cs.Custom(ctx, conn{r})
		} else if r.server {
			out.s, out.err = xmpp.ReceiveSession(ctx, rw, xmpp.SessionState(cs.St0), neg)
		} else {
			out.s, out.err = xmpp.NewSession(ctx, location, origin, rw, xmpp.SessionState(cs.St0), neg)
		}
	}()
	res := Result{}
	select {
	case out := <-ch:
		r.mu.Lock()
		defer r.mu.Unlock()
		res.Events = append([]Event(nil), r.events...)
		res.Script = r.script
		switch {
		case r.runaway:
			atomic.StoreInt32(&aborted, 1)
			res.Events = res.Events[:200]
			res.Outcome, res.Err = "STALL", fmt.Sprintf("more than %d events: a loop that does not end", maxEvents)
			res.State = cs.St0
			NoteStall()
		case out.panic != "":
			res.Outcome, res.Err = "PANIC", out.panic
			res.State = r.state()
		default:
			var sentinel error
			if r.cbInjected && (cs.ErrKind == 'D' || cs.ErrKind == 'C' || cs.ErrKind == 'E') {
				sentinel = InjErr(cs.ErrKind, nil)
			}
			res.Outcome = classifyErr(out.err, sentinel)
			if out.err != nil {
				res.Err = out.err.Error()
			}
			if out.s != nil {
				res.State = uint8(out.s.State())
			} else {
				res.State = r.state()
			}
		}
	case <-time.After(watchdog(cs, fs)):
		r.mu.Lock()
		defer r.mu.Unlock()
		res.Events = append([]Event(nil), r.events...)
		res.Script = append([]Item(nil), r.script...)
		res.Outcome = "STALL"
		res.State = cs.St0
		r.dead = true
		NoteStall()
		if fs.block < 0 && !cs.Block && !fs.cancel && !fs.cancelB {
			// nothing in this case blocks or is cancelled: the library is spinning or wedged on its own. Its
			// goroutine cannot be stopped and may allocate without bound (a retry loop around a
			// sticky encoder error grew to 30 GB within two minutes): the failing input is
			// recorded, the generators stop here.
			atomic.StoreInt32(&aborted, 1)
		}
	}
	for _, e := range res.Events {
		if e.Kind == "N" && !e.Srv {
			res.Picks = append(res.Picks, cs.Cfg[e.F].Name())
		}
	}
	return res
}

// ParseLine decodes a protocol line back into a case (for replays).
func ParseLine(line string) (Case, error) {
	f := strings.Fields(line)
	if len(f) > 0 && (f[0] == "C01" || f[0] == "C04") {
		f = f[1:]
	}
	if len(f) != 7 || f[0] != "run" {
		return Case{}, fmt.Errorf("not a run line: %q", line)
	}
	cs := Case{Fault: f[6]}
	st, err := strconv.Atoi(f[1])
	if err != nil {
		return cs, err
	}
	cs.St0 = uint8(st)
	cs.WS = strings.HasPrefix(f[2], "1")
	cs.Block = strings.Contains(f[2], "b")
	cs.Tee = strings.Contains(f[2], "t")
	if i := strings.Index(f[2], "k"); i >= 0 && i+1 < len(f[2]) {
		cs.Ctx = f[2][i+1]
	}
	if i := strings.Index(f[2], "e"); i >= 0 && i+1 < len(f[2]) {
		cs.ErrKind = f[2][i+1]
	}
	cs.Raw = strings.Contains(f[2], "r")
	if f[3] != "-" {
		for _, s := range strings.Split(f[3], ";") {
			p := strings.Split(s, ":")
			if len(p) != 10 && len(p) != 11 && len(p) != 13 {
				return cs, fmt.Errorf("bad feature %q", s)
			}
			var b Beh
			if _, err := fmt.Sscanf(p[0], "%d.%d", &b.NS, &b.Loc); err != nil {
				return cs, err
			}
			n, _ := strconv.Atoi(p[1])
			b.Nec = uint8(n)
			n, _ = strconv.Atoi(p[2])
			b.Proh = uint8(n)
			b.Negotiable = p[3] == "1"
			b.ListReq = p[4] == "1"
			b.ListErr = p[5] == "1"
			b.ParseErr = p[6] == "1"
			n, _ = strconv.Atoi(p[7])
			b.Mask = uint8(n)
			b.Restart = p[8] == "1"
			b.NegErr = p[9] == "1"
			b.Layer = len(p) >= 11 && p[10] == "1"
			if len(p) == 13 {
				n, _ = strconv.Atoi(p[11])
				b.CNec = uint8(n)
				n, _ = strconv.Atoi(p[12])
				b.CProh = uint8(n)
			}
			cs.Cfg = append(cs.Cfg, b)
		}
	}
	if f[4] != "-" {
		for _, s := range strings.Split(f[4], ";") {
			it := Item{Kind: s[0]}
			switch s[0] {
			case 'H':
				it.OK = s == "H1"
				if s == "Hx" {
					it.NS = 1
				}
			case 'A':
				if len(s) > 1 {
					for _, a := range strings.Split(s[1:], ",") {
						if a == "J" {
							it.Adv = append(it.Adv, AdvItem{Junk: true})
							continue
						}
						var ai AdvItem
						var req int
						if _, err := fmt.Sscanf(a, "%d.%d.%d", &ai.NS, &ai.Loc, &req); err != nil {
							return cs, err
						}
						ai.Req = req == 1
						it.Adv = append(it.Adv, ai)
					}
				}
			case 'E':
				var iq, pl int
				if _, err := fmt.Sscanf(s[1:], "%d.%d.%d.%d", &it.NS, &it.Loc, &iq, &pl); err != nil {
					return cs, err
				}
				it.IQ, it.Payload = iq == 1, pl == 1
			case 'X', 'T':
			default:
				return cs, fmt.Errorf("bad item %q", s)
			}
			cs.Script = append(cs.Script, it)
		}
	}
	return cs, nil
}

// isUnexpectedEOF recognises the decoder's report of an input that ends inside the stream
// element (what a cut connection looks like once a stream header has been read).
func isUnexpectedEOF(err error) bool {
	var se *xml.SyntaxError
	return errors.As(err, &se) && strings.Contains(se.Msg, "unexpected EOF")
}

// watchdog: how long Exec waits for the constructor to return. Cases with a blocking operation
// are expected to end quickly (or never), so they get a short one.
func watchdog(cs Case, fs faultSpec) time.Duration {
	if fs.block >= 0 {
		return 800 * time.Millisecond
	}
	return 10 * time.Second
}

// layerConn is a new connection layer on top of the session's connection (what STARTTLS
// returns): a net.Conn that is not the session's own connection.
type layerConn struct{ net.Conn }

// MakeCtx builds a context of the given kind. fire makes its Done() channel fire (and returns
// only once it has); release frees its resources.
func MakeCtx(kind byte) (ctx context.Context, fire func(), release func()) {
	switch kind {
	case 'd':
		c, cancel := context.WithDeadline(context.Background(), time.Now().Add(time.Hour))
		return c, cancel, cancel
	case 'p':
		parent, pcancel := context.WithCancel(context.Background())
		c, cancel := context.WithTimeout(parent, time.Hour)
		return c, pcancel, func() { cancel(); pcancel() }
	case 'n':
		c, cancel := context.WithDeadline(context.Background(), time.Now().Add(120*time.Millisecond))
		return c, func() { <-c.Done() }, cancel
	}
	c, cancel := context.WithCancel(context.Background())
	return c, cancel, cancel
}

// CtxKinds are the kinds of context the cancellation cases run with.
var CtxKinds = []byte{'c', 'd', 'p', 'n'}

// Every stall costs a watchdog's worth of real time. Once a run has seen StallBudget of them it
// has its failing inputs: the generators skip the remaining cases whose failure mode is a stall
// (cancellation and blocking cases) so that a check of a library that has lost its cancellation
// path still ends in minutes. A run without stalls never skips anything.
const StallBudget = 24

var stalls, stallSkipped, aborted int32

// Aborted reports that a run of the library did not end although nothing blocked it; the
// generators skip everything after that (Emitter.Do returns an empty Result with Outcome
// "SKIPPED").
func Aborted() bool { return atomic.LoadInt32(&aborted) != 0 }

// NoteStall records one observed stall.
func NoteStall() { atomic.AddInt32(&stalls, 1) }

// SkipForStalls reports whether the stall budget is used up (and counts the skipped case).
func SkipForStalls() bool {
	if atomic.LoadInt32(&stalls) < StallBudget {
		return false
	}
	atomic.AddInt32(&stallSkipped, 1)
	return true
}

// StallSkipped is the number of cases skipped because the budget was used up.
func StallSkipped() int { return int(atomic.LoadInt32(&stallSkipped)) }
