package c01

import (
	"fmt"
	"strings"

	"verifharness/common"
)

// Emitter runs cases and records lines, observations and oracle failures for one property.
type Emitter struct {
	R    *common.Run
	Prop string
	N    int

	noted bool
}

// Do executes one case on the real code, records the protocol line with the observed
// behaviour and evaluates the property oracle.
func (e *Emitter) Do(cs Case, class string) Result {
	if class == "replay" && cs.St0&Received == 0 && len(cs.Cfg) > 1 {
		// the initiator's choice among several candidates follows Go's map iteration order:
		// a replay repeats the run so that both orders are seen
		for i := 0; i < 7; i++ {
			if e.do(cs, class).Outcome == "STALL" {
				break
			}
		}
	}
	return e.do(cs, class)
}

func (e *Emitter) do(cs Case, class string) Result {
	if Aborted() {
		if !e.noted {
			e.noted = true
			e.R.Notes = append(e.R.Notes, "a run of the library did not end although nothing blocked it (reported as a stall): the remaining cases were skipped")
		}
		return Result{Outcome: "SKIPPED"}
	}
	res := Exec(cs)
	line := cs.Line(res)
	e.R.Line(line, res.Obs(cs.Cfg))
	e.N++
	role := "init"
	if cs.St0&Received != 0 {
		role = "recv"
	}
	out := res.Outcome
	e.R.Case(line, true, class+"/"+role+"/"+out)
	for _, f := range Judge(cs, res) {
		if f.Prop != e.Prop {
			continue
		}
		e.R.Fail(f.Clause, f.Key, []string{e.Prop + " " + line}, f.Detail+" | trace: "+res.Obs(cs.Cfg)+" | error: "+res.Err)
	}
	return res
}

// polite is the deterministic well-behaved peer used to continue a fixed script: it
// answers a header with a header, offers an empty features list to an initiator and sends
// nothing more to a receiver.
func polite(v *View) (Item, bool) {
	needHdr := v.Server // a receiver first waits for a header
	for j := len(v.Events) - 1; j >= 0; j-- {
		ev := v.Events[j]
		if !v.Server && (ev.Kind == "Wh" || ev.Kind == "R") {
			needHdr = ev.Kind == "Wh"
			break
		}
		if v.Server && ev.Kind == "N" && v.Cfg[ev.F].Restart && !v.Cfg[ev.F].NegErr {
			needHdr = true
			break
		}
		if v.Server && ev.Kind == "R" {
			needHdr = false
			break
		}
	}
	if needHdr {
		return Item{Kind: 'H', OK: true}, true
	}
	if v.Server {
		return Item{}, false
	}
	return Item{Kind: 'A'}, true
}

// Witnesses are the minimal failing inputs found so far (run first on every check).
func Witnesses() []Case {
	f := func(ns int) Beh { return Beh{NS: ns, Loc: 1, Negotiable: true} }
	a := f(2)
	a.Mask = Authn
	b := f(3)
	b.Proh = Authn
	b.ListReq = true
	tls := Beh{NS: 1, Loc: 1, Proh: Secure, Negotiable: true, Mask: Secure, Restart: true}
	verr := f(2)
	verr.NegErr = true
	tlsInfo := Beh{NS: 1, Loc: 1, Proh: Secure}
	tlsMask := Beh{NS: 1, Loc: 1, Nec: Authn, Proh: Secure, Negotiable: true, Mask: Secure, Restart: true}
	hdr := Item{Kind: 'H', OK: true}
	adv := func(items ...AdvItem) Item { return Item{Kind: 'A', Adv: items} }
	return []Case{
		// masks tested when the list is read, not when the feature is selected
		{Cfg: []Beh{a, b}, Script: []Item{hdr, adv(AdvItem{NS: 2, Loc: 1}, AdvItem{NS: 3, Loc: 1, Req: true}), adv()}, Fault: "-"},
		{St0: Received, Cfg: []Beh{a, b}, Script: []Item{hdr, {Kind: 'E', NS: 2, Loc: 1, Payload: true}, {Kind: 'E', NS: 3, Loc: 1, Payload: true}}, Fault: "-"},
		// <starttls/> offered without <required/>: ready without a stream restart
		{Cfg: []Beh{tls}, Script: []Item{hdr, adv(AdvItem{NS: 1, Loc: 1})}, Fault: "-", Peer: polite},
		// error of a voluntary feature swallowed
		{Cfg: []Beh{verr}, Script: []Item{hdr, adv(AdvItem{NS: 2, Loc: 1})}, Fault: "-"},
		{St0: Received, Cfg: []Beh{verr, f(3)}, Script: []Item{hdr, {Kind: 'E', NS: 2, Loc: 1, Payload: true}, {Kind: 'E', NS: 3, Loc: 1, Payload: true}}, Fault: "-"},
		// forced STARTTLS attempt with an informational / ineligible feature value
		{Cfg: []Beh{tlsInfo}, Script: []Item{hdr, adv()}, Fault: "-"},
		{Cfg: []Beh{tlsMask}, Script: []Item{hdr, adv()}, Fault: "-", Peer: polite},
		// a mandatory feature that only becomes eligible through a voluntary feature of the
		// same list was left out when the session was reported established
		{Cfg: []Beh{a, func() Beh { m := f(3); m.Nec = Authn; m.ListReq = true; return m }()},
			Script: []Item{hdr, adv(AdvItem{NS: 2, Loc: 1}, AdvItem{NS: 3, Loc: 1, Req: true})}, Fault: "-"},
		// a mandatory feature whose own mask carries Ready (as BindResource) ends the session while
		// another mandatory feature of the same list is open (in one of the two map orders)
		{Cfg: []Beh{func() Beh { m := f(3); m.Mask = Ready; m.ListReq = true; return m }(), func() Beh { m := f(4); m.ListReq = true; return m }()},
			Script: []Item{hdr, adv(AdvItem{NS: 3, Loc: 1, Req: true}, AdvItem{NS: 4, Loc: 1, Req: true})}, Fault: "-"},
		{St0: Received, Cfg: []Beh{func() Beh { m := f(3); m.Mask = Ready; m.ListReq = true; return m }(), func() Beh { m := f(4); m.ListReq = true; return m }()},
			Script: []Item{hdr, {Kind: 'E', NS: 3, Loc: 1, Payload: true}}, Fault: "-"},
		// an unknown sibling that shares the namespace of an advertised, configured feature (e.g. a
		// second element in the SASL namespace): the data Parse returned must still reach Negotiate
		{Cfg: []Beh{func() Beh { m := f(2); m.ListReq = true; m.Mask = Ready; return m }()},
			Script: []Item{hdr, adv(AdvItem{NS: 2, Loc: 1, Req: true}, AdvItem{NS: 2, Loc: 9})}, Fault: "-"},
		// two configured features of one namespace: the informational one takes the cache slot
		// of the mandatory one (theorem C01_shared_ns_shadows_mandatory; documented limit)
		{Cfg: []Beh{{NS: 2, Loc: 1, Negotiable: true, ListReq: true}, {NS: 2, Loc: 2}},
			Script: []Item{hdr, adv(AdvItem{NS: 2, Loc: 1, Req: true}, AdvItem{NS: 2, Loc: 2})}, Fault: "-"},
	}
}

type dom struct {
	nec, proh, mask   []uint8
	restart, req, neg []bool
}

func enumBeh(ns int, d dom, f func(Beh)) {
	for _, nec := range d.nec {
		for _, proh := range d.proh {
			for _, mask := range d.mask {
				for _, rs := range d.restart {
					for _, rq := range d.req {
						for _, ng := range d.neg {
							f(Beh{NS: ns, Loc: 1, Nec: nec, Proh: proh, Mask: mask, Restart: rs, ListReq: rq, Negotiable: ng})
						}
					}
				}
			}
		}
	}
}

// seqs enumerates the sequences of length <= n over k letters.
func seqs(k, n int) [][]int {
	out := [][]int{{}}
	last := [][]int{{}}
	for l := 0; l < n; l++ {
		var next [][]int
		for _, s := range last {
			for c := 0; c < k; c++ {
				next = append(next, append(append([]int(nil), s...), c))
			}
		}
		out = append(out, next...)
		last = next
	}
	return out
}

var bools = []bool{false, true}

// Enumerate runs the small-scope exhaustive families; in the quick tier every stride-th
// case (offset by the seed) is taken.
func Enumerate(e *Emitter, quickStride int) {
	r := e.R
	stride := 1
	if r.Quick() {
		stride = quickStride
	}
	n := int(r.Seed % uint64(stride))
	take := func() bool {
		n++
		return n%stride == 0
	}
	hdr := Item{Kind: 'H', OK: true}
	// family 1: two features over the Authn bit, both roles
	d := dom{nec: []uint8{0, Authn}, proh: []uint8{0, Authn}, mask: []uint8{0, Authn}, restart: bools, req: bools, neg: []bool{true, false}}
	var f1, f2 []Beh
	enumBeh(2, d, func(b Beh) { f1 = append(f1, b) })
	enumBeh(3, d, func(b Beh) { f2 = append(f2, b) })
	sq := seqs(3, 2)
	for _, a := range f1 {
		for _, b := range f2 {
			for _, st0 := range []uint8{0, Authn} {
				for _, s := range sq {
					if !take() {
						continue
					}
					cfg := []Beh{a, b}
					var adv []AdvItem
					var sel []Item
					for _, c := range s {
						switch c {
						case 0:
							adv = append(adv, AdvItem{NS: 2, Loc: 1, Req: a.ListReq})
							sel = append(sel, Item{Kind: 'E', NS: 2, Loc: 1, Payload: true})
						case 1:
							adv = append(adv, AdvItem{NS: 3, Loc: 1, Req: b.ListReq})
							sel = append(sel, Item{Kind: 'E', NS: 3, Loc: 1, Payload: true})
						default:
							adv = append(adv, AdvItem{NS: 9, Loc: 1})
							sel = append(sel, Item{Kind: 'E', NS: 9, Loc: 1, Payload: true})
						}
					}
					e.Do(Case{St0: st0, Cfg: cfg, Script: []Item{hdr, {Kind: 'A', Adv: adv}}, Fault: "-", Peer: polite}, "enum2")
					e.Do(Case{St0: st0 | Received, Cfg: cfg, Script: append([]Item{hdr}, sel...), Fault: "-", Peer: polite}, "enum2")
				}
			}
		}
	}
	// family 2: a feature in the STARTTLS namespace and one other, initiator, first list
	dt := dom{nec: []uint8{0, Authn}, proh: []uint8{0, Secure}, mask: []uint8{Secure}, restart: bools, req: bools, neg: []bool{true, false}}
	do := dom{nec: []uint8{0, Secure}, proh: []uint8{0, Secure}, mask: []uint8{0, Authn}, restart: bools, req: bools, neg: []bool{true}}
	var ft, fo []Beh
	enumBeh(1, dt, func(b Beh) { ft = append(ft, b) })
	enumBeh(2, do, func(b Beh) { fo = append(fo, b) })
	for _, a := range ft {
		for _, b := range fo {
			for _, st0 := range []uint8{0, Secure} {
				for _, s := range sq {
					if !take() {
						continue
					}
					var adv []AdvItem
					for _, c := range s {
						switch c {
						case 0:
							adv = append(adv, AdvItem{NS: 1, Loc: 1, Req: a.ListReq})
						case 1:
							adv = append(adv, AdvItem{NS: 2, Loc: 1, Req: b.ListReq})
						default:
							adv = append(adv, AdvItem{NS: 9, Loc: 1})
						}
					}
					e.Do(Case{St0: st0, Cfg: []Beh{a, b}, Script: []Item{hdr, {Kind: 'A', Adv: adv}}, Fault: "-", Peer: polite}, "enumtls")
				}
			}
		}
	}
	// family 3: a stream config function that looks at the session (NewNegotiator documents that
	// it is called for every stream / features list with the session): a mandatory login feature
	// sets Authn with or without a stream restart; two more features are configured always, only
	// before or only after Authn. Both roles, every second advertisement / selection.
	type when struct{ cnec, cproh uint8 }
	whens := []when{{0, 0}, {Authn, 0}, {0, Authn}}
	for _, restart := range bools {
		login := Beh{NS: 2, Loc: 1, Proh: Authn, Negotiable: true, ListReq: true, Mask: Authn, Restart: restart}
		for _, wb := range whens {
			for _, wc := range whens {
				for _, rb := range bools {
					for _, rc := range bools {
						b := Beh{NS: 3, Loc: 1, Negotiable: true, ListReq: rb, CNec: wb.cnec, CProh: wb.cproh}
						c := Beh{NS: 4, Loc: 1, Negotiable: true, ListReq: rc, CNec: wc.cnec, CProh: wc.cproh}
						cfg := []Beh{login, b, c}
						first := Item{Kind: 'A', Adv: []AdvItem{{NS: 2, Loc: 1, Req: true}}}
						pre := []Item{hdr, first}
						preS := []Item{hdr, {Kind: 'E', NS: 2, Loc: 1, Payload: true}}
						if restart {
							pre = append(pre, hdr)
							preS = append(preS, hdr)
						}
						for _, s := range seqs(3, 2) {
							var adv []AdvItem
							var sel []Item
							for _, x := range s {
								ns := []int{3, 4, 9}[x]
								req := (ns == 3 && rb) || (ns == 4 && rc)
								adv = append(adv, AdvItem{NS: ns, Loc: 1, Req: req})
								sel = append(sel, Item{Kind: 'E', NS: ns, Loc: 1, Payload: true})
							}
							e.Do(Case{Cfg: cfg, Script: append(append([]Item(nil), pre...), Item{Kind: 'A', Adv: adv}), Fault: "-", Peer: polite}, "enumdyn")
							e.Do(Case{St0: Received, Cfg: cfg, Script: append(append([]Item(nil), preS...), sel...), Fault: "-", Peer: polite}, "enumdyn")
						}
					}
				}
			}
		}
	}
	if !r.Quick() {
		r.Exhaustive = append(r.Exhaustive,
			"session-dependent stream config: mandatory login feature (sets Authn, with / without restart) + two features each configured always / only with Authn / only without Authn, mandatory or voluntary x every second advertisement / selection sequence of length <= 2 over {f2,f3,unknown}, both roles",
			"two features (necessary, prohibited, mask over {0,Authn}; restart; mandatory; negotiable) x initial state {0,Authn} x every advertisement / selection sequence of length <= 2 over {f1,f2,unknown}, both roles",
			"STARTTLS-namespace feature (necessary {0,Authn}, prohibited {0,Secure}, restart, mandatory, negotiable) + one other feature x initial state {0,Secure} x every first advertisement of length <= 2")
	}
}

// randomBeh draws a feature.
func randomBeh(rnd *common.Rand, ns, loc int, errs bool) Beh {
	bits := []uint8{0, 0, 0, Secure, Authn, Ready, Secure | Authn}
	masks := []uint8{0, Secure, Authn, Ready, Secure | Authn, 0, Authn}
	b := Beh{NS: ns, Loc: loc,
		Nec: bits[rnd.Intn(len(bits))], Proh: bits[rnd.Intn(len(bits))],
		Negotiable: !rnd.Chance(1, 6), ListReq: rnd.Bool(), Mask: masks[rnd.Intn(len(masks))], Restart: rnd.Chance(1, 3)}
	b.Layer = b.Restart && rnd.Chance(1, 3)
	if errs {
		b.ListErr = rnd.Chance(1, 12)
		b.ParseErr = rnd.Chance(1, 12)
		b.NegErr = rnd.Chance(1, 8)
	}
	return b
}

// randomPeer is a mostly-valid adaptive peer with occasional protocol violations.
func randomPeer(rnd *common.Rand, budget int) func(v *View) (Item, bool) {
	n := 0
	return func(v *View) (Item, bool) {
		n++
		if n > budget {
			return Item{}, false
		}
		it, ok := polite(v)
		wantHdr := ok && it.Kind == 'H'
		odd := rnd.Intn(100)
		switch {
		case odd < 2:
			return Item{}, false
		case odd < 4:
			return Item{Kind: 'X'}, true
		case odd < 6:
			return Item{Kind: 'T'}, true
		case odd < 8:
			return Item{Kind: 'H', OK: false}, true
		case odd < 10:
			return Item{Kind: 'H', OK: true}, true
		case odd < 12:
			return Item{Kind: 'H', NS: 1}, true
		}
		if wantHdr {
			return it, true
		}
		pickName := func() (int, int) {
			if len(v.Cfg) == 0 || rnd.Chance(1, 8) {
				return 9, 1
			}
			b := v.Cfg[rnd.Intn(len(v.Cfg))]
			if rnd.Chance(1, 12) {
				return b.NS, b.Loc + 5
			}
			return b.NS, b.Loc
		}
		if v.Server {
			ns, loc := pickName()
			it := Item{Kind: 'E', NS: ns, Loc: loc, Payload: true}
			if rnd.Chance(1, 5) {
				it.IQ = true
				it.Payload = !rnd.Chance(1, 6)
			}
			return it, true
		}
		k := rnd.Intn(4)
		if rnd.Chance(1, 4) {
			k = 0
		}
		var adv []AdvItem
		for i := 0; i < k; i++ {
			if rnd.Chance(1, 30) {
				adv = append(adv, AdvItem{Junk: true})
				continue
			}
			ns, loc := pickName()
			adv = append(adv, AdvItem{NS: ns, Loc: loc, Req: rnd.Bool()})
		}
		return Item{Kind: 'A', Adv: adv}, true
	}
}

// RandomCase draws a configuration; faults only when asked.
func RandomCase(rnd *common.Rand, faults bool) Case {
	var cfg []Beh
	k := 1 + rnd.Intn(4)
	for i := 0; i < k; i++ {
		ns := 2 + rnd.Intn(4)
		if rnd.Chance(1, 5) {
			ns = 1
		}
		cfg = append(cfg, randomBeh(rnd, ns, 1+rnd.Intn(2), faults || rnd.Chance(1, 10)))
	}
	st0 := uint8(0)
	if rnd.Chance(1, 3) {
		st0 |= Secure
	}
	if rnd.Chance(1, 5) {
		st0 |= Authn
	}
	if rnd.Chance(1, 40) {
		st0 |= Ready
	}
	if rnd.Chance(1, 4) {
		st0 |= S2S
	}
	if rnd.Bool() {
		st0 |= Received
	}
	// a quarter of the configurations come from a config function that looks at the session:
	// features present only in some states
	if rnd.Chance(1, 4) {
		bits := []uint8{0, 0, Secure, Authn, Secure | Authn}
		for i := range cfg {
			if rnd.Bool() {
				cfg[i].CNec = bits[rnd.Intn(len(bits))]
				cfg[i].CProh = bits[rnd.Intn(len(bits))]
			}
		}
	}
	cs := Case{St0: st0, WS: rnd.Chance(1, 4), Tee: rnd.Chance(1, 4), Cfg: cfg, Fault: "-", Peer: randomPeer(rnd, 3+rnd.Intn(8))}
	if faults && rnd.Chance(2, 3) {
		cs.Fault = fmt.Sprint(rnd.Intn(10))
		if rnd.Bool() {
			cs.Fault += "+"
		}
	}
	return cs
}

// Replay re-runs the case lines of a replay file.
func Replay(e *Emitter) error {
	lines, err := common.ReplayLines(e.R.Replay)
	if err != nil {
		return err
	}
	for _, l := range lines {
		if strings.HasPrefix(l, "#") || strings.TrimSpace(l) == "" {
			continue
		}
		cs, err := ParseLine(l)
		if err != nil {
			return err
		}
		e.Do(cs, "replay")
	}
	return nil
}

// Run is the C01 runner.
func Run(r *common.Run) error {
	e := &Emitter{R: r, Prop: "C01"}
	if r.Replay != "" {
		return Replay(e)
	}
	for _, cs := range Witnesses() {
		e.Do(cs, "corpus")
	}
	Enumerate(e, 29)
	n := r.Pick(4000, 60000)
	for i := 0; i < n; i++ {
		cs := RandomCase(r.Rnd, false)
		// a fifth of the runs hand the library a plain io.ReadWriter instead of a net.Conn
		// (another newConn path; nothing of C01 may depend on the transport)
		if r.Rnd.Chance(1, 5) {
			cs.Raw = true
		}
		e.Do(cs, "random")
	}
	r.Notes = append(r.Notes, fmt.Sprintf("%d negotiation runs of the real NewSession/ReceiveSession", e.N))
	return nil
}
