package c10

// Probe facts: `harness facts C10` runs the real session code over a finite table and emits what
// it observed as Lean definitions.  No source pattern is involved, so extracting a helper,
// renaming a field or turning a switch into an if chain cannot disturb them; a change of
// behaviour does.
//
//	transmitProbe   every way the streams get closed (through the real Close / Serve) x every
//	                transmit and read entry point: error class and whether the call touched the
//	                connection (a Write for transmit calls, a Read for the reader)
//	closeWriteProbe for every path that writes the closing tag: at the moment the tag is handed
//	                to the connection - is the closed bit already set, can State() be read (the
//	                state lock is not held across the write), is the output lock held

import (
	"bytes"
	"context"
	"encoding/xml"
	"errors"
	"fmt"
	"net"
	"os"
	"strings"
	"sync"
	"time"

	"mellium.im/xmlstream"
	"mellium.im/xmpp"
	"mellium.im/xmpp/stanza"

	"verifharness/common"
)

// pconn: input from a net.Pipe end, output swallowed; counts calls and lets the probe look at
// the session from inside Write.
type pconn struct {
	net.Conn
	mu      sync.Mutex
	reads   int
	writes  int
	tags    int
	onWrite func(p []byte)
	wd      time.Time
}

func (c *pconn) Read(p []byte) (int, error) {
	c.mu.Lock()
	c.reads++
	c.mu.Unlock()
	return c.Conn.Read(p)
}

// the probe connection honours the write deadline like a real transport
func (c *pconn) SetWriteDeadline(t time.Time) error {
	c.mu.Lock()
	c.wd = t
	c.mu.Unlock()
	return c.Conn.SetWriteDeadline(t)
}

func (c *pconn) SetDeadline(t time.Time) error {
	c.mu.Lock()
	c.wd = t
	c.mu.Unlock()
	return c.Conn.SetDeadline(t)
}

func (c *pconn) Write(p []byte) (int, error) {
	c.mu.Lock()
	if !c.wd.IsZero() && time.Until(c.wd) <= 0 {
		c.mu.Unlock()
		return 0, os.ErrDeadlineExceeded
	}
	c.writes++
	if bytes.Contains(p, []byte(closeTag)) {
		c.tags++
	}
	f := c.onWrite
	c.mu.Unlock()
	if f != nil {
		f(p)
	}
	return len(p), nil
}

func (c *pconn) counts() (r, w, t int) {
	c.mu.Lock()
	defer c.mu.Unlock()
	return c.reads, c.writes, c.tags
}

type psess struct {
	s    *xmpp.Session
	pc   *pconn
	peer net.Conn
}

func newProbeSess() (*psess, error) {
	c1, c2 := net.Pipe()
	pc := &pconn{Conn: c1}
	go c2.Write([]byte(header))
	ctx, cancel := context.WithCancel(context.Background())
	s, err := xmpp.NewSession(ctx, remoteJID, localJID, pc, 0, negotiator)
	cancel() // the negotiation context is released: it must not matter afterwards
	if err != nil {
		return nil, err
	}
	return &psess{s: s, pc: pc, peer: c2}, nil
}

// how the streams get closed; every one goes through the real exported API
var probeStates = []string{"open", "Close", "Close+Close", "Serve+peerClose", "Serve+handlerErr", "Serve+handlerStreamErr", "Serve+deadline", "Close+Serve+peerClose", "Close+Serve+handlerErr", "Abandon+Close"}

func (p *psess) serveUntil(peerBytes string, handlerErr error, deadline bool) error {
	ret := make(chan error, 1)
	go func() {
		ret <- p.s.Serve(xmpp.HandlerFunc(func(xmlstream.TokenReadEncoder, *xml.StartElement) error { return handlerErr }))
	}()
	if deadline {
		if err := p.s.SetCloseDeadline(time.Now().Add(-time.Hour)); err != nil {
			return err
		}
	}
	if peerBytes != "" {
		written := make(chan struct{})
		go func() { p.peer.Write([]byte(peerBytes)); close(written) }()
		select {
		case <-written:
		case <-ret:
			// Serve has returned: after it read what the peer sent (fine), or without reading it
			select {
			case <-written:
				return nil
			case <-time.After(50 * time.Millisecond):
				return fmt.Errorf("Serve returned without reading what the peer sent")
			}
		case <-time.After(3 * time.Second):
			return fmt.Errorf("Serve did not read what the peer sent")
		}
	}
	select {
	case <-ret:
		return nil
	case <-time.After(3 * time.Second):
		return fmt.Errorf("Serve did not return")
	}
}

const probeStanza = `<message xmlns='jabber:client' type='chat' id='p1'/>`

func (p *psess) enter(state string) error {
	switch state {
	case "open":
		return nil
	case "Close":
		return p.s.Close()
	case "Close+Close":
		p.s.Close()
		return p.s.Close()
	case "Abandon+Close":
		// a transmit call whose payload reader fails after the start tokens (the element is
		// abandoned half written), then Close: the stream is closed, whatever else is wrong with it
		payload := xmlstream.ReaderFunc(func() (xml.Token, error) { return nil, errBoom })
		if err := p.s.Send(context.Background(), stanza.Message{ID: "ab", Type: stanza.ChatMessage}.Wrap(payload)); err == nil {
			return fmt.Errorf("the abandoned Send did not fail")
		}
		return p.s.Close()
	case "Serve+peerClose":
		return p.serveUntil(closeTag, nil, false)
	case "Serve+handlerErr":
		return p.serveUntil(probeStanza, errBoom, false)
	case "Serve+handlerStreamErr":
		return p.serveUntil(probeStanza, handlerErrs["hs"], false)
	case "Serve+deadline":
		return p.serveUntil("", nil, true)
	case "Close+Serve+peerClose":
		if err := p.s.Close(); err != nil {
			return err
		}
		return p.serveUntil(closeTag, nil, false)
	case "Close+Serve+handlerErr":
		if err := p.s.Close(); err != nil {
			return err
		}
		return p.serveUntil(probeStanza, errBoom, false)
	}
	return fmt.Errorf("unknown state %s", state)
}

type probeEntry struct {
	name string
	read bool // counts connection reads instead of writes
	call func(ctx context.Context, p *psess) error
}

func closeResp(r xmlstream.TokenReadCloser, err error) error {
	if r != nil {
		r.Close()
	}
	return err
}

func tokenWriterProbe(which string) func(context.Context, *psess) error {
	return func(_ context.Context, p *psess) error {
		w := p.s.TokenWriter()
		st := stanza.Message{ID: "w1", Type: stanza.ChatMessage}.StartElement()
		e1 := w.EncodeToken(st)
		if which == "EncodeToken" {
			if e1 == nil {
				w.EncodeToken(st.End())
			}
			w.Close()
			return e1
		}
		if e1 == nil {
			w.EncodeToken(st.End())
		}
		if which == "Flush" {
			err := w.Flush()
			w.Close()
			return err
		}
		return w.Close()
	}
}

func probeEntries() []probeEntry {
	getIQ := stanza.IQ{ID: "q1", Type: stanza.GetIQ}
	resIQ := stanza.IQ{ID: "q2", Type: stanza.ResultIQ}
	msg := stanza.Message{ID: "m1", Type: stanza.ChatMessage}
	errMsg := stanza.Message{ID: "m2", Type: stanza.ErrorMessage}
	pres := stanza.Presence{ID: "p1"}
	errPres := stanza.Presence{ID: "p2", Type: stanza.ErrorPresence}
	ping := func() xml.TokenReader {
		return xmlstream.Wrap(nil, xml.StartElement{Name: xml.Name{Space: "urn:xmpp:ping", Local: "ping"}})
	}
	type pingT struct {
		XMLName xml.Name `xml:"urn:xmpp:ping ping"`
	}
	msgStart := xml.StartElement{Name: xml.Name{Local: "message"}, Attr: []xml.Attr{{Name: xml.Name{Local: "id"}, Value: "e1"}}}
	return []probeEntry{
		{"Send", false, func(ctx context.Context, p *psess) error { return p.s.Send(ctx, msg.Wrap(nil)) }},
		{"SendElement", false, func(ctx context.Context, p *psess) error {
			return p.s.SendElement(ctx, xmlstream.MultiReader(), msg.StartElement())
		}},
		{"Encode", false, func(ctx context.Context, p *psess) error { return p.s.Encode(ctx, msg) }},
		{"EncodeElement", false, func(ctx context.Context, p *psess) error { return p.s.EncodeElement(ctx, msg, msgStart) }},
		{"SendIQ(result)", false, func(ctx context.Context, p *psess) error { return closeResp(p.s.SendIQ(ctx, resIQ.Wrap(nil))) }},
		{"SendIQ", false, func(ctx context.Context, p *psess) error { return closeResp(p.s.SendIQ(ctx, getIQ.Wrap(ping()))) }},
		{"SendIQElement", false, func(ctx context.Context, p *psess) error { return closeResp(p.s.SendIQElement(ctx, ping(), getIQ)) }},
		{"EncodeIQ", false, func(ctx context.Context, p *psess) error { return closeResp(p.s.EncodeIQ(ctx, getIQ)) }},
		{"EncodeIQElement", false, func(ctx context.Context, p *psess) error {
			return closeResp(p.s.EncodeIQElement(ctx, pingT{}, getIQ))
		}},
		{"UnmarshalIQ", false, func(ctx context.Context, p *psess) error {
			var v struct{}
			return p.s.UnmarshalIQ(ctx, getIQ.Wrap(ping()), &v)
		}},
		{"UnmarshalIQElement", false, func(ctx context.Context, p *psess) error {
			var v struct{}
			return p.s.UnmarshalIQElement(ctx, ping(), getIQ, &v)
		}},
		{"IterIQ", false, func(ctx context.Context, p *psess) error {
			it, _, err := p.s.IterIQ(ctx, getIQ.Wrap(ping()))
			if it != nil {
				it.Close()
			}
			return err
		}},
		{"IterIQElement", false, func(ctx context.Context, p *psess) error {
			it, _, err := p.s.IterIQElement(ctx, ping(), getIQ)
			if it != nil {
				it.Close()
			}
			return err
		}},
		{"SendMessage(error)", false, func(ctx context.Context, p *psess) error { return closeResp(p.s.SendMessage(ctx, errMsg.Wrap(nil))) }},
		{"SendMessage", false, func(ctx context.Context, p *psess) error { return closeResp(p.s.SendMessage(ctx, msg.Wrap(nil))) }},
		{"SendMessageElement", false, func(ctx context.Context, p *psess) error { return closeResp(p.s.SendMessageElement(ctx, nil, msg)) }},
		{"EncodeMessage", false, func(ctx context.Context, p *psess) error { return closeResp(p.s.EncodeMessage(ctx, msg)) }},
		{"EncodeMessageElement", false, func(ctx context.Context, p *psess) error {
			return closeResp(p.s.EncodeMessageElement(ctx, pingT{}, msg))
		}},
		{"SendPresence(error)", false, func(ctx context.Context, p *psess) error { return closeResp(p.s.SendPresence(ctx, errPres.Wrap(nil))) }},
		{"SendPresence", false, func(ctx context.Context, p *psess) error { return closeResp(p.s.SendPresence(ctx, pres.Wrap(nil))) }},
		{"SendPresenceElement", false, func(ctx context.Context, p *psess) error { return closeResp(p.s.SendPresenceElement(ctx, nil, pres)) }},
		{"EncodePresence", false, func(ctx context.Context, p *psess) error { return closeResp(p.s.EncodePresence(ctx, pres)) }},
		{"EncodePresenceElement", false, func(ctx context.Context, p *psess) error {
			return closeResp(p.s.EncodePresenceElement(ctx, pingT{}, pres))
		}},
		{"TokenWriter.EncodeToken", false, tokenWriterProbe("EncodeToken")},
		{"TokenWriter.Flush", false, tokenWriterProbe("Flush")},
		{"TokenWriter.Close", false, tokenWriterProbe("Close")},
		{"Close", false, func(_ context.Context, p *psess) error { return p.s.Close() }},
		{"TokenReader.Token", true, func(_ context.Context, p *psess) error {
			// something to read, should the reader look at the connection
			go p.peer.Write([]byte(probeStanza))
			r := p.s.TokenReader()
			defer r.Close()
			_, err := r.Token()
			return err
		}},
	}
}

func probeClass(err error) string {
	switch {
	case err == nil:
		return "ok"
	case errors.Is(err, xmpp.ErrOutputStreamClosed):
		return "closedout"
	case errors.Is(err, xmpp.ErrInputStreamClosed):
		return "closedin"
	case errors.Is(err, context.DeadlineExceeded):
		return "ctx"
	}
	return "other"
}

// one cell of the table, on a fresh session
func probeCell(state string, e probeEntry) (class string, touched bool) {
	p, err := newProbeSess()
	if err != nil {
		return "nosession", false
	}
	defer p.peer.Close()
	if err := p.enter(state); err != nil {
		return "nostate", false
	}
	r0, w0, _ := p.pc.counts()
	// calls that wait for an answer of the peer give up after a moment (only on an open stream
	// do they get that far)
	ctx, cancel := context.WithTimeout(context.Background(), 150*time.Millisecond)
	defer cancel()
	var cerr error
	pan := ""
	if !common.WithTimeout(3*time.Second, func() { pan = common.Recover(func() { cerr = e.call(ctx, p) }) }) {
		return "STALL", false
	}
	if pan != "" {
		return "PANIC", false
	}
	r1, w1, _ := p.pc.counts()
	if e.read {
		return probeClass(cerr), r1 > r0
	}
	return probeClass(cerr), w1 > w0
}

// closeWriteCell: what the session looks like from inside the connection write of the closing tag.
func closeWriteCell(way string) (seen, bitSet, stateReadable, outLocked bool, tags int) {
	p, err := newProbeSess()
	if err != nil {
		return
	}
	defer p.peer.Close()
	p.pc.mu.Lock()
	p.pc.onWrite = func(b []byte) {
		if !bytes.Contains(b, []byte(closeTag)) {
			return
		}
		seen = true
		st := make(chan xmpp.SessionState, 1)
		go func() { st <- p.s.State() }()
		select {
		case v := <-st:
			stateReadable = true
			bitSet = v&xmpp.OutputStreamClosed != 0
		case <-time.After(time.Second):
		}
		outLocked = xmpp.VerifOutputLocked(p.s)
	}
	p.pc.mu.Unlock()
	if err := p.enter(way); err != nil {
		return false, false, false, false, -1
	}
	_, _, tags = p.pc.counts()
	return
}

var closeWays = []string{"Close", "Close+Close", "Serve+peerClose", "Serve+handlerErr", "Serve+handlerStreamErr", "Serve+deadline", "Close+Serve+peerClose", "Close+Serve+handlerErr", "Abandon+Close"}

func probeFacts(sb *strings.Builder) {
	entries := probeEntries()
	type cell struct {
		class   string
		touched bool
	}
	res := make([][]cell, len(probeStates))
	var wg sync.WaitGroup
	sem := make(chan struct{}, 8)
	for i, st := range probeStates {
		res[i] = make([]cell, len(entries))
		for j, e := range entries {
			wg.Add(1)
			sem <- struct{}{}
			go func(i, j int, st string, e probeEntry) {
				defer wg.Done()
				defer func() { <-sem }()
				c, t := probeCell(st, e)
				res[i][j] = cell{c, t}
			}(i, j, st, e)
		}
	}
	wg.Wait()
	sb.WriteString("/-- PROBE (the real code was run): state of the session (how it was closed) x entry point:\nerror class, and whether the call reached the connection (Write; Read for the reader) -/\n")
	sb.WriteString("def transmitProbe : Option (List (String × List (String × String × Bool))) := some [\n")
	for i, st := range probeStates {
		var l []string
		for j, e := range entries {
			l = append(l, fmt.Sprintf("(%q, %q, %v)", e.name, res[i][j].class, res[i][j].touched))
		}
		sep := ","
		if i == len(probeStates)-1 {
			sep = "]"
		}
		fmt.Fprintf(sb, "  (%q, [%s])%s\n", st, strings.Join(l, ", "), sep)
	}
	sb.WriteString("/-- PROBE: seen from inside the connection write of the closing tag, per closing path:\n([tag reached the connection, closed bit already set, State() readable, output lock held], closing tags in total) -/\n")
	var l []string
	for _, w := range closeWays {
		seen, bit, rd, lk, tags := closeWriteCell(w)
		if tags < 0 {
			tags = 99 // the path could not be driven (a Nat in the generated table)
		}
		l = append(l, fmt.Sprintf("(%q, [%v, %v, %v, %v], %d)", w, seen, bit, rd, lk, tags))
	}
	fmt.Fprintf(sb, "def closeWriteProbe : Option (List (String × List Bool × Nat)) := some [\n  %s]\n", strings.Join(l, ",\n  "))
	envProbeFacts(sb)
	framingProbeFacts(sb)
	exportedMethodsFacts(sb)
	setterFacts(sb)
	queuedFacts(sb)
	lateErrorFacts(sb)
}
