package c10

// Round E: the framing of the stream (internal/stream/stream.go is an anchor of C10).
//
//	fr <tcp|ws> <init|recv> <op,…>   session negotiated by the library's own negotiator
//	                                 (xmpp.NewNegotiator / websocket.Negotiator) in the initiating
//	                                 or the receiving role, Serve running
//	    -> <res,…> <wire: el|ctcp|cws,…> <outClosed><inClosed> <serve result>
//
// ops: c Close; t1…t6 transmit entry points; m / y / h peer stanza (handler silent / replies /
// fails); p the peer sends </stream:stream>; q the peer sends <close xmlns=framing/>.
// "The closing stream tag" is the closing element of the framing the header was written in;
// "the peer closes its stream" is the closing element of that framing arriving.

import (
	"bytes"
	"context"
	"encoding/xml"
	"errors"
	"fmt"
	"io"
	"net"
	"strings"
	"time"

	"mellium.im/xmlstream"
	"mellium.im/xmpp"
	"mellium.im/xmpp/websocket"

	"verifharness/common"
)

const (
	nsFraming  = "urn:ietf:params:xml:ns:xmpp-framing"
	wsCloseTag = `<close xmlns="urn:ietf:params:xml:ns:xmpp-framing"/>`
	nsReady    = "urn:c10:ready"
)

// readyFeature lets a receiving session finish negotiation: the peer selects it, nothing else
// is exchanged.
func readyFeature() xmpp.StreamFeature {
	return xmpp.StreamFeature{
		Name: xml.Name{Space: nsReady, Local: "ready"},
		List: func(ctx context.Context, e xmlstream.TokenWriter, start xml.StartElement) (bool, error) {
			if err := e.EncodeToken(start); err != nil {
				return true, err
			}
			return true, e.EncodeToken(start.End())
		},
		Negotiate: func(ctx context.Context, s *xmpp.Session, data interface{}) (xmpp.SessionState, io.ReadWriter, error) {
			r := s.TokenReader()
			defer r.Close()
			if _, err := r.Token(); err != nil {
				return 0, nil, err
			}
			return xmpp.Ready, nil, xmlstream.Skip(r)
		},
	}
}

// newFramedSess: a real negotiated session; base = bytes on the connection after negotiation.
func newFramedSess(ws, recv bool) (t *tsess, base int, err error) {
	c1, c2 := net.Pipe()
	t = &tsess{peer: c2, out: &common.SafeBuffer{}, handled: make(chan string, 16), serveRet: make(chan error, 1)}
	t.cst = &connState{failAt: -1}
	cfg := func(*xmpp.Session, *xmpp.StreamConfig) xmpp.StreamConfig {
		if recv {
			return xmpp.StreamConfig{Features: []xmpp.StreamFeature{readyFeature()}}
		}
		return xmpp.StreamConfig{}
	}
	neg := xmpp.NewNegotiator(cfg)
	if ws {
		neg = websocket.Negotiator(cfg)
	}
	var hello string
	switch {
	case ws && !recv:
		hello = `<open xmlns="` + nsFraming + `" version="1.0" id="abc" from="example.net" to="me@example.net"/><stream:features xmlns:stream="http://etherx.jabber.org/streams"/>`
	case ws && recv:
		hello = `<open xmlns="` + nsFraming + `" version="1.0" to="example.net" from="me@example.net"/><ready xmlns="` + nsReady + `"/>`
	case !ws && !recv:
		hello = teeHeader
	default:
		hello = `<?xml version="1.0"?><stream:stream to='example.net' from='me@example.net' version='1.0' xmlns='jabber:client' xmlns:stream='http://etherx.jabber.org/streams'><ready xmlns="` + nsReady + `"/>`
	}
	go c2.Write([]byte(hello))
	ctx, cancel := context.WithTimeout(context.Background(), 10*time.Second)
	defer cancel()
	var s *xmpp.Session
	cn := conn{Conn: c1, out: t.out, st: t.cst}
	if recv {
		s, err = xmpp.ReceiveSession(ctx, cn, 0, neg)
	} else {
		s, err = xmpp.NewSession(ctx, remoteJID, localJID.Bare(), cn, 0, neg)
	}
	if err != nil {
		c2.Close()
		return nil, 0, err
	}
	if s.State()&xmpp.Ready == 0 {
		c2.Close()
		return nil, 0, fmt.Errorf("negotiated session is not ready: %v", s.State())
	}
	t.s = s
	return t, t.out.Len(), nil
}

// framedItems: the top-level items of what the session wrote after negotiation:
// el, ctcp (</stream:stream>), cws (<close/> of the framing name space).
func framedItems(b []byte) ([]string, error) {
	const marker = "urn:c10:tcp-close"
	doc := `<root xmlns:stream='http://etherx.jabber.org/streams' xmlns='jabber:client'>` +
		strings.ReplaceAll(string(b), closeTag, `<c xmlns="`+marker+`"/>`) + `</root>`
	toks, err := common.Tokenize([]byte(doc))
	if err != nil {
		return []string{"malformed"}, err
	}
	var items []string
	depth := 0
	for _, t := range toks[1 : len(toks)-1] {
		switch s := t.(type) {
		case xml.StartElement:
			if depth == 0 {
				switch {
				case s.Name.Space == marker:
					items = append(items, "ctcp")
				case s.Name.Space == nsFraming && s.Name.Local == "close":
					items = append(items, "cws")
				default:
					items = append(items, "el")
				}
			}
			depth++
		case xml.EndElement:
			depth--
		}
	}
	return items, nil
}

func classifyFramedRet(err error) string {
	var se *xml.SyntaxError
	if err != nil && (errors.As(err, &se) || strings.Contains(err.Error(), "XML syntax error")) {
		return "garbage"
	}
	return classifyRet(err)
}

func frName(ws bool) string {
	if ws {
		return "ws"
	}
	return "tcp"
}

func roleName(recv bool) string {
	if recv {
		return "recv"
	}
	return "init"
}

func (c *ctxT) frHist(ws, recv bool, ops []string) {
	r := c.r
	line := fmt.Sprintf("fr %s %s %s", frName(ws), roleName(recv), common.Join(ops, ","))
	lines := []string{r.Prop + " " + line}
	fail := func(clause, key, detail string) { r.Fail(clause, "fr/"+frName(ws)+"/"+key, lines, detail) }
	t, base, err := newFramedSess(ws, recv)
	if err != nil {
		r.Line(line, "ERR "+err.Error())
		return
	}
	defer t.close()
	t.startServe()
	if !t.feedWithin(" ", 2*time.Second) {
		r.Line(line, "ERR serve does not read")
		return
	}
	// on a tree where Serve does not end, do not wait five seconds in every case
	wait := 5 * time.Second
	if c.stalls >= 5 {
		wait = 300 * time.Millisecond
	}
	var res []string
	closedKnown := false
	ownClose := false // the peer's closing element of the session's own framing was delivered to a running Serve
	for n, op := range ops {
		switch {
		case op == "c":
			var e error
			switch {
			case !common.WithTimeout(5*time.Second, func() { e = t.s.Close() }):
				res = append(res, "STALL")
				fail("close-returns", "Close", "Close did not return")
			case e != nil:
				res = append(res, "err:"+e.Error())
			default:
				res = append(res, "ok")
			}
			closedKnown = true
		case strings.HasPrefix(op, "t"):
			before := t.out.Len()
			x := t.tx(op, n)
			res = append(res, x)
			if closedKnown {
				if x != "closedout" {
					fail("closed-error", txNames[op], fmt.Sprintf("%s after the output stream was closed returned %q", txNames[op], x))
				}
				if t.out.Len() != before {
					fail("final", txNames[op], fmt.Sprintf("%s wrote %d bytes after the closing element", txNames[op], t.out.Len()-before))
				}
			}
		default:
			if t.served {
				res = append(res, "na")
				break
			}
			outWasClosed := t.s.State()&xmpp.OutputStreamClosed != 0
			terminal, stanza := false, false
			switch op {
			case "m", "y", "h":
				stanza = true
				t.mu.Lock()
				t.plan = append(t.plan, op)
				t.mu.Unlock()
				t.feed(`<message xmlns='jabber:client' id='in` + fmt.Sprint(n) + `' type='chat'/>`)
				terminal = op == "h" || (op == "y" && outWasClosed)
			case "p":
				// </stream:stream>: the end of a TCP-framed stream; not even well-formed elsewhere
				t.feed(closeTag)
				terminal = true
				ownClose = ownClose || !ws
			case "q":
				// <close/> of the framing name space: the end of a WebSocket-framed stream; an
				// element of a foreign name space for a TCP-framed one (handed to the handler)
				t.feed(wsCloseTag)
				terminal, stanza = ws, !ws
				ownClose = ownClose || ws
			}
			if stanza {
				select {
				case <-t.handled:
				case err := <-t.serveRet:
					t.served, t.ret = true, err
				case <-time.After(wait):
					c.stalls++
					res = append(res, "STALL")
					if op == "q" {
						fail("serve-returns", "peer-close", "the peer's <close/> was neither handled nor did Serve return")
					}
					continue
				}
				if !terminal && !t.served {
					t.feedWithin(" ", 2*time.Second)
				}
			}
			if terminal && !t.waitServe(wait) {
				c.stalls++
				res = append(res, "STALL")
				fail("serve-returns", "peer-close", fmt.Sprintf("Serve did not return after event %s (the peer closed its %s stream)", op, frName(ws)))
				continue
			}
			if t.served {
				closedKnown = true
			}
			res = append(res, "ok")
		}
	}
	items, werr := framedItems(t.out.Bytes()[base:])
	st := t.s.State()
	ret := "running"
	if t.waitServe(0) {
		ret = classifyFramedRet(t.ret)
	}
	r.Line(line, fmt.Sprintf("%s %s %s%s %s", common.Join(res, ","), common.Join(items, ","),
		common.B(st&xmpp.OutputStreamClosed != 0), common.B(st&xmpp.InputStreamClosed != 0), ret))
	r.Case(line, true, "framing/"+frName(ws)+"/"+roleName(recv))

	// ---- the property's clauses, per framing ----
	if werr != nil {
		fail("wellformed", "wire", werr.Error())
	}
	own, other := "ctcp", "cws"
	if ws {
		own, other = other, own
	}
	nOwn, nOther, after := 0, 0, 0
	for _, it := range items {
		switch {
		case it == own:
			nOwn++
		case it == other:
			nOther++
		case nOwn+nOther > 0:
			after++
		}
	}
	if nOther > 0 {
		fail("close-once", "closing-element", fmt.Sprintf("a %s-framed stream was closed with the closing element of the other framing: %v", frName(ws), items))
	}
	if nOwn+nOther > 1 {
		fail("close-once", "closing-tags", fmt.Sprintf("%d closing elements on the wire: %v", nOwn+nOther, items))
	}
	if closedKnown && nOwn != 1 {
		fail("close-once", "closing-tags", fmt.Sprintf("%d closing elements of the stream's framing after a close returned: %v", nOwn, items))
	}
	if after > 0 {
		fail("final", "after-tag", fmt.Sprintf("items follow the closing element: %v", items))
	}
	if ownClose && ret != "nil" && !strings.Contains(common.Join(ops, ","), "h") {
		fail("serve-returns", "peer-close", fmt.Sprintf("the peer closed its %s stream but Serve's result is %q", frName(ws), ret))
	}
	if ret == "nil" && !ownClose {
		fail("serve-nil-only-on-peer-close", "framing", "Serve returned nil although the peer did not send the closing element of the stream's framing")
	}
	if t.served && (st&xmpp.OutputStreamClosed == 0 || st&xmpp.InputStreamClosed == 0) {
		fail("both-closed", "framing", fmt.Sprintf("state %08b after Serve returned", st))
	}
}

// ---- probe fact ----------------------------------------------------------------------------------

var framingProbeWays = []struct {
	name string
	ops  []string
}{
	{"Close", []string{"c"}},
	{"Close+Close", []string{"c", "c"}},
	{"Serve+peerEnds(tcp)", []string{"p"}},
	{"Serve+peerEnds(ws)", []string{"q"}},
	{"Serve+peerEnds(ws)+Close", []string{"q", "c"}},
	{"Serve+peerEnds(tcp)+Close", []string{"p", "c"}},
	{"Serve+handlerErr", []string{"h"}},
	{"Close+Serve+peerEnds(own)", nil},
}

func framingCell(ws, recv bool, ops []string) string {
	t, base, err := newFramedSess(ws, recv)
	if err != nil {
		return "nosession"
	}
	defer t.close()
	t.plan = []string{"m", "m"}
	t.startServe()
	if !t.feedWithin(" ", 2*time.Second) {
		return "noserve"
	}
	for _, op := range ops {
		switch op {
		case "c":
			if !common.WithTimeout(3*time.Second, func() { t.s.Close() }) {
				return "STALL"
			}
		case "h":
			t.mu.Lock()
			t.plan = []string{"h"}
			t.mu.Unlock()
			t.feed(`<message xmlns='jabber:client' id='p1' type='chat'/>`)
			t.waitServe(3 * time.Second)
		case "p", "q":
			if t.served {
				break
			}
			if op == "p" {
				t.feed(closeTag)
			} else {
				t.feed(wsCloseTag)
			}
			if (op == "q") != ws && op == "q" {
				// foreign element: wait until the handler has seen it
				select {
				case <-t.handled:
				case <-time.After(3 * time.Second):
					return "STALL"
				}
				t.feedWithin(" ", 2*time.Second)
			} else if !t.waitServe(3 * time.Second) {
				return "STALL"
			}
		}
	}
	items, _ := framedItems(t.out.Bytes()[base:])
	nt, nw := 0, 0
	for _, it := range items {
		switch it {
		case "ctcp":
			nt++
		case "cws":
			nw++
		}
	}
	ret := "running"
	if t.waitServe(0) {
		ret = classifyFramedRet(t.ret)
	}
	st := t.s.State()
	b := func(x bool) string {
		if x {
			return "1"
		}
		return "0"
	}
	return fmt.Sprintf("tcp=%d ws=%d serve=%s closed=%s%s", nt, nw, ret, b(st&xmpp.OutputStreamClosed != 0), b(st&xmpp.InputStreamClosed != 0))
}

func framingProbeFacts(sb *strings.Builder) {
	sb.WriteString("/-- PROBE (real sessions negotiated by xmpp.NewNegotiator / websocket.Negotiator, initiating and receiving role):\nframing/role x closing path: closing elements of either framing the connection saw, Serve's result, both closed bits -/\n")
	sb.WriteString("def framingCloseProbe : Option (List (String × List (String × String))) := some [\n")
	type row struct{ ws, recv bool }
	rows := []row{{false, false}, {false, true}, {true, false}, {true, true}}
	for i, rw := range rows {
		var l []string
		for _, w := range framingProbeWays {
			ops := w.ops
			if ops == nil {
				ops = []string{"c", map[bool]string{false: "p", true: "q"}[rw.ws]}
			}
			l = append(l, fmt.Sprintf("(%q, %q)", w.name, framingCell(rw.ws, rw.recv, ops)))
		}
		sep := ","
		if i == len(rows)-1 {
			sep = "]"
		}
		fmt.Fprintf(sb, "  (%q, [%s])%s\n", frName(rw.ws)+"/"+roleName(rw.recv), strings.Join(l, ", "), sep)
	}
}

// framingCases: every short history in every framing and role.
func (c *ctxT) framingCases() {
	r := c.r
	r.Mark("case framing")
	alpha := []string{"c", "t1", "t2", "t5", "m", "y", "h", "p", "q"}
	small := []string{"c", "t1", "p", "q"}
	if r.Pick(0, 1) == 1 {
		small = []string{"c", "t1", "t3", "t4", "t6", "y", "p", "q"}
	}
	for _, ws := range []bool{false, true} {
		for _, recv := range []bool{false, true} {
			c.frHist(ws, recv, nil)
			for _, a := range alpha {
				c.frHist(ws, recv, []string{a})
				for _, b := range alpha {
					c.frHist(ws, recv, []string{a, b})
				}
			}
			for _, a := range small {
				for _, b := range small {
					for _, d := range small {
						c.frHist(ws, recv, []string{a, b, d})
					}
				}
			}
		}
	}
	r.Exhaustive = append(r.Exhaustive, fmt.Sprintf("framing: TCP and WebSocket framing x initiating and receiving role (sessions negotiated by the library's negotiators): all histories of length <= 2 over %v and of length 3 over %v with Serve running", alpha, small))
}

var _ = bytes.Contains
