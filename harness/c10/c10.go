// Package c10 drives closing of a real *xmpp.Session (property C10).
//
// Protocol lines:
//
//	hist <serve 0|1> <op,op,…>   -> <res,…> <wire items> <outClosed><inClosed> <serve result>
//	sched <kind,…> <i,i,…>       -> <wire events> <outcome per goroutine>
//
// ops: c Close; t1 Send, t2 Encode, t3 EncodeElement, t4 SendIQ (a result), t5
// TokenWriter+write+Close, t6 SendElement; r TokenReader().Token(); m/y peer
// stanza (handler silent / handler replies); h/s handler returns a plain error /
// a stream error; e peer stream error; p peer close; g garbage; d close deadline.
package c10

import (
	"bytes"
	"context"
	"encoding/xml"
	"errors"
	"fmt"
	"io"
	"net"
	"os"
	"strings"
	"sync"
	"time"

	"mellium.im/xmlstream"
	"mellium.im/xmpp"
	"mellium.im/xmpp/jid"
	"mellium.im/xmpp/stanza"
	"mellium.im/xmpp/stream"

	"verifharness/common"
)

const (
	nsClient = "jabber:client"
	header   = `<stream:stream xmlns='jabber:client' xmlns:stream='http://etherx.jabber.org/streams' version='1.0' id='s1' from='example.net'>`
	closeTag = `</stream:stream>`
)

var (
	localJID  = jid.MustParse("me@example.net/res")
	remoteJID = jid.MustParse("example.net")
	errBoom   = errors.New("c10: handler failed")

	// what a handler may return besides a plain error: values that ARE or merely WRAP the
	// sentinels Serve and sendError look for
	handlerErrs = map[string]error{
		"he": io.EOF,
		"hw": fmt.Errorf("c10: decoding payload: %w", io.EOF),
		"hu": fmt.Errorf("c10: decoding payload: %w", io.ErrUnexpectedEOF),
		"hj": errors.Join(errors.New("c10: first failure"), io.EOF),
		"hs": fmt.Errorf("c10: refused: %w", stream.Conflict),
		"hz": fmt.Errorf("c10: refused: %w", stanza.Error{Type: stanza.Cancel, Condition: stanza.BadRequest}),
		// a stream error whose encoding does not fit the encoder's buffer (a long <text/>): what
		// sendError hands to the encoder reaches the connection at once
		"hb": bigStreamErr(),
	}
	handlerErrOps = []string{"he", "hw", "hu", "hj", "hs", "hz"}
)

func bigStreamErr() error {
	e := stream.Error{Err: "conflict"}
	e.Text = append(e.Text, struct{ Lang, Value string }{"en", strings.Repeat("the session was replaced. ", 700)})
	return e
}

// conn reads from one end of a net.Pipe (so read deadlines work) and records
// writes synchronously.
type conn struct {
	net.Conn
	out *common.SafeBuffer
	st  *connState
}

// connState counts the connection writes and cuts one of them short.
type connState struct {
	mu     sync.Mutex
	n      int
	failAt int // index of the write that fails after half of its bytes (-1: none)
	log    []connWrite
	// gate, when set, makes every Write wait until it is closed (a synchronous transport whose
	// peer is not reading); entered is signalled when a Write starts waiting
	gate    chan struct{}
	entered chan struct{}
	// every deadline call the session makes on the connection, and the write deadline in force
	// (the gated Write honours it the way a real transport does)
	dl   []dlCall
	wd   time.Time
	wdCh chan struct{}
	// round D: a transport that honours the write deadline on every Write (honourWd), and an
	// adversarial but legal scheduler for deadline calls (hold, see SetWriteDeadline)
	honourWd bool
	hold     bool
	inflight int // deadline calls that have not returned yet
	nZero    int // calls that cleared the write deadline
	nDone    int // Writes that have completed
	opBase   int // nDone when the current operation began
}

func (cs *connState) setGate(g chan struct{}) {
	cs.mu.Lock()
	cs.gate = g
	cs.entered = make(chan struct{}, 8)
	cs.mu.Unlock()
}

type connWrite struct {
	data []byte
	cut  bool
}

var errInjectedWrite = errors.New("c10: injected write failure")

func (c conn) Write(p []byte) (int, error) {
	if c.st == nil {
		return c.out.Write(p)
	}
	c.st.mu.Lock()
	gate, entered := c.st.gate, c.st.entered
	expired := c.st.honourWd && !c.st.wd.IsZero() && time.Until(c.st.wd) <= 0
	c.st.mu.Unlock()
	if expired {
		return 0, os.ErrDeadlineExceeded
	}
	defer func() {
		c.st.mu.Lock()
		c.st.nDone++
		c.st.mu.Unlock()
	}()
	if gate != nil {
		entered <- struct{}{}
		if err := c.st.waitGate(gate); err != nil {
			return 0, err
		}
	}
	c.st.mu.Lock()
	i := c.st.n
	c.st.n++
	cut := i == c.st.failAt
	c.st.log = append(c.st.log, connWrite{append([]byte(nil), p...), cut})
	c.st.mu.Unlock()
	if cut {
		c.out.Write(p[:len(p)/2])
		return len(p) / 2, errInjectedWrite
	}
	return c.out.Write(p)
}

type tsess struct {
	s    *xmpp.Session
	peer net.Conn
	out  *common.SafeBuffer
	cst  *connState

	mu       sync.Mutex
	plan     []string // what the handler does for the next stanzas
	handled  chan string
	serveRet chan error
	served   bool
	ret      error
	started  bool
}

func negotiator(ctx context.Context, in, out *stream.Info, s *xmpp.Session, data interface{}) (xmpp.SessionState, io.ReadWriter, interface{}, error) {
	// pop the stream start the peer sent (no bytes are written)
	rc := s.TokenReader()
	defer rc.Close()
	tok, err := rc.Token()
	if err != nil {
		return 0, nil, nil, err
	}
	if _, ok := tok.(xml.StartElement); !ok {
		return 0, nil, nil, fmt.Errorf("no stream start")
	}
	in.XMLNS, out.XMLNS = nsClient, nsClient
	in.Version, out.Version = stream.DefaultVersion, stream.DefaultVersion
	return xmpp.Ready, nil, nil, nil
}

func newSess() (*tsess, error) { return newSessFault(-1) }

func newSessFault(failAt int) (*tsess, error) {
	c1, c2 := net.Pipe()
	t := &tsess{peer: c2, out: &common.SafeBuffer{}, handled: make(chan string, 16), serveRet: make(chan error, 1)}
	// every transport of the harness honours the write deadline on every Write (round F), and
	// every session is negotiated the way applications do it: with a context that is released
	// once NewSession has returned - neither may matter for the established session
	t.cst = &connState{failAt: failAt, honourWd: true}
	go c2.Write([]byte(header))
	ctx, cancel := context.WithCancel(context.Background())
	s, err := xmpp.NewSession(ctx, remoteJID, localJID, conn{Conn: c1, out: t.out, st: t.cst}, 0, negotiator)
	cancel()
	if err != nil {
		return nil, err
	}
	t.s = s
	return t, nil
}

func (t *tsess) close() {
	t.peer.Close()
}

func (t *tsess) handler() xmpp.Handler {
	return xmpp.HandlerFunc(func(rw xmlstream.TokenReadEncoder, start *xml.StartElement) error {
		t.mu.Lock()
		what := "m"
		if len(t.plan) > 0 {
			what = t.plan[0]
			t.plan = t.plan[1:]
		}
		t.mu.Unlock()
		var err error
		switch what {
		case "y":
			_, err = xmlstream.Copy(rw, stanza.Message{ID: "reply", Type: stanza.ChatMessage}.Wrap(nil))
		case "h":
			err = errBoom
		case "s":
			err = stream.Conflict
		default:
			err = handlerErrs[what]
		}
		t.handled <- what
		return err
	})
}

func (t *tsess) startServe() {
	t.started = true
	go func() { t.serveRet <- t.s.Serve(t.handler()) }()
}

// feed writes peer bytes; false if the session did not read them in time.
func (t *tsess) feed(b string) bool { return t.feedWithin(b, 5*time.Second) }

// feedWithin: a Serve that returns while the bytes are waiting to be read will never read them:
// that is noticed at once instead of after the timeout.
func (t *tsess) feedWithin(b string, d time.Duration) bool {
	done := make(chan struct{})
	go func() { t.peer.Write([]byte(b)); close(done) }()
	var ret chan error
	if t.started && !t.served {
		ret = t.serveRet
	}
	select {
	case <-done:
		return true
	case err := <-ret:
		t.serveRet <- err // leave it for whoever waits for Serve's result (buffered)
		// bytes already in flight may still be taken by the shutdown; do not wait for them
		select {
		case <-done:
			return true
		case <-time.After(20 * time.Millisecond):
			return false
		}
	case <-time.After(d):
		return false
	}
}

func (t *tsess) waitServe(d time.Duration) bool {
	if t.served {
		return true
	}
	select {
	case err := <-t.serveRet:
		t.served, t.ret = true, err
		return true
	case <-time.After(d):
		return false
	}
}

func classifyTx(err error) string {
	switch {
	case err == nil:
		return "ok"
	case errors.Is(err, xmpp.ErrOutputStreamClosed):
		return "closedout"
	}
	return "err:" + err.Error()
}

var txNames = map[string]string{"t1": "Send", "t2": "Encode", "t3": "EncodeElement", "t4": "SendIQ", "t5": "TokenWriter", "t6": "SendElement"}

func (t *tsess) tx(op string, n int) (res string) {
	return t.txCtx(context.Background(), op, n)
}

func (t *tsess) txCtx(ctx context.Context, op string, n int) (res string) {
	id := fmt.Sprintf("x%d", n)
	var err error
	p := ""
	ok := common.WithTimeout(5*time.Second, func() {
		p = common.Recover(func() {
			switch op {
			case "t1":
				err = t.s.Send(ctx, stanza.Message{ID: id, Type: stanza.ChatMessage}.Wrap(nil))
			case "t2":
				err = t.s.Encode(ctx, stanza.Message{ID: id, Type: stanza.ChatMessage})
			case "t3":
				err = t.s.EncodeElement(ctx, stanza.Message{Type: stanza.ChatMessage}, xml.StartElement{Name: xml.Name{Local: "message"}, Attr: []xml.Attr{{Name: xml.Name{Local: "id"}, Value: id}}})
			case "t4":
				var r xmlstream.TokenReadCloser
				r, err = t.s.SendIQ(ctx, stanza.IQ{ID: id, Type: stanza.ResultIQ}.Wrap(nil))
				if r != nil {
					r.Close()
				}
			case "t5":
				w := t.s.TokenWriter()
				st := stanza.Message{ID: id, Type: stanza.ChatMessage}.StartElement()
				err = w.EncodeToken(st)
				if err == nil {
					err = w.EncodeToken(st.End())
				}
				if e := w.Close(); err == nil {
					err = e
				}
			case "t6":
				err = t.s.SendElement(ctx, xmlstream.MultiReader(), stanza.Message{ID: id, Type: stanza.ChatMessage}.StartElement())
			}
		})
	})
	switch {
	case !ok:
		return "STALL"
	case p != "":
		return "PANIC"
	}
	return classifyTx(err)
}

func classifyRet(err error) string {
	var se stream.Error
	for _, k := range handlerErrOps {
		// the very value the handler returned
		if k != "he" && err == handlerErrs[k] {
			if k == "hs" {
				return "streamerr"
			}
			return "handlererr"
		}
	}
	switch {
	case err == nil:
		return "nil"
	case err == io.ErrUnexpectedEOF:
		return "unexpectedeof"
	case errors.Is(err, errBoom):
		return "handlererr"
	case errors.Is(err, xmpp.ErrOutputStreamClosed):
		return "closedout"
	case errors.As(err, &se) && se.Err == "conflict":
		return "streamerr"
	case errors.As(err, &se) && se.Err == "host-gone":
		return "peerstreamerr"
	case errors.Is(err, os.ErrDeadlineExceeded), errors.Is(err, context.DeadlineExceeded):
		return "deadline"
	case strings.Contains(err.Error(), "stream-level chardata"):
		return "garbage"
	}
	var ne net.Error
	if errors.As(err, &ne) && ne.Timeout() {
		return "deadline"
	}
	return "other:" + err.Error()
}

// wireItems splits what the session wrote into elements, stream errors and
// closing tags, in order.
func wireItems(b []byte) (items []string, bad error) {
	segs := bytes.Split(b, []byte(closeTag))
	for i, seg := range segs {
		if i > 0 {
			items = append(items, "close")
		}
		if len(seg) == 0 {
			continue
		}
		doc := "<stream:stream xmlns='" + nsClient + "' xmlns:stream='http://etherx.jabber.org/streams'>" + string(seg) + closeTag
		toks, err := common.Tokenize([]byte(doc))
		if err != nil {
			return append(items, "malformed"), err
		}
		depth := 0
		for _, t := range toks[1 : len(toks)-1] {
			switch s := t.(type) {
			case xml.StartElement:
				if depth == 0 {
					if s.Name.Local == "error" && s.Name.Space == "http://etherx.jabber.org/streams" {
						items = append(items, "err")
					} else {
						items = append(items, "el")
					}
				}
				depth++
			case xml.EndElement:
				depth--
			}
		}
	}
	return items, nil
}

var peerOps = map[string]bool{"m": true, "y": true, "h": true, "s": true, "e": true, "p": true, "g": true, "d": true,
	"he": true, "hw": true, "hu": true, "hj": true, "hs": true, "hz": true, "hb": true}

type ctxT struct {
	r      *common.Run
	stalls int // reads that blocked: after a few, further reads are not waited for
}

// hist executes one history on a fresh session.
func (c *ctxT) hist(serve bool, ops []string, class string) {
	r := c.r
	line := fmt.Sprintf("hist %s %s", common.B(serve), common.Join(ops, ","))
	lines := []string{r.Prop + " " + line}
	t, err := newSess()
	if err != nil {
		r.Line(line, "ERR "+err.Error())
		return
	}
	defer t.close()
	if serve {
		t.startServe()
		// make sure Serve is reading before the first operation (a keep-alive is consumed at once)
		if !t.feedWithin(" ", 2*time.Second) {
			r.Line(line, "ERR serve does not read")
			detail := "Serve, started on a freshly negotiated session, does not read from the connection"
			if t.waitServe(0) {
				detail = fmt.Sprintf("Serve, started on a freshly negotiated session (the negotiation context has been released), returned %q at once although the peer has not closed its stream", classifyRet(t.ret))
			}
			r.Fail("serve-returns", "serve-does-not-serve", lines, detail)
			return
		}
	}
	var res []string
	closedKnown := false // a Close has returned or Serve has returned
	errExpected := false // Serve ended by sending a stream error of its own while the output was still open
	termEvent := ""
	lastDeadline := ""
	deadlineAtTerm := ""
	fail := func(clause, key, detail string) { r.Fail(clause, key, lines, detail) }
	for n, op := range ops {
		switch {
		case op == "c":
			var e error
			ok := common.WithTimeout(5*time.Second, func() { e = t.s.Close() })
			switch {
			case !ok:
				res = append(res, "STALL")
				fail("close-returns", "Close", "Close did not return")
			case e != nil:
				res = append(res, "err:"+e.Error())
			default:
				res = append(res, "ok")
			}
			closedKnown = true
		case strings.HasPrefix(op, "t"):
			before := t.out.Len()
			x := t.tx(op, n)
			res = append(res, x)
			if closedKnown {
				if x != "closedout" {
					fail("closed-error", txNames[op], fmt.Sprintf("%s after the output stream was closed returned %q instead of ErrOutputStreamClosed", txNames[op], x))
				}
				if t.out.Len() != before {
					fail("final", txNames[op], fmt.Sprintf("%s wrote %d bytes after the closing tag", txNames[op], t.out.Len()-before))
				}
			} else if x != "ok" {
				fail("transmit-open", txNames[op], fmt.Sprintf("%s on an open stream returned %q", txNames[op], x))
			}
		case op == "r":
			if !t.served {
				res = append(res, "na")
				break
			}
			if c.stalls >= 5 {
				res = append(res, "STALL")
				break
			}
			var e error
			ok := common.WithTimeout(3*time.Second, func() {
				rc := t.s.TokenReader()
				_, e = rc.Token()
				rc.Close()
			})
			switch {
			case !ok:
				c.stalls++
				res = append(res, "STALL")
				fail("read-after", "TokenReader", "a read after Serve returned blocks instead of failing")
			case errors.Is(e, xmpp.ErrInputStreamClosed):
				res = append(res, "closedin")
			default:
				res = append(res, fmt.Sprintf("err:%v", e))
				fail("read-after", "TokenReader", fmt.Sprintf("a read after Serve returned gave %v, not ErrInputStreamClosed", e))
			}
		case op == "dp" || op == "df" || op == "dz":
			when := map[string]time.Time{"dp": time.Unix(1, 0), "df": time.Now().Add(time.Hour), "dz": {}}[op]
			if e := t.s.SetCloseDeadline(when); e != nil {
				fail("deadline", "SetCloseDeadline", e.Error())
			}
			lastDeadline = op
			if op == "dp" && t.started && !t.served {
				// a read deadline in the past interrupts the read Serve is blocked in
				if !t.waitServe(5 * time.Second) {
					res = append(res, "STALL")
					fail("serve-returns", op, "Serve did not return after a close deadline in the past was set")
					continue
				}
				termEvent, closedKnown, deadlineAtTerm = op, true, lastDeadline
			}
			res = append(res, "ok")
		case op == "v":
			if t.started {
				res = append(res, "na")
				break
			}
			t.startServe()
			// Serve either reads (a keep-alive is consumed at once) or has returned
			if !t.feedWithin(" ", 80*time.Millisecond) {
				if t.waitServe(3 * time.Second) {
					termEvent, closedKnown, deadlineAtTerm = op, true, lastDeadline
				} else {
					fail("serve-returns", op, "Serve neither reads nor returns")
				}
			}
			if lastDeadline == "df" && t.served && classifyRet(t.ret) == "deadline" {
				fail("deadline-last-wins", "SetCloseDeadline", "the last close deadline set is an hour away, yet Serve returned a deadline error without reading")
			}
			if (lastDeadline == "dp" || lastDeadline == "dz") && !t.served {
				fail("deadline-last-wins", "SetCloseDeadline", "the last close deadline set has passed, yet Serve keeps running")
			}
			res = append(res, "ok")
		case peerOps[op]:
			if !t.started || t.served {
				res = append(res, "na")
				break
			}
			outWasClosed := t.s.State()&xmpp.OutputStreamClosed != 0
			terminal := false
			switch op {
			case "m", "y", "h", "s", "he", "hw", "hu", "hj", "hs", "hz", "hb":
				t.mu.Lock()
				t.plan = append(t.plan, op)
				t.mu.Unlock()
				if !t.feed(`<message id='in` + fmt.Sprint(n) + `' type='chat'/>`) {
					res = append(res, "STALL")
					continue
				}
				preempted := false
				select {
				case <-t.handled:
				case err := <-t.serveRet:
					// Serve returned at the top of its loop without reading the element
					t.served, t.ret, preempted = true, err, true
				case <-time.After(5 * time.Second):
					res = append(res, "STALL")
					continue
				}
				terminal = preempted || op == "h" || op == "s" || handlerErrs[op] != nil || (op == "y" && outWasClosed)
				if !terminal {
					// a keep-alive is only read once the previous element has been dealt with
					t.feedWithin(" ", 2*time.Second)
				}
			case "e":
				t.feed(`<stream:error><host-gone xmlns='urn:ietf:params:xml:ns:xmpp-streams'/></stream:error>`)
				terminal = true
			case "p":
				t.feed(closeTag)
				terminal = true
			case "g":
				t.feed(`x<a/>`)
				terminal = true
			case "d":
				if e := t.s.SetCloseDeadline(time.Now().Add(15 * time.Millisecond)); e != nil {
					fail("deadline", "SetCloseDeadline", e.Error())
				}
				terminal = true
			}
			if terminal {
				if !t.waitServe(5 * time.Second) {
					res = append(res, "STALL")
					fail("serve-returns", op, "Serve did not return after event "+op)
					continue
				}
				termEvent = op
				deadlineAtTerm = lastDeadline
				closedKnown = true
				errExpected = !outWasClosed && (op == "h" || op == "s" || op == "g" || handlerErrs[op] != nil) && lastDeadline != "dz"
			}
			res = append(res, "ok")
		default:
			res = append(res, "?")
		}
	}
	wire := t.out.Bytes()
	items, werr := wireItems(wire)
	st := t.s.State()
	ret := "notstarted"
	if t.started {
		ret = "running"
		if t.waitServe(0) {
			ret = classifyRet(t.ret)
		}
	}
	// the model has no stream-error item (the error is never flushed: known finding)
	var shown []string
	nClose, afterClose, errBeforeClose := 0, 0, false
	for _, it := range items {
		if it == "close" {
			nClose++
		} else if nClose > 0 {
			afterClose++
		}
		if it == "err" && nClose == 0 {
			errBeforeClose = true
		}
		shown = append(shown, it)
	}
	obs := fmt.Sprintf("%s %s %s%s %s", common.Join(res, ","), common.Join(shown, ","),
		common.B(st&xmpp.OutputStreamClosed != 0), common.B(st&xmpp.InputStreamClosed != 0), ret)
	r.Line(line, obs)
	r.Case(line, true, class+"/"+fmt.Sprint(len(ops)))

	// ---- the property's clauses on the real session ----
	if werr != nil {
		fail("wellformed", "wire", werr.Error())
	}
	if nClose > 1 {
		fail("close-once", "closing-tags", fmt.Sprintf("%d closing tags on the wire", nClose))
	}
	if closedKnown && nClose != 1 {
		fail("close-once", "closing-tags", fmt.Sprintf("%d closing tags after a close returned", nClose))
	}
	if afterClose > 0 {
		fail("final", "after-tag", fmt.Sprintf("%d items follow the closing tag: %v", afterClose, items))
	}
	if termEvent != "" {
		want := map[string]string{"p": "nil", "e": "peerstreamerr", "s": "streamerr", "h": "handlererr", "g": "garbage", "d": "deadline", "y": "closedout",
			"dp": "deadline", "v": "deadline", "m+": "deadline", "y+": "deadline",
			"he": "unexpectedeof", "hw": "handlererr", "hu": "handlererr", "hj": "handlererr", "hs": "streamerr", "hz": "handlererr", "hb": "streamerr"}[termEvent]
		if deadlineAtTerm == "dz" && termEvent != "d" && termEvent != "dp" && termEvent != "g" {
			// the context in force had expired (zero time): Serve gives up at its next look at it
			want = "deadline"
		}
		if want == "deadline" && termEvent != "d" && deadlineAtTerm == "df" {
			fail("deadline-last-wins", "SetCloseDeadline", "the last close deadline set is an hour away, yet Serve returned a deadline error")
		}
		if ret == "nil" && termEvent != "p" {
			fail("serve-nil-only-on-peer-close", termEvent, fmt.Sprintf("Serve returned nil after event %s: the peer has not closed its stream", termEvent))
		} else if ret != want {
			fail("serve-returns", termEvent, fmt.Sprintf("Serve returned %q after event %s, expected %q", ret, termEvent, want))
		}
		if st&xmpp.OutputStreamClosed == 0 || st&xmpp.InputStreamClosed == 0 {
			fail("both-closed", termEvent, fmt.Sprintf("state %08b after Serve returned", st))
		}
		if errExpected && !errBeforeClose {
			fail("stream-error-exchanged", "sendError-unflushed", fmt.Sprintf("Serve ended with a stream error of its own (event %s) but no <stream:error/> precedes the closing tag: %q", termEvent, clip(wire)))
		}
	}
}

// whist: Close and transmit calls on a session whose failAt-th connection write is cut
// short (no Serve).
func (c *ctxT) whist(failAt int, ops []string) {
	r := c.r
	fa := "-"
	if failAt >= 0 {
		fa = fmt.Sprint(failAt)
	}
	line := fmt.Sprintf("whist %s %s", fa, common.Join(ops, ","))
	lines := []string{r.Prop + " " + line}
	t, err := newSessFault(failAt)
	if err != nil {
		r.Line(line, "ERR")
		return
	}
	defer t.close()
	var res []string
	closeTried := false
	for n, op := range ops {
		before := t.cst.n
		var x string
		if op == "c" {
			var e error
			if !common.WithTimeout(5*time.Second, func() { e = t.s.Close() }) {
				x = "STALL"
			} else if e == nil {
				x = "ok"
			} else {
				x = "ioerr"
			}
			if closeTried && t.cst.n != before {
				r.Fail("close-once", "write-fault", lines, "a second Close wrote to the connection again after the first attempt to write the closing tag")
			}
			closeTried = true
		} else {
			x = t.tx(op, n)
			if strings.HasPrefix(x, "err:") {
				x = "ioerr"
			}
			if closeTried {
				if x != "closedout" {
					r.Fail("closed-error", "write-fault/"+txNames[op], lines, fmt.Sprintf("%s after a (failed) Close returned %q", txNames[op], x))
				}
				if t.cst.n != before {
					r.Fail("final", "write-fault/"+txNames[op], lines, txNames[op]+" wrote to the connection after the closing tag was attempted")
				}
			}
		}
		res = append(res, x)
	}
	var items []string
	attempts := 0
	for _, w := range t.cst.log {
		isClose := bytes.HasPrefix(w.data, []byte("</"))
		if isClose {
			attempts++
		}
		switch {
		case isClose && w.cut:
			items = append(items, "closecut")
		case isClose:
			items = append(items, "close")
		case w.cut:
			items = append(items, "cut")
		default:
			items = append(items, "el")
		}
	}
	st := t.s.State()
	r.Line(line, fmt.Sprintf("%s %s %s %d", common.Join(res, ","), common.Join(items, ","), common.B(st&xmpp.OutputStreamClosed != 0), attempts))
	r.Case(line, true, "whist")
	if attempts > 1 {
		r.Fail("close-once", "write-fault", lines, fmt.Sprintf("the closing tag was written to the connection %d times: %q", attempts, clip(t.out.Bytes())))
	}
	if closeTried && st&xmpp.OutputStreamClosed == 0 {
		r.Fail("close-once", "write-fault/bit", lines, "Close returned but the output is not marked closed")
	}
}

// deadlineStorm: Serve handles a stream of stanzas while another goroutine keeps moving the
// close deadline (an hour ahead): nothing orders the two, so unsynchronised access to the input
// context shows up in the race detector.  Serve must handle everything and end with nil.
func (c *ctxT) deadlineStorm() {
	r := c.r
	r.Mark("case deadline-storm")
	t, err := newSess()
	if err != nil {
		return
	}
	defer t.close()
	t.startServe()
	const n = 150
	go func() {
		for i := 0; i < n; i++ {
			<-t.handled
		}
	}()
	var wg sync.WaitGroup
	wg.Add(1)
	go func() {
		defer wg.Done()
		for i := 0; i < n; i++ {
			t.feedWithin(fmt.Sprintf("<message id='s%d' type='chat'/> ", i), 5*time.Second)
		}
		t.feedWithin(closeTag, 5*time.Second)
	}()
	for i := 0; i < n; i++ {
		t.s.SetCloseDeadline(time.Now().Add(time.Hour))
	}
	wg.Wait()
	lines := []string{"#scenario=deadline-storm"}
	if !t.waitServe(10 * time.Second) {
		r.Fail("serve-returns", "deadline-storm", lines, "Serve did not return after the peer closed the stream")
		return
	}
	if got := classifyRet(t.ret); got != "nil" {
		r.Fail("deadline-last-wins", "deadline-storm", lines, "every deadline set was an hour away, Serve returned "+got)
	}
	r.Case("deadline-storm", true, "deadline-storm")
}

// closeBlocked: Close while the connection does not take the closing tag (synchronous
// transport, peer busy).  While Close waits in its write the session must keep reading: Serve
// handles the peer's stanzas and State() answers.  Then the write is let through.
func (c *ctxT) closeBlocked() {
	r := c.r
	line := "closeblock"
	lines := []string{r.Prop + " " + line}
	t, err := newSess()
	if err != nil {
		r.Line(line, "ERR")
		return
	}
	defer t.close()
	t.startServe()
	if !t.feedWithin(" ", 2*time.Second) {
		r.Line(line, "ERR serve does not read")
		return
	}
	gate := make(chan struct{})
	t.cst.setGate(gate)
	closeDone := make(chan error, 1)
	go func() { closeDone <- t.s.Close() }()
	select {
	case <-t.cst.entered:
	case <-time.After(3 * time.Second):
		close(gate)
		r.Line(line, "ERR close did not reach the connection")
		return
	}
	handled := 0
	for i := 0; i < 2; i++ {
		if !t.feedWithin(fmt.Sprintf("<message id='b%d' type='chat'/> ", i), time.Second) {
			break
		}
		select {
		case <-t.handled:
			handled++
		case <-time.After(time.Second):
		}
	}
	stateOK := common.WithTimeout(time.Second, func() { t.s.State() })
	reads := "ok"
	if handled < 2 || !stateOK {
		reads = "blocked"
		r.Fail("close-blocks-reads", "Close", lines, fmt.Sprintf("while Close waits for the connection to take the closing tag, Serve handled %d of 2 stanzas the peer sent and State() %s: the session's read path is blocked by Close", handled, map[bool]string{true: "returned", false: "blocked"}[stateOK]))
	}
	close(gate)
	select {
	case e := <-closeDone:
		if e != nil {
			r.Fail("close-returns", "closeblock", lines, e.Error())
		}
	case <-time.After(5 * time.Second):
		r.Fail("close-returns", "closeblock", lines, "Close did not return after the connection took the closing tag")
	}
	t.feedWithin(closeTag, 2*time.Second)
	if t.waitServe(5 * time.Second) {
		if got := classifyRet(t.ret); got != "nil" {
			r.Fail("serve-returns", "closeblock", lines, "Serve returned "+got)
		}
	} else {
		r.Fail("serve-returns", "closeblock", lines, "Serve did not return after the peer closed the stream")
	}
	tags := bytes.Count(t.out.Bytes(), []byte(closeTag))
	r.Line(line, fmt.Sprintf("reads=%s tags=%d", reads, tags))
	r.Case(line, true, "closeblock")
}

func clip(b []byte) string {
	if len(b) > 300 {
		return string(b[:300]) + "…"
	}
	return string(b)
}

var alphabet = []string{"c", "t1", "t2", "t3", "t4", "t5", "t6", "r", "m", "y", "h", "s", "e", "p", "g", "d", "dp", "df", "dz", "v"}

func enumerate(n int, f func([]string)) {
	buf := make([]string, n)
	var rec func(i int)
	rec = func(i int) {
		if i == n {
			f(append([]string(nil), buf...))
			return
		}
		for _, a := range alphabet {
			buf[i] = a
			rec(i + 1)
		}
	}
	rec(0)
}

func countD(ops []string) int {
	n := 0
	for _, o := range ops {
		if o == "d" {
			n++
		}
	}
	return n
}

// Run is the C10 runner.
func Run(r *common.Run) error {
	c := &ctxT{r: r}
	if r.Replay != "" {
		lines, err := common.ReplayLines(r.Replay)
		if err != nil {
			return err
		}
		for _, l := range lines {
			f := strings.Fields(l)
			if len(f) == 4 && f[0] == "C10" && f[1] == "hist" {
				var ops []string
				if f[3] != "-" {
					ops = strings.Split(f[3], ",")
				}
				c.hist(f[2] == "1", ops, "replay")
			}
			if len(f) == 4 && f[0] == "C10" && f[1] == "sched" {
				c.schedules(true)
			}
			if len(f) == 2 && f[0] == "C10" && f[1] == "closeblock" {
				c.closeBlocked()
			}
			if len(f) == 5 && f[0] == "C10" && f[1] == "abandon" {
				c.abandon(f[2], f[3], f[4] == "1")
			}
			if len(f) == 4 && f[0] == "C10" && f[1] == "whist" {
				fa := -1
				if f[2] != "-" {
					fmt.Sscan(f[2], &fa)
				}
				c.whist(fa, strings.Split(f[3], ","))
			}
			if len(f) == 4 && f[0] == "C10" && (f[1] == "tee" || f[1] == "teer") {
				k := -1
				if f[2] != "-" {
					fmt.Sscan(f[2], &k)
				}
				c.teeHistRole(f[1] == "teer", k, strings.Split(f[3], ","))
			}
			if len(f) == 3 && f[0] == "C10" && f[1] == "wdl" {
				c.wdlHist(strings.Split(f[2], ","))
			}
			if len(f) == 5 && f[0] == "C10" && f[1] == "fr" {
				var ops []string
				if f[4] != "-" {
					ops = strings.Split(f[4], ",")
				}
				c.frHist(f[2] == "ws", f[3] == "recv", ops)
			}
			if len(f) == 3 && f[0] == "C10" && f[1] == "srv" {
				c.srv(strings.Split(f[2], ","))
			}
			if len(f) == 4 && f[0] == "C10" && f[1] == "held" {
				c.heldReader(f[2], f[3])
			}
			if len(f) >= 1 && strings.HasPrefix(f[0], "#scenario=tokenwriter-held") {
				c.heldWriter(true)
				c.heldWriter(false)
				continue
			}
			if len(f) >= 1 && strings.HasPrefix(f[0], "#scenario=") {
				c.schedules(true)
				for i := 0; i < 3; i++ {
					c.deadlineStorm()
				}
			}
		}
		return nil
	}
	if r.Race() {
		// race-detector run: the concurrent scenarios only, and histories in which
		// SetCloseDeadline and Close run while Serve is active
		c.schedules(true)
		for i := 0; i < 5; i++ {
			c.deadlineStorm()
			c.closeBlocked()
			for _, kind := range abandonKinds {
				c.abandon(abandonOps[i%len(abandonOps)], kind, false)
			}
		}
		for _, h := range [][]string{{"ao", "aw", "v", "dc", "ro"}, {"ao", "v", "dy", "dc", "ro"}, {"ai", "v", "x", "ri"}, {"v", "c", "dy"},
			{"ao", "v", "db", "ai", "ro", "ri"}, {"v", "dy", "ao", "dy", "x", "aw", "ro"}, {"v", "ds", "dy", "ao", "dc", "c"}} {
			c.srv(h)
		}
		for _, ws := range []bool{false, true} {
			for _, recv := range []bool{false, true} {
				for _, h := range [][]string{{"y", "c", "q"}, {"t1", "p"}, {"c", "t2", "q", "p"}} {
					c.frHist(ws, recv, h)
				}
			}
		}
		for _, h := range [][]string{{"d"}, {"m", "df", "m", "dp"}, {"df", "c", "p"}, {"y", "dz", "y"}, {"m", "d"}, {"c", "dp"}} {
			for i := 0; i < 10; i++ {
				c.hist(true, h, "race")
			}
		}
		return nil
	}
	// smoke: a served session handles a stanza and ends cleanly when the peer closes its stream.
	// On a tree where not even that works the failure is reported with this replay and the
	// scenarios whose watchdogs assume a working Serve (seconds each) are not run.
	r.Mark("case smoke")
	c.hist(true, []string{"m", "p"}, "smoke")
	c.hist(true, []string{"m", "m", "c", "p"}, "smoke")
	if len(r.Failures) > 0 {
		for _, h := range [][]string{{"p"}, {"m"}, {"y", "p"}, {"c", "p"}, {"t1", "m", "p"}, {"d"}, {"df", "m", "p"}} {
			c.hist(true, h, "smoke")
		}
		c.hist(false, []string{"v", "m", "p"}, "smoke")
		r.Notes = append(r.Notes, "Serve does not serve on this tree (smoke histories failed): the remaining scenarios were skipped")
		return nil
	}
	r.Mark("case close-blocked")
	c.closeBlocked()
	c.envCases()
	c.framingCases()
	c.srvCases()
	r.Mark("case abandoned transmit calls")
	for i, op := range abandonOps {
		for k, kind := range abandonKinds {
			c.abandon(op, kind, false)
			// waiting for a real close deadline: a few combinations (all in the thorough tier)
			if r.Pick(0, 1) == 1 || (i+k)%4 == 0 && kind != "alive" {
				c.abandon(op, kind, true)
			}
		}
	}
	r.Mark("case corpus")
	for _, h := range [][]string{
		{"c", "t1"}, {"c", "t2"}, {"c", "t3"}, {"c", "t4"}, {"c", "t5"}, {"c", "t6"}, {"c", "c"},
	} {
		c.hist(false, h, "corpus")
	}
	for _, h := range [][]string{
		{"c", "hb"}, {"c", "hb", "t1"}, {"c", "m", "hb", "c"}, {"c", "y"}, {"c", "hs"}, {"c", "h"}, {"c", "g"}, {"c", "e"},
		{"h", "t1"}, {"s", "t2"}, {"p", "r"}, {"e", "r", "t1"}, {"c", "y"}, {"c", "p", "c"}, {"d"}, {"c", "d", "r"}, {"g"}, {"m", "y", "c", "m", "p"},
	} {
		c.hist(true, h, "corpus")
	}
	// every value a handler may return (identical / wrapped sentinels, joined, wrapped stream and
	// stanza errors) in every history of length <= 3 over a reduced alphabet, exactly once
	small := []string{"c", "t1", "m", "y", "p", "df", "dz", "r"}
	for _, he := range append([]string{"h", "s"}, handlerErrOps...) {
		c.hist(true, []string{he}, "handler-errors")
		for _, a := range small {
			c.hist(true, []string{a, he}, "handler-errors")
			c.hist(true, []string{he, a}, "handler-errors")
			for _, b := range small {
				c.hist(true, []string{a, b, he}, "handler-errors")
				c.hist(true, []string{a, he, b}, "handler-errors")
			}
		}
		c.hist(false, []string{"v", he, "r"}, "handler-errors")
	}
	r.Exhaustive = append(r.Exhaustive, fmt.Sprintf("every handler return value of %v (and the plain / stream error) at every position of every history of length <= 3 with the other operations from %v", handlerErrOps, small))
	// the longest histories only over the operations that do not involve explicit deadline times
	isNew := map[string]bool{"dp": true, "df": true, "dz": true, "v": true}
	maxLen := r.Pick(3, 4)
	for n := 0; n <= maxLen; n++ {
		enumerate(n, func(ops []string) {
			// the deadline event waits for real time: at most one, and not in the longest histories
			if countD(ops) > 1 || (n == maxLen && countD(ops) > 0) {
				return
			}
			peer, hasNew, hasV := false, false, false
			for _, o := range ops {
				peer = peer || peerOps[o]
				hasNew = hasNew || isNew[o]
				hasV = hasV || o == "v"
			}
			if hasNew && n == maxLen {
				return
			}
			c.hist(true, ops, "exhaustive")
			if !peer || hasV {
				c.hist(false, ops, "exhaustive")
			}
		})
	}
	r.Exhaustive = append(r.Exhaustive, fmt.Sprintf("all histories of length <= %d over %v (the timed deadline event at most once; it, the explicit deadlines and the late start of Serve only up to length %d), with Serve running from the start, and without", maxLen, alphabet, maxLen-1))
	// several deadlines before and during Serve: the last one is in force
	dk := []string{"dp", "df", "dz"}
	for _, a := range dk {
		for _, b := range dk {
			for _, tail := range [][]string{{"v", "m", "m", "p"}, {"v", "y", "c", "p"}, {"v", "t1", "e"}} {
				c.hist(false, append([]string{a, b}, tail...), "deadlines")
				c.hist(false, append([]string{a, "t1", b, "c"}, tail...), "deadlines")
			}
			c.hist(true, []string{"m", a, "m", b, "m", "p"}, "deadlines")
			for _, x := range dk {
				c.hist(false, []string{a, b, x, "v", "m", "p"}, "deadlines")
			}
		}
	}
	// a connection write that fails, at every index
	wl := r.Pick(3, 4)
	wops := []string{"c", "t1", "t2", "t3", "t4", "t5", "t6"}
	for n := 1; n <= wl; n++ {
		buf := make([]string, n)
		var rec func(i int)
		rec = func(i int) {
			if i == n {
				for f := -1; f < n; f++ {
					c.whist(f, append([]string(nil), buf...))
				}
				return
			}
			for _, o := range wops {
				buf[i] = o
				rec(i + 1)
			}
		}
		rec(0)
	}
	r.Exhaustive = append(r.Exhaustive, fmt.Sprintf("all histories of length <= %d over %v x the index of the failing connection write (or none)", wl, wops))
	rnd := r.Rnd
	nRandom := r.Pick(300, 6000)
	for i := 0; i < nRandom; i++ {
		n := 3 + rnd.Intn(6)
		ops := make([]string, n)
		for k := range ops {
			ops[k] = alphabet[rnd.Intn(len(alphabet))]
			if rnd.Chance(1, 12) {
				ops[k] = handlerErrOps[rnd.Intn(len(handlerErrOps))]
			}
			if ops[k] == "d" && (countD(ops[:k]) > 0 || rnd.Chance(3, 4)) {
				ops[k] = "c"
			}
		}
		c.hist(rnd.Chance(3, 4), ops, "random")
	}
	c.schedules(false)
	return nil
}
