package c10

// Round D: three dimensions of the environment of a closing session.
//
//	tee <k|-> <op,…>          session negotiated by the library's own negotiator with
//	                          StreamConfig.TeeIn/TeeOut; the TeeOut writer fails from operation k on
//	    -> <res,…> <connection writes> <outClosed> <closing-tag writes>
//	wdl <op,…>                a transport that honours the write deadline on every write; transmit
//	                          calls whose context is alive (a), was over before the call on a
//	                          prompt transport (x), ends while the write is blocked (k); Close
//	    -> <res,…> <wire items> <outClosed> wd=<z|p|f> setters=<clean|calls>
//	held <pre|handler> <dp|dz|d>   a token reader held open across the end of Serve
//	    -> serve=<class> held=<ok|…> fresh=<closedin|…> bits=<oi>
//
// and the token WRITER held across Serve's shutdown, reported as a forced schedule (sched line).

import (
	"bytes"
	"context"
	"encoding/xml"
	"errors"
	"fmt"
	"io"
	"net"
	"os"
	"path/filepath"
	"strings"
	"sync"
	"time"

	"mellium.im/xmlstream"
	"mellium.im/xmpp"
	"mellium.im/xmpp/stanza"

	"verifharness/common"
)

// ---------------------------------------------------------------------------------------------
// tee

const teeHeader = `<?xml version="1.0"?><stream:stream id='abc' from='example.net' to='me@example.net' version='1.0' xmlns='jabber:client' xmlns:stream='http://etherx.jabber.org/streams'><stream:features/>`

// failWriter is a TeeIn/TeeOut writer (an XML console, a log file) that can be made to fail.
type failWriter struct {
	mu   sync.Mutex
	fail bool
	n    int
}

var errTee = errors.New("c10: the tee writer is gone")

func (w *failWriter) Write(p []byte) (int, error) {
	w.mu.Lock()
	defer w.mu.Unlock()
	if w.fail {
		return 0, errTee
	}
	w.n += len(p)
	return len(p), nil
}

func (w *failWriter) setFail(b bool) {
	w.mu.Lock()
	w.fail = b
	w.mu.Unlock()
}

func (w *failWriter) seen() int {
	w.mu.Lock()
	defer w.mu.Unlock()
	return w.n
}

// newTeeSess negotiates a session through xmpp.NewNegotiator (no features: ready after the first
// features list) with the given tee writers; either may be nil.
func newTeeSess(teeIn, teeOut io.Writer) (*tsess, error) { return newTeeSessRole(teeIn, teeOut, false) }

// newTeeSessRole: recv = the session is the receiving entity (xmpp.ReceiveSession; the peer
// selects the one feature that makes the session ready).
func newTeeSessRole(teeIn, teeOut io.Writer, recv bool) (*tsess, error) {
	c1, c2 := net.Pipe()
	t := &tsess{peer: c2, out: &common.SafeBuffer{}, handled: make(chan string, 16), serveRet: make(chan error, 1)}
	t.cst = &connState{failAt: -1}
	hello := teeHeader
	if recv {
		hello = `<?xml version="1.0"?><stream:stream to='example.net' from='me@example.net' version='1.0' xmlns='jabber:client' xmlns:stream='http://etherx.jabber.org/streams'><ready xmlns="` + nsReady + `"/>`
	}
	go c2.Write([]byte(hello))
	ctx, cancel := context.WithTimeout(context.Background(), 10*time.Second)
	defer cancel()
	neg := xmpp.NewNegotiator(func(*xmpp.Session, *xmpp.StreamConfig) xmpp.StreamConfig {
		cfg := xmpp.StreamConfig{TeeIn: teeIn, TeeOut: teeOut}
		if recv {
			cfg.Features = []xmpp.StreamFeature{readyFeature()}
		}
		return cfg
	})
	var s *xmpp.Session
	var err error
	if recv {
		s, err = xmpp.ReceiveSession(ctx, conn{Conn: c1, out: t.out, st: t.cst}, 0, neg)
	} else {
		s, err = xmpp.NewSession(ctx, remoteJID, localJID.Bare(), conn{Conn: c1, out: t.out, st: t.cst}, 0, neg)
	}
	if err != nil {
		c2.Close()
		return nil, err
	}
	if s.State()&xmpp.Ready == 0 {
		c2.Close()
		return nil, fmt.Errorf("negotiated session is not ready: %v", s.State())
	}
	t.s = s
	return t, nil
}

// connItems classifies the connection writes from index base on.
func (t *tsess) connItems(base int) (items []string, attempts int) {
	t.cst.mu.Lock()
	defer t.cst.mu.Unlock()
	for _, w := range t.cst.log[base:] {
		if bytes.HasPrefix(w.data, []byte("</")) {
			attempts++
			items = append(items, "close")
		} else {
			items = append(items, "el")
		}
	}
	return
}

func (t *tsess) connWrites() int {
	t.cst.mu.Lock()
	defer t.cst.mu.Unlock()
	return len(t.cst.log)
}

// teeHist: Close, the transmit entry points and the peer's closing tag (Serve's own shutdown) on
// a session whose output is copied to a tee writer that fails from operation failFrom on.
func (c *ctxT) teeHist(failFrom int, ops []string) { c.teeHistRole(false, failFrom, ops) }

// teeHistRole: recv = the tee'd session is the receiving entity (line `teer`).
func (c *ctxT) teeHistRole(recv bool, failFrom int, ops []string) {
	r := c.r
	ff := "-"
	if failFrom >= 0 {
		ff = fmt.Sprint(failFrom)
	}
	word := "tee"
	if recv {
		word = "teer"
	}
	line := fmt.Sprintf("%s %s %s", word, ff, common.Join(ops, ","))
	lines := []string{r.Prop + " " + line}
	teeOut, teeIn := &failWriter{}, &failWriter{}
	t, err := newTeeSessRole(teeIn, teeOut, recv)
	if err != nil {
		r.Line(line, "ERR "+err.Error())
		return
	}
	defer t.close()
	if teeOut.seen() == 0 || teeIn.seen() == 0 {
		r.Line(line, "ERR the tee writers are not in use")
		return
	}
	t.startServe()
	if !t.feedWithin(" ", 2*time.Second) {
		r.Line(line, "ERR serve does not read")
		return
	}
	base := t.connWrites()
	var res []string
	closeTried := false
	for n, op := range ops {
		if n == failFrom {
			teeOut.setFail(true)
		}
		before := t.connWrites()
		var x string
		switch {
		case op == "c":
			var e error
			switch {
			case !common.WithTimeout(5*time.Second, func() { e = t.s.Close() }):
				x = "STALL"
			case e == nil:
				x = "ok"
			default:
				x = "ioerr"
			}
			if closeTried && t.connWrites() != before {
				r.Fail("close-once", "tee", lines, "a second close wrote to the connection again")
			}
			closeTried = true
		case op == "p":
			if t.served {
				x = "na"
				break
			}
			t.feed(closeTag)
			switch {
			case !t.waitServe(5 * time.Second):
				x = "STALL"
				r.Fail("serve-returns", "tee", lines, "Serve did not return after the peer closed its stream")
			case t.ret == nil:
				x = "ok"
			case errors.Is(t.ret, errTee):
				x = "ioerr"
			default:
				x = "err:" + classifyRet(t.ret)
			}
			if closeTried && t.connWrites() != before {
				r.Fail("close-once", "tee", lines, "Serve's shutdown wrote to the connection again after a close")
			}
			closeTried = true
		default:
			x = t.tx(op, n)
			if strings.HasPrefix(x, "err:") {
				x = "ioerr"
			}
			if closeTried {
				if x != "closedout" {
					r.Fail("closed-error", "tee/"+txNames[op], lines, fmt.Sprintf("%s after the output was closed returned %q", txNames[op], x))
				}
				if t.connWrites() != before {
					r.Fail("final", "tee/"+txNames[op], lines, txNames[op]+" wrote to the connection after the closing tag")
				}
			}
		}
		res = append(res, x)
	}
	items, attempts := t.connItems(base)
	st := t.s.State()
	r.Line(line, fmt.Sprintf("%s %s %s %d", common.Join(res, ","), common.Join(items, ","), common.B(st&xmpp.OutputStreamClosed != 0), attempts))
	r.Case(line, true, "tee")
	if attempts > 1 {
		r.Fail("close-once", "tee", lines, fmt.Sprintf("the closing tag reached the connection %d times (session negotiated with TeeOut, the tee writer fails): connection writes %v", attempts, items))
	}
	if closeTried && attempts != 1 {
		r.Fail("close-once", "tee", lines, fmt.Sprintf("%d closing tags reached the connection after a close returned", attempts))
	}
	seenClose := false
	for _, it := range items {
		if seenClose {
			r.Fail("final", "tee", lines, fmt.Sprintf("the connection saw %v: something follows the closing tag", items))
			break
		}
		seenClose = seenClose || it == "close"
	}
	if closeTried && st&xmpp.OutputStreamClosed == 0 {
		r.Fail("close-once", "tee/bit", lines, "a close returned but the output is not marked closed")
	}
}

// ---------------------------------------------------------------------------------------------
// write deadlines

// wdlHist: Close and transmit calls with contexts of every fate on a transport that honours the
// write deadline.  A transmit call must leave the connection's write deadline as it found it
// (cleared): what it leaves behind decides whether a later Close can write the closing tag.
func (c *ctxT) wdlHist(ops []string) {
	r := c.r
	line := fmt.Sprintf("wdl %s", common.Join(ops, ","))
	lines := []string{r.Prop + " " + line}
	t, err := newSess()
	if err != nil {
		r.Line(line, "ERR")
		return
	}
	defer t.close()
	t.cst.mu.Lock()
	t.cst.honourWd = true
	t.cst.mu.Unlock()
	var res []string
	closeReturned := false
	clean := true
	var odd []string
	for n, op := range ops {
		beforeCalls := len(t.cst.deadlineCalls())
		var x string
		switch {
		case op == "c":
			var e error
			switch {
			case !common.WithTimeout(5*time.Second, func() { e = t.s.Close() }):
				x = "STALL"
			case e == nil:
				x = "ok"
			default:
				x = "failed"
			}
			closeReturned = true
		case op == "dp" || op == "df":
			// a close deadline that has passed / is an hour ahead when the session is closed later:
			// it bounds Serve's wait for the peer, not the write of the closing tag
			when := time.Unix(1, 0)
			if op == "df" {
				when = time.Now().Add(time.Hour)
			}
			x = "ok"
			if e := t.s.SetCloseDeadline(when); e != nil {
				x = "failed"
			}
		case len(op) == 3 && op[0] == 't':
			name, fate := op[:2], op[2]
			ctx, cancel := context.WithCancel(context.Background())
			switch fate {
			case 'a':
				x = t.txCtx(ctx, name, n)
			case 'x':
				cancel()
				t.cst.mu.Lock()
				t.cst.hold = true
				t.cst.opBase = t.cst.nDone
				t.cst.mu.Unlock()
				x = t.txCtx(ctx, name, n)
			case 'k':
				gate := make(chan struct{})
				t.cst.setGate(gate)
				resc := make(chan string, 1)
				go func() { resc <- t.txCtx(ctx, name, n) }()
				select {
				case <-t.cst.entered:
					cancel()
					select {
					case x = <-resc:
					case <-time.After(6 * time.Second):
						x = "STALL"
					}
				case x = <-resc:
					// the call never reached the connection (closed output, dead encoder)
				case <-time.After(6 * time.Second):
					x = "STALL"
				}
				close(gate)
				t.cst.mu.Lock()
				t.cst.gate = nil
				t.cst.mu.Unlock()
			}
			cancel()
			if !t.cst.waitQuiet(2 * time.Second) {
				r.Fail("write-deadline-cleared", txNames[name], lines, "a deadline call made by the transmit call is still in flight 2 s after it returned")
			}
			t.cst.mu.Lock()
			t.cst.hold = false
			t.cst.mu.Unlock()
			if x != "ok" && x != "closedout" && x != "STALL" {
				x = "failed"
			}
			if closeReturned && x != "closedout" {
				r.Fail("closed-error", "wdl/"+txNames[name], lines, fmt.Sprintf("%s after Close returned %q", txNames[name], x))
			}
			// the calls on the connection: only the write deadline, into the past and cleared again, in this order
			var ks []string
			for _, cl := range t.cst.deadlineCalls()[beforeCalls:] {
				ks = append(ks, cl.kind+dlClass(cl.t))
			}
			for i := 0; i < len(ks); i += 2 {
				if ks[i] != "Wp" || i+1 >= len(ks) || ks[i+1] != "Wz" {
					clean = false
					odd = append(odd, fmt.Sprintf("%s:%s", op, strings.Join(ks, "+")))
					break
				}
			}
			t.cst.mu.Lock()
			wd := t.cst.wd
			t.cst.mu.Unlock()
			if !wd.IsZero() {
				r.Fail("write-deadline-cleared", txNames[name], lines, fmt.Sprintf("after %s (context fate %c) returned, the connection's write deadline is %s (deadline calls %v): every later write of the session, the closing tag included, times out", txNames[name], fate, dlClass(wd), ks))
			}
		default:
			x = "?"
		}
		res = append(res, x)
	}
	items, werr := wireItems(t.out.Bytes())
	if werr != nil {
		r.Fail("wellformed", "wdl", lines, werr.Error())
	}
	nClose := 0
	for _, it := range items {
		if it == "close" {
			nClose++
		}
	}
	st := t.s.State()
	t.cst.mu.Lock()
	wd := t.cst.wd
	t.cst.mu.Unlock()
	setters := "clean"
	if !clean {
		setters = strings.Join(odd, ";")
	}
	r.Line(line, fmt.Sprintf("%s %s %s wd=%s setters=%s", common.Join(res, ","), common.Join(items, ","), common.B(st&xmpp.OutputStreamClosed != 0), dlClass(wd), setters))
	r.Case(line, true, "wdl")
	if closeReturned && nClose != 1 {
		r.Fail("close-once", "wdl", lines, fmt.Sprintf("%d closing tags on the wire after Close returned on a healthy transport (write deadline now %q)", nClose, dlClass(wd)))
	}
	if nClose > 1 {
		r.Fail("close-once", "wdl", lines, fmt.Sprintf("%d closing tags", nClose))
	}
	if len(items) > 0 && nClose > 0 && items[len(items)-1] != "close" {
		r.Fail("final", "wdl", lines, fmt.Sprintf("wire %v", items))
	}
}

// ---------------------------------------------------------------------------------------------
// a token reader / writer held across the end of Serve

// heldReader: the application holds a TokenReader (taken before Serve is called, or by a handler
// that has consumed its element) when Serve ends through the close deadline.  The implementation
// is free to make Serve wait for the reader; but once Serve has returned, a read through ANY
// reader - the one still held included - fails (input-closed error; io.EOF of a closed handle).
func (c *ctxT) heldReader(acq, end string) {
	r := c.r
	line := fmt.Sprintf("held %s %s", acq, end)
	lines := []string{r.Prop + " " + line}
	t, err := newSess()
	if err != nil {
		r.Line(line, "ERR")
		return
	}
	defer t.close()
	setDeadline := func() {
		when := map[string]time.Time{"dp": time.Unix(1, 0), "dz": {}, "d": time.Now().Add(15 * time.Millisecond)}[end]
		t.s.SetCloseDeadline(when)
		if end == "d" {
			time.Sleep(25 * time.Millisecond)
		}
	}
	var rc xmlstream.TokenReadCloser
	switch acq {
	case "pre":
		if !common.WithTimeout(2*time.Second, func() { rc = t.s.TokenReader() }) {
			r.Line(line, "ERR no reader")
			return
		}
		setDeadline()
		t.startServe()
	case "handler":
		got := make(chan xmlstream.TokenReadCloser, 1)
		goOn := make(chan struct{})
		t.started = true
		go func() {
			t.serveRet <- t.s.Serve(xmpp.HandlerFunc(func(rw xmlstream.TokenReadEncoder, start *xml.StartElement) error {
				// consume the element: the session's own reader is given back at its end
				for {
					if _, err := rw.Token(); err != nil {
						break
					}
				}
				var rc xmlstream.TokenReadCloser
				if common.WithTimeout(2*time.Second, func() { rc = t.s.TokenReader() }) {
					got <- rc
				} else {
					got <- nil
				}
				<-goOn
				return nil
			}))
		}()
		if !t.feed(`<message id='held' type='chat'><body>x</body></message>`) {
			r.Line(line, "ERR serve does not read")
			return
		}
		select {
		case rc = <-got:
		case <-time.After(5 * time.Second):
		}
		if rc == nil {
			close(goOn)
			r.Line(line, "ERR the handler got no reader")
			return
		}
		setDeadline()
		close(goOn)
	}
	// something for a reader to find
	go t.peer.Write([]byte(`<message id='late' type='chat'/>`))
	classify := func(tok xml.Token, e error) string {
		switch {
		case errors.Is(e, xmpp.ErrInputStreamClosed):
			return "closedin"
		case e == io.EOF:
			return "eof"
		case e == nil:
			return fmt.Sprintf("token:%T", tok)
		}
		return "err"
	}
	held := "ok"
	if t.waitServe(150 * time.Millisecond) {
		// Serve did not wait for the reader: the reader must know that the stream is closed
		var tok xml.Token
		var e error
		if !common.WithTimeout(time.Second, func() { tok, e = rc.Token() }) {
			held = "blocks"
		} else if got := classify(tok, e); got != "closedin" {
			held = got
		}
		if held != "ok" {
			r.Fail("read-after", "held-reader", lines, fmt.Sprintf("Serve has returned (%s, state %08b) while a token reader taken earlier (%s) is still open; a read through it gave %s instead of ErrInputStreamClosed", classifyRet(t.ret), t.s.State(), acq, held))
		}
		rc.Close()
	} else {
		rc.Close()
		if !t.waitServe(5 * time.Second) {
			r.Fail("serve-returns", "held-reader", lines, "Serve did not return after the close deadline passed and the reader was given back")
			r.Line(line, "serve=never")
			return
		}
		tok, e := rc.Token()
		if got := classify(tok, e); got != "eof" && got != "closedin" {
			held = got
			r.Fail("read-after", "held-reader", lines, "a read through the closed reader gave "+got)
		}
	}
	fresh := "STALL"
	common.WithTimeout(2*time.Second, func() {
		f := t.s.TokenReader()
		tok, e := f.Token()
		f.Close()
		fresh = classify(tok, e)
	})
	if fresh != "closedin" {
		r.Fail("read-after", "TokenReader", lines, "a read after Serve returned gave "+fresh)
	}
	st := t.s.State()
	ret := classifyRet(t.ret)
	if ret != "deadline" {
		r.Fail("serve-returns", "held-reader", lines, "Serve returned "+ret+" after the close deadline passed")
	}
	if st&xmpp.OutputStreamClosed == 0 || st&xmpp.InputStreamClosed == 0 {
		r.Fail("both-closed", "held-reader", lines, fmt.Sprintf("state %08b after Serve returned", st))
	}
	r.Line(line, fmt.Sprintf("serve=%s held=%s fresh=%s bits=%s%s", ret, held, fresh, common.B(st&xmpp.OutputStreamClosed != 0), common.B(st&xmpp.InputStreamClosed != 0)))
	r.Case(line, true, "held")
}

// heldWriter: a TokenWriter is open (its element half written) when Serve shuts down because the
// peer closed its stream, or when Close is called: the closing tag waits for the writer.  As a
// schedule of the LTS: sender 0 holds the lock, closer 1 queues.
func (c *ctxT) heldWriter(viaServe bool) {
	r := c.r
	name := "tokenwriter-held/close"
	if viaServe {
		name = "tokenwriter-held/serve-shutdown"
	}
	t, err := newSess()
	if err != nil {
		return
	}
	defer t.close()
	stall := func(what string) {
		r.Fail("schedule-stalls", "sched/"+name, []string{"#scenario=" + name}, what)
	}
	if viaServe {
		t.startServe()
		if !t.feedWithin(" ", 2*time.Second) {
			return
		}
	}
	w := t.s.TokenWriter()
	start := stanza.Message{ID: "hw", Type: stanza.ChatMessage}.StartElement()
	if err := w.EncodeToken(start); err != nil {
		stall("EncodeToken on an open stream: " + err.Error())
		return
	}
	w.Flush()
	closed := make(chan error, 1)
	if viaServe {
		t.feed(closeTag)
		go func() {
			if t.waitServe(10 * time.Second) {
				closed <- t.ret
			}
		}()
	} else {
		go func() { closed <- t.s.Close() }()
	}
	early := false
	select {
	case <-closed:
		early = true
	case <-time.After(120 * time.Millisecond):
	}
	if bytes.Contains(t.out.Bytes(), []byte(closeTag)) {
		early = true
	}
	if early {
		r.Fail("final", "sched/"+name, []string{"#scenario=" + name}, fmt.Sprintf("the closing tag did not wait for the open token writer: wire %q", clip(t.out.Bytes())))
	}
	res0 := "ok"
	if err := w.EncodeToken(start.End()); err != nil {
		res0 = "fail"
	}
	if err := w.Close(); err != nil {
		res0 = "fail"
	}
	res1 := "ok"
	if !early {
		select {
		case e := <-closed:
			if e != nil {
				res1 = "fail"
			}
		case <-time.After(5 * time.Second):
			stall("the close did not finish after the token writer was closed")
			return
		}
	}
	// the closed handle, and a new writer
	before := t.out.Len()
	e1 := w.EncodeToken(start)
	nw := t.s.TokenWriter()
	e2 := nw.EncodeToken(start)
	nw.Close()
	if e1 == nil || !errors.Is(e2, xmpp.ErrOutputStreamClosed) || t.out.Len() != before {
		r.Fail("closed-error", "sched/"+name, []string{"#scenario=" + name}, fmt.Sprintf("after the close: the old writer returned %v, a new one %v, %d bytes written", e1, e2, t.out.Len()-before))
	}
	c.report(scenario{name: name, kinds: []string{"s1", "c"}, order: []int{0, 1}, results: []string{res0, res1},
		wire: t.out.Bytes(), ids: map[string]int{"hw": 0}})
}

var wdlFull = []string{"c", "t1a", "t1x", "t2x", "t3x", "t4x", "t6x", "t1k", "t2k", "dp", "df"}
var wdlSmall = []string{"c", "t1a", "t1x", "t2x", "t1k", "dp"}
var teeOps = []string{"c", "t1", "t2", "t3", "t4", "t5", "t6", "p"}
var teeSmall = []string{"c", "t1", "t2", "p"}

func pickS(r *common.Run, quick, thorough []string) []string {
	if r.Pick(0, 1) == 1 {
		return thorough
	}
	return quick
}

func enumOver(alpha []string, n int, f func([]string)) {
	buf := make([]string, n)
	var rec func(i int)
	rec = func(i int) {
		if i == n {
			f(append([]string(nil), buf...))
			return
		}
		for _, a := range alpha {
			buf[i] = a
			rec(i + 1)
		}
	}
	rec(0)
}

// envCases runs the three dimensions of round D.
func (c *ctxT) envCases() {
	r := c.r
	r.Mark("case tee")
	for n := 1; n <= 2; n++ {
		enumOver(teeOps, n, func(ops []string) {
			for k := -1; k < n; k++ {
				c.teeHist(k, ops)
			}
		})
	}
	enumOver(pickS(r, teeSmall, teeOps), 3, func(ops []string) {
		for k := -1; k < 3; k++ {
			c.teeHist(k, ops)
		}
	})
	for n := 1; n <= 2; n++ {
		enumOver(teeOps, n, func(ops []string) {
			for k := -1; k < n; k++ {
				c.teeHistRole(true, k, ops)
			}
		})
	}
	r.Exhaustive = append(r.Exhaustive, "the same in the receiving role (xmpp.ReceiveSession), all histories of length <= 2")
	r.Exhaustive = append(r.Exhaustive, fmt.Sprintf("sessions negotiated by xmpp.NewNegotiator with TeeIn and TeeOut: all histories of length <= 2 over %v (length 3 over %v; thorough: all) x the operation from which the TeeOut writer fails (or never)", teeOps, teeSmall))
	r.Mark("case write deadlines")
	for n := 1; n <= 2; n++ {
		enumOver(wdlFull, n, c.wdlHist)
	}
	enumOver(pickS(r, wdlSmall, wdlFull), 3, c.wdlHist)
	r.Exhaustive = append(r.Exhaustive, fmt.Sprintf("transport honouring write deadlines: all histories of length <= 2 over %v (length 3 over %v; thorough: all); a = context alive, x = over before the call, k = cancelled while the write is blocked; dp/df = SetCloseDeadline(far past / an hour ahead) before the session is closed", wdlFull, wdlSmall))
	r.Mark("case held readers and writers")
	for _, acq := range []string{"pre", "handler"} {
		for _, end := range []string{"dp", "dz", "d"} {
			c.heldReader(acq, end)
		}
	}
	c.heldWriter(true)
	c.heldWriter(false)
}

// ---------------------------------------------------------------------------------------------
// probe facts of round D (run by `harness facts`)

var teeProbeWays = []string{"Close", "Close+Close", "Serve+peerClose"}

// teeCell: a session negotiated with no tee / a working tee / a TeeOut writer that fails when the
// session is closed: closing tags the connection saw, what the closing calls returned, the bit.
func teeCell(tee, way string) (tags int, res string, bit bool) {
	var teeIn, teeOut *failWriter
	var in, out io.Writer
	if tee != "none" {
		teeIn, teeOut = &failWriter{}, &failWriter{}
		in, out = teeIn, teeOut
	}
	t, err := newTeeSess(in, out)
	if err != nil {
		return -1, "ERR", false
	}
	defer t.close()
	cls := func(e error) string {
		switch {
		case e == nil:
			return "ok"
		case errors.Is(e, errTee):
			return "ioerr"
		}
		return "other"
	}
	var rs []string
	base := t.connWrites()
	switch way {
	case "Close", "Close+Close":
		if tee == "failing" {
			teeOut.setFail(true)
		}
		for range strings.Split(way, "+") {
			var e error
			if !common.WithTimeout(3*time.Second, func() { e = t.s.Close() }) {
				rs = append(rs, "STALL")
			} else {
				rs = append(rs, cls(e))
			}
		}
	case "Serve+peerClose":
		t.startServe()
		t.feedWithin(" ", 2*time.Second)
		if tee == "failing" {
			teeOut.setFail(true)
		}
		t.feed(closeTag)
		if t.waitServe(3 * time.Second) {
			rs = append(rs, cls(t.ret))
		} else {
			rs = append(rs, "STALL")
		}
	}
	_, tags = t.connItems(base)
	return tags, strings.Join(rs, ","), t.s.State()&xmpp.OutputStreamClosed != 0
}

var wdProbeEntries = []string{"t1", "t2", "t3", "t4", "t6"}
var wdProbeFates = []struct {
	name string
	c    byte
}{{"alive", 'a'}, {"over", 'x'}, {"cancelled", 'k'}}

// wdCell: one transmit call with a context of the given fate on a transport that honours the
// write deadline (deadline calls scheduled adversarially), then Close.
func wdCell(op string, fate byte) (res string, clean, cleared bool, tags int) {
	dir, err := os.MkdirTemp("", "c10probe")
	if err != nil {
		return "ERR", false, false, -1
	}
	defer os.RemoveAll(dir)
	r, err := common.NewRun("C10", "quick", 1, dir, "")
	if err != nil {
		return "ERR", false, false, -1
	}
	c := &ctxT{r: r}
	c.wdlHist([]string{op + string(fate), "c"})
	r.Close()
	b, _ := os.ReadFile(filepath.Join(dir, "impl.out"))
	f := strings.Fields(strings.TrimPrefix(strings.TrimSpace(string(b)), "="))
	if len(f) != 5 {
		return "ERR", false, false, -1
	}
	cleared = f[3] == "wd=z"
	for _, fl := range r.Failures {
		if fl.Clause == "write-deadline-cleared" {
			cleared = false
		}
	}
	for _, it := range strings.Split(f[1], ",") {
		if it == "close" {
			tags++
		}
	}
	return strings.Split(f[0], ",")[0], f[4] == "setters=clean", cleared, tags
}

func envProbeFacts(sb *strings.Builder) {
	sb.WriteString("/-- PROBE (real sessions negotiated by xmpp.NewNegotiator): tee configuration x closing path:\n(closing tags the connection saw, results of the closing calls, output marked closed) -/\n")
	sb.WriteString("def teeCloseProbe : Option (List (String × List (String × String))) := some [\n")
	tees := []string{"none", "ok", "failing"}
	for i, tee := range tees {
		var l []string
		for _, w := range teeProbeWays {
			tags, res, bit := teeCell(tee, w)
			if tags < 0 {
				tags = 99
			}
			l = append(l, fmt.Sprintf("(%q, %q)", w, fmt.Sprintf("tags=%d res=%s closed=%v", tags, res, bit)))
		}
		sep := ","
		if i == len(tees)-1 {
			sep = "]"
		}
		fmt.Fprintf(sb, "  (%q, [%s])%s\n", tee, strings.Join(l, ", "), sep)
	}
	sb.WriteString("/-- PROBE (transport honouring the write deadline, deadline calls scheduled adversarially): entry point x fate of the call's context:\n(result, only \"past then clear\" pairs of SetWriteDeadline, write deadline cleared when the call returned, closing tags written by a following Close) -/\n")
	sb.WriteString("def writeDeadlineProbe : Option (List (String × List (String × String))) := some [\n")
	for i, op := range wdProbeEntries {
		var l []string
		for _, f := range wdProbeFates {
			res, clean, cleared, tags := wdCell(op, f.c)
			if tags < 0 {
				tags = 99
			}
			l = append(l, fmt.Sprintf("(%q, %q)", f.name, fmt.Sprintf("res=%s pairs=%v cleared=%v tags=%d", res, clean, cleared, tags)))
		}
		sep := ","
		if i == len(wdProbeEntries)-1 {
			sep = "]"
		}
		fmt.Fprintf(sb, "  (%q, [%s])%s\n", txNames[op], strings.Join(l, ", "), sep)
	}
}
