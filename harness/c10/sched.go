package c10

import (
	"fmt"
	"strings"
	"sync"
	"time"

	"mellium.im/xmpp"

	"verifharness/common"
)

// parker parks the first goroutine that reaches a chosen yield point.
type parker struct {
	mu      sync.Mutex
	point   string
	armed   bool
	arrived chan struct{}
	release chan struct{}
}

func newParker(point string) *parker {
	p := &parker{point: point, armed: true, arrived: make(chan struct{}, 1), release: make(chan struct{})}
	xmpp.VerifSetYield(func(at string) {
		p.mu.Lock()
		hit := p.armed && at == p.point
		if hit {
			p.armed = false
		}
		p.mu.Unlock()
		if hit {
			p.arrived <- struct{}{}
			<-p.release
		}
	})
	return p
}

func (p *parker) waitArrived() bool {
	select {
	case <-p.arrived:
		return true
	case <-time.After(3 * time.Second):
		return false
	}
}

func (p *parker) done() { xmpp.VerifSetYield(nil) }

func rep(i, n int) []string {
	out := make([]string, n)
	for k := range out {
		out[k] = fmt.Sprint(i)
	}
	return out
}

// scenario = goroutine kinds for the model, the order in which they enter their
// critical sections, and what was observed.
type scenario struct {
	name    string
	kinds   []string
	order   []int
	results []string // per goroutine: ok | fail
	wire    []byte
	ids     map[string]int // element id -> goroutine
}

func (c *ctxT) report(sc scenario) {
	r := c.r
	var sched []string
	for _, i := range sc.order {
		sched = append(sched, rep(i, 6)...)
	}
	line := fmt.Sprintf("sched %s %s", strings.Join(sc.kinds, ","), strings.Join(sched, ","))
	lines := []string{r.Prop + " " + line, "#scenario=" + sc.name}
	items, err := wireItems(sc.wire)
	var evs []string
	nClose, after := 0, 0
	if err != nil {
		r.Fail("wellformed", "sched/"+sc.name, lines, err.Error())
	}
	// identify the elements by their id attribute
	rest := string(sc.wire)
	for _, it := range items {
		switch it {
		case "close":
			nClose++
			evs = append(evs, "c")
		default:
			if nClose > 0 {
				after++
			}
			who := -1
			best := len(rest) + 1
			for id, g := range sc.ids {
				if k := strings.Index(rest, `id="`+id+`"`); k >= 0 && k < best {
					best, who = k, g
				}
			}
			if who >= 0 {
				rest = rest[best+1:]
			}
			evs = append(evs, fmt.Sprintf("d%d", who))
		}
	}
	obs := fmt.Sprintf("%s %s", common.Join(evs, ","), common.Join(sc.results, ","))
	r.Line(line, obs)
	r.Case(line, true, "sched/"+sc.name)
	if nClose != 1 {
		r.Fail("close-once", "sched/"+sc.name, lines, fmt.Sprintf("%d closing tags: %q", nClose, clip(sc.wire)))
	}
	if after > 0 {
		r.Fail("final", "sched/"+sc.name, lines, fmt.Sprintf("%d items after the closing tag: %q", after, clip(sc.wire)))
	}
}

func okFail(s string) string {
	if s == "ok" {
		return "ok"
	}
	return "fail"
}

// schedules forces the two-goroutine orderings the yield points allow.
func (c *ctxT) schedules(replay bool) {
	r := c.r
	r.Mark("case schedules")
	stall := func(name string) {
		r.Fail("schedule-stalls", "sched/"+name, []string{"#scenario=" + name}, "the forced schedule did not complete")
	}
	// 1. Close || Close: goroutine 0 parked at the entry, goroutine 1 closes, then 0
	func() {
		t, err := newSess()
		if err != nil {
			return
		}
		defer t.close()
		p := newParker("xmpp.Close.entry")
		defer p.done()
		res := make([]string, 2)
		var wg sync.WaitGroup
		wg.Add(1)
		go func() { defer wg.Done(); res[0] = classifyTx(t.s.Close()) }()
		if !p.waitArrived() {
			stall("close-close")
			return
		}
		res[1] = classifyTx(t.s.Close())
		close(p.release)
		if !common.WithTimeout(3*time.Second, wg.Wait) {
			stall("close-close")
			return
		}
		c.report(scenario{name: "close-close", kinds: []string{"c", "c"}, order: []int{1, 0}, results: []string{okFail(res[0]), okFail(res[1])}, wire: t.out.Bytes()})
	}()
	// 2. transmit holding the lock || Close queued behind it
	for _, op := range []string{"t1", "t2", "t3", "t6"} {
		point := map[string]string{"t1": "xmpp.send.locked", "t2": "xmpp.Encode.locked", "t3": "xmpp.EncodeElement.locked", "t6": "xmpp.send.locked"}[op]
		func() {
			t, err := newSess()
			if err != nil {
				return
			}
			defer t.close()
			p := newParker(point)
			defer p.done()
			res := make([]string, 2)
			var wg sync.WaitGroup
			wg.Add(1)
			go func() { defer wg.Done(); res[0] = t.tx(op, 0) }()
			if !p.waitArrived() {
				stall("send-close/" + op)
				return
			}
			wg.Add(1)
			go func() { defer wg.Done(); res[1] = classifyTx(t.s.Close()) }()
			time.Sleep(3 * time.Millisecond) // let Close reach the lock
			close(p.release)
			if !common.WithTimeout(3*time.Second, wg.Wait) {
				stall("send-close/" + op)
				return
			}
			c.report(scenario{name: "send-close/" + txNames[op], kinds: []string{"s1", "c"}, order: []int{0, 1},
				results: []string{okFail(res[0]), okFail(res[1])}, wire: t.out.Bytes(), ids: map[string]int{"x0": 0}})
			// and a transmit call after both: must fail without writing
			before := t.out.Len()
			if x := t.tx(op, 9); x != "closedout" || t.out.Len() != before {
				r.Fail("closed-error", txNames[op], []string{"#scenario=send-close/" + txNames[op]}, fmt.Sprintf("%s after close returned %q, wrote %d bytes", txNames[op], x, t.out.Len()-before))
			}
		}()
	}
	// 3. Close (user) || sendError: Serve's sendError parked at its entry, the user closes first
	func() {
		t, err := newSess()
		if err != nil {
			return
		}
		defer t.close()
		p := newParker("xmpp.sendError.entry")
		defer p.done()
		t.plan = []string{"h"}
		t.startServe()
		t.feed(`<message id='in' type='chat'/>`)
		if !p.waitArrived() {
			stall("close-senderror")
			return
		}
		res1 := classifyTx(t.s.Close())
		close(p.release)
		if !t.waitServe(3 * time.Second) {
			stall("close-senderror")
			return
		}
		if got := classifyRet(t.ret); got != "handlererr" {
			r.Fail("serve-returns", "sched/close-senderror", []string{"#scenario=close-senderror"}, "Serve returned "+got)
		}
		c.report(scenario{name: "close-senderror", kinds: []string{"e", "c", "c"}, order: []int{1, 0, 2},
			results: []string{"fail", okFail(res1), "ok"}, wire: t.out.Bytes()})
	}()
	// 4. sendError first, the user's Close parked at its entry until Serve has shut down
	func() {
		t, err := newSess()
		if err != nil {
			return
		}
		defer t.close()
		p := newParker("xmpp.Close.entry")
		defer p.done()
		var res1 string
		var wg sync.WaitGroup
		wg.Add(1)
		go func() { defer wg.Done(); res1 = classifyTx(t.s.Close()) }()
		if !p.waitArrived() {
			stall("senderror-close")
			return
		}
		t.plan = []string{"s"}
		t.startServe()
		t.feed(`<message id='in' type='chat'/>`)
		if !t.waitServe(3 * time.Second) {
			stall("senderror-close")
			return
		}
		close(p.release)
		if !common.WithTimeout(3*time.Second, wg.Wait) {
			stall("senderror-close")
			return
		}
		c.report(scenario{name: "senderror-close", kinds: []string{"e", "c", "c"}, order: []int{0, 2, 1},
			results: []string{"ok", okFail(res1), "ok"}, wire: t.out.Bytes()})
	}()
	// 5. Serve's shutdown after a peer close || user Close parked at its entry
	func() {
		t, err := newSess()
		if err != nil {
			return
		}
		defer t.close()
		p := newParker("xmpp.Close.entry")
		defer p.done()
		var res0 string
		var wg sync.WaitGroup
		wg.Add(1)
		go func() { defer wg.Done(); res0 = classifyTx(t.s.Close()) }()
		if !p.waitArrived() {
			stall("serve-shutdown-close")
			return
		}
		t.startServe()
		t.feed(closeTag)
		if !t.waitServe(3 * time.Second) {
			stall("serve-shutdown-close")
			return
		}
		close(p.release)
		if !common.WithTimeout(3*time.Second, wg.Wait) {
			stall("serve-shutdown-close")
			return
		}
		if got := classifyRet(t.ret); got != "nil" {
			r.Fail("serve-returns", "sched/serve-shutdown-close", []string{"#scenario=serve-shutdown-close"}, "Serve returned "+got)
		}
		c.report(scenario{name: "serve-shutdown-close", kinds: []string{"c", "c"}, order: []int{1, 0},
			results: []string{okFail(res0), "ok"}, wire: t.out.Bytes()})
	}()
	// 6. free-running: closers and senders released together
	n := r.Pick(60, 300)
	if replay {
		n = 200
	}
	for k := 0; k < n; k++ {
		c.freeRun(k)
	}
}

// freeRun starts closers and senders at once and checks the outcome against
// the model under the schedule the observation determines (elements in wire
// order, then the closers, then the senders that were refused).
func (c *ctxT) freeRun(k int) {
	r := c.r
	t, err := newSess()
	if err != nil {
		return
	}
	defer t.close()
	nS, nC := 2+k%5, 1+k%3
	ops := []string{"t1", "t2", "t3", "t5", "t6", "t4"}
	res := make([]string, nS+nC)
	var wg sync.WaitGroup
	start := make(chan struct{})
	kinds := make([]string, nS+nC)
	ids := map[string]int{}
	for i := 0; i < nS; i++ {
		kinds[i] = "s1"
		ids[fmt.Sprintf("x%d", i)] = i
		wg.Add(1)
		go func(i int) { defer wg.Done(); <-start; res[i] = t.tx(ops[(i+k)%len(ops)], i) }(i)
	}
	for i := nS; i < nS+nC; i++ {
		kinds[i] = "c"
		wg.Add(1)
		go func(i int) { defer wg.Done(); <-start; res[i] = classifyTx(t.s.Close()) }(i)
	}
	close(start)
	if !common.WithTimeout(10*time.Second, wg.Wait) {
		r.Fail("schedule-stalls", "sched/free", []string{"#scenario=free"}, "concurrent Close/transmit calls did not return")
		return
	}
	wire := t.out.Bytes()
	// order: senders whose element is on the wire, in wire order; closers; refused senders
	type pos struct{ g, at int }
	var on []pos
	for id, g := range ids {
		if at := strings.Index(string(wire), `id="`+id+`"`); at >= 0 {
			on = append(on, pos{g, at})
		}
	}
	for a := 0; a < len(on); a++ {
		for b := a + 1; b < len(on); b++ {
			if on[b].at < on[a].at {
				on[a], on[b] = on[b], on[a]
			}
		}
	}
	var order []int
	seen := map[int]bool{}
	for _, p := range on {
		order = append(order, p.g)
		seen[p.g] = true
	}
	for i := nS; i < nS+nC; i++ {
		order = append(order, i)
	}
	for i := 0; i < nS; i++ {
		if !seen[i] {
			order = append(order, i)
		}
	}
	results := make([]string, len(res))
	for i := range res {
		results[i] = okFail(res[i])
		if i < nS && res[i] != "ok" && res[i] != "closedout" {
			r.Fail("closed-error", "sched/free", []string{"#scenario=free"}, fmt.Sprintf("transmit call returned %q", res[i]))
		}
	}
	c.report(scenario{name: "free", kinds: kinds, order: order, results: results, wire: wire, ids: ids})
}
