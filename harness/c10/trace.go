package c10

// A small abstract interpreter over go/ast for the lock discipline that cannot be probed: it walks
// a function in source order, inlines calls to functions and methods of the same package (a few
// levels deep, closures and method values passed as arguments are walked as calls, deferred calls
// run at the exit of their frame) and records, for every event of interest, which locks are held
// at that point.  Nothing depends on the names of helpers, locals or unexported fields: the two
// locks and the guarded fields are found through exported anchors (TokenWriter takes the output
// lock, State the state lock, the selector assigned from context.With* is the input context).

import (
	"go/ast"
	"go/parser"
	"go/token"
	"os"
	"path/filepath"
	"strings"
)

type pkgInfo struct {
	funcs   map[string]*ast.FuncDecl            // package level functions
	methods map[string]map[string]*ast.FuncDecl // receiver type -> name -> decl
	imports map[string]bool                     // names under which packages are imported
	all     []*ast.FuncDecl
}

func recvOf(fd *ast.FuncDecl) (typ, name string) {
	if fd.Recv == nil || len(fd.Recv.List) == 0 {
		return "", ""
	}
	f := fd.Recv.List[0]
	if len(f.Names) > 0 {
		name = f.Names[0].Name
	}
	return typeName(f.Type), name
}

func typeName(e ast.Expr) string {
	switch x := e.(type) {
	case *ast.StarExpr:
		return typeName(x.X)
	case *ast.Ident:
		return x.Name
	case *ast.IndexExpr:
		return typeName(x.X)
	}
	return ""
}

func loadPkg(repo string) (*pkgInfo, error) {
	ents, err := os.ReadDir(repo)
	if err != nil {
		return nil, err
	}
	p := &pkgInfo{funcs: map[string]*ast.FuncDecl{}, methods: map[string]map[string]*ast.FuncDecl{}, imports: map[string]bool{}}
	fset := token.NewFileSet()
	for _, e := range ents {
		n := e.Name()
		if e.IsDir() || !strings.HasSuffix(n, ".go") || strings.HasSuffix(n, "_test.go") {
			continue
		}
		f, err := parser.ParseFile(fset, filepath.Join(repo, n), nil, 0)
		if err != nil {
			return nil, err
		}
		if f.Name.Name != "xmpp" {
			continue
		}
		for _, im := range f.Imports {
			path := strings.Trim(im.Path.Value, `"`)
			name := path[strings.LastIndex(path, "/")+1:]
			if im.Name != nil {
				name = im.Name.Name
			}
			p.imports[name] = true
		}
		for _, d := range f.Decls {
			fd, ok := d.(*ast.FuncDecl)
			if !ok || fd.Body == nil {
				continue
			}
			p.all = append(p.all, fd)
			if rt, _ := recvOf(fd); rt != "" {
				if p.methods[rt] == nil {
					p.methods[rt] = map[string]*ast.FuncDecl{}
				}
				p.methods[rt][fd.Name.Name] = fd
			} else {
				p.funcs[fd.Name.Name] = fd
			}
		}
	}
	return p, nil
}

func selPath(e ast.Expr) []string {
	switch x := e.(type) {
	case *ast.Ident:
		return []string{x.Name}
	case *ast.SelectorExpr:
		if p := selPath(x.X); p != nil {
			return append(p, x.Sel.Name)
		}
	case *ast.ParenExpr:
		return selPath(x.X)
	}
	return nil
}

type event struct {
	kind      string // "bit" (OutputStreamClosed mentioned), "guarded" (guarded field mentioned), "call:<name>"
	outHeld   bool
	stateHeld bool
}

type frame struct {
	recvType, recvName string
	paramTypes         map[string]string
	binds              map[string]bound // func-typed parameters bound to closures / method values
	defers             []func()
}

// bound: an argument of function type, with the frame it was written in
type bound struct {
	e  ast.Expr
	fr *frame
}

type tracer struct {
	p          *pkgInfo
	outField   string          // field of the session whose Lock is the output lock
	stateField string          // field that is the state mutex
	guarded    map[string]bool // dotted selector suffixes (".in.ctx") of fields guarded by the state mutex
	inline     bool
	maxDepth   int
	out, state int
	events     []event
	stack      []*ast.FuncDecl
}

func (t *tracer) emit(kind string) {
	t.events = append(t.events, event{kind, t.out > 0, t.state > 0})
}

func hasComp(path []string, comp string) bool {
	for _, c := range path[:len(path)-1] {
		if c == comp {
			return true
		}
	}
	return false
}

func (t *tracer) traceFunc(fd *ast.FuncDecl, binds map[string]bound) {
	for _, s := range t.stack {
		if s == fd {
			return
		}
	}
	t.stack = append(t.stack, fd)
	defer func() { t.stack = t.stack[:len(t.stack)-1] }()
	fr := &frame{paramTypes: map[string]string{}, binds: binds}
	fr.recvType, fr.recvName = recvOf(fd)
	if fd.Type.Params != nil {
		for _, f := range fd.Type.Params.List {
			for _, n := range f.Names {
				fr.paramTypes[n.Name] = typeName(f.Type)
			}
		}
	}
	t.block(fr, fd.Body.List)
	t.runDefers(fr)
}

func (t *tracer) runDefers(fr *frame) {
	for i := len(fr.defers) - 1; i >= 0; i-- {
		fr.defers[i]()
	}
	fr.defers = nil
}

func terminates(l []ast.Stmt) bool {
	if len(l) == 0 {
		return false
	}
	switch x := l[len(l)-1].(type) {
	case *ast.ReturnStmt:
		return true
	case *ast.BranchStmt:
		return x.Tok == token.CONTINUE || x.Tok == token.BREAK || x.Tok == token.GOTO
	case *ast.ExprStmt:
		if c, ok := x.X.(*ast.CallExpr); ok {
			if id, ok := c.Fun.(*ast.Ident); ok && id.Name == "panic" {
				return true
			}
		}
	case *ast.BlockStmt:
		return terminates(x.List)
	}
	return false
}

// branch walks a block that is one of several alternatives: if it leaves the function (or the
// loop) the locks it released do not concern what follows.
func (t *tracer) branch(fr *frame, l []ast.Stmt) {
	o, s := t.out, t.state
	t.block(fr, l)
	if terminates(l) {
		t.out, t.state = o, s
	}
}

func (t *tracer) block(fr *frame, l []ast.Stmt) {
	for _, st := range l {
		t.stmt(fr, st)
	}
}

func (t *tracer) stmt(fr *frame, st ast.Stmt) {
	switch x := st.(type) {
	case nil:
	case *ast.ExprStmt:
		t.expr(fr, x.X)
	case *ast.AssignStmt:
		for _, e := range x.Rhs {
			t.expr(fr, e)
		}
		for _, e := range x.Lhs {
			t.expr(fr, e)
		}
	case *ast.DeclStmt:
		if gd, ok := x.Decl.(*ast.GenDecl); ok {
			for _, sp := range gd.Specs {
				if vs, ok := sp.(*ast.ValueSpec); ok {
					for _, e := range vs.Values {
						t.expr(fr, e)
					}
				}
			}
		}
	case *ast.IfStmt:
		t.stmt(fr, x.Init)
		t.expr(fr, x.Cond)
		t.branch(fr, x.Body.List)
		if x.Else != nil {
			switch e := x.Else.(type) {
			case *ast.BlockStmt:
				t.branch(fr, e.List)
			default:
				t.stmt(fr, e)
			}
		}
	case *ast.ForStmt:
		t.stmt(fr, x.Init)
		if x.Cond != nil {
			t.expr(fr, x.Cond)
		}
		t.branch(fr, x.Body.List)
		t.stmt(fr, x.Post)
	case *ast.RangeStmt:
		t.expr(fr, x.X)
		t.branch(fr, x.Body.List)
	case *ast.SwitchStmt:
		t.stmt(fr, x.Init)
		if x.Tag != nil {
			t.expr(fr, x.Tag)
		}
		t.clauses(fr, x.Body)
	case *ast.TypeSwitchStmt:
		t.stmt(fr, x.Init)
		t.stmt(fr, x.Assign)
		t.clauses(fr, x.Body)
	case *ast.SelectStmt:
		t.clauses(fr, x.Body)
	case *ast.BlockStmt:
		t.block(fr, x.List)
	case *ast.LabeledStmt:
		t.stmt(fr, x.Stmt)
	case *ast.ReturnStmt:
		for _, e := range x.Results {
			t.expr(fr, e)
		}
	case *ast.IncDecStmt:
		t.expr(fr, x.X)
	case *ast.SendStmt:
		t.expr(fr, x.Chan)
		t.expr(fr, x.Value)
	case *ast.DeferStmt:
		c := x.Call
		if fl, ok := c.Fun.(*ast.FuncLit); ok {
			fr.defers = append(fr.defers, func() { t.closure(fr, fl) })
			return
		}
		// receiver and arguments are evaluated now, the call runs at the exit
		if inner, ok := c.Fun.(*ast.CallExpr); ok {
			// defer f(x)(): f(x) runs now, what it returns at the exit (unknown: nothing to walk)
			t.call(fr, inner)
			return
		}
		for _, a := range c.Args {
			if _, isLit := a.(*ast.FuncLit); !isLit {
				t.expr(fr, a)
			}
		}
		fr.defers = append(fr.defers, func() { t.callNoArgs(fr, c) })
	case *ast.GoStmt:
		// another goroutine: it holds none of our locks
		o, s := t.out, t.state
		t.out, t.state = 0, 0
		t.call(fr, x.Call)
		t.out, t.state = o, s
	}
}

func (t *tracer) clauses(fr *frame, b *ast.BlockStmt) {
	for _, c := range b.List {
		switch cc := c.(type) {
		case *ast.CaseClause:
			for _, e := range cc.List {
				t.expr(fr, e)
			}
			t.branch(fr, cc.Body)
		case *ast.CommClause:
			o, s := t.out, t.state
			t.stmt(fr, cc.Comm)
			t.block(fr, cc.Body)
			if terminates(cc.Body) {
				t.out, t.state = o, s
			}
		}
	}
}

func (t *tracer) closure(fr *frame, fl *ast.FuncLit) {
	// a closure shares the enclosing frame's names; its own defers run at its own exit
	inner := &frame{recvType: fr.recvType, recvName: fr.recvName, paramTypes: fr.paramTypes, binds: fr.binds}
	t.block(inner, fl.Body.List)
	t.runDefers(inner)
}

func (t *tracer) expr(fr *frame, e ast.Expr) {
	if e == nil {
		return
	}
	ast.Inspect(e, func(n ast.Node) bool {
		switch x := n.(type) {
		case *ast.FuncLit:
			// a closure that is not an argument of a call we can follow: assume it runs here
			t.closure(fr, x)
			return false
		case *ast.CallExpr:
			t.call(fr, x)
			return false
		case *ast.Ident:
			if x.Name == "OutputStreamClosed" {
				t.emit("bit")
			}
		case *ast.SelectorExpr:
			if p := selPath(x); p != nil && len(p) > 1 {
				if t.guarded["."+strings.Join(p[1:], ".")] {
					t.emit("guarded")
					return false
				}
			}
		}
		return true
	})
}

// resolve finds the declaration a call expression refers to, if it is in this package and the
// reference is unambiguous.
func (t *tracer) resolve(fr *frame, fun ast.Expr) *ast.FuncDecl {
	switch f := fun.(type) {
	case *ast.Ident:
		return t.p.funcs[f.Name]
	case *ast.SelectorExpr:
		m := f.Sel.Name
		if id, ok := f.X.(*ast.Ident); ok {
			if id.Name == fr.recvName && fr.recvType != "" {
				return t.p.methods[fr.recvType][m]
			}
			if ty := fr.paramTypes[id.Name]; ty != "" {
				if t.p.methods[ty] != nil {
					return t.p.methods[ty][m]
				}
				return nil
			}
			if t.p.imports[id.Name] {
				return nil
			}
		}
		var found *ast.FuncDecl
		for _, ms := range t.p.methods {
			if fd := ms[m]; fd != nil {
				if found != nil {
					return nil
				}
				found = fd
			}
		}
		return found
	}
	return nil
}

func (t *tracer) callNoArgs(fr *frame, c *ast.CallExpr) { t.doCall(fr, c, false) }
func (t *tracer) call(fr *frame, c *ast.CallExpr)       { t.doCall(fr, c, true) }

func (t *tracer) doCall(fr *frame, c *ast.CallExpr, evalArgs bool) {
	// receiver expression
	if se, ok := c.Fun.(*ast.SelectorExpr); ok {
		t.expr(fr, se.X)
	}
	if inner, ok := c.Fun.(*ast.CallExpr); ok {
		t.call(fr, inner)
	}
	if fl, ok := c.Fun.(*ast.FuncLit); ok {
		t.closure(fr, fl)
		return
	}
	callee := t.resolve(fr, c.Fun)
	follow := callee != nil && t.inline && len(t.stack) < t.maxDepth
	binds := map[string]bound{}
	if evalArgs {
		var params []string
		if follow && callee.Type.Params != nil {
			for _, f := range callee.Type.Params.List {
				for _, n := range f.Names {
					params = append(params, n.Name)
				}
			}
		}
		for i, a := range c.Args {
			switch av := a.(type) {
			case *ast.FuncLit:
				if follow && i < len(params) {
					binds[params[i]] = bound{av, fr}
					continue
				}
				t.closure(fr, av) // nowhere to follow it to: assume it is called
			case *ast.SelectorExpr, *ast.Ident:
				// a method value or function passed along: counts as a call (by the callee if we
				// follow it, here otherwise)
				if fd := t.resolveValue(fr, av); fd != nil {
					if follow && i < len(params) {
						binds[params[i]] = bound{av, fr}
						continue
					}
					if t.inline && len(t.stack) < t.maxDepth {
						t.traceFunc(fd, nil)
					}
					continue
				}
				t.expr(fr, a)
			default:
				t.expr(fr, a)
			}
		}
	}
	// the locks
	if p := selPath(c.Fun); len(p) >= 2 {
		last := p[len(p)-1]
		switch {
		case hasComp(p, t.outField) && !hasComp(p, t.stateField):
			if last == "Lock" {
				t.out++
				return
			}
			if last == "Unlock" {
				t.out--
				return
			}
		case hasComp(p, t.stateField):
			if last == "Lock" || last == "RLock" {
				t.state++
				return
			}
			if last == "Unlock" || last == "RUnlock" {
				t.state--
				return
			}
		}
	}
	// a func-typed parameter bound to something we know
	if id, ok := c.Fun.(*ast.Ident); ok && fr.binds != nil {
		if b, ok := fr.binds[id.Name]; ok {
			switch bv := b.e.(type) {
			case *ast.FuncLit:
				t.closure(b.fr, bv)
			default:
				if fd := t.resolveValue(b.fr, bv); fd != nil {
					t.traceFunc(fd, nil)
				}
			}
			return
		}
	}
	if callee != nil {
		name := callee.Name.Name
		if rt, _ := recvOf(callee); rt != "" {
			name = rt + "." + name
		}
		t.emit("call:" + name)
		if follow {
			t.traceFunc(callee, binds)
		}
	}
}

// resolveValue: an expression used as a value that names a function or method of the package.
func (t *tracer) resolveValue(fr *frame, e ast.Expr) *ast.FuncDecl {
	switch v := e.(type) {
	case *ast.Ident:
		if v.Obj != nil && v.Obj.Kind != ast.Fun {
			return nil // a local or parameter
		}
		return t.p.funcs[v.Name]
	case *ast.SelectorExpr:
		if id, ok := v.X.(*ast.Ident); ok && (id.Name == fr.recvName && fr.recvType != "" || fr.paramTypes[id.Name] != "") {
			return t.resolve(fr, v)
		}
	}
	return nil
}

// anchors: the field whose Lock the exported method takes first (in its body or, calls into the
// package followed, in a helper).
func lockFieldOf(t *tracer, fd *ast.FuncDecl, methods ...string) string {
	return lockFieldDepth(t, fd, 3, methods)
}

func lockFieldDepth(t *tracer, fd *ast.FuncDecl, depth int, methods []string) string {
	if fd == nil || depth == 0 {
		return ""
	}
	fr := &frame{paramTypes: map[string]string{}}
	fr.recvType, fr.recvName = recvOf(fd)
	field := ""
	ast.Inspect(fd.Body, func(n ast.Node) bool {
		if field != "" {
			return false
		}
		if c, ok := n.(*ast.CallExpr); ok {
			if p := selPath(c.Fun); len(p) >= 3 {
				for _, m := range methods {
					if p[len(p)-1] == m {
						field = p[1]
						return false
					}
				}
			}
			if callee := t.resolve(fr, c.Fun); callee != nil && callee != fd {
				field = lockFieldDepth(t, callee, depth-1, methods)
			}
		}
		return true
	})
	return field
}

// guardedFields: selectors (relative to the session) assigned from context.With*: the input
// context and its cancel function.
func guardedFields(p *pkgInfo) map[string]bool {
	out := map[string]bool{}
	for _, fd := range p.all {
		ast.Inspect(fd.Body, func(n ast.Node) bool {
			as, ok := n.(*ast.AssignStmt)
			if !ok || len(as.Rhs) != 1 {
				return true
			}
			c, ok := as.Rhs[0].(*ast.CallExpr)
			if !ok {
				return true
			}
			if cp := selPath(c.Fun); len(cp) != 2 || cp[0] != "context" || !strings.HasPrefix(cp[1], "With") {
				return true
			}
			for _, l := range as.Lhs {
				if lp := selPath(l); len(lp) >= 3 {
					out["."+strings.Join(lp[1:], ".")] = true
				}
			}
			return true
		})
	}
	return out
}

func constructsSession(fd *ast.FuncDecl) bool {
	found := false
	ast.Inspect(fd.Body, func(n ast.Node) bool {
		if cl, ok := n.(*ast.CompositeLit); ok && typeName(cl.Type) == "Session" {
			found = true
		}
		return !found
	})
	return found
}
