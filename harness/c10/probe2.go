package c10

// Round E probe facts that replace the last name/text matches of the source facts
// (wireFns / entryPoints / deadlineSetters / transmitDeadlineSetters):
//
//	exportedMethodsProbe  EVERY exported method of *xmpp.Session, enumerated by reflection (no
//	                      list of names in the harness), called with zero / small arguments on a
//	                      session whose output was closed (by Close; by Serve's shutdown): did
//	                      the connection see a Write.  A new exported method that writes on its
//	                      own shows up as a row with `true`.
//	transmitSetterProbe   every transmit entry point of the probe table x the fate of its context
//	                      (alive / cancelled while the connection write is blocked) on a connection that records which
//	                      deadline setter is called; and SetCloseDeadline.

import (
	"context"
	"encoding/xml"
	"fmt"
	"net"
	"reflect"
	"sort"
	"strings"
	"sync"
	"time"

	"mellium.im/xmlstream"
	"mellium.im/xmpp"
	"mellium.im/xmpp/stanza"

	"verifharness/common"
)

var (
	tCtx         = reflect.TypeOf((*context.Context)(nil)).Elem()
	tTokenReader = reflect.TypeOf((*xml.TokenReader)(nil)).Elem()
)

// argFor builds an argument of type t: contexts that end soon, a small stanza where a token
// reader or any value is wanted, a handler that does nothing, a pointer to a zero value, the
// zero value otherwise.
func argFor(t reflect.Type, ctx context.Context) reflect.Value {
	msg := stanza.Message{ID: "rx", Type: stanza.ChatMessage}
	switch {
	case t == tCtx:
		return reflect.ValueOf(ctx)
	case t.Kind() == reflect.Interface && t.NumMethod() == 0:
		return reflect.ValueOf(msg)
	case t.Kind() == reflect.Interface && tTokenReader.AssignableTo(t):
		return reflect.ValueOf(msg.Wrap(nil))
	case t.Kind() == reflect.Interface && reflect.TypeOf(xmpp.HandlerFunc(nil)).AssignableTo(t):
		h := xmpp.HandlerFunc(func(xmlstream.TokenReadEncoder, *xml.StartElement) error { return nil })
		return reflect.ValueOf(h)
	case t.Kind() == reflect.Ptr:
		return reflect.New(t.Elem())
	case t == reflect.TypeOf(stanza.IQ{}):
		return reflect.ValueOf(stanza.IQ{ID: "rq", Type: stanza.GetIQ})
	case t == reflect.TypeOf(stanza.Message{}):
		return reflect.ValueOf(msg)
	case t == reflect.TypeOf(stanza.Presence{}):
		return reflect.ValueOf(stanza.Presence{ID: "rp"})
	case t == reflect.TypeOf(xml.StartElement{}):
		return reflect.ValueOf(msg.StartElement())
	}
	return reflect.Zero(t)
}

// exportedCell: method number i of a fresh session closed the given way; wrote = the connection
// saw a Write during the call (or within a moment after it was abandoned).
func exportedCell(way string, i int) (name string, wrote bool, class string) {
	p, err := newProbeSess()
	if err != nil {
		return "?", false, "nosession"
	}
	defer p.peer.Close()
	m := reflect.TypeOf(p.s).Method(i)
	if err := p.enter(way); err != nil {
		return m.Name, false, "nostate"
	}
	_, w0, _ := p.pc.counts()
	ctx, cancel := context.WithTimeout(context.Background(), 120*time.Millisecond)
	defer cancel()
	args := []reflect.Value{reflect.ValueOf(p.s)}
	for k := 1; k < m.Type.NumIn(); k++ {
		if m.Type.IsVariadic() && k == m.Type.NumIn()-1 {
			break
		}
		args = append(args, argFor(m.Type.In(k), ctx))
	}
	pan := ""
	done := common.WithTimeout(400*time.Millisecond, func() {
		pan = common.Recover(func() {
			for _, out := range m.Func.Call(args) {
				// give back what the call handed out (response readers, token writers, iterators)
				if c, ok := out.Interface().(interface{ Close() error }); ok && !out.IsNil() && m.Name != "Conn" {
					c.Close()
				}
			}
		})
	})
	class = "returned"
	switch {
	case !done:
		class = "blocked"
		p.peer.Close()
		time.Sleep(20 * time.Millisecond)
	case pan != "":
		class = "panic"
	}
	_, w1, _ := p.pc.counts()
	return m.Name, w1 > w0, class
}

func exportedMethodsFacts(sb *strings.Builder) {
	ways := []string{"Close", "Serve+peerClose", "Serve+handlerErr", "Abandon+Close"}
	n := reflect.TypeOf(&xmpp.Session{}).NumMethod()
	type res struct {
		name  string
		wrote []bool
	}
	out := make([]res, n)
	var wg sync.WaitGroup
	sem := make(chan struct{}, 8)
	for i := 0; i < n; i++ {
		out[i].wrote = make([]bool, len(ways))
		for j, w := range ways {
			wg.Add(1)
			sem <- struct{}{}
			go func(i, j int, w string) {
				defer wg.Done()
				defer func() { <-sem }()
				name, wrote, _ := exportedCell(w, i)
				out[i].name = name
				out[i].wrote[j] = wrote
			}(i, j, w)
		}
	}
	wg.Wait()
	sort.Slice(out, func(a, b int) bool { return out[a].name < out[b].name })
	var l []string
	for _, r := range out {
		any := false
		for _, b := range r.wrote {
			any = any || b
		}
		l = append(l, fmt.Sprintf("(%q, %v)", r.name, any))
	}
	sb.WriteString("/-- PROBE: every exported method of *Session (enumerated by reflection), called on sessions whose output was closed\nby Close / by Serve's shutdown after the peer's closing tag / after a handler error: did the connection see a Write -/\n")
	fmt.Fprintf(sb, "def exportedMethodsProbe : Option (List (String × Bool)) := some [%s]\n", strings.Join(l, ", "))
}

// setterCell: which deadline setters of the connection a call makes.
func setterCell(e probeEntry, over bool) []string {
	c1, c2 := net.Pipe()
	defer c2.Close()
	cst := &connState{failAt: -1}
	go c2.Write([]byte(header))
	s, err := xmpp.NewSession(context.Background(), remoteJID, localJID, conn{Conn: c1, out: &common.SafeBuffer{}, st: cst}, 0, negotiator)
	if err != nil {
		return []string{"nosession"}
	}
	base := len(cst.deadlineCalls())
	ctx, cancel := context.WithCancel(context.Background())
	defer cancel()
	p := &psess{s: s, pc: &pconn{Conn: c1}, peer: c2}
	go func() { // what the calls that wait for an answer need: none comes, their context ends
		time.Sleep(150 * time.Millisecond)
		cancel()
	}()
	if over {
		// the peer does not read: the connection write blocks; then the context of the call ends
		gate := make(chan struct{})
		cst.setGate(gate)
		defer close(gate)
		go func() {
			select {
			case <-cst.entered:
				cancel()
			case <-ctx.Done():
			}
		}()
	}
	if !common.WithTimeout(3*time.Second, func() { common.Recover(func() { e.call(ctx, p) }) }) {
		return []string{"STALL"}
	}
	cst.waitQuiet(time.Second)
	set := map[string]bool{}
	for _, d := range cst.deadlineCalls()[base:] {
		set[map[string]string{"W": "SetWriteDeadline", "R": "SetReadDeadline", "D": "SetDeadline"}[d.kind]] = true
	}
	var l []string
	for k := range set {
		l = append(l, k)
	}
	sort.Strings(l)
	return l
}

func setterFacts(sb *strings.Builder) {
	q := func(l []string) string {
		for i := range l {
			l[i] = fmt.Sprintf("%q", l[i])
		}
		return "[" + strings.Join(l, ", ") + "]"
	}
	var rows []string
	for _, e := range probeEntries() {
		if e.read || e.name == "Close" {
			continue
		}
		// the token writer's methods take no context: nothing can end while they are blocked
		rows = append(rows, fmt.Sprintf("(%q, %s, %s)", e.name, q(setterCell(e, false)), q(setterCell(e, !strings.HasPrefix(e.name, "TokenWriter.")))))
	}
	sb.WriteString("/-- PROBE (connection that records every deadline call): transmit entry point x (context alive, context cancelled while the connection write is blocked):\nthe deadline setters of the connection the call used -/\n")
	fmt.Fprintf(sb, "def transmitSetterProbe : Option (List (String × List String × List String)) := some [\n  %s]\n", strings.Join(rows, ",\n  "))
	// SetCloseDeadline
	closeSet := setterCell(probeEntry{name: "SetCloseDeadline", call: func(_ context.Context, p *psess) error {
		return p.s.SetCloseDeadline(time.Now().Add(time.Hour))
	}}, false)
	fmt.Fprintf(sb, "/-- PROBE: the deadline setters SetCloseDeadline uses -/\ndef closeDeadlineSetterProbe : Option (List String) := some %s\n", q(closeSet))
}

// queuedCell: Close is blocked inside the connection write of the closing tag (the peer does not
// read), holding the output lock; a transmit call whose context is already over is issued and has
// to wait for the lock.  While it waits it must not touch the connection's deadlines: a watcher
// started before the lock is taken would put the write deadline into the past under Close's feet.
// Reported: the deadline setters called while Close held the lock, the closing tags written once
// the peer reads again, what Close returned.
func queuedCell(e probeEntry) (setters []string, tags int, closeRes string) {
	c1, c2 := net.Pipe()
	defer c2.Close()
	out := &common.SafeBuffer{}
	cst := &connState{failAt: -1, honourWd: true}
	go c2.Write([]byte(header))
	s, err := xmpp.NewSession(context.Background(), remoteJID, localJID, conn{Conn: c1, out: out, st: cst}, 0, negotiator)
	if err != nil {
		return []string{"nosession"}, 99, "nosession"
	}
	gate := make(chan struct{})
	cst.setGate(gate)
	closed := make(chan error, 1)
	go func() { closed <- s.Close() }()
	select {
	case <-cst.entered:
	case <-time.After(3 * time.Second):
		close(gate)
		return []string{"close-did-not-write"}, 99, "STALL"
	}
	base := len(cst.deadlineCalls())
	ctx, cancel := context.WithCancel(context.Background())
	cancel()
	p := &psess{s: s, pc: &pconn{Conn: c1}, peer: c2}
	txDone := make(chan struct{})
	go func() { common.Recover(func() { e.call(ctx, p) }); close(txDone) }()
	// long enough for a watcher that was started before the lock to act
	time.Sleep(60 * time.Millisecond)
	set := map[string]bool{}
	for _, d := range cst.deadlineCalls()[base:] {
		set[map[string]string{"W": "SetWriteDeadline", "R": "SetReadDeadline", "D": "SetDeadline"}[d.kind]] = true
	}
	for k := range set {
		setters = append(setters, k)
	}
	sort.Strings(setters)
	close(gate) // the peer reads again
	select {
	case err := <-closed:
		closeRes = "ok"
		if err != nil {
			closeRes = "failed"
		}
	case <-time.After(3 * time.Second):
		closeRes = "STALL"
	}
	select {
	case <-txDone:
	case <-time.After(3 * time.Second):
	}
	return setters, strings.Count(string(out.Bytes()), closeTag), closeRes
}

func queuedFacts(sb *strings.Builder) {
	var rows []string
	for _, e := range probeEntries() {
		switch e.name {
		case "Send", "SendElement", "Encode", "EncodeElement", "SendIQ(result)", "SendMessage(error)", "SendPresence(error)":
			set, tags, res := queuedCell(e)
			for i := range set {
				set[i] = fmt.Sprintf("%q", set[i])
			}
			rows = append(rows, fmt.Sprintf("(%q, [%s], %d, %q)", e.name, strings.Join(set, ", "), tags, res))
		}
	}
	sb.WriteString("/-- PROBE: Close blocked in the connection write of the closing tag (output lock held), then a transmit call with a context\nthat is already over, queued behind it: deadline setters called while Close held the lock, closing tags once the peer reads, Close's result -/\n")
	fmt.Fprintf(sb, "def queuedTransmitProbe : Option (List (String × List String × Nat × String)) := some [\n  %s]\n", strings.Join(rows, ",\n  "))
}

// lateErrorCell: Close, then Serve ends with a stream error of its own (handler error of the
// given kind; garbage; a stream error received from the peer): connection writes after Close
// returned.  The big error does not fit the encoder's buffer: whatever sendError hands to the
// encoder after the output was closed shows on the connection at once.
func lateErrorCell(kind string) int {
	p, err := newProbeSess()
	if err != nil {
		return 99
	}
	defer p.peer.Close()
	if err := p.s.Close(); err != nil {
		return 98
	}
	_, w0, _ := p.pc.counts()
	switch kind {
	case "handler big stream error":
		p.serveUntil(probeStanza, bigStreamErr(), false)
	case "handler stream error":
		p.serveUntil(probeStanza, handlerErrs["hs"], false)
	case "handler error":
		p.serveUntil(probeStanza, errBoom, false)
	case "garbage":
		p.serveUntil("x<a/>", nil, false)
	case "peer big stream error":
		p.serveUntil("<stream:error><conflict xmlns='urn:ietf:params:xml:ns:xmpp-streams'/><text xmlns='urn:ietf:params:xml:ns:xmpp-streams'>"+strings.Repeat("gone. ", 3000)+"</text></stream:error>", nil, false)
	}
	_, w1, _ := p.pc.counts()
	return w1 - w0
}

var lateErrorKinds = []string{"handler big stream error", "handler stream error", "handler error", "garbage", "peer big stream error"}

func lateErrorFacts(sb *strings.Builder) {
	var rows []string
	for _, k := range lateErrorKinds {
		rows = append(rows, fmt.Sprintf("(%q, %d)", k, lateErrorCell(k)))
	}
	sb.WriteString("/-- PROBE: Close, then Serve ends with a stream error of its own (some too large for the encoder's buffer):\nconnection writes after Close returned -/\n")
	fmt.Fprintf(sb, "def lateErrorProbe : Option (List (String × Nat)) := some [%s]\n", strings.Join(rows, ", "))
}
