package c10

// Round E: Serve as a thread (model SrvLts).  Forced schedules of the application's lock holders,
// the peer and the deadline around a running Serve; after every action Serve is left to run
// until it blocks.
//
//	srv <act,…>  -> <ok|closedout|blocked,…> <wire items> <outClosed><inClosed> <notstarted|running|nil|err|deadline>
//
// acts: v start Serve; ai/ri take / give back a TokenReader; ao/aw/ro take a TokenWriter, write
// an element through it, give it back; c Close; ds/dy/dc/db the peer sends a stanza the handler
// ignores / answers, its closing tag, garbage; x the close deadline passes.  An action that
// cannot be taken (a lock that is not free, a second unit of input while the first has not been
// read) is reported as blocked and ends the scenario.
//
// The runner keeps a small mirror of where Serve must be (srvMirror) for ONE purpose: to know how
// long to wait (for a return that is due: seconds; for a Serve that should keep running:
// milliseconds) and whether a unit of input is still unread.  Everything reported - results, wire,
// bits, Serve's result - is observed on the real session.

import (
	"fmt"
	"os"
	"runtime"
	"runtime/pprof"
	"strings"
	"time"

	"mellium.im/xmlstream"
	"mellium.im/xmpp"
	"mellium.im/xmpp/stanza"

	"verifharness/common"
)

type srvMirror struct {
	t           *tsess
	rc          xmlstream.TokenReadCloser
	wc          xmlstream.TokenWriteFlushCloser
	started     bool
	expired     bool
	kept        bool   // a keep-alive has been fed since Serve last took a unit of input
	outstanding string // unit of input on the connection that Serve has not read
	reply       bool   // the handler waits for the output lock
	term        []string // Serve is shutting down: the locks it still has to take, in order
	inTerm      bool
	stall       string
	wait        time.Duration // how long a step of Serve that is due is waited for
}

// poll waits until cond holds (Serve's steps take microseconds once they are enabled).
func poll(d time.Duration, cond func() bool) bool {
	end := time.Now().Add(d)
	for !cond() {
		if time.Now().After(end) {
			return false
		}
		time.Sleep(200 * time.Microsecond)
	}
	return true
}

// serveParked: the Serve goroutine waits for a mutex (exported names only are looked for).
func serveParked() bool {
	buf := make([]byte, 1<<20)
	buf = buf[:runtime.Stack(buf, true)]
	for _, g := range strings.Split(string(buf), "\n\n") {
		if strings.Contains(g, "(*Session).Serve") && strings.Contains(g, "sync.(*Mutex).Lock") {
			return true
		}
	}
	return false
}

func (m *srvMirror) parked(what string) {
	if !poll(m.wait, serveParked) {
		m.stall = "Serve is not waiting for " + what
	}
}

// shutdown: the locks Serve's way out takes.  After an error: sendError (output lock), then the
// deferred closeInputStream (input lock) and Close (output lock); otherwise the deferred two.
func (m *srvMirror) shutdown(afterError bool) {
	m.inTerm = true
	if afterError {
		m.term = []string{"out-err", "in", "out"}
	} else {
		m.term = []string{"in", "out"}
	}
}

// advance lets Serve run until it blocks.
func (m *srvMirror) advance() {
	t := m.t
	for {
		if !m.started || t.served || m.stall != "" {
			return
		}
		if m.inTerm {
			for len(m.term) > 0 {
				switch m.term[0] {
				case "out-err":
					if m.wc != nil {
						m.parked("the output lock held by the application (sendError)")
						return
					}
					if !poll(m.wait, func() bool { return t.s.State()&xmpp.OutputStreamClosed != 0 }) {
						m.stall = "sendError did not close the output although the output lock is free"
						return
					}
				case "in":
					if m.rc != nil {
						// Whether Serve's shutdown waits for a token reader held by the application
						// is the implementation's choice (the `held` scenario states what must hold
						// either way): the reader is given back before anything is observed
						m.rc.Close()
						m.rc = nil
					}
					if !poll(m.wait, func() bool { return t.s.State()&xmpp.InputStreamClosed != 0 }) {
						m.stall = "Serve's shutdown did not mark the input closed although the input lock is free"
						return
					}
				case "out":
					if m.wc != nil {
						m.parked("the output lock held by the application (Close)")
						return
					}
				}
				m.term = m.term[1:]
			}
			if !t.waitServe(m.wait) {
				m.stall = "Serve did not return although both locks are free"
			}
			return
		}
		if m.reply {
			if m.wc != nil {
				m.parked("the output lock held by the application (handler's reply)")
				return
			}
			m.reply = false
			// the handler's reply goes out (or fails on a closed output), the handler returns
			select {
			case <-t.handled:
			case <-time.After(m.wait):
				m.stall = "the handler did not get the output lock after it was given back"
				return
			}
			if t.s.State()&xmpp.OutputStreamClosed != 0 {
				m.shutdown(true)
			}
			continue
		}
		if m.rc != nil {
			// Serve waits for the input lock
			m.parked("the input lock held by the application (TokenReader)")
			return
		}
		if m.expired {
			// with a keep-alive held back by the decoder the interrupted read yields it and Serve
			// sees the deadline at the top of its loop; otherwise the read error goes to sendError
			m.shutdown(!m.kept)
			m.kept = false
			continue
		}
		k := m.outstanding
		if k == "" {
			// blocked in its read, holding the input lock: a keep-alive is taken only by a
			// Serve that is inside the read (the decoder keeps waiting for what follows it)
			if !t.feedWithin(" ", m.wait) {
				m.stall = "Serve does not read"
			}
			m.kept = true
			return
		}
		m.outstanding = ""
		m.kept = false
		switch k {
		case "ds":
			select {
			case <-t.handled:
			case <-time.After(m.wait):
				m.stall = "a stanza was not handled"
				return
			}
		case "dy":
			if m.wc != nil {
				m.reply = true
				continue
			}
			select {
			case <-t.handled:
			case <-time.After(m.wait):
				m.stall = "a stanza was not handled"
				return
			}
			if t.s.State()&xmpp.OutputStreamClosed != 0 {
				m.shutdown(true)
			}
		case "dc":
			m.shutdown(false)
		default:
			m.shutdown(true)
		}
	}
}

func (c *ctxT) srv(acts []string) {
	r := c.r
	line := "srv " + common.Join(acts, ",")
	lines := []string{r.Prop + " " + line}
	t, err := newSess()
	if err != nil {
		r.Line(line, "ERR")
		return
	}
	m := &srvMirror{t: t, wait: 3 * time.Second}
	if c.stalls >= 5 {
		m.wait = 150 * time.Millisecond
	}
	defer func() {
		if m.rc != nil {
			m.rc.Close()
		}
		if m.wc != nil {
			m.wc.Close()
		}
		t.close()
	}()
	var res []string
loop:
	for n, a := range acts {
		x := "ok"
		switch a {
		case "v":
			if m.started {
				x = "blocked"
				break
			}
			m.started = true
			t.startServe()
		case "ai":
			if m.rc != nil {
				x = "blocked"
				break
			}
			ch := make(chan xmlstream.TokenReadCloser, 1)
			go func() { ch <- t.s.TokenReader() }()
			select {
			case m.rc = <-ch:
			case <-time.After(100 * time.Millisecond):
				x = "blocked"
				go func() { (<-ch).Close() }()
			}
		case "ri":
			if m.rc == nil {
				x = "blocked"
				break
			}
			m.rc.Close()
			m.rc = nil
		case "ao":
			if m.wc != nil {
				x = "blocked"
				break
			}
			ch := make(chan xmlstream.TokenWriteFlushCloser, 1)
			go func() { ch <- t.s.TokenWriter() }()
			select {
			case m.wc = <-ch:
			case <-time.After(100 * time.Millisecond):
				x = "blocked"
				go func() { (<-ch).Close() }()
			}
		case "aw":
			if m.wc == nil {
				x = "blocked"
				break
			}
			st := stanza.Message{ID: fmt.Sprintf("w%d", n), Type: stanza.ChatMessage}.StartElement()
			e := m.wc.EncodeToken(st)
			if e == nil {
				e = m.wc.EncodeToken(st.End())
			}
			if e == nil {
				e = m.wc.Flush()
			}
			x = classifyTx(e)
			if strings.HasPrefix(x, "err:") {
				x = "failed"
			}
		case "ro":
			if m.wc == nil {
				x = "blocked"
				break
			}
			m.wc.Close()
			m.wc = nil
		case "c":
			if m.wc != nil {
				x = "blocked" // the application goroutine that holds the writer would wait for itself
				break
			}
			var e error
			if !common.WithTimeout(m.wait, func() { e = t.s.Close() }) {
				x = "STALL"
			} else if e != nil {
				x = "failed"
			}
		case "ds", "dy", "dc", "db":
			if m.outstanding != "" {
				x = "blocked"
				break
			}
			var b string
			switch a {
			case "ds", "dy":
				t.mu.Lock()
				t.plan = append(t.plan, map[string]string{"ds": "m", "dy": "y"}[a])
				t.mu.Unlock()
				b = fmt.Sprintf(`<message id='in%d' type='chat'/>`, n)
			case "dc":
				b = closeTag
			default:
				b = `x<a/>`
			}
			// a Serve that is inside its read takes the bytes at once (synchronous pipe): wait for
			// that, so that two units of input cannot overtake each other; otherwise the bytes
			// stay on the connection
			if m.started && !t.served && m.rc == nil && !m.reply && !m.inTerm && !m.expired {
				if !t.feed(b) {
					m.stall = "Serve, inside its read, did not take the peer's bytes"
				}
			} else {
				go t.peer.Write([]byte(b))
			}
			m.outstanding = a
		case "x":
			t.s.SetCloseDeadline(time.Unix(1, 0))
			m.expired = true
		default:
			x = "?"
		}
		res = append(res, x)
		if x == "blocked" {
			break loop
		}
		m.advance()
		if m.stall != "" {
			break loop
		}
	}
	if m.started && !t.served {
		t.waitServe(25 * time.Millisecond)
	}
	ret := "notstarted"
	if m.started {
		ret = "running"
		if t.served {
			switch k := classifyRet(t.ret); k {
			case "nil", "deadline":
				ret = k
			default:
				ret = "err"
			}
		}
	}
	items, werr := wireItems(t.out.Bytes())
	var shown []string
	nClose, after := 0, 0
	for _, it := range items {
		if it == "err" {
			continue // the stream error is a known finding of its own; the model has no such item
		}
		if it == "close" {
			nClose++
		} else if nClose > 0 {
			after++
		}
		shown = append(shown, it)
	}
	st := t.s.State()
	if os.Getenv("C10_DEBUG") != "" {
		fmt.Fprintf(os.Stderr, "DEBUG %s state=%v out=%q\n", line, st, t.out.Bytes())
		pprof.Lookup("goroutine").WriteTo(os.Stderr, 1)
	}
	r.Line(line, fmt.Sprintf("%s %s %s%s %s", common.Join(res, ","), common.Join(shown, ","),
		common.B(st&xmpp.OutputStreamClosed != 0), common.B(st&xmpp.InputStreamClosed != 0), ret))
	r.Case(line, true, "srv")
	fail := func(clause, key, detail string) { r.Fail(clause, "srv/"+key, lines, detail) }
	if m.stall != "" {
		c.stalls++
		fail("serve-returns", "stall", m.stall)
	}
	if werr != nil {
		fail("wellformed", "wire", werr.Error())
	}
	if nClose > 1 {
		fail("close-once", "closing-tags", fmt.Sprintf("%d closing tags on the wire", nClose))
	}
	if after > 0 {
		fail("final", "after-tag", fmt.Sprintf("items follow the closing tag: %v", items))
	}
	if t.served && (nClose != 1 || st&xmpp.OutputStreamClosed == 0 || st&xmpp.InputStreamClosed == 0) {
		fail("both-closed", "served", fmt.Sprintf("after Serve returned: %d closing tags, state %08b", nClose, st))
	}
}

func (c *ctxT) srvCases() {
	r := c.r
	r.Mark("case serve thread")
	for _, h := range [][]string{
		{"ao", "aw", "v", "dc", "ro"}, {"ao", "v", "dy", "dc", "ro"}, {"ai", "v", "x", "ri"}, {"v", "c", "dy"},
		{"ai", "ao", "v", "dc", "ri", "aw", "ro"}, {"ao", "v", "db", "ai", "ro", "ri"}, {"v", "dy", "ao", "dy", "x", "aw", "ro"},
		{"ai", "dc", "v", "ao", "ri", "aw", "ro", "ai"}, {"v", "ds", "dy", "ao", "dc", "c"},
	} {
		c.srv(h)
	}
	prefixes := [][]string{{}, {"ai"}, {"ao"}, {"ao", "aw"}, {"ai", "ao"}}
	tail := []string{"ds", "dy", "dc", "db", "x", "c", "aw", "ri", "ro", "ai", "ao"}
	// the thorough tier adds the sequences of length 3 without the two actions that end a scenario
	// by waiting (an acquire that stays blocked costs its timeout)
	tail3 := []string{"ds", "dy", "dc", "db", "x", "c", "aw", "ri", "ro"}
	maxLen := r.Pick(2, 3)
	for _, p := range prefixes {
		var rec func(cur []string, n int)
		rec = func(cur []string, n int) {
			c.srv(append(append(append([]string(nil), p...), "v"), cur...))
			if n == maxLen {
				return
			}
			al := tail
			if maxLen == 3 {
				al = tail3
			}
			for _, a := range al {
				rec(append(append([]string(nil), cur...), a), n+1)
			}
		}
		rec(nil, 0)
		if maxLen == 3 {
			for _, a := range tail {
				for _, b := range []string{"ai", "ao"} {
					c.srv(append(append(append([]string(nil), p...), "v"), a, b))
					c.srv(append(append(append([]string(nil), p...), "v"), b, a))
				}
			}
		}
	}
	r.Exhaustive = append(r.Exhaustive, fmt.Sprintf("serve thread: application holding nothing / a TokenReader / a TokenWriter / a TokenWriter it has written through / both when Serve starts x all sequences of length <= 2 over %v (thorough: and of length 3 over %v), Serve left to run until it blocks after every action", tail, tail3))
}
