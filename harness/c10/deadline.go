package c10

import (
	"context"
	"fmt"
	"os"
	"strings"
	"time"

	"verifharness/common"
)

// dlCall is one deadline call on the connection: which setter ("D" SetDeadline, "R"
// SetReadDeadline, "W" SetWriteDeadline) and the time.
type dlCall struct {
	kind string
	t    time.Time
}

func (cs *connState) noteDeadline(kind string, t time.Time) {
	cs.mu.Lock()
	cs.dl = append(cs.dl, dlCall{kind, t})
	if kind != "R" {
		cs.wd = t
		if cs.wdCh != nil {
			close(cs.wdCh)
		}
		cs.wdCh = make(chan struct{})
	}
	cs.mu.Unlock()
}

// waitGate blocks a Write until the gate opens or the write deadline passes.
func (cs *connState) waitGate(gate chan struct{}) error {
	for {
		cs.mu.Lock()
		if cs.wdCh == nil {
			cs.wdCh = make(chan struct{})
		}
		wd, ch := cs.wd, cs.wdCh
		cs.mu.Unlock()
		var tm <-chan time.Time
		if !wd.IsZero() {
			d := time.Until(wd)
			if d <= 0 {
				return os.ErrDeadlineExceeded
			}
			tm = time.After(d)
		}
		select {
		case <-gate:
			return nil
		case <-ch:
		case <-tm:
		}
	}
}

func (c conn) SetDeadline(t time.Time) error {
	if c.st != nil {
		c.st.noteDeadline("D", t)
	}
	return c.Conn.SetDeadline(t)
}

func (c conn) SetReadDeadline(t time.Time) error {
	if c.st != nil {
		c.st.noteDeadline("R", t)
	}
	return c.Conn.SetReadDeadline(t)
}

func (c conn) SetWriteDeadline(t time.Time) error {
	if c.st != nil {
		c.st.enterDeadlineCall(t)
		defer c.st.leaveDeadlineCall()
		c.st.noteDeadline("W", t)
	}
	return c.Conn.SetWriteDeadline(t)
}

// enterDeadlineCall: with hold set, a call that moves the write deadline into the past is kept
// from taking effect (the calling goroutine is not scheduled) until somebody clears the write
// deadline, or until 10 ms after a Write of the current operation has completed, or for 500 ms.  Code that orders its own
// "past" and "clear" calls (one goroutine, or a join) is merely slowed down; a clear that does
// not wait for a "past" call still in flight is overtaken by it.  (A clear is itself delayed by
// 3 ms so that a goroutine started to make the "past" call has reached it.)
func (cs *connState) enterDeadlineCall(t time.Time) {
	cs.mu.Lock()
	cs.inflight++
	if cs.hold && t.IsZero() {
		// a clear is not scheduled at once either: a goroutine that was started to move the
		// deadline gets the time to reach its call
		cs.mu.Unlock()
		time.Sleep(3 * time.Millisecond)
		cs.mu.Lock()
	}
	hold := cs.hold && !t.IsZero() && time.Until(t) <= 0
	z0, w0 := cs.nZero, cs.opBase
	if t.IsZero() {
		cs.nZero++
	}
	cs.mu.Unlock()
	if !hold {
		return
	}
	start := time.Now()
	var wrote time.Time
	for time.Since(start) < 500*time.Millisecond {
		cs.mu.Lock()
		z, w := cs.nZero, cs.nDone
		cs.mu.Unlock()
		if z > z0 {
			return
		}
		if w > w0 && wrote.IsZero() {
			wrote = time.Now()
		}
		if !wrote.IsZero() && time.Since(wrote) > 10*time.Millisecond {
			return
		}
		time.Sleep(500 * time.Microsecond)
	}
}

func (cs *connState) leaveDeadlineCall() {
	cs.mu.Lock()
	cs.inflight--
	cs.mu.Unlock()
}

// waitQuiet waits until no deadline call is in flight.
func (cs *connState) waitQuiet(d time.Duration) bool {
	end := time.Now().Add(d)
	for {
		cs.mu.Lock()
		n := cs.inflight
		cs.mu.Unlock()
		if n == 0 {
			return true
		}
		if time.Now().After(end) {
			return false
		}
		time.Sleep(500 * time.Microsecond)
	}
}

func (cs *connState) deadlineCalls() []dlCall {
	cs.mu.Lock()
	defer cs.mu.Unlock()
	return append([]dlCall(nil), cs.dl...)
}

func dlClass(t time.Time) string {
	switch {
	case t.IsZero():
		return "z"
	case time.Until(t) < 0:
		return "p"
	}
	return "f"
}

var abandonOps = []string{"t1", "t2", "t3", "t4", "t6"}
var abandonKinds = []string{"cancel", "expire", "done", "alive"}

// abandon: SetCloseDeadline is in force and Serve waits for the peer; a transmit call is
// blocked in its connection write (peer not reading) when its context ends (kinds cancel,
// expire; done: over before the call; alive: the context outlives the call and the write is
// let through).  The transmit call gives up; it may only have moved the WRITE deadline: the
// deadline of Serve's read is the close deadline as before, Serve still waits and (short)
// returns when the close deadline passes, not earlier and not never.
func (c *ctxT) abandon(op, kind string, short bool) {
	r := c.r
	line := fmt.Sprintf("abandon %s %s %s", op, kind, common.B(short))
	lines := []string{r.Prop + " " + line}
	key := txNames[op] + "/" + kind
	t, err := newSess()
	if err != nil {
		r.Line(line, "ERR")
		return
	}
	defer t.close()
	t.startServe()
	if !t.feedWithin(" ", 2*time.Second) {
		r.Line(line, "ERR serve does not read")
		return
	}
	closeAt := time.Now().Add(time.Hour)
	if short {
		closeAt = time.Now().Add(700 * time.Millisecond)
	}
	if err := t.s.SetCloseDeadline(closeAt); err != nil {
		r.Line(line, "ERR "+err.Error())
		return
	}
	before := len(t.cst.deadlineCalls())
	gate := make(chan struct{})
	opened := false
	open := func() {
		if !opened {
			opened = true
			close(gate)
		}
	}
	defer open()
	t.cst.setGate(gate)
	ctx, cancel := context.WithCancel(context.Background())
	defer cancel()
	switch kind {
	case "expire":
		var c2 context.CancelFunc
		ctx, c2 = context.WithTimeout(ctx, 40*time.Millisecond)
		defer c2()
	case "done":
		cancel()
	}
	res := make(chan string, 1)
	go func() { res <- t.txCtx(ctx, op, 1) }()
	select {
	case <-t.cst.entered:
		switch kind {
		case "cancel":
			cancel()
		case "alive":
			open()
		}
	case <-time.After(3 * time.Second):
		// never reached the connection (a call may refuse a finished context at once)
	}
	var got string
	select {
	case got = <-res:
	case <-time.After(6 * time.Second):
		got = "STALL"
		r.Fail("abandoned-send-returns", key, lines, "the transmit call did not return after its context ended (the write deadline never made the blocked write fail)")
	}
	if got != "ok" && got != "STALL" {
		got = "failed"
	}
	// the peer reads again: whatever Serve writes when it ends goes through
	open()
	calls := t.cst.deadlineCalls()[before:]
	var ks []string
	read := "kept"
	for _, cl := range calls {
		ks = append(ks, cl.kind+dlClass(cl.t))
		if cl.kind != "W" {
			read = "moved"
		}
	}
	setters := "-"
	if len(ks) > 0 {
		setters = strings.Join(ks, ",")
	}
	if read == "moved" {
		r.Fail("transmit-keeps-read-deadline", key, lines, fmt.Sprintf("%s with a context that ended made the deadline calls %s on the connection: a transmit call may only move the write deadline, Serve's read shares the connection", txNames[op], setters))
	}
	// the read deadline the connection has now: the last call that sets it
	inForce := "none"
	for _, cl := range t.cst.deadlineCalls() {
		if cl.kind == "W" {
			continue
		}
		switch {
		case cl.t.Equal(closeAt):
			inForce = "close"
		case cl.t.IsZero():
			inForce = "zero"
		default:
			inForce = "other"
		}
	}
	if inForce != "close" {
		r.Fail("close-deadline-in-force", key, lines, fmt.Sprintf("after the abandoned %s the connection's read deadline is %q, not the one SetCloseDeadline installed", txNames[op], inForce))
	}
	serve := "blocked"
	if !short {
		if t.waitServe(120 * time.Millisecond) {
			serve = "returned"
			r.Fail("serve-keeps-waiting", key, lines, fmt.Sprintf("Serve returned %s although the peer sent nothing and the close deadline is an hour away", classifyRet(t.ret)))
		}
	} else {
		switch {
		case !t.waitServe(time.Until(closeAt) + 3*time.Second):
			serve = "never"
			r.Fail("serve-ends-at-deadline", key, lines, "Serve did not return when the close deadline passed")
		case time.Now().Before(closeAt.Add(-20 * time.Millisecond)):
			serve = "early"
			r.Fail("serve-ends-at-deadline", key, lines, fmt.Sprintf("Serve returned %s before the close deadline", classifyRet(t.ret)))
		default:
			serve = "deadline"
		}
	}
	r.Line(line, fmt.Sprintf("tx=%s setters=%s read=%s inforce=%s serve=%s", got, setters, read, inForce, serve))
	r.Case(line, got != "STALL", "abandon/"+kind)
}
