package c13

import (
	"encoding/xml"
	"fmt"
	"strconv"
	"strings"

	"mellium.im/xmpp"
	"mellium.im/xmpp/stanza"

	"verifharness/common"
)

// ---- round 5: several token readers alive at the same time ---------------------------------
//
// Every codec function that RETURNS a reader is read lazily by its caller
// (xmlstream.MultiReader, deferred sending, a handler that builds its replies first).  k values
// are converted, nothing is read, then the readers are drained in some order: each must yield the
// tokens of its own value, i.e. what it yields when it is made and drained alone.

var multiFns = []string{"marshal", "marshalptr", "wrap", "result", "error", "serr", "serrwrap", "sterr"}

type note struct {
	XMLName xml.Name `xml:"urn:example:note note"`
	Owner   string   `xml:"owner,attr"`
	Items   []string `xml:"item"`
}

// multiValue makes the i-th value of a multi case: a function that builds the reader anew.
func multiValue(fn string, rnd *common.Rand, i int) func() (xml.TokenReader, error) {
	kind := []string{"iq", "message", "presence"}[(i+rnd.Intn(3))%3]
	x := genStz(rnd, kind)
	x.id = fmt.Sprintf("multi-%d-%s", i, x.id)
	payload := genPayload(rnd)
	e := genErr(rnd)
	if len(e.texts) > 1 {
		e.texts = e.texts[:1] // the order of several texts is the map's
	}
	e.by = mustJID(fmt.Sprintf("by%d@example.net", i)).String()
	se := genStErr(rnd)
	se.texts = append(se.texts, [2]string{"en", fmt.Sprintf("multi %d", i)})
	switch fn {
	case "marshal":
		if rnd.Chance(1, 3) {
			v := note{Owner: fmt.Sprintf("o%d", i), Items: []string{pick(rnd, textPool), strconv.Itoa(i)}}
			return func() (xml.TokenReader, error) { return xmpp.VerifTokenReader(v) }
		}
		v := x.value()
		return func() (xml.TokenReader, error) { return xmpp.VerifTokenReader(v) }
	case "marshalptr":
		v := &note{Owner: fmt.Sprintf("p%d", i), Items: []string{strconv.Itoa(i), pick(rnd, textPool), pick(rnd, textPool)}}
		return func() (xml.TokenReader, error) { return xmpp.VerifTokenReader(v) }
	case "wrap":
		v := x.value()
		return func() (xml.TokenReader, error) { return wrapOf(v, reader(payload)), nil }
	case "result":
		x.kind = "iq"
		x.typ = pick(rnd, iqTypes)
		v := x.value().(stanza.IQ)
		return func() (xml.TokenReader, error) { return v.Result(reader(payload)), nil }
	case "error":
		v := x.value()
		ev := e.value()
		return func() (xml.TokenReader, error) { return errorOf(v, ev), nil }
	case "serr":
		ev := e.value()
		return func() (xml.TokenReader, error) { return ev.TokenReader(), nil }
	case "serrwrap":
		ev := e.value()
		return func() (xml.TokenReader, error) { return ev.Wrap(reader(payload)), nil }
	}
	sv := se.value()
	return func() (xml.TokenReader, error) { return sv.TokenReader(), nil }
}

func permutations(k int) [][]int {
	var out [][]int
	var rec func(cur []int, used int)
	rec = func(cur []int, used int) {
		if len(cur) == k {
			out = append(out, append([]int(nil), cur...))
			return
		}
		for i := 0; i < k; i++ {
			if used&(1<<i) == 0 {
				rec(append(cur, i), used|1<<i)
			}
		}
	}
	rec(nil, 0)
	return out
}

// multiCase: k values of one function, made in order, drained in the given order.
func (c *ctxT) multiCase(fn string, k int, order []int, vseed uint64) {
	r := c.r
	os := make([]string, len(order))
	for i, o := range order {
		os[i] = strconv.Itoa(o)
	}
	line := fmt.Sprintf("multi %s %d %s %d", fn, k, strings.Join(os, ","), vseed)
	lines := []string{r.Prop + " " + line}
	rnd := common.NewRand(vseed)
	mk := make([]func() (xml.TokenReader, error), k)
	own := make([]string, k)
	for i := range mk {
		mk[i] = multiValue(fn, rnd, i)
		tr, err := mk[i]()
		if err != nil {
			r.Line(line, "ERR "+err.Error())
			return
		}
		toks, err := common.ReadAllTokens(tr)
		if err != nil {
			r.Line(line, "ERR "+err.Error())
			return
		}
		own[i] = common.EncToks(toks)
	}
	rs := make([]xml.TokenReader, k)
	for i := range mk {
		tr, err := mk[i]()
		if err != nil {
			r.Line(line, "ERR "+err.Error())
			return
		}
		rs[i] = tr
	}
	obs := make([]string, len(order))
	for n, i := range order {
		toks, err := common.ReadAllTokens(rs[i])
		got := common.EncToks(toks)
		switch {
		case err != nil:
			obs[n] = "err"
		case got == own[i]:
			obs[n] = "own"
		case len(toks) == 0:
			obs[n] = "empty"
		default:
			obs[n] = "foreign"
			for j := range own {
				if j != i && got == own[j] {
					obs[n] = "other" + strconv.Itoa(j)
				}
			}
		}
		if obs[n] != "own" {
			detail := fmt.Sprintf("%d readers made by %s before any was read, drained in the order %v: reader %d yields %s instead of its own value's tokens", k, fn, order, i, obs[n])
			if err != nil {
				detail += " (" + err.Error() + ")"
			}
			c.fail("readers-independent", fn, lines, detail)
		}
	}
	r.Line(line, strings.Join(obs, ","))
	r.Case(line, true, "multi/"+fn+"/"+strconv.Itoa(k))
}

func (c *ctxT) multiAll(rnd *common.Rand, rounds int) {
	for n := 0; n < rounds; n++ {
		for _, fn := range multiFns {
			for k := 2; k <= 4; k++ {
				for _, order := range permutations(k) {
					c.multiCase(fn, k, order, rnd.Uint64()%1000000)
				}
			}
		}
	}
}
