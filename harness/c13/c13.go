// Package c13 drives the stanza and error codecs of mellium.im/xmpp/stanza and
// mellium.im/xmpp/stream (property C13).  Line protocol: see
// lean/XmppModel/Driver/C13.lean.
package c13

import (
	"bytes"
	"encoding/xml"
	"fmt"
	"io"
	"reflect"
	"sort"
	"strconv"
	"strings"

	"mellium.im/xmlstream"
	"mellium.im/xmpp/jid"
	"mellium.im/xmpp/stanza"
	"mellium.im/xmpp/stream"

	"verifharness/common"
)

const nsXML = "http://www.w3.org/XML/1998/namespace"

var (
	hx       = common.HexS
	idPool   = []string{"", "id1", "a&b<c>\"'", "ünï☃", " sp ", "x\ny\tz", "]]>"}
	langPool = []string{"", "en", "de-CH", "x-<&>"}
	textPool = []string{"", "plain", "a<b>&\"c'", "ünï ☃ 𝄞", " lead and trail ", "l1\nl2\r\n\tl3", "]]>", "&amp;",
		" ", "\n\t", "\u00a0", "  \r\n ", "\u2003"}
	jidPool  = []string{"", "example.net", "a@example.net", "b@example.com/res", "ü@example.org/r ☃", "c@example.net/a<&>'\"b",
		// round D: the edges of the parts.  A resourcepart is an opaque string: white space at its
		// start or end (and nothing but white space) is legal and significant
		"romeo@example.net/orchard ", "romeo@example.net/ lead", "example.net/ both ", "d@example.net/in  ner", "e@example.net/ ",
		"f@example.net/r/s@t", "example.net/a@b"}
	rawAddr  = []string{"", "example.net", "A@Example.NET/Res", "b@example.com/res", "@bad", "a@b@c", "ü@example.org/r", "x@example.com/",
		// round D: padding around / inside an attribute value (nothing is trimmed by any decoder)
		" ", "\n", "  \t", " a@example.net", "a@example.net ", "a@example.net/r ", "a@example.net/ r", "\ta@example.net/r\n", "example.net ", "a @example.net"}
	// edgeAddrs: the addresses of jidPool whose parts have white space or separators at their edges
	edgeAddrs = []string{"romeo@example.net/orchard ", "romeo@example.net/ lead", "example.net/ both ", "e@example.net/ ", "f@example.net/r/s@t", "example.net/a@b"}
	spaces   = []string{"", "jabber:client", "jabber:server", "urn:other", "jabber:component:accept", "jabber:component:connect"}
	iqTypes  = []string{"get", "set", "result", "error"}
	msgTypes = []string{"normal", "chat", "error", "groupchat", "headline"}
	prTypes  = []string{"", "error", "probe", "subscribe", "subscribed", "unavailable", "unsubscribe", "unsubscribed"}
	errTypes = []string{"", "cancel", "auth", "continue", "modify", "wait"}
	conds    = []string{"", "bad-request", "conflict", "feature-not-implemented", "forbidden", "gone", "internal-server-error",
		"item-not-found", "jid-malformed", "not-acceptable", "not-allowed", "not-authorized", "policy-violation",
		"recipient-unavailable", "redirect", "registration-required", "remote-server-not-found", "remote-server-timeout",
		"resource-constraint", "service-unavailable", "subscription-required", "undefined-condition", "unexpected-request"}
	streamConds = []string{"bad-format", "conflict", "host-unknown", "see-other-host", "undefined-condition", "system-shutdown", "not-well-formed"}
)

func pick(r *common.Rand, l []string) string { return l[r.Intn(len(l))] }

// sizes of the text fields: around the powers of two at which buffers and caps usually sit.
var textSizes = []int{255, 256, 257, 1023, 1024, 1025, 4095, 4096, 4097, 16384, 16385, 65535, 65537, 70000}

// sizedText returns a text of n bytes (n-2..n for the multi-byte flavours).  Flavour 0: ASCII;
// 1: three-byte characters, so that a byte offset at a power of two falls inside a character;
// 2: XML-special and two-byte characters mixed in.
func sizedText(n, flavour int) string {
	var unit string
	switch flavour % 3 {
	case 0:
		unit = "x"
	case 1:
		unit = "\u20ac"
	default:
		unit = "a<&>\u00fc'\"]]>"
	}
	var b strings.Builder
	for b.Len()+len(unit) <= n {
		b.WriteString(unit)
	}
	for b.Len() < n && flavour%3 != 1 {
		b.WriteByte('y')
	}
	return b.String()
}

// pickText: a text from the pool, or (1 in 12) a long one with a size next to a power of two.
func pickText(r *common.Rand) string {
	if r.Chance(1, 12) {
		n := (1 << (8 + r.Intn(5))) + r.Intn(3) - 1
		return sizedText(n, r.Intn(3))
	}
	return pick(r, textPool)
}

func mustJID(s string) jid.JID {
	if s == "" {
		return jid.JID{}
	}
	return jid.MustParse(s)
}

type stz struct {
	kind                           string
	space, id, to, from, lang, typ string
}

func (x stz) fields() string {
	return fmt.Sprintf("%s %s %s %s %s %s", hx(x.space), hx(x.id), hx(x.to), hx(x.from), hx(x.lang), hx(x.typ))
}

func genStz(r *common.Rand, kind string) stz {
	x := stz{kind: kind, space: pick(r, spaces), id: pick(r, idPool), lang: pick(r, langPool)}
	if r.Chance(1, 24) {
		x.id = pickText(r)
	}
	x.to = mustJID(pick(r, jidPool)).String()
	x.from = mustJID(pick(r, jidPool)).String()
	switch kind {
	case "iq":
		x.typ = pick(r, iqTypes)
	case "message":
		x.typ = pick(r, msgTypes)
	default:
		x.typ = pick(r, prTypes)
	}
	return x
}

// value builds the real stanza value.
func (x stz) value() interface{} {
	name := xml.Name{Space: x.space, Local: x.kind}
	switch x.kind {
	case "iq":
		return stanza.IQ{XMLName: name, ID: x.id, To: mustJID(x.to), From: mustJID(x.from), Lang: x.lang, Type: stanza.IQType(x.typ)}
	case "message":
		return stanza.Message{XMLName: name, ID: x.id, To: mustJID(x.to), From: mustJID(x.from), Lang: x.lang, Type: stanza.MessageType(x.typ)}
	}
	return stanza.Presence{XMLName: name, ID: x.id, To: mustJID(x.to), From: mustJID(x.from), Lang: x.lang, Type: stanza.PresenceType(x.typ)}
}

func fromValue(kind string, v interface{}) stz {
	switch t := v.(type) {
	case stanza.IQ:
		return stz{kind, t.XMLName.Space, t.ID, t.To.String(), t.From.String(), t.Lang, string(t.Type)}
	case stanza.Message:
		return stz{kind, t.XMLName.Space, t.ID, t.To.String(), t.From.String(), t.Lang, string(t.Type)}
	case stanza.Presence:
		return stz{kind, t.XMLName.Space, t.ID, t.To.String(), t.From.String(), t.Lang, string(t.Type)}
	}
	return stz{}
}

func startOf(v interface{}) xml.StartElement {
	switch t := v.(type) {
	case stanza.IQ:
		return t.StartElement()
	case stanza.Message:
		return t.StartElement()
	case stanza.Presence:
		return t.StartElement()
	}
	return xml.StartElement{}
}

func wrapOf(v interface{}, p xml.TokenReader) xml.TokenReader {
	switch t := v.(type) {
	case stanza.IQ:
		return t.Wrap(p)
	case stanza.Message:
		return t.Wrap(p)
	case stanza.Presence:
		return t.Wrap(p)
	}
	return nil
}

func errorOf(v interface{}, e stanza.Error) xml.TokenReader {
	switch t := v.(type) {
	case stanza.IQ:
		return t.Error(e)
	case stanza.Message:
		return t.Error(e)
	case stanza.Presence:
		return t.Error(e)
	}
	return nil
}

// newOf calls NewIQ / NewMessage / NewPresence; local name of the result is
// returned separately.
func newOf(kind string, s xml.StartElement) (x stz, local string, err error, pan string) {
	pan = common.Recover(func() {
		switch kind {
		case "iq":
			var v stanza.IQ
			v, err = stanza.NewIQ(s)
			x, local = fromValue(kind, v), v.XMLName.Local
		case "message":
			var v stanza.Message
			v, err = stanza.NewMessage(s)
			x, local = fromValue(kind, v), v.XMLName.Local
		default:
			var v stanza.Presence
			v, err = stanza.NewPresence(s)
			x, local = fromValue(kind, v), v.XMLName.Local
		}
	})
	return
}

func parseTable(s xml.StartElement) string {
	var l []string
	seen := map[string]bool{}
	for _, a := range s.Attr {
		if (a.Name.Local == "to" || a.Name.Local == "from" || a.Name.Local == "by") && a.Value != "" && !seen[a.Value] {
			seen[a.Value] = true
			j, err := jid.Parse(a.Value)
			if err != nil {
				l = append(l, hx(a.Value)+"=!")
			} else {
				l = append(l, hx(a.Value)+"="+hx(j.String()))
			}
		}
	}
	return common.Join(l, ",")
}

type sliceReader struct {
	t []xml.Token
	i int
}

func (s *sliceReader) Token() (xml.Token, error) {
	if s.i >= len(s.t) {
		return nil, io.EOF
	}
	t := s.t[s.i]
	s.i++
	return xml.CopyToken(t), nil
}

func reader(t []xml.Token) xml.TokenReader {
	if len(t) == 0 {
		return nil
	}
	return &sliceReader{t: t}
}

const (
	nsStanzaErr = "urn:ietf:params:xml:ns:xmpp-stanzas"
	nsStreamErr = "urn:ietf:params:xml:ns:xmpp-streams"
)

// confusableLocals: the local names an error decoder treats specially (the descriptive text, the
// error element itself, conditions with and without content).  An application condition may
// have any of these names in ITS OWN namespace and is then still the application condition.
var confusableLocals = []string{"text", "error", "see-other-host", "conflict", "gone", "undefined-condition", "lang"}

// confusableSpaces: namespaces an application element may live in (never the namespace of the
// error it is put into: ownNS is left out by the callers).
var confusableSpaces = []string{"urn:example:cluster", "jabber:client", "http://etherx.jabber.org/streams", nsStanzaErr, nsStreamErr, nsXML}

// confusable builds an application element <local xmlns=space xml:lang=..>chars</local>.
func confusable(space, local, lang, chars string) []xml.Token {
	s := xml.StartElement{Name: xml.Name{Space: space, Local: local}}
	if lang != "" {
		s.Attr = []xml.Attr{{Name: xml.Name{Space: nsXML, Local: "lang"}, Value: lang}}
	}
	if chars == "" {
		return []xml.Token{s, s.End()}
	}
	return []xml.Token{s, xml.CharData(chars), s.End()}
}

// confusablePayloads: every special local name x every namespace other than ownNS, with
// character data (and half of them with xml:lang), alone and two in a row.
func confusablePayloads(ownNS string) [][]xml.Token {
	var out [][]xml.Token
	for i, sp := range confusableSpaces {
		if sp == ownNS {
			continue
		}
		for k, lo := range confusableLocals {
			lang := ""
			if (i+k)%2 == 0 {
				lang = "en"
			}
			out = append(out, confusable(sp, lo, lang, "node 7 is draining"))
		}
		out = append(out, append(confusable(sp, "text", "de", "eins"), confusable(sp, "text", "", "")...))
	}
	return out
}

func genPayload(r *common.Rand) []xml.Token {
	if r.Chance(1, 8) {
		// an application element named like something the error decoders look for, in a namespace
		// of its own (never the stanza-errors / stream-errors `text`, which IS a descriptive text)
		sp := pick(r, []string{"urn:example:cluster", "jabber:client", "http://etherx.jabber.org/streams"})
		return confusable(sp, pick(r, confusableLocals), pick(r, langPool[:2]), pick(r, textPool))
	}
	switch r.Intn(6) {
	case 4:
		// an application element that (wrongly but legally) lives in the stanza-errors namespace,
		// after the condition: the condition is still the FIRST element of that namespace
		g := xml.StartElement{Name: xml.Name{Space: "urn:ietf:params:xml:ns:xmpp-stanzas", Local: pick(r, []string{"gone", "redirect", "app-specific"})}}
		return []xml.Token{g, xml.CharData("xmpp:other@example.net"), g.End()}
	case 5:
		a := xml.StartElement{Name: xml.Name{Space: "urn:app", Local: "a"}}
		g := xml.StartElement{Name: xml.Name{Space: "urn:ietf:params:xml:ns:xmpp-stanzas", Local: "conflict"}}
		return []xml.Token{a, a.End(), g, g.End()}
	case 0:
		return nil
	case 1:
		s := xml.StartElement{Name: xml.Name{Space: "urn:app", Local: "x"}, Attr: []xml.Attr{{Name: xml.Name{Local: "a"}, Value: pick(r, textPool)}}}
		return []xml.Token{s, xml.CharData(pick(r, textPool)), s.End()}
	case 2:
		s := xml.StartElement{Name: xml.Name{Space: "urn:app", Local: "outer"}}
		in := xml.StartElement{Name: xml.Name{Space: "urn:app2", Local: "text"}}
		return []xml.Token{s, in, xml.CharData("nested"), in.End(), xml.CharData(pick(r, textPool)), s.End()}
	}
	a := xml.StartElement{Name: xml.Name{Space: "urn:app", Local: "a"}}
	b := xml.StartElement{Name: xml.Name{Space: "urn:app", Local: "b"}}
	return []xml.Token{a, a.End(), b, xml.CharData(pick(r, textPool)), b.End()}
}

type ctxT struct{ r *common.Run }

func (c *ctxT) fail(clause, key string, lines []string, detail string) {
	c.r.Fail(clause, key, lines, detail)
}

// encodeTokens prints a token reader with a plain encoder.
func encodeTokens(tr xml.TokenReader) ([]byte, error) {
	var b bytes.Buffer
	e := xml.NewEncoder(&b)
	if _, err := xmlstream.Copy(e, tr); err != nil {
		return nil, err
	}
	if err := e.Flush(); err != nil {
		return nil, err
	}
	return b.Bytes(), nil
}

func wellFormed(b []byte) error {
	_, err := common.Tokenize(b)
	return err
}

func eqStz(a, b stz, withSpace bool) bool {
	if !withSpace {
		a.space, b.space = "", ""
	}
	return a == b
}

// typeEdgeCase (round E, review B C13-2): values whose type field is NOT one of the defined
// constants are outside the property, but what the two encoding paths do with them is behaviour
// the model states (IQ: the marshaller prints "get" for "", StartElement prints type=""; message:
// both paths normalise to "normal"; presence: neither does).  Differential lines only, no oracle.
func (c *ctxT) typeEdgeCase(x stz) {
	r := c.r
	v := x.value()
	line := fmt.Sprintf("start %s %s", x.kind, x.fields())
	st := startOf(v)
	r.Line(line, common.EncToks(common.SortedAttrs([]xml.Token{st})))
	r.Case(line, true, "type-edge/"+x.kind)
	c.rnewLine(x.kind, st)
	mb, merr := xml.Marshal(v)
	if merr != nil {
		return
	}
	mt, terr := common.Tokenize(mb)
	if terr != nil || len(mt) == 0 {
		return
	}
	if ms, ok := mt[0].(xml.StartElement); ok {
		var as []xml.Attr
		for _, a := range ms.Attr {
			if !(a.Name.Space == "xmlns" || (a.Name.Space == "" && a.Name.Local == "xmlns")) {
				as = append(as, a)
			}
		}
		ms.Attr = as
		r.Line(fmt.Sprintf("mstart %s %s", x.kind, x.fields()), common.EncToks(common.SortedAttrs([]xml.Token{ms})))
		c.rnewLine(x.kind, ms)
	}
}

// substituteNonXML is what a text becomes on the wire: code points XML cannot carry are written
// as U+FFFD by encoding/xml.
func substituteNonXML(t string) string {
	var b strings.Builder
	for _, c := range t {
		ok := c == 0x9 || c == 0xA || c == 0xD || (c >= 0x20 && c <= 0xD7FF) || (c >= 0xE000 && c <= 0xFFFD) || (c >= 0x10000 && c <= 0x10FFFF)
		if ok {
			b.WriteRune(c)
		} else {
			b.WriteRune(0xFFFD)
		}
	}
	return b.String()
}

// nonXMLCase (round F, review B C13-1c): "well-formed whatever characters the text fields contain".
// A text with code points that XML cannot carry (C0 controls, U+FFFE, U+FFFF, NUL) goes through both
// encoding paths of a stanza error, a stream error and a stanza id: the output must be well-formed
// and decode to the U+FFFD-substituted text (the decode round trip cannot hold for these characters:
// assumption[0]).  The `fix` line ties the model's substitution (Header.fixChar) to what the real
// encoder + decoder return.
func (c *ctxT) nonXMLCase(text string) {
	r := c.r
	want := substituteNonXML(text)
	line := "fix " + hx(text)
	lines := []string{r.Prop + " " + line}
	observed := ""
	try := func(key string, b []byte, err error, decode func([]byte) (string, error)) {
		if err != nil {
			c.fail("wellformed", "nonxml/"+key, lines, "encoding failed: "+err.Error())
			return
		}
		if werr := wellFormed(b); werr != nil {
			c.fail("wellformed", "nonxml/"+key, lines, fmt.Sprintf("not well-formed: %v: %q", werr, b))
			return
		}
		got, derr := decode(b)
		if derr != nil || got != want {
			c.fail("roundtrip", "nonxml-substituted/"+key, lines, fmt.Sprintf("decoded %q (err %v), want the substituted text %q", got, derr, want))
		}
		if observed == "" {
			observed = got
		}
	}
	se := stanza.Error{Type: stanza.Cancel, Condition: stanza.Gone, Text: map[string]string{"en": text}}
	decSE := func(b []byte) (string, error) {
		var v stanza.Error
		err := xml.Unmarshal(b, &v)
		return v.Text["en"], err
	}
	b, err := xml.Marshal(se)
	try("serr/path1", b, err, decSE)
	b, err = encodeTokens(se.TokenReader())
	try("serr/path2", b, err, decSE)
	ste := stream.Error{Err: "conflict", Text: []struct{ Lang, Value string }{{"en", text}}}
	decST := func(b []byte) (string, error) {
		var v stream.Error
		err := xml.Unmarshal(b, &v)
		if len(v.Text) != 1 {
			return "", fmt.Errorf("%d texts", len(v.Text))
		}
		return v.Text[0].Value, err
	}
	b, err = xml.Marshal(ste)
	try("sterr/path1", b, err, decST)
	b, err = encodeTokens(ste.TokenReader())
	try("sterr/path2", b, err, decST)
	msg := stanza.Message{ID: text, Type: stanza.ChatMessage}
	decM := func(b []byte) (string, error) {
		var v stanza.Message
		err := xml.Unmarshal(b, &v)
		return v.ID, err
	}
	b, err = xml.Marshal(msg)
	try("message-id/path1", b, err, decM)
	b, err = encodeTokens(msg.Wrap(nil))
	try("message-id/path2", b, err, decM)
	r.Line(line, hx(observed))
	r.Case(line, true, "nonxml-text")
}

// stanzaCase: every check for one IQ/message/presence value.
func (c *ctxT) stanzaCase(x stz, payload []xml.Token, rnd *common.Rand) {
	r := c.r
	v := x.value()
	kind := x.kind
	// --- start
	line := fmt.Sprintf("start %s %s", kind, x.fields())
	st := startOf(v)
	r.Line(line, common.EncToks(common.SortedAttrs([]xml.Token{st})))
	r.Case(line, true, "stanza/"+kind)
	lines := []string{r.Prop + " " + line}
	// --- the struct-tag path: what xml.Marshal prints, what xml.Unmarshal reads
	if mb, merr := xml.Marshal(v); merr == nil {
		if mt, terr := common.Tokenize(mb); terr == nil && len(mt) > 0 {
			if ms, ok := mt[0].(xml.StartElement); ok {
				var as []xml.Attr
				for _, a := range ms.Attr {
					if !(a.Name.Space == "xmlns" || (a.Name.Space == "" && a.Name.Local == "xmlns")) {
						as = append(as, a)
					}
				}
				ms.Attr = as
				r.Line(fmt.Sprintf("mstart %s %s", kind, x.fields()), common.EncToks(common.SortedAttrs([]xml.Token{ms})))
				c.rnewLine(kind, ms)
			}
		}
	}
	c.rnewLine(kind, st)
	// --- new(start(x)) = x
	nline := fmt.Sprintf("new %s %s %s", kind, common.EncTok(st), parseTable(st))
	got, local, err, pan := newOf(kind, st)
	switch {
	case pan != "":
		r.Line(nline, "PANIC")
		c.fail("total", "new/"+kind, []string{r.Prop + " " + nline}, pan)
	case err != nil:
		r.Line(nline, "err")
		c.fail("start-inverse", kind, lines, fmt.Sprintf("New(StartElement(x)) failed: %v", err))
	default:
		r.Line(nline, fmt.Sprintf("ok %s %s %s", hx(got.space), hx(local), got.fieldsNoSpace()))
		if !eqStz(got, x, true) || local != kind {
			c.fail("start-inverse", kind, lines, fmt.Sprintf("New(StartElement(x)) = %+v (local %q), x = %+v", got, local, x))
		}
	}
	// --- wrap keeps the payload
	wline := fmt.Sprintf("wrap %s %s %s", kind, x.fields(), common.EncToks(payload))
	wt, werr := common.ReadAllTokens(wrapOf(v, reader(payload)))
	if werr != nil {
		r.Line(wline, "ERR")
	} else {
		r.Line(wline, common.EncToks(common.SortedAttrs(wt)))
		if len(wt) != len(payload)+2 || common.EncToks(wt[1:len(wt)-1]) != common.EncToks(payload) {
			c.fail("wrap-payload", kind, []string{r.Prop + " " + wline}, "the payload inside the wrapped stanza differs from the payload given")
		}
		if s0, ok := wt[0].(xml.StartElement); !ok || s0.Name.Local != kind {
			c.fail("wrap-payload", kind, []string{r.Prop + " " + wline}, "the wrapped stanza is not of the right kind")
		}
	}
	// --- result / error swap addresses
	e := genErr(rnd)
	if kind == "iq" {
		rline := fmt.Sprintf("result %s %s", x.fields(), common.EncToks(payload))
		rt, _ := common.ReadAllTokens(v.(stanza.IQ).Result(reader(payload)))
		r.Line(rline, common.EncToks(common.SortedAttrs(rt)))
		c.checkSwap(x, rt, "result", []string{r.Prop + " " + rline})
	}
	eline := fmt.Sprintf("error %s %s %s", kind, x.fields(), e.fields())
	et, _ := common.ReadAllTokens(errorOf(v, e.value()))
	r.Line(eline, common.EncToks(common.SortedAttrs(et)))
	c.checkSwap(x, et, "error", []string{r.Prop + " " + eline})
	// UnmarshalError finds the error again
	if len(et) > 2 {
		ue, uerr, upan := unmarshalError(et[1:])
		switch {
		case upan != "":
			c.fail("total", "UnmarshalError", []string{r.Prop + " " + eline}, upan)
		case uerr != nil:
			c.fail("error-roundtrip", "UnmarshalError", []string{r.Prop + " " + eline}, uerr.Error())
		case !reflect.DeepEqual(canonErr(fromErr(ue)), canonErr(e)):
			c.fail("error-roundtrip", "UnmarshalError", []string{r.Prop + " " + eline}, fmt.Sprintf("got %+v want %+v", fromErr(ue), canonErr(e)))
		}
	}
	// --- the same reply after a trip through bytes: unqualified elements (the <error/> written by
	// Error.Wrap) are read back in the content namespace of the stanza, whatever that is
	if len(et) > 2 {
		c.uerrLine(et[1:])
		c.wireCase(x, e, et, []string{r.Prop + " " + eline})
		// an error reply usually echoes the payload of the request in front of the error: white
		// space and the (non-error) payload elements are skipped, the error is still found
		if pl := nonEmptyChars(payload); len(pl) > 0 && !hasErrorElement(pl) {
			echo := append([]xml.Token{et[0], xml.CharData("\n ")}, pl...)
			echo = append(echo, et[1:]...)
			c.wireCase(x, e, echo, []string{r.Prop + " " + wline, r.Prop + " " + eline})
		}
	}
	// --- the two encodings: well-formed, decode to the same value, equal to the original
	b1, err1 := xml.Marshal(v)
	b2, err2 := encodeTokens(wrapOf(v, nil))
	if err1 != nil || err2 != nil {
		c.fail("wellformed", "stanza/"+kind, lines, fmt.Sprintf("marshal error %v / %v", err1, err2))
		return
	}
	for i, b := range [][]byte{b1, b2} {
		if e := wellFormed(b); e != nil {
			c.fail("wellformed", fmt.Sprintf("stanza/%s/path%d", kind, i+1), lines, fmt.Sprintf("%q: %v", b, e))
			return
		}
	}
	u1, e1 := unmarshalStz(kind, b1)
	u2, e2 := unmarshalStz(kind, b2)
	if e1 != nil || e2 != nil {
		c.fail("roundtrip", "stanza/"+kind+"/unmarshal", lines, fmt.Sprintf("unmarshal: %v / %v (%q, %q)", e1, e2, b1, b2))
		return
	}
	// field by field, so that the one known divergence (the marshaller drops XMLName.Space) has a
	// key of its own and cannot hide any other
	diff := func(a, b stz) []string {
		var d []string
		for _, f := range [][3]string{{"id", a.id, b.id}, {"to", a.to, b.to}, {"from", a.from, b.from}, {"lang", a.lang, b.lang}, {"type", a.typ, b.typ}, {"xmlname-space", a.space, b.space}} {
			if f[1] != f[2] {
				d = append(d, f[0])
			}
		}
		return d
	}
	for _, f := range diff(u1, u2) {
		c.fail("paths-agree", "stanza/"+kind+"/"+f, lines, fmt.Sprintf("field %s: marshaller %q decodes to %+v, token path %q decodes to %+v", f, b1, u1, b2, u2))
	}
	for i, u := range []stz{u1, u2} {
		for _, f := range diff(u, x) {
			if f == "xmlname-space" && i == 0 {
				continue // reported once, under paths-agree
			}
			c.fail("roundtrip", fmt.Sprintf("stanza/%s/%s/path%d", kind, f, i+1), lines, fmt.Sprintf("field %s: decoded %+v, original %+v (%q)", f, u, x, [][]byte{b1, b2}[i]))
		}
	}
}

// nonEmptyChars drops empty character data (the printer writes nothing for it).
func nonEmptyChars(ts []xml.Token) []xml.Token {
	var out []xml.Token
	for _, t := range ts {
		if cd, ok := t.(xml.CharData); ok && len(cd) == 0 {
			continue
		}
		out = append(out, t)
	}
	return out
}

func hasErrorElement(ts []xml.Token) bool {
	for _, t := range ts {
		if s, ok := t.(xml.StartElement); ok && s.Name.Local == "error" {
			return true
		}
	}
	return false
}

// wireTrip prints the tokens with a plain encoder and parses the bytes again; namespace
// declarations (which the decoder reports as attributes as well as in the names) are dropped.
func wireTrip(ts []xml.Token) ([]xml.Token, []byte, error) {
	b, err := encodeTokens(&sliceReader{t: ts})
	if err != nil {
		return nil, nil, err
	}
	wt, err := common.Tokenize(b)
	if err != nil {
		return nil, b, err
	}
	for i, t := range wt {
		if st, ok := t.(xml.StartElement); ok {
			var as []xml.Attr
			for _, a := range st.Attr {
				if !(a.Name.Space == "xmlns" || (a.Name.Space == "" && a.Name.Local == "xmlns")) {
					as = append(as, a)
				}
			}
			st.Attr = as
			wt[i] = st
		}
	}
	return wt, b, nil
}

// uerrLine: stanza.UnmarshalError on the tokens that follow the start element of a stanza.
func (c *ctxT) uerrLine(after []xml.Token) (stanza.Error, string) {
	r := c.r
	table := "-"
	for _, t := range after {
		if s, ok := t.(xml.StartElement); ok && s.Name.Local == "error" {
			table = parseTable(s)
			break
		}
	}
	line := fmt.Sprintf("uerr %s %s", common.EncToks(after), table)
	v, err, pan := unmarshalError(after)
	obs := ""
	switch {
	case pan != "":
		obs = "PANIC"
		c.fail("total", "UnmarshalError", []string{r.Prop + " " + line}, pan)
	case err != nil && strings.Contains(err.Error(), "expected error payload"):
		obs = "missing"
	case err != nil:
		obs = "bad"
	default:
		obs = "ok " + fromErr(v).fields()
	}
	r.Line(line, obs)
	r.Case(line, err == nil, "uerr")
	return v, obs
}

// wireCase: the error reply et of stanza x (error e) printed and parsed again: still a reply of
// the right kind with the addresses swapped, and UnmarshalError returns the original error.
func (c *ctxT) wireCase(x stz, e serr, et []xml.Token, lines []string) {
	r := c.r
	wline := "wire " + common.EncToks(et)
	wt, b, err := wireTrip(et)
	if err != nil {
		r.Line(wline, "unbalanced")
		c.fail("wellformed", "reply/"+x.kind, lines, fmt.Sprintf("%q: %v", b, err))
		return
	}
	r.Line(wline, common.EncToks(common.SortedAttrs(wt)))
	r.Case(wline, true, "wire")
	if len(wt) < 2 {
		c.fail("wellformed", "reply/"+x.kind, lines, fmt.Sprintf("%q: no element", b))
		return
	}
	st, ok := wt[0].(xml.StartElement)
	if !ok {
		c.fail("wellformed", "reply/"+x.kind, lines, fmt.Sprintf("%q: no start element", b))
		return
	}
	got, local, nerr, pan := newOf(x.kind, st)
	if nerr != nil || pan != "" {
		c.fail("swap", "error/wire", lines, fmt.Sprintf("the reply read back from %q does not parse: %v %s", b, nerr, pan))
	} else if got.to != x.from || got.from != x.to || got.id != x.id || got.lang != x.lang || got.typ != "error" || got.space != x.space || local != x.kind {
		c.fail("swap", "error/wire", lines, fmt.Sprintf("reply %+v read back from %q for %+v", got, b, x))
	}
	ue, obs := c.uerrLine(wt[1:])
	switch {
	case obs == "PANIC":
	case !strings.HasPrefix(obs, "ok "):
		c.fail("error-roundtrip", "UnmarshalError/wire", lines, fmt.Sprintf("the error of the reply read back from %q (content namespace %q) is not found or not decoded: %s", b, x.space, obs))
	case !reflect.DeepEqual(canonErr(fromErr(ue)), canonErr(e)):
		c.fail("error-roundtrip", "UnmarshalError/wire", lines, fmt.Sprintf("got %+v want %+v (%q)", fromErr(ue), canonErr(e), b))
	}
}

func (x stz) fieldsNoSpace() string {
	return fmt.Sprintf("%s %s %s %s %s", hx(x.id), hx(x.to), hx(x.from), hx(x.lang), hx(x.typ))
}

func unmarshalStz(kind string, b []byte) (stz, error) {
	switch kind {
	case "iq":
		var v stanza.IQ
		err := xml.Unmarshal(b, &v)
		return fromValue(kind, v), err
	case "message":
		var v stanza.Message
		err := xml.Unmarshal(b, &v)
		return fromValue(kind, v), err
	}
	var v stanza.Presence
	err := xml.Unmarshal(b, &v)
	return fromValue(kind, v), err
}

func (c *ctxT) checkSwap(x stz, toks []xml.Token, typ string, lines []string) {
	if len(toks) == 0 {
		c.fail("swap", typ, lines, "no tokens")
		return
	}
	s, ok := toks[0].(xml.StartElement)
	if !ok {
		c.fail("swap", typ, lines, "no start element")
		return
	}
	got, _, err, pan := newOf(x.kind, s)
	if err != nil || pan != "" {
		c.fail("swap", typ, lines, fmt.Sprintf("reply start element does not parse: %v %s", err, pan))
		return
	}
	if got.to != x.from || got.from != x.to || got.id != x.id || got.lang != x.lang || got.typ != typ {
		c.fail("swap", typ, lines, fmt.Sprintf("reply %+v for %+v", got, x))
	}
}

// ---- stanza errors ------------------------------------------------------------------------

type serr struct {
	by, typ, cond string
	texts         [][2]string // sorted by language
}

func (e serr) fields() string {
	var l []string
	for _, t := range e.texts {
		l = append(l, hx(t[0])+"="+hx(t[1]))
	}
	return fmt.Sprintf("%s %s %s %s", hx(e.by), hx(e.typ), hx(e.cond), common.Join(l, ","))
}

func (e serr) value() stanza.Error {
	v := stanza.Error{By: mustJID(e.by), Type: stanza.ErrorType(e.typ), Condition: stanza.Condition(e.cond)}
	if len(e.texts) > 0 {
		v.Text = map[string]string{}
		for _, t := range e.texts {
			v.Text[t[0]] = t[1]
		}
	}
	return v
}

func fromErr(v stanza.Error) serr {
	e := serr{by: v.By.String(), typ: string(v.Type), cond: string(v.Condition)}
	for l, t := range v.Text {
		e.texts = append(e.texts, [2]string{l, t})
	}
	sort.Slice(e.texts, func(i, j int) bool { return e.texts[i][0] < e.texts[j][0] })
	return e
}

// canonErr: empty texts dropped, empty condition is undefined-condition.
func canonErr(e serr) serr {
	out := serr{by: e.by, typ: e.typ, cond: e.cond}
	if out.cond == "" {
		out.cond = "undefined-condition"
	}
	for _, t := range e.texts {
		if t[1] != "" {
			out.texts = append(out.texts, t)
		}
	}
	return out
}

func genErr(r *common.Rand) serr {
	e := serr{by: mustJID(pick(r, jidPool)).String(), typ: pick(r, errTypes), cond: pick(r, conds)}
	seen := map[string]bool{}
	n := r.Intn(4)
	for i := 0; i < n; i++ {
		l := pick(r, langPool)
		if seen[l] {
			continue
		}
		seen[l] = true
		e.texts = append(e.texts, [2]string{l, pickText(r)})
	}
	sort.Slice(e.texts, func(i, j int) bool { return e.texts[i][0] < e.texts[j][0] })
	return e
}

func unmarshalError(afterStart []xml.Token) (v stanza.Error, err error, pan string) {
	pan = common.Recover(func() { v, err = stanza.UnmarshalError(&sliceReader{t: afterStart}) })
	return
}

func decodeErrTokens(toks []xml.Token) (v stanza.Error, err error, pan string) {
	pan = common.Recover(func() { err = xml.NewTokenDecoder(&sliceReader{t: toks}).Decode(&v) })
	return
}

func (c *ctxT) sdecLine(toks []xml.Token) {
	r := c.r
	table := "-"
	if len(toks) > 0 {
		if s, ok := toks[0].(xml.StartElement); ok {
			table = parseTable(s)
		}
	}
	line := fmt.Sprintf("sdec %s %s", common.EncToks(toks), table)
	v, err, pan := decodeErrTokens(toks)
	switch {
	case pan != "":
		r.Line(line, "PANIC")
		c.fail("total", "sdec", []string{r.Prop + " " + line}, pan)
	case err != nil:
		r.Line(line, "err")
	default:
		r.Line(line, "ok "+fromErr(v).fields())
	}
	r.Case(line, err == nil, "sdec")
}

func (c *ctxT) errCase(e serr, payload []xml.Token, rnd *common.Rand) {
	r := c.r
	v := e.value()
	line := fmt.Sprintf("serr %s %s", e.fields(), common.EncToks(payload))
	lines := []string{r.Prop + " " + line}
	var toks []xml.Token
	var err error
	if payload == nil {
		toks, err = common.ReadAllTokens(v.TokenReader())
	} else {
		toks, err = common.ReadAllTokens(v.Wrap(reader(payload)))
	}
	if err != nil {
		r.Line(line, "ERR")
		return
	}
	r.Line(line, common.EncToks(common.SortedAttrs(toks)))
	r.Case(line, true, "serr")
	c.sdecLine(toks)
	if rnd.Chance(1, 3) && len(toks) > 4 {
		// decoder on other shapes: children reordered, whitespace and foreign children added
		mut := append([]xml.Token{toks[0], xml.CharData("\n  ")}, toks[3:len(toks)-1]...)
		mut = append(mut, toks[1], toks[2], toks[len(toks)-1])
		c.sdecLine(mut)
		// a foreign child before the condition and a second condition after it: the first
		// element in the stanza-error namespace is the condition
		f := xml.StartElement{Name: xml.Name{Space: "urn:app", Local: "first"}}
		g := xml.StartElement{Name: xml.Name{Space: "urn:ietf:params:xml:ns:xmpp-stanzas", Local: "gone"}}
		mut2 := append([]xml.Token{toks[0], f, f.End()}, toks[1:len(toks)-1]...)
		mut2 = append(mut2, g, xml.CharData("xmpp:other@example.net"), g.End(), toks[len(toks)-1])
		c.sdecLine(mut2)
	}
	if payload != nil {
		// with an application payload only the token path exists (Wrap): print it, decode it, and
		// the error must still be the original one
		want := canonErr(e)
		if b, err := encodeTokens(v.Wrap(reader(payload))); err != nil {
			c.fail("wellformed", "serr/payload", lines, err.Error())
		} else if werr := wellFormed(b); werr != nil {
			c.fail("wellformed", "serr/payload", lines, fmt.Sprintf("%q: %v", b, werr))
		} else {
			var out stanza.Error
			if err := xml.Unmarshal(b, &out); err != nil {
				c.fail("roundtrip", "serr/payload", lines, fmt.Sprintf("%q: %v", b, err))
			} else if got := fromErr(out); !reflect.DeepEqual(got, want) {
				c.fail("roundtrip", "serr/payload", lines, fmt.Sprintf("decoded %+v want %+v (%q)", got, want, b))
			}
			// and through UnmarshalError inside an error stanza
			toksP, _ := common.ReadAllTokens(v.Wrap(reader(payload)))
			st := stanza.IQ{ID: "e", Type: stanza.ErrorIQ}.StartElement()
			ue, uerr, upan := unmarshalError(append(append([]xml.Token(nil), toksP...), st.End()))
			switch {
			case upan != "":
				c.fail("total", "UnmarshalError/payload", lines, upan)
			case uerr != nil:
				c.fail("error-roundtrip", "UnmarshalError/payload", lines, uerr.Error())
			case !reflect.DeepEqual(canonErr(fromErr(ue)), want):
				c.fail("error-roundtrip", "UnmarshalError/payload", lines, fmt.Sprintf("got %+v want %+v", fromErr(ue), want))
			}
		}
		return
	}
	b1, err1 := xml.Marshal(v)
	b2, err2 := encodeTokens(v.TokenReader())
	var b3 bytes.Buffer
	enc := xml.NewEncoder(&b3)
	_, err3 := v.WriteXML(enc)
	enc.Flush()
	if err1 != nil || err2 != nil || err3 != nil {
		c.fail("wellformed", "serr", lines, fmt.Sprintf("marshal errors %v %v %v", err1, err2, err3))
		return
	}
	want := canonErr(e)
	for i, b := range [][]byte{b1, b2, b3.Bytes()} {
		if e := wellFormed(b); e != nil {
			c.fail("wellformed", fmt.Sprintf("serr/path%d", i+1), lines, fmt.Sprintf("%q: %v", b, e))
			continue
		}
		var out stanza.Error
		if err := xml.Unmarshal(b, &out); err != nil {
			c.fail("roundtrip", fmt.Sprintf("serr/path%d", i+1), lines, fmt.Sprintf("%q: %v", b, err))
			continue
		}
		if got := fromErr(out); !reflect.DeepEqual(got, want) {
			c.fail("roundtrip", fmt.Sprintf("serr/path%d", i+1), lines, fmt.Sprintf("decoded %+v want %+v (%q)", got, want, b))
		}
	}
	// UnmarshalError on a stanza that was pretty printed (whitespace between the children)
	iq := stanza.IQ{ID: "e", Type: stanza.ErrorIQ}
	st := iq.StartElement()
	inner := append([]xml.Token{xml.CharData("\n  ")}, toks...)
	inner = append(inner, xml.CharData("\n"), st.End())
	ue, uerr, upan := unmarshalError(inner)
	switch {
	case upan != "":
		c.fail("total", "UnmarshalError/whitespace", lines, upan)
	case uerr != nil:
		c.fail("error-roundtrip", "UnmarshalError/whitespace", lines, uerr.Error())
	case !reflect.DeepEqual(canonErr(fromErr(ue)), want):
		c.fail("error-roundtrip", "UnmarshalError/whitespace", lines, fmt.Sprintf("got %+v want %+v", fromErr(ue), want))
	}
}

// ---- stream errors -----------------------------------------------------------------------

type sterr struct {
	err, content string
	texts        [][2]string
}

func (e sterr) fields() string {
	var l []string
	for _, t := range e.texts {
		l = append(l, hx(t[0])+"="+hx(t[1]))
	}
	return fmt.Sprintf("%s %s %s", hx(e.err), hx(e.content), common.Join(l, ","))
}

func (e sterr) value() stream.Error {
	v := stream.Error{Err: e.err, Content: e.content}
	for _, t := range e.texts {
		v.Text = append(v.Text, struct{ Lang, Value string }{t[0], t[1]})
	}
	return v
}

func fromStErr(v stream.Error) sterr {
	e := sterr{err: v.Err, content: v.Content}
	for _, t := range v.Text {
		e.texts = append(e.texts, [2]string{t.Lang, t.Value})
	}
	return e
}

func canonStErr(e sterr) sterr {
	if e.err != "see-other-host" {
		e.content = ""
	}
	return e
}

func genStErr(r *common.Rand) sterr {
	e := sterr{err: pick(r, streamConds)}
	if e.err == "see-other-host" {
		e.content = pick(r, []string{"", "example.org:5222", "[::1]:5222", "a<&>b"})
	} else if r.Chance(1, 6) {
		e.content = "ignored"
	}
	n := r.Intn(3)
	for i := 0; i < n; i++ {
		e.texts = append(e.texts, [2]string{pick(r, langPool), pickText(r)})
	}
	return e
}

func (c *ctxT) stdecLine(toks []xml.Token) (sterr, error) {
	r := c.r
	line := "stdec " + common.EncToks(toks)
	var v stream.Error
	var err error
	pan := common.Recover(func() { err = xml.NewTokenDecoder(&sliceReader{t: toks}).Decode(&v) })
	switch {
	case pan != "":
		r.Line(line, "PANIC")
		c.fail("total", "stdec", []string{r.Prop + " " + line}, pan)
		return sterr{}, fmt.Errorf("panic")
	case err != nil:
		r.Line(line, "err")
	default:
		r.Line(line, "ok "+fromStErr(v).fields())
	}
	r.Case(line, err == nil, "stdec")
	return fromStErr(v), err
}

func (c *ctxT) stErrCase(e sterr, payload []xml.Token) {
	r := c.r
	v := e.value()
	if payload != nil {
		v = v.ApplicationError(reader(payload))
	}
	line := fmt.Sprintf("sterr %s %s", e.fields(), common.EncToks(payload))
	lines := []string{r.Prop + " " + line}
	toks, err := common.ReadAllTokens(v.TokenReader())
	if err != nil {
		r.Line(line, "ERR")
		return
	}
	r.Line(line, common.EncToks(common.SortedAttrs(toks)))
	r.Case(line, true, "sterr")
	key := "sterr"
	if payload != nil {
		key = "sterr/app"
	}
	want := canonStErr(e)
	got, derr := c.stdecLine(toks)
	if derr != nil {
		c.fail("roundtrip", key, lines, "decoding the error's own tokens fails: "+derr.Error())
	} else if !reflect.DeepEqual(got, want) {
		c.fail("roundtrip", key, lines, fmt.Sprintf("decoded %+v want %+v", got, want))
	}
	// the two encodings
	mk := func() stream.Error {
		x := e.value()
		if payload != nil {
			x = x.ApplicationError(reader(payload))
		}
		return x
	}
	b1, err1 := xml.Marshal(mk())
	var b2 bytes.Buffer
	enc := xml.NewEncoder(&b2)
	_, err2 := mk().WriteXML(enc)
	enc.Flush()
	if err1 != nil || err2 != nil {
		c.fail("wellformed", key, lines, fmt.Sprintf("marshal errors %v %v", err1, err2))
		return
	}
	var outs []sterr
	for i, b := range [][]byte{b1, b2.Bytes()} {
		if e := wellFormed(b); e != nil {
			c.fail("wellformed", fmt.Sprintf("%s/path%d", key, i+1), lines, fmt.Sprintf("%q: %v", b, e))
			return
		}
		var out stream.Error
		if err := xml.Unmarshal(b, &out); err != nil {
			c.fail("roundtrip", fmt.Sprintf("%s/path%d", key, i+1), lines, fmt.Sprintf("%q: %v", b, err))
			return
		}
		outs = append(outs, fromStErr(out))
	}
	if !reflect.DeepEqual(outs[0], outs[1]) {
		c.fail("paths-agree", key, lines, fmt.Sprintf("%+v vs %+v", outs[0], outs[1]))
	}
	if !reflect.DeepEqual(outs[0], want) {
		c.fail("roundtrip", key, lines, fmt.Sprintf("decoded %+v want %+v (%q)", outs[0], want, b1))
	}
}

// reflectOf decodes a start element (and its end) into the stanza struct with
// encoding/xml's reflection path.
func reflectOf(kind string, s xml.StartElement) (x stz, local string, err error, pan string) {
	d := xml.NewTokenDecoder(&sliceReader{t: []xml.Token{s, s.End()}})
	pan = common.Recover(func() {
		switch kind {
		case "iq":
			var v stanza.IQ
			err = d.Decode(&v)
			x, local = fromValue(kind, v), v.XMLName.Local
		case "message":
			var v stanza.Message
			err = d.Decode(&v)
			x, local = fromValue(kind, v), v.XMLName.Local
		default:
			var v stanza.Presence
			err = d.Decode(&v)
			x, local = fromValue(kind, v), v.XMLName.Local
		}
	})
	return
}

func (c *ctxT) rnewLine(kind string, s xml.StartElement) {
	r := c.r
	for _, a := range s.Attr {
		if a.Name.Local == "xmlns" {
			// a hand-made token with an xmlns attribute is re-interpreted by xml.NewTokenDecoder
			// (it becomes the element's namespace): not a start element any decoder delivers
			return
		}
	}
	line := fmt.Sprintf("rnew %s %s %s", kind, common.EncTok(s), parseTable(s))
	got, local, err, pan := reflectOf(kind, xml.CopyToken(s).(xml.StartElement))
	switch {
	case pan != "":
		r.Line(line, "PANIC")
		c.fail("total", "rnew/"+kind, []string{r.Prop + " " + line}, pan)
	case err != nil:
		r.Line(line, "err")
	default:
		r.Line(line, fmt.Sprintf("ok %s %s %s", hx(got.space), hx(local), got.fieldsNoSpace()))
	}
}

// newCase: NewIQ/… on start elements that did not come from StartElement.
func (c *ctxT) newCase(rnd *common.Rand) {
	kind := pick(rnd, []string{"iq", "message", "presence"})
	s := xml.StartElement{Name: xml.Name{Space: pick(rnd, spaces), Local: pick(rnd, []string{kind, kind, "other"})}}
	n := rnd.Intn(6)
	for i := 0; i < n; i++ {
		a := xml.Attr{}
		switch rnd.Intn(8) {
		case 0:
			a = xml.Attr{Name: xml.Name{Local: "id"}, Value: pick(rnd, idPool)}
		case 1:
			a = xml.Attr{Name: xml.Name{Local: "to"}, Value: pick(rnd, rawAddr)}
		case 2:
			a = xml.Attr{Name: xml.Name{Local: "from"}, Value: pick(rnd, rawAddr)}
		case 3:
			a = xml.Attr{Name: xml.Name{Local: "type"}, Value: pick(rnd, []string{"", "get", "chat", "bogus", "error", "probe", "normal"})}
		case 4:
			a = xml.Attr{Name: xml.Name{Space: nsXML, Local: "lang"}, Value: pick(rnd, langPool)}
		case 5:
			a = xml.Attr{Name: xml.Name{Space: pick(rnd, spaces), Local: pick(rnd, []string{"id", "to", "type", "lang"})}, Value: pick(rnd, []string{"v", "a@example.net"})}
		default:
			a = xml.Attr{Name: xml.Name{Local: pick(rnd, []string{"x", "xmlns"})}, Value: "v"}
		}
		s.Attr = append(s.Attr, a)
	}
	c.newTok(kind, s)
}

// newTok: NewIQ/… and the reflection decode on one start element, with the re-parse oracle.
func (c *ctxT) newTok(kind string, s xml.StartElement) {
	r := c.r
	c.rnewLine(kind, s)
	line := fmt.Sprintf("new %s %s %s", kind, common.EncTok(s), parseTable(s))
	got, local, err, pan := newOf(kind, xml.CopyToken(s).(xml.StartElement))
	switch {
	case pan != "":
		r.Line(line, "PANIC")
		c.fail("total", "new/"+kind, []string{r.Prop + " " + line}, pan)
	case err != nil:
		r.Line(line, "err")
	default:
		r.Line(line, fmt.Sprintf("ok %s %s %s", hx(got.space), hx(local), got.fieldsNoSpace()))
		// StartElement(New(s)) re-parses to the same value
		again, _, err2, _ := newOf(kind, startOf(got.value()))
		if err2 != nil || !eqStz(again, got, true) {
			c.fail("reparse", kind, []string{r.Prop + " " + line}, fmt.Sprintf("New(StartElement(New(s))) = %+v (%v), New(s) = %+v", again, err2, got))
		}
	}
	r.Case(line, err == nil, "new/"+kind)
}

// Run is the C13 runner.
func Run(r *common.Run) error {
	c := &ctxT{r: r}
	rnd := r.Rnd
	if r.Replay != "" {
		lines, err := common.ReplayLines(r.Replay)
		if err != nil {
			return err
		}
		for _, l := range lines {
			c.replayLine(l, rnd)
		}
		return nil
	}
	r.Mark("case corpus")
	app := []xml.Token{xml.StartElement{Name: xml.Name{Space: "urn:app", Local: "app"}}, xml.EndElement{Name: xml.Name{Space: "urn:app", Local: "app"}}}
	c.stErrCase(sterr{err: "conflict", texts: [][2]string{{"en", "hi <&> there"}}}, app)
	c.stErrCase(sterr{err: "see-other-host", content: "[::1]:5222"}, nil)
	c.stErrCase(sterr{err: "conflict", content: "ignored"}, nil)
	c.errCase(serr{typ: "cancel", cond: "", texts: [][2]string{{"", ""}, {"en", "x"}}}, nil, rnd)
	c.errCase(serr{by: "a@example.net", typ: "wait", cond: "gone", texts: [][2]string{{"", "l1\r\nl2"}, {"de", "ü<&>"}}}, nil, rnd)
	for _, k := range []string{"iq", "message", "presence"} {
		c.stanzaCase(stz{kind: k, typ: map[string]string{"iq": "get", "message": "normal", "presence": ""}[k]}, nil, rnd)
		if k == "iq" {
			for _, t := range []string{"a\x01b", "\x00", "x\x08\x0b\x0c\x1fy", "\ufffe", "ok\uffffok", "é\x02☃<&>'\"", "\x7f\u0085 fine", "\x1b[0m"} {
				c.nonXMLCase(t)
			}
			for i := 0; i < r.Pick(40, 400); i++ {
				alpha := []rune{0, 1, 8, 9, 0xA, 0xB, 0xC, 0xE, 0x1F, 0x20, 'a', '<', '&', 0x7F, 0xE9, 0xD7FF, 0xE000, 0xFFFD, 0xFFFE, 0xFFFF, 0x10000, 0x1F600}
				rs := make([]rune, 1+rnd.Intn(6))
				for x := range rs {
					rs[x] = alpha[rnd.Intn(len(alpha))]
				}
				c.nonXMLCase(string(rs))
			}
		}
		for _, t := range []string{"", "bogus", "GET", "Chat", "Error", " get", "result "} {
			c.typeEdgeCase(stz{kind: k, id: "i1", to: "a@example.net", typ: t})
			c.typeEdgeCase(stz{kind: k, typ: t})
		}
	}
	// exhaustive over kinds x types x which optional fields are set
	for _, k := range []string{"iq", "message", "presence"} {
		types := map[string][]string{"iq": iqTypes, "message": msgTypes, "presence": prTypes}[k]
		for _, t := range types {
			for mask := 0; mask < 32; mask++ {
				x := stz{kind: k, typ: t}
				if mask&1 != 0 {
					x.id = "i<&>'\""
				}
				if mask&2 != 0 {
					x.to = "b@example.com/r ☃"
				}
				if mask&4 != 0 {
					x.from = "example.net"
				}
				if mask&8 != 0 {
					x.lang = "de-CH"
				}
				if mask&16 != 0 {
					x.space = "jabber:server"
				}
				c.stanzaCase(x, genPayload(rnd), rnd)
			}
		}
	}
	r.Exhaustive = append(r.Exhaustive, "stanza kinds x every defined type x every subset of {id,to,from,lang,namespace} set")
	for _, cnd := range conds {
		for _, t := range errTypes {
			c.errCase(serr{typ: t, cond: cnd, texts: [][2]string{{"", "t"}}}, nil, rnd)
		}
	}
	r.Exhaustive = append(r.Exhaustive, "stanza error: every defined condition x every defined type")
	r.Mark("case sizes")
	for _, n := range textSizes {
		if n > r.Pick(20000, 100000) {
			continue
		}
		for fl := 0; fl < 3; fl++ {
			t := sizedText(n, fl)
			c.errCase(serr{typ: "modify", cond: "not-acceptable", texts: [][2]string{{"", t}, {"en", "en: " + t}}}, nil, rnd)
			c.errCase(serr{by: "a@example.net", typ: "wait", cond: "gone", texts: [][2]string{{"de", t}}}, genPayload(rnd), rnd)
			c.stErrCase(sterr{err: "conflict", texts: [][2]string{{"", t}, {"en", "en: " + t}}}, nil)
			c.stErrCase(sterr{err: "see-other-host", content: t}, nil)
			k := []string{"iq", "message", "presence"}[fl]
			c.stanzaCase(stz{kind: k, id: t, lang: "en", typ: map[string]string{"iq": "set", "message": "chat", "presence": "probe"}[k]},
				[]xml.Token{xml.StartElement{Name: xml.Name{Space: "urn:app", Local: "x"}}, xml.CharData(t), xml.EndElement{Name: xml.Name{Space: "urn:app", Local: "x"}}}, rnd)
		}
	}
	r.Exhaustive = append(r.Exhaustive, "text sizes next to 2^8, 2^10, 2^12, 2^14 (thorough: 2^16, 70000) x ASCII / three-byte / mixed special characters: error texts, stream error texts and content, ids, payload character data")
	r.Mark("case content namespaces")
	for _, k := range []string{"iq", "message", "presence"} {
		for _, sp := range spaces {
			for mask := 0; mask < 4; mask++ {
				x := stz{kind: k, space: sp, id: "n1", typ: map[string]string{"iq": "get", "message": "chat", "presence": "subscribe"}[k]}
				if mask&1 != 0 {
					x.to = "b@example.com/r \u2603"
				}
				if mask&2 != 0 {
					x.from = "example.net"
				}
				c.stanzaCase(x, genPayload(rnd), rnd)
			}
		}
	}
	r.Exhaustive = append(r.Exhaustive, "error replies printed and parsed again: kinds x every content namespace of the pool (none, client, server, component accept/connect, foreign) x addresses set or not")
	r.Mark("case confusable application payloads")
	for _, txt := range [][][2]string{nil, {{"en", "back in <5> minutes & \"counting\""}}, {{"", "t"}, {"de", "ü"}}} {
		for _, p := range confusablePayloads(nsStreamErr) {
			c.stErrCase(sterr{err: "system-shutdown", texts: txt}, p)
			c.stErrCase(sterr{err: "see-other-host", content: "example.org:5222", texts: txt}, p)
		}
		for _, p := range confusablePayloads(nsStanzaErr) {
			c.errCase(serr{by: "a@example.net", typ: "wait", cond: "resource-constraint", texts: txt}, p, rnd)
		}
	}
	r.Exhaustive = append(r.Exhaustive, "application payloads named like what the error decoders look for (text, error, see-other-host, conflict, gone, undefined-condition, lang) x every namespace other than the error's own x no / one / two descriptive texts: stanza errors and stream errors")
	r.Mark("case address edges")
	for _, k := range []string{"iq", "message", "presence"} {
		for _, a := range edgeAddrs {
			for mask := 1; mask < 4; mask++ {
				x := stz{kind: k, id: "e1", typ: map[string]string{"iq": "set", "message": "chat", "presence": "probe"}[k]}
				if mask&1 != 0 {
					x.to = mustJID(a).String()
				}
				if mask&2 != 0 {
					x.from = mustJID(a).String()
				}
				c.stanzaCase(x, nil, rnd)
			}
		}
	}
	for _, a := range edgeAddrs {
		c.errCase(serr{by: mustJID(a).String(), typ: "cancel", cond: "item-not-found"}, nil, rnd)
	}
	for _, k := range []string{"iq", "message", "presence"} {
		for _, raw := range rawAddr {
			for _, l := range []string{"to", "from"} {
				c.newTok(k, xml.StartElement{Name: xml.Name{Space: "jabber:client", Local: k}, Attr: []xml.Attr{{Name: xml.Name{Local: "id"}, Value: "r1"}, {Name: xml.Name{Local: l}, Value: raw}}})
			}
		}
	}
	for _, raw := range rawAddr {
		s := xml.StartElement{Name: xml.Name{Local: "error"}, Attr: []xml.Attr{{Name: xml.Name{Local: "type"}, Value: "cancel"}, {Name: xml.Name{Local: "by"}, Value: raw}}}
		g := xml.StartElement{Name: xml.Name{Space: nsStanzaErr, Local: "gone"}}
		c.sdecLine([]xml.Token{s, g, g.End(), s.End()})
	}
	r.Exhaustive = append(r.Exhaustive, "addresses with white space / separators at the edges of the resourcepart in to, from (every stanza kind, both encoding paths, both decoders) and by (stanza errors); every raw attribute value of the pool (padding before / after / only white space) through NewIQ|NewMessage|NewPresence, the reflection decoder and the error decoder")
	r.Mark("case several readers alive")
	c.multiAll(rnd, r.Pick(1, 8))
	r.Exhaustive = append(r.Exhaustive, "every function that returns a token reader x k = 2..4 readers made before any is read x every drain order")
	n := r.Pick(1500, 30000)
	for i := 0; i < n; i++ {
		switch rnd.Intn(5) {
		case 0, 1:
			c.stanzaCase(genStz(rnd, pick(rnd, []string{"iq", "message", "presence"})), genPayload(rnd), rnd)
		case 2:
			var p []xml.Token
			if rnd.Chance(1, 3) {
				p = genPayload(rnd)
			}
			c.errCase(genErr(rnd), p, rnd)
		case 3:
			var p []xml.Token
			if rnd.Chance(1, 3) {
				p = genPayload(rnd)
			}
			c.stErrCase(genStErr(rnd), p)
		default:
			c.newCase(rnd)
		}
	}
	return nil
}

// replayLine re-runs the oracle for one recorded line.
func (c *ctxT) replayLine(l string, rnd *common.Rand) {
	f := strings.Fields(l)
	if len(f) < 2 || f[0] != "C13" {
		return
	}
	un := func(s string) string { b, _ := common.UnHex(s); return string(b) }
	texts := func(s string) [][2]string {
		var out [][2]string
		if s == "-" {
			return nil
		}
		for _, p := range strings.Split(s, ",") {
			kv := strings.Split(p, "=")
			if len(kv) == 2 {
				out = append(out, [2]string{un(kv[0]), un(kv[1])})
			}
		}
		return out
	}
	dec := func(s string) []xml.Token {
		if s == "-" {
			return nil
		}
		var out []xml.Token
		for _, ts := range strings.Split(s, ";") {
			p := strings.Split(ts, ":")
			g := func(i int) string {
				if i < len(p) {
					return un(p[i])
				}
				return ""
			}
			switch p[0] {
			case "S":
				st := xml.StartElement{Name: xml.Name{Space: g(1), Local: g(2)}}
				for _, a := range p[min(3, len(p)):] {
					kv := strings.Split(a, "=")
					if len(kv) == 3 {
						st.Attr = append(st.Attr, xml.Attr{Name: xml.Name{Space: un(kv[0]), Local: un(kv[1])}, Value: un(kv[2])})
					}
				}
				out = append(out, st)
			case "E":
				out = append(out, xml.EndElement{Name: xml.Name{Space: g(1), Local: g(2)}})
			case "C":
				out = append(out, xml.CharData(g(1)))
			}
		}
		return out
	}
	switch {
	case f[1] == "fix" && len(f) == 3:
		c.nonXMLCase(un(f[2]))
	case (f[1] == "start" || f[1] == "mstart") && len(f) == 9:
		c.stanzaCase(stz{f[2], un(f[3]), un(f[4]), un(f[5]), un(f[6]), un(f[7]), un(f[8])}, nil, rnd)
	case f[1] == "wrap" && len(f) == 10:
		c.stanzaCase(stz{f[2], un(f[3]), un(f[4]), un(f[5]), un(f[6]), un(f[7]), un(f[8])}, dec(f[9]), rnd)
	case f[1] == "result" && len(f) == 9:
		c.stanzaCase(stz{"iq", un(f[2]), un(f[3]), un(f[4]), un(f[5]), un(f[6]), un(f[7])}, dec(f[8]), rnd)
	case f[1] == "error" && len(f) >= 9:
		// the error helper of this value; other error values are drawn again from the same seed
		x := stz{f[2], un(f[3]), un(f[4]), un(f[5]), un(f[6]), un(f[7]), un(f[8])}
		for i := 0; i < 40; i++ {
			c.stanzaCase(x, nil, rnd)
		}
		if len(f) == 13 {
			c.errCase(serr{un(f[9]), un(f[10]), un(f[11]), texts(f[12])}, nil, rnd)
		}
	case (f[1] == "new" || f[1] == "rnew") && len(f) == 5:
		if ts := dec(f[3]); len(ts) == 1 {
			if st, ok := ts[0].(xml.StartElement); ok {
				c.newTok(f[2], st)
			}
		}
	case f[1] == "uerr" && len(f) == 4:
		c.uerrLine(dec(f[2]))
	case f[1] == "wire" && len(f) == 3:
		if wt, _, err := wireTrip(dec(f[2])); err == nil && len(wt) > 1 {
			c.uerrLine(wt[1:])
		}
	case f[1] == "sdec" && len(f) == 4:
		c.sdecLine(dec(f[2]))
	case f[1] == "stdec" && len(f) == 3:
		c.stdecLine(dec(f[2]))
	case f[1] == "serr" && len(f) == 7:
		c.errCase(serr{un(f[2]), un(f[3]), un(f[4]), texts(f[5])}, dec(f[6]), rnd)
	case f[1] == "sterr" && len(f) == 6:
		c.stErrCase(sterr{un(f[2]), un(f[3]), texts(f[4])}, dec(f[5]))
	case f[1] == "multi" && len(f) == 6:
		k, _ := strconv.Atoi(f[3])
		var order []int
		for _, o := range strings.Split(f[4], ",") {
			i, err := strconv.Atoi(o)
			if err != nil || i < 0 || i >= k {
				return
			}
			order = append(order, i)
		}
		vs, _ := strconv.ParseUint(f[5], 10, 64)
		if k >= 1 && k <= 8 {
			c.multiCase(f[2], k, order, vs)
		}
	}
}
