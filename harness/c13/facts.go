package c13

import (
	"fmt"
	"go/ast"
	"go/parser"
	"go/token"
	"path/filepath"
	"reflect"
	"strconv"
	"strings"

	"encoding/xml"

	"mellium.im/xmpp/jid"
	"mellium.im/xmpp/stanza"
	"mellium.im/xmpp/stream"

	"verifharness/c05"
	"verifharness/common"
)

// probeSizes: byte lengths of the text the decoders are probed with.
var probeSizes = []int{0, 1, 255, 256, 257, 1023, 1024, 1025, 4095, 4096, 4097, 65535, 65536, 65537, 1 << 20}

// textSizeProbe: for every size n, a stanza error and a stream error with an n-byte text are
// encoded (standard marshaller) and decoded again; the table holds (n, bytes decoded by
// stanza.Error, bytes decoded by stream.Error); -1 = error or panic.
func textSizeProbe() string {
	var rows []string
	for _, n := range probeSizes {
		t := strings.Repeat("x", n)
		a, b := -1, -1
		common.Recover(func() {
			e := stanza.Error{Type: stanza.Cancel, Condition: stanza.Conflict, Text: map[string]string{"en": t}}
			if bs, err := xml.Marshal(e); err == nil {
				var out stanza.Error
				if xml.Unmarshal(bs, &out) == nil {
					a = len(out.Text["en"])
				}
			}
		})
		common.Recover(func() {
			e := stream.Error{Err: "conflict", Text: []struct{ Lang, Value string }{{"en", t}}}
			if bs, err := xml.Marshal(e); err == nil {
				var out stream.Error
				if xml.Unmarshal(bs, &out) == nil {
					b = 0
					if len(out.Text) == 1 {
						b = len(out.Text[0].Value)
					}
				}
			}
		})
		rows = append(rows, fmt.Sprintf("(%d, %d, %d)", n, a, b))
	}
	return fmt.Sprintf("def textSizeProbe : Option (List (Nat × Int × Int)) := some [%s]\n", strings.Join(rows, ", "))
}

// probeSpaces: namespaces an <error/> child of an error stanza is probed in.
var probeSpaces = []string{"", "jabber:client", "jabber:server", "jabber:component:accept", "jabber:component:connect", "urn:other"}

// errorNsProbe: stanza.UnmarshalError on <iq type='error'> … <error type='cancel'><conflict/></error></iq>
// with the <error/> element in each namespace of probeSpaces (what a reply looks like after it
// travelled over a stream with that content namespace), and on an element that is not called
// error: "ok" (found, condition decoded), "missing", "bad".
func errorNsProbe() string {
	probe := func(name xml.Name) string {
		st := xml.StartElement{Name: name, Attr: []xml.Attr{{Name: xml.Name{Local: "type"}, Value: "cancel"}}}
		cond := xml.StartElement{Name: xml.Name{Space: stanza.NSError, Local: "conflict"}}
		toks := []xml.Token{xml.CharData("\n"), st, cond, cond.End(), st.End(), xml.EndElement{Name: xml.Name{Space: name.Space, Local: "iq"}}}
		res := "bad"
		if p := common.Recover(func() {
			v, err := stanza.UnmarshalError(&sliceReader{t: toks})
			switch {
			case err != nil && strings.Contains(err.Error(), "expected error payload"):
				res = "missing"
			case err == nil && v.Condition == stanza.Conflict && v.Type == stanza.Cancel:
				res = "ok"
			}
		}); p != "" {
			res = "panic"
		}
		return res
	}
	var rows []string
	for _, sp := range probeSpaces {
		rows = append(rows, fmt.Sprintf("(%q, %q, %q)", sp, probe(xml.Name{Space: sp, Local: "error"}), probe(xml.Name{Space: sp, Local: "failure"})))
	}
	return fmt.Sprintf("def errorNsProbe : Option (List (String × String × String)) := some [%s]\n", strings.Join(rows, ", "))
}



// ---- round D probes ---------------------------------------------------------------------------

func leanOpt(s string, ok bool) string {
	if !ok {
		return "none"
	}
	return "some " + strconv.Quote(s)
}

// jidAttrUniverse: raw attribute values: the pools of the runner, and one full address padded
// with every kind of white space before / after / on both sides, and white space alone.
func jidAttrUniverse() []string {
	u := append([]string{}, rawAddr...)
	u = append(u, edgeAddrs...)
	for _, ws := range []string{" ", "\t", "\n", "\r", "\u00a0", "\u2003", "  "} {
		u = append(u, ws, ws+"a@example.net/r", "a@example.net/r"+ws, ws+"a@example.net/r"+ws, ws+"example.net", "example.net"+ws, "a@example.net/"+ws)
	}
	seen := map[string]bool{}
	var out []string
	for _, x := range u {
		if !seen[x] {
			seen[x] = true
			out = append(out, x)
		}
	}
	return out
}

// jidAttrProbe: the REAL (*jid.JID).UnmarshalXMLAttr (what encoding/xml calls for to / from / by)
// next to the REAL jid.Parse (what NewIQ|NewMessage|NewPresence call) on every value of the
// universe: the canonical string of the result, none = error.
func jidAttrProbe() string {
	var rows []string
	for _, raw := range jidAttrUniverse() {
		var j jid.JID
		var aerr error
		if p := common.Recover(func() { aerr = j.UnmarshalXMLAttr(xml.Attr{Name: xml.Name{Local: "to"}, Value: raw}) }); p != "" {
			aerr = fmt.Errorf("panic")
		}
		pj, perr := jid.Parse(raw)
		rows = append(rows, fmt.Sprintf("(%s, %s, %s)", strconv.Quote(raw), leanOpt(j.String(), aerr == nil), leanOpt(pj.String(), perr == nil)))
	}
	return fmt.Sprintf("/-- raw attribute value ↦ (real `JID.UnmarshalXMLAttr`, real `jid.Parse`), canonical strings -/\ndef jidAttrProbe : Option (List (String × Option String × Option String)) := some [\n  %s]\n", strings.Join(rows, ",\n  "))
}

var (
	childSpaces = []string{"", nsStreamErr, nsStanzaErr, "urn:example:cluster", "http://etherx.jabber.org/streams", "jabber:client"}
	childLocals = []string{"text", "see-other-host", "conflict", "error", "x"}
)

func renderTexts(ts [][2]string) string {
	var l []string
	for _, t := range ts {
		l = append(l, t[0]+"="+t[1])
	}
	return strings.Join(l, ",")
}

// errChildProbe: the REAL decoders of stream.Error and stanza.Error on an error that holds, between
// its condition and a descriptive text (xml:lang='de', "t"), ONE more child <local xmlns=space
// xml:lang='en'>x</local>, for every (space, local) of the grid.  Rendered as
// err|content|lang=text,…  (stream) and by|type|condition|lang=text,… (stanza; languages sorted).
func errChildProbe() string {
	var srows, erows []string
	for _, sp := range childSpaces {
		for _, lo := range childLocals {
			child := confusable(sp, lo, "en", "x")
			// stream error
			{
				st := xml.StartElement{Name: xml.Name{Space: "http://etherx.jabber.org/streams", Local: "error"}}
				cond := xml.StartElement{Name: xml.Name{Space: nsStreamErr, Local: "system-shutdown"}}
				toks := append([]xml.Token{st, cond, cond.End()}, child...)
				toks = append(toks, confusable(nsStreamErr, "text", "de", "t")...)
				toks = append(toks, st.End())
				res := "err"
				var v stream.Error
				var err error
				if p := common.Recover(func() { err = xml.NewTokenDecoder(&sliceReader{t: toks}).Decode(&v) }); p != "" {
					res = "panic"
				} else if err == nil {
					e := fromStErr(v)
					res = e.err + "|" + e.content + "|" + renderTexts(e.texts)
				}
				srows = append(srows, fmt.Sprintf("(%q, %q, %q)", sp, lo, res))
			}
			// stanza error
			{
				st := xml.StartElement{Name: xml.Name{Local: "error"}, Attr: []xml.Attr{{Name: xml.Name{Local: "type"}, Value: "cancel"}}}
				cond := xml.StartElement{Name: xml.Name{Space: nsStanzaErr, Local: "gone"}}
				toks := append([]xml.Token{st, cond, cond.End()}, child...)
				toks = append(toks, confusable(nsStanzaErr, "text", "de", "t")...)
				toks = append(toks, st.End())
				res := "err"
				v, err, pan := decodeErrTokens(toks)
				if pan != "" {
					res = "panic"
				} else if err == nil {
					e := fromErr(v)
					res = e.by + "|" + e.typ + "|" + e.cond + "|" + renderTexts(e.texts)
				}
				erows = append(erows, fmt.Sprintf("(%q, %q, %q)", sp, lo, res))
			}
		}
	}
	return fmt.Sprintf("/-- (namespace, local name) of one extra child ↦ what the real `stream.Error` decoder returns -/\ndef streamErrChildProbe : Option (List (String × String × String)) := some [\n  %s]\n/-- … and the real `stanza.Error` decoder -/\ndef stanzaErrChildProbe : Option (List (String × String × String)) := some [\n  %s]\n",
		strings.Join(srows, ",\n  "), strings.Join(erows, ",\n  "))
}

// typedConsts returns the string values of the constants declared with the
// given type in a file, in source order.
func typedConsts(f *ast.File, typ string) []string {
	var out []string
	for _, d := range f.Decls {
		gd, ok := d.(*ast.GenDecl)
		if !ok || gd.Tok != token.CONST {
			continue
		}
		for _, sp := range gd.Specs {
			vs := sp.(*ast.ValueSpec)
			id, ok := vs.Type.(*ast.Ident)
			if !ok || id.Name != typ {
				continue
			}
			for _, v := range vs.Values {
				if bl, ok := v.(*ast.BasicLit); ok && bl.Kind == token.STRING {
					if s, err := strconv.Unquote(bl.Value); err == nil {
						out = append(out, s)
					}
				}
			}
		}
	}
	return out
}

func namedConst(f *ast.File, name string) (string, bool) {
	for _, d := range f.Decls {
		gd, ok := d.(*ast.GenDecl)
		if !ok || gd.Tok != token.CONST {
			continue
		}
		for _, sp := range gd.Specs {
			vs := sp.(*ast.ValueSpec)
			for i, n := range vs.Names {
				if n.Name == name && i < len(vs.Values) {
					if bl, ok := vs.Values[i].(*ast.BasicLit); ok {
						if s, err := strconv.Unquote(bl.Value); err == nil {
							return s, true
						}
					}
				}
			}
		}
	}
	return "", false
}

// streamConditions: package-level vars initialised with Error{Err: "…"}.
func streamConditions(f *ast.File) []string {
	var out []string
	for _, d := range f.Decls {
		gd, ok := d.(*ast.GenDecl)
		if !ok || gd.Tok != token.VAR {
			continue
		}
		for _, sp := range gd.Specs {
			vs := sp.(*ast.ValueSpec)
			for _, v := range vs.Values {
				cl, ok := v.(*ast.CompositeLit)
				if !ok {
					continue
				}
				if id, ok := cl.Type.(*ast.Ident); !ok || id.Name != "Error" {
					continue
				}
				for _, el := range cl.Elts {
					kv, ok := el.(*ast.KeyValueExpr)
					if !ok {
						continue
					}
					if k, ok := kv.Key.(*ast.Ident); ok && k.Name == "Err" {
						if bl, ok := kv.Value.(*ast.BasicLit); ok {
							if s, err := strconv.Unquote(bl.Value); err == nil {
								out = append(out, s)
							}
						}
					}
				}
			}
		}
	}
	return out
}

func leanList(l []string) string {
	if len(l) == 0 {
		return "none"
	}
	q := make([]string, len(l))
	for i, s := range l {
		q[i] = strconv.Quote(s)
	}
	return "some [" + strings.Join(q, ", ") + "]"
}

// Facts regenerates lean/XmppModel/Generated/C13.lean: the constant tables of
// the stanza and stream packages.
func Facts(repo string) (string, error) {
	fset := token.NewFileSet()
	parse := func(rel string) (*ast.File, error) { return parser.ParseFile(fset, filepath.Join(repo, rel), nil, 0) }
	var sb strings.Builder
	sb.WriteString("-- GENERATED by `harness facts C13` from stanza/*.go and stream/*.go; do not edit.\nnamespace XmppModel.Generated.C13\n\n")
	emit := func(name, rel, typ string) error {
		f, err := parse(rel)
		if err != nil {
			return err
		}
		fmt.Fprintf(&sb, "def %s : Option (List String) := %s\n", name, leanList(typedConsts(f, typ)))
		return nil
	}
	for _, e := range [][3]string{{"messageTypes", "stanza/message.go", "MessageType"}, {"iqTypes", "stanza/iq.go", "IQType"},
		{"presenceTypes", "stanza/presence.go", "PresenceType"}, {"errorTypes", "stanza/error.go", "ErrorType"},
		{"stanzaConditions", "stanza/error.go", "Condition"}} {
		if err := emit(e[0], e[1], e[2]); err != nil {
			return "", err
		}
	}
	f, err := parse("stream/error.go")
	if err != nil {
		return "", err
	}
	fmt.Fprintf(&sb, "def streamConditions : Option (List String) := %s\n", leanList(streamConditions(f)))
	ns := func(name, rel, cname string) error {
		f, err := parse(rel)
		if err != nil {
			return err
		}
		if s, ok := namedConst(f, cname); ok {
			fmt.Fprintf(&sb, "def %s : Option String := some %s\n", name, strconv.Quote(s))
		} else {
			fmt.Fprintf(&sb, "def %s : Option String := none\n", name)
		}
		return nil
	}
	for _, e := range [][3]string{{"nsStanzaErr", "stanza/stanza.go", "NSError"}, {"nsStream", "stream/doc.go", "NS"}, {"nsStreamErr", "stream/doc.go", "NSError"}} {
		if err := ns(e[0], e[1], e[2]); err != nil {
			return "", err
		}
	}
	// the struct tags of the three stanza types (the model of the struct-tag path is written for these)
	var tl []string
	for _, e := range [][2]string{{"IQ", "stanza/iq.go"}, {"Message", "stanza/message.go"}, {"Presence", "stanza/presence.go"}} {
		f, err := parse(e[1])
		if err != nil {
			return "", err
		}
		var fl []string
		ast.Inspect(f, func(n ast.Node) bool {
			ts, ok := n.(*ast.TypeSpec)
			if !ok || ts.Name.Name != e[0] {
				return true
			}
			if st, ok := ts.Type.(*ast.StructType); ok {
				for _, fd := range st.Fields.List {
					tag := ""
					if fd.Tag != nil {
						if t, err := strconv.Unquote(fd.Tag.Value); err == nil {
							tag = reflect.StructTag(t).Get("xml")
						}
					}
					typ := ""
					switch t := fd.Type.(type) {
					case *ast.Ident:
						typ = t.Name
					case *ast.SelectorExpr:
						typ = t.Sel.Name
					}
					for _, nm := range fd.Names {
						fl = append(fl, fmt.Sprintf("(%q, %q, %q)", nm.Name, typ, tag))
					}
				}
			}
			return false
		})
		tl = append(tl, fmt.Sprintf("(%q, [%s])", e[0], strings.Join(fl, ", ")))
	}
	fmt.Fprintf(&sb, "def stanzaTags : Option (List (String × List (String × String × String))) := some [\n  %s]\n", strings.Join(tl, ",\n  "))
	// package-level variables of internal/marshal (the conversion behind every reader that is made
	// from a struct value): state shared between two conversions
	if mg, err := c05.PackageVars(filepath.Join(repo, "internal", "marshal")); err != nil {
		sb.WriteString("def marshalGlobals : Option (List String) := none\n")
	} else {
		fmt.Fprintf(&sb, "def marshalGlobals : Option (List String) := some [%s]\n", strings.Join(mg, ", "))
	}
	// probe facts: the REAL codecs evaluated on a finite domain (survive any refactoring of the
	// code, break when its behaviour changes)
	sb.WriteString(textSizeProbe())
	sb.WriteString(errorNsProbe())
	sb.WriteString(jidAttrProbe())
	sb.WriteString(errChildProbe())
	sb.WriteString("\nend XmppModel.Generated.C13\n")
	return sb.String(), nil
}
