package c13

import (
	"fmt"
	"go/ast"
	"go/constant"
	"go/parser"
	"go/token"
	"go/types"
	"os"
	"sort"
	"path/filepath"
	"reflect"
	"strconv"
	"strings"

	"encoding/xml"

	"mellium.im/xmpp/jid"
	"mellium.im/xmpp/stanza"
	"mellium.im/xmpp/stream"

	"verifharness/c05"
	"verifharness/common"
)

// probeSizes: byte lengths of the text the decoders are probed with.
var probeSizes = []int{0, 1, 255, 256, 257, 1023, 1024, 1025, 4095, 4096, 4097, 65535, 65536, 65537, 1 << 20}

// textSizeProbe: for every size n, a stanza error and a stream error with an n-byte text are
// encoded (standard marshaller) and decoded again; the table holds (n, bytes decoded by
// stanza.Error, bytes decoded by stream.Error); -1 = error or panic.
func textSizeProbe() string {
	var rows []string
	for _, n := range probeSizes {
		t := strings.Repeat("x", n)
		a, b := -1, -1
		common.Recover(func() {
			e := stanza.Error{Type: stanza.Cancel, Condition: stanza.Conflict, Text: map[string]string{"en": t}}
			if bs, err := xml.Marshal(e); err == nil {
				var out stanza.Error
				if xml.Unmarshal(bs, &out) == nil {
					a = len(out.Text["en"])
				}
			}
		})
		common.Recover(func() {
			e := stream.Error{Err: "conflict", Text: []struct{ Lang, Value string }{{"en", t}}}
			if bs, err := xml.Marshal(e); err == nil {
				var out stream.Error
				if xml.Unmarshal(bs, &out) == nil {
					b = 0
					if len(out.Text) == 1 {
						b = len(out.Text[0].Value)
					}
				}
			}
		})
		rows = append(rows, fmt.Sprintf("(%d, %d, %d)", n, a, b))
	}
	return fmt.Sprintf("def textSizeProbe : Option (List (Nat × Int × Int)) := some [%s]\n", strings.Join(rows, ", "))
}

// probeSpaces: namespaces an <error/> child of an error stanza is probed in.
var probeSpaces = []string{"", "jabber:client", "jabber:server", "jabber:component:accept", "jabber:component:connect", "urn:other"}

// errorNsProbe: stanza.UnmarshalError on <iq type='error'> … <error type='cancel'><conflict/></error></iq>
// with the <error/> element in each namespace of probeSpaces (what a reply looks like after it
// travelled over a stream with that content namespace), and on an element that is not called
// error: "ok" (found, condition decoded), "missing", "bad".
func errorNsProbe() string {
	probe := func(name xml.Name) string {
		st := xml.StartElement{Name: name, Attr: []xml.Attr{{Name: xml.Name{Local: "type"}, Value: "cancel"}}}
		cond := xml.StartElement{Name: xml.Name{Space: stanza.NSError, Local: "conflict"}}
		toks := []xml.Token{xml.CharData("\n"), st, cond, cond.End(), st.End(), xml.EndElement{Name: xml.Name{Space: name.Space, Local: "iq"}}}
		res := "bad"
		if p := common.Recover(func() {
			v, err := stanza.UnmarshalError(&sliceReader{t: toks})
			switch {
			case err != nil && strings.Contains(err.Error(), "expected error payload"):
				res = "missing"
			case err == nil && v.Condition == stanza.Conflict && v.Type == stanza.Cancel:
				res = "ok"
			}
		}); p != "" {
			res = "panic"
		}
		return res
	}
	var rows []string
	for _, sp := range probeSpaces {
		rows = append(rows, fmt.Sprintf("(%q, %q, %q)", sp, probe(xml.Name{Space: sp, Local: "error"}), probe(xml.Name{Space: sp, Local: "failure"})))
	}
	return fmt.Sprintf("def errorNsProbe : Option (List (String × String × String)) := some [%s]\n", strings.Join(rows, ", "))
}



// ---- round D probes ---------------------------------------------------------------------------

func leanOpt(s string, ok bool) string {
	if !ok {
		return "none"
	}
	return "some " + strconv.Quote(s)
}

// jidAttrUniverse: raw attribute values: the pools of the runner, and one full address padded
// with every kind of white space before / after / on both sides, and white space alone.
func jidAttrUniverse() []string {
	u := append([]string{}, rawAddr...)
	u = append(u, edgeAddrs...)
	for _, ws := range []string{" ", "\t", "\n", "\r", "\u00a0", "\u2003", "  "} {
		u = append(u, ws, ws+"a@example.net/r", "a@example.net/r"+ws, ws+"a@example.net/r"+ws, ws+"example.net", "example.net"+ws, "a@example.net/"+ws)
	}
	seen := map[string]bool{}
	var out []string
	for _, x := range u {
		if !seen[x] {
			seen[x] = true
			out = append(out, x)
		}
	}
	return out
}

// jidAttrProbe: the REAL (*jid.JID).UnmarshalXMLAttr (what encoding/xml calls for to / from / by)
// next to the REAL jid.Parse (what NewIQ|NewMessage|NewPresence call) on every value of the
// universe: the canonical string of the result, none = error.
func jidAttrProbe() string {
	var rows []string
	for _, raw := range jidAttrUniverse() {
		var j jid.JID
		var aerr error
		if p := common.Recover(func() { aerr = j.UnmarshalXMLAttr(xml.Attr{Name: xml.Name{Local: "to"}, Value: raw}) }); p != "" {
			aerr = fmt.Errorf("panic")
		}
		pj, perr := jid.Parse(raw)
		rows = append(rows, fmt.Sprintf("(%s, %s, %s)", strconv.Quote(raw), leanOpt(j.String(), aerr == nil), leanOpt(pj.String(), perr == nil)))
	}
	return fmt.Sprintf("/-- raw attribute value ↦ (real `JID.UnmarshalXMLAttr`, real `jid.Parse`), canonical strings -/\ndef jidAttrProbe : Option (List (String × Option String × Option String)) := some [\n  %s]\n", strings.Join(rows, ",\n  "))
}

var (
	childSpaces = []string{"", nsStreamErr, nsStanzaErr, "urn:example:cluster", "http://etherx.jabber.org/streams", "jabber:client"}
	childLocals = []string{"text", "see-other-host", "conflict", "error", "x"}
)

func renderTexts(ts [][2]string) string {
	var l []string
	for _, t := range ts {
		l = append(l, t[0]+"="+t[1])
	}
	return strings.Join(l, ",")
}

// errChildProbe: the REAL decoders of stream.Error and stanza.Error on an error that holds, between
// its condition and a descriptive text (xml:lang='de', "t"), ONE more child <local xmlns=space
// xml:lang='en'>x</local>, for every (space, local) of the grid.  Rendered as
// err|content|lang=text,…  (stream) and by|type|condition|lang=text,… (stanza; languages sorted).
func errChildProbe() string {
	var srows, erows []string
	for _, sp := range childSpaces {
		for _, lo := range childLocals {
			child := confusable(sp, lo, "en", "x")
			// stream error
			{
				st := xml.StartElement{Name: xml.Name{Space: "http://etherx.jabber.org/streams", Local: "error"}}
				cond := xml.StartElement{Name: xml.Name{Space: nsStreamErr, Local: "system-shutdown"}}
				toks := append([]xml.Token{st, cond, cond.End()}, child...)
				toks = append(toks, confusable(nsStreamErr, "text", "de", "t")...)
				toks = append(toks, st.End())
				res := "err"
				var v stream.Error
				var err error
				if p := common.Recover(func() { err = xml.NewTokenDecoder(&sliceReader{t: toks}).Decode(&v) }); p != "" {
					res = "panic"
				} else if err == nil {
					e := fromStErr(v)
					res = e.err + "|" + e.content + "|" + renderTexts(e.texts)
				}
				srows = append(srows, fmt.Sprintf("(%q, %q, %q)", sp, lo, res))
			}
			// stanza error
			{
				st := xml.StartElement{Name: xml.Name{Local: "error"}, Attr: []xml.Attr{{Name: xml.Name{Local: "type"}, Value: "cancel"}}}
				cond := xml.StartElement{Name: xml.Name{Space: nsStanzaErr, Local: "gone"}}
				toks := append([]xml.Token{st, cond, cond.End()}, child...)
				toks = append(toks, confusable(nsStanzaErr, "text", "de", "t")...)
				toks = append(toks, st.End())
				res := "err"
				v, err, pan := decodeErrTokens(toks)
				if pan != "" {
					res = "panic"
				} else if err == nil {
					e := fromErr(v)
					res = e.by + "|" + e.typ + "|" + e.cond + "|" + renderTexts(e.texts)
				}
				erows = append(erows, fmt.Sprintf("(%q, %q, %q)", sp, lo, res))
			}
		}
	}
	return fmt.Sprintf("/-- (namespace, local name) of one extra child ↦ what the real `stream.Error` decoder returns -/\ndef streamErrChildProbe : Option (List (String × String × String)) := some [\n  %s]\n/-- … and the real `stanza.Error` decoder -/\ndef stanzaErrChildProbe : Option (List (String × String × String)) := some [\n  %s]\n",
		strings.Join(srows, ",\n  "), strings.Join(erows, ",\n  "))
}

// typedConsts returns the string values of the constants declared with the
// given type in a file, in source order.
func typedConsts(f *ast.File, typ string) []string {
	var out []string
	for _, d := range f.Decls {
		gd, ok := d.(*ast.GenDecl)
		if !ok || gd.Tok != token.CONST {
			continue
		}
		for _, sp := range gd.Specs {
			vs := sp.(*ast.ValueSpec)
			id, ok := vs.Type.(*ast.Ident)
			if !ok || id.Name != typ {
				continue
			}
			for _, v := range vs.Values {
				if bl, ok := v.(*ast.BasicLit); ok && bl.Kind == token.STRING {
					if s, err := strconv.Unquote(bl.Value); err == nil {
						out = append(out, s)
					}
				}
			}
		}
	}
	return out
}

func namedConst(f *ast.File, name string) (string, bool) {
	for _, d := range f.Decls {
		gd, ok := d.(*ast.GenDecl)
		if !ok || gd.Tok != token.CONST {
			continue
		}
		for _, sp := range gd.Specs {
			vs := sp.(*ast.ValueSpec)
			for i, n := range vs.Names {
				if n.Name == name && i < len(vs.Values) {
					if bl, ok := vs.Values[i].(*ast.BasicLit); ok {
						if s, err := strconv.Unquote(bl.Value); err == nil {
							return s, true
						}
					}
				}
			}
		}
	}
	return "", false
}

// streamConditions: package-level vars initialised with Error{Err: "…"}.
func streamConditions(f *ast.File) []string {
	var out []string
	for _, d := range f.Decls {
		gd, ok := d.(*ast.GenDecl)
		if !ok || gd.Tok != token.VAR {
			continue
		}
		for _, sp := range gd.Specs {
			vs := sp.(*ast.ValueSpec)
			for _, v := range vs.Values {
				cl, ok := v.(*ast.CompositeLit)
				if !ok {
					continue
				}
				if id, ok := cl.Type.(*ast.Ident); !ok || id.Name != "Error" {
					continue
				}
				for _, el := range cl.Elts {
					kv, ok := el.(*ast.KeyValueExpr)
					if !ok {
						continue
					}
					if k, ok := kv.Key.(*ast.Ident); ok && k.Name == "Err" {
						if bl, ok := kv.Value.(*ast.BasicLit); ok {
							if s, err := strconv.Unquote(bl.Value); err == nil {
								out = append(out, s)
							}
						}
					}
				}
			}
		}
	}
	return out
}

// ---- round E (review B, C13-3): the exported sets by go/types, not by file and syntax ----

type stubImporter struct{}

func (stubImporter) Import(path string) (*types.Package, error) {
	p := types.NewPackage(path, path[strings.LastIndex(path, "/")+1:])
	p.MarkComplete()
	return p, nil
}

type checkedPkg struct {
	pkg   *types.Package
	info  *types.Info
	files []*ast.File
}

// checkPkg type-checks every non-test file of the package in dir.  Imports are stubbed (the
// resulting errors are ignored): declarations of constants and variables of the package's OWN
// types are still resolved and constant-folded, in whichever file and in whatever form
// (typed literal, conversion, named constant, iota-free repetition) they are written.
func checkPkg(dir string) (*checkedPkg, error) {
	ents, err := os.ReadDir(dir)
	if err != nil {
		return nil, err
	}
	fset := token.NewFileSet()
	var files []*ast.File
	for _, e := range ents {
		n := e.Name()
		if e.IsDir() || !strings.HasSuffix(n, ".go") || strings.HasSuffix(n, "_test.go") {
			continue
		}
		f, err := parser.ParseFile(fset, filepath.Join(dir, n), nil, 0)
		if err != nil {
			return nil, err
		}
		files = append(files, f)
	}
	info := &types.Info{Types: map[ast.Expr]types.TypeAndValue{}, Defs: map[*ast.Ident]types.Object{}}
	conf := types.Config{Importer: stubImporter{}, Error: func(error) {}}
	pkg, _ := conf.Check(dir, fset, files, info)
	if pkg == nil {
		return nil, fmt.Errorf("type check of %s produced no package", dir)
	}
	return &checkedPkg{pkg, info, files}, nil
}

func isNamed(t types.Type, name string) bool {
	n, ok := t.(*types.Named)
	return ok && n.Obj().Name() == name
}

// constsOf: the string values of ALL package-level constants of the named type, sorted.
func (c *checkedPkg) constsOf(typ string) []string {
	set := map[string]bool{}
	for _, n := range c.pkg.Scope().Names() {
		k, ok := c.pkg.Scope().Lookup(n).(*types.Const)
		if !ok || !isNamed(k.Type(), typ) || k.Val().Kind() != constant.String {
			continue
		}
		set[constant.StringVal(k.Val())] = true
	}
	var out []string
	for v := range set {
		out = append(out, v)
	}
	sort.Strings(out)
	return out
}

func (c *checkedPkg) constNamed(name string) (string, bool) {
	k, ok := c.pkg.Scope().Lookup(name).(*types.Const)
	if !ok || k.Val().Kind() != constant.String {
		return "", false
	}
	return constant.StringVal(k.Val()), true
}

// errorVars: the package-level variables of the named struct type: the (constant) value of the
// field `field` of each, sorted; `other` lists what the extractor cannot account for (further
// fields set in the literal, variables not initialised with a composite literal).
func (c *checkedPkg) errorVars(typ, field string) (vals, other []string) {
	for _, f := range c.files {
		for _, d := range f.Decls {
			gd, ok := d.(*ast.GenDecl)
			if !ok || gd.Tok != token.VAR {
				continue
			}
			for _, sp := range gd.Specs {
				vs := sp.(*ast.ValueSpec)
				for i, nm := range vs.Names {
					obj, ok := c.info.Defs[nm].(*types.Var)
					if !ok || !isNamed(obj.Type(), typ) {
						continue
					}
					if i >= len(vs.Values) {
						other = append(other, nm.Name+":no-value")
						continue
					}
					cl, ok := vs.Values[i].(*ast.CompositeLit)
					if !ok {
						other = append(other, nm.Name+":opaque")
						continue
					}
					found := false
					for _, el := range cl.Elts {
						kv, ok := el.(*ast.KeyValueExpr)
						if !ok {
							other = append(other, nm.Name+":positional")
							continue
						}
						k, _ := kv.Key.(*ast.Ident)
						if k != nil && k.Name == field {
							if tv, ok := c.info.Types[kv.Value]; ok && tv.Value != nil && tv.Value.Kind() == constant.String {
								vals = append(vals, constant.StringVal(tv.Value))
								found = true
							} else {
								other = append(other, nm.Name+":non-constant")
							}
						} else if k != nil {
							other = append(other, nm.Name+"."+k.Name)
						}
					}
					if !found {
						other = append(other, nm.Name+":no-"+field)
					}
				}
			}
		}
	}
	sort.Strings(vals)
	sort.Strings(other)
	return vals, other
}

func leanListAll(l []string) string {
	q := make([]string, len(l))
	for i, s := range l {
		q[i] = strconv.Quote(s)
	}
	return "some [" + strings.Join(q, ", ") + "]"
}

func leanList(l []string) string {
	if len(l) == 0 {
		return "none"
	}
	q := make([]string, len(l))
	for i, s := range l {
		q[i] = strconv.Quote(s)
	}
	return "some [" + strings.Join(q, ", ") + "]"
}

// Facts regenerates lean/XmppModel/Generated/C13.lean: the constant tables of
// the stanza and stream packages.
func Facts(repo string) (string, error) {
	var sb strings.Builder
	sb.WriteString("-- GENERATED by `harness facts C13` from stanza/*.go and stream/*.go; do not edit.\nnamespace XmppModel.Generated.C13\n\n")
	stz, err := checkPkg(filepath.Join(repo, "stanza"))
	if err != nil {
		return "", err
	}
	str, err := checkPkg(filepath.Join(repo, "stream"))
	if err != nil {
		return "", err
	}
	sb.WriteString("/-! every package-level constant of the type, in whichever file and form it is declared (go/types), sorted -/\n")
	for _, e := range [][2]string{{"messageTypes", "MessageType"}, {"iqTypes", "IQType"}, {"presenceTypes", "PresenceType"},
		{"errorTypes", "ErrorType"}, {"stanzaConditions", "Condition"}} {
		fmt.Fprintf(&sb, "def %s : Option (List String) := %s\n", e[0], leanList(stz.constsOf(e[1])))
	}
	svals, sother := str.errorVars("Error", "Err")
	fmt.Fprintf(&sb, "/-- `Err` of every package-level variable of type `stream.Error` -/\ndef streamConditions : Option (List String) := %s\n", leanList(svals))
	fmt.Fprintf(&sb, "/-- what else those variables set (a default text, …) or the extractor cannot evaluate -/\ndef streamConditionsOther : Option (List String) := %s\n", leanListAll(sother))
	for _, e := range []struct {
		name string
		p    *checkedPkg
		c    string
	}{{"nsStanzaErr", stz, "NSError"}, {"nsStream", str, "NS"}, {"nsStreamErr", str, "NSError"}} {
		if v, ok := e.p.constNamed(e.c); ok {
			fmt.Fprintf(&sb, "def %s : Option String := some %s\n", e.name, strconv.Quote(v))
		} else {
			fmt.Fprintf(&sb, "def %s : Option String := none\n", e.name)
		}
	}
	// the struct tags of the three stanza types (the model of the struct-tag path is written for
	// these): read by REFLECTION from the linked package (round F) — what encoding/xml itself sees:
	// field order, field type, xml tag; independent of files, syntax and (unexported) helper types.
	// Field names are left out: with a tag that names the attribute they do not influence the encoding.
	var tl []string
	for _, e := range []struct {
		name string
		t    reflect.Type
	}{{"IQ", reflect.TypeOf(stanza.IQ{})}, {"Message", reflect.TypeOf(stanza.Message{})}, {"Presence", reflect.TypeOf(stanza.Presence{})}} {
		var fl []string
		for k := 0; k < e.t.NumField(); k++ {
			fd := e.t.Field(k)
			fl = append(fl, fmt.Sprintf("(%q, %q)", fd.Type.Name(), fd.Tag.Get("xml")))
		}
		tl = append(tl, fmt.Sprintf("(%q, [%s])", e.name, strings.Join(fl, ", ")))
	}
	fmt.Fprintf(&sb, "def stanzaTags : Option (List (String × List (String × String))) := some [\n  %s]\n", strings.Join(tl, ",\n  "))
	// package-level variables of internal/marshal (the conversion behind every reader that is made
	// from a struct value): state shared between two conversions
	if mg, err := c05.PackageVars(filepath.Join(repo, "internal", "marshal")); err != nil {
		sb.WriteString("def marshalGlobals : Option (List String) := none\n")
	} else {
		fmt.Fprintf(&sb, "def marshalGlobals : Option (List String) := some [%s]\n", strings.Join(mg, ", "))
	}
	// probe facts: the REAL codecs evaluated on a finite domain (survive any refactoring of the
	// code, break when its behaviour changes)
	sb.WriteString(textSizeProbe())
	sb.WriteString(errorNsProbe())
	sb.WriteString(jidAttrProbe())
	sb.WriteString(errChildProbe())
	sb.WriteString("\nend XmppModel.Generated.C13\n")
	return sb.String(), nil
}
