package main

import "verifharness/c09"

func init() { runners["C09"] = c09.Run; facts["C09"] = c09.Facts }
