package main

import (
	"verifharness/c09"
	"verifharness/c19"
)

func init() {
	runners["C09"] = c09.Run
	facts["C09"] = c09.Facts
	// the range analysis that derives allow entries for arithmetic-guarded index / slice
	// operations lives in package c19 (which imports c09): wire it here
	c09.Derive = c19.DeriveAllow
}
