// Command harness runs the real mellium.im/xmpp code (the working tree the
// go.mod replace directive points at) on generated cases, one sub-command per
// property, and writes the case lines for the Lean model driver together with
// the implementation's observations and the verdicts of the property oracle.
//
//	harness run   Cxx -tier quick|thorough -seed N -work DIR [-replay FILE]
//	harness facts Cxx -repo DIR -out FILE.lean
package main

import (
	"flag"
	"fmt"
	"os"
	"strings"

	"verifharness/common"
)

type runner func(r *common.Run) error
type factsFn func(repo string) (string, error)

var runners = map[string]runner{}
var facts = map[string]factsFn{}

func main() {
	if len(os.Args) < 3 {
		fmt.Fprintln(os.Stderr, "usage: harness run|facts Cxx [flags]")
		os.Exit(2)
	}
	cmd, prop := os.Args[1], strings.ToUpper(os.Args[2])
	fs := flag.NewFlagSet(cmd, flag.ExitOnError)
	tier := fs.String("tier", "quick", "quick|thorough")
	seed := fs.Uint64("seed", 1, "PRNG seed")
	work := fs.String("work", "", "work directory")
	replay := fs.String("replay", "", "replay file")
	repo := fs.String("repo", "/repo", "repository root (facts)")
	out := fs.String("out", "", "output file (facts)")
	_ = fs.Parse(os.Args[3:])
	switch cmd {
	case "run":
		f, ok := runners[prop]
		if !ok {
			fmt.Fprintln(os.Stderr, "no runner for", prop)
			os.Exit(2)
		}
		r, err := common.NewRun(prop, *tier, *seed, *work, *replay)
		if err != nil {
			fmt.Fprintln(os.Stderr, err)
			os.Exit(2)
		}
		err = f(r)
		if cerr := r.Close(); err == nil {
			err = cerr
		}
		if err != nil {
			fmt.Fprintln(os.Stderr, "harness error:", err)
			os.Exit(2)
		}
	case "facts":
		f, ok := facts[prop]
		if !ok {
			// no regenerated facts for this property
			return
		}
		s, err := f(*repo)
		if err != nil {
			fmt.Fprintln(os.Stderr, "facts error:", err)
			os.Exit(3)
		}
		if err := os.WriteFile(*out, []byte(s), 0o644); err != nil {
			fmt.Fprintln(os.Stderr, err)
			os.Exit(2)
		}
	default:
		os.Exit(2)
	}
}
