package c05

// Probe facts (round C): behaviour over a finite domain is established by RUNNING the real
// code inside `harness facts`, not by matching its syntax.

import (
	"context"
	"encoding/xml"
	"fmt"
	"io"
	"strings"
	"time"

	"mellium.im/xmpp"
	"mellium.im/xmpp/jid"
	"mellium.im/xmpp/stream"

	"verifharness/common"
)

// probeFrom: which of a session's four addresses does LocalAddr() report and which one is
// stamped as `from` on an outgoing stanza?  Real sessions (initiated and received, client and
// server-to-server namespace) are negotiated by a negotiator that sets the four addresses of
// the two stream infos to four DIFFERENT values, named after their role; a `<message/>` is
// sent and the wire is read.  Rows: (role of the session, namespace, what LocalAddr() reports,
// the `from` on the wire, "" if none) - addresses are reported by role name.
func probeFrom() (string, error) {
	roles := map[string]string{"in-to.example": "inTo", "in-from.example": "inFrom", "out-from.example": "outFrom", "out-to.example": "outTo"}
	roleOf := func(s string) string {
		if s == "" {
			return ""
		}
		if r, ok := roles[s]; ok {
			return r
		}
		return "?" + s
	}
	var rows []string
	for _, st := range []struct {
		name  string
		state xmpp.SessionState
	}{{"initiated", 0}, {"received", xmpp.Received}} {
		for _, ns := range []string{nsClient, nsServer} {
			neg := xmpp.Negotiator(func(ctx context.Context, in, out *stream.Info, s *xmpp.Session, data interface{}) (xmpp.SessionState, io.ReadWriter, interface{}, error) {
				in.XMLNS, out.XMLNS = ns, ns
				in.Version, out.Version = stream.DefaultVersion, stream.DefaultVersion
				in.To, in.From = jid.MustParse("in-to.example"), jid.MustParse("in-from.example")
				out.From, out.To = jid.MustParse("out-from.example"), jid.MustParse("out-to.example")
				return st.state | xmpp.Ready, nil, nil, nil
			})
			pr, pw := io.Pipe()
			defer pw.Close()
			out := &common.SafeBuffer{}
			var s *xmpp.Session
			var err error
			if !common.WithTimeout(10*time.Second, func() {
				s, err = xmpp.NewSession(context.Background(), jid.JID{}, jid.JID{}, struct {
					io.Reader
					io.Writer
				}{pr, out}, st.state, neg)
			}) {
				return "", fmt.Errorf("probeFrom: session creation stalled")
			}
			if err != nil {
				return "", err
			}
			var serr error
			if !common.WithTimeout(10*time.Second, func() {
				serr = s.Send(context.Background(), reader(el("", "message", at("type", "chat"))))
			}) || serr != nil {
				return "", fmt.Errorf("probeFrom: Send: %v", serr)
			}
			toks, perr := parseInStream(ns, out.Bytes())
			if perr != nil || len(toks) == 0 {
				return "", fmt.Errorf("probeFrom: wire %q: %v", out.Bytes(), perr)
			}
			start, ok := toks[0].(xml.StartElement)
			if !ok {
				return "", fmt.Errorf("probeFrom: wire %q", out.Bytes())
			}
			rows = append(rows, fmt.Sprintf("(%q, %q, %q, %q)", st.name, ns, roleOf(s.LocalAddr().String()), roleOf(attrValue(start, "from"))))
		}
	}
	return "some [" + strings.Join(rows, ", ") + "]", nil
}
