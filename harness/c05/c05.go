// Package c05 drives the transmit entry points of a real *xmpp.Session
// (property C05) and compares what arrives at the peer end with the Lean
// model of the stanza encoder.
//
// Protocol lines:
//
//	tx <entry> <ns> <from|-> <startTok|-> <toks> <form>  -> <status> <canonical wire tokens>
//	conc <n> <i0,i1,…>                                  -> ok
//
// entry: send sendel enc encel tw reply iq msg pres; form: reader marshaler
// writerto struct:<k> (how the argument is handed to the entry point; ignored
// by the model, which sees the argument's tokens).
package c05

import (
	"bytes"
	"context"
	"encoding/xml"
	"errors"
	"fmt"
	"io"
	"runtime"
	"strconv"
	"strings"
	"sync"
	"time"

	"mellium.im/xmlstream"
	"mellium.im/xmpp"
	"mellium.im/xmpp/jid"
	"mellium.im/xmpp/stanza"

	"verifharness/common"
)

var (
	localJID  = jid.MustParse("me@example.net/res")
	remoteJID = jid.MustParse("example.net")
)

type cfgT struct {
	ns   string
	from string // "" on client streams
	// recv: a RECEIVED server-to-server session that was not told its own address: it
	// learns it from the to attribute of the peer's stream header (real negotiation)
	recv bool
}

const recvAddr = "capulet.example"

var cfgs = []cfgT{{nsClient, "", false}, {nsServer, localJID.String(), false}, {nsServer, recvAddr, true}}

// mkCfg rebuilds a configuration from the fields of a case line.
func mkCfg(ns, fromField string) cfgT {
	cfg := cfgT{ns: ns}
	if fromField != "-" {
		b, _ := common.UnHex(fromField)
		cfg.from = string(b)
	}
	cfg.recv = cfg.from == recvAddr
	return cfg
}

func (c cfgT) fromField() string {
	if c.from == "" {
		return "-"
	}
	return common.HexS(c.from)
}

type tokMarshaler struct{ t []xml.Token }

func (m tokMarshaler) TokenReader() xml.TokenReader { return reader(m.t) }

type tokWriterTo struct{ t []xml.Token }

func (m tokWriterTo) WriteXML(w xmlstream.TokenWriter) (int, error) {
	return xmlstream.Copy(w, reader(m.t))
}

type payload struct {
	XMLName xml.Name `xml:"urn:a query"`
	A       string   `xml:"a,attr,omitempty"`
	K       string   `xml:"urn:attr k,attr,omitempty"`
	Lang    string   `xml:"http://www.w3.org/XML/1998/namespace lang,attr,omitempty"`
	Body    string   `xml:"urn:b body,omitempty"`
	Text    string   `xml:",chardata"`
}

type msgBody struct {
	stanza.Message
	Body string `xml:"body"`
}

// structPool is a fixed list of values that take the reflection path of
// internal/marshal; replay files refer to them by index.
var structPool = []interface{}{
	stanza.Message{ID: "m1", Type: stanza.ChatMessage, To: jid.MustParse("b@example.com")},
	stanza.Message{Type: stanza.NormalMessage, Lang: "en"},
	stanza.IQ{ID: "q1", Type: stanza.ResultIQ},
	stanza.IQ{Type: stanza.ErrorIQ, Lang: "de", From: jid.MustParse("a@example.org/r")},
	stanza.Presence{Type: stanza.UnavailablePresence},
	stanza.Presence{ID: "p1", Lang: "fr"},
	payload{A: "a<&>", Text: "t"},
	payload{K: "nsattr", Lang: "en", Body: "b"},
	msgBody{Message: stanza.Message{Type: stanza.ChatMessage}, Body: "hello <&> ☃"},
	msgBody{Message: stanza.Message{XMLName: xml.Name{Space: nsClient, Local: "message"}, ID: "x9", Type: stanza.ErrorMessage}, Body: "b"},
	stanza.Message{XMLName: xml.Name{Space: nsServer, Local: "message"}, Type: stanza.HeadlineMessage},
}

// structToks is the token list a value denotes: its standard encoding, parsed
// on its own, without namespace declarations.
func structToks(v interface{}) ([]xml.Token, error) {
	b, err := xml.Marshal(v)
	if err != nil {
		return nil, err
	}
	toks, err := common.Tokenize(b)
	if err != nil {
		return nil, err
	}
	for i, t := range toks {
		if s, ok := t.(xml.StartElement); ok {
			var as []xml.Attr
			for _, a := range s.Attr {
				if !isNsDecl(a) {
					as = append(as, a)
				}
			}
			s.Attr = as
			toks[i] = s
		}
	}
	return toks, nil
}

type call struct {
	entry string
	form  string
	toks  []xml.Token
	start *xml.StartElement
}

func (cl call) value() interface{} {
	switch {
	case cl.form == "marshaler":
		return tokMarshaler{cl.toks}
	case cl.form == "writerto":
		return tokWriterTo{cl.toks}
	case cl.form == "xmlm":
		return tokXMLMarshaler{cl.toks}
	case cl.form == "xmlmp":
		return &tokXMLMarshalerP{cl.toks}
	case cl.form == "wrapm":
		return wrapOf(cl.toks)
	case strings.HasPrefix(cl.form, "struct:big"):
		return bigValue(cl.form[7:])
	case strings.HasPrefix(cl.form, "struct:"):
		k, _ := strconv.Atoi(cl.form[7:])
		return structPool[k%len(structPool)]
	}
	return reader(cl.toks)
}

func firstElement(toks []xml.Token) []xml.Token {
	if len(toks) == 0 {
		return nil
	}
	s, ok := toks[0].(xml.StartElement)
	if !ok {
		return nil
	}
	depth := 0
	for i, t := range toks {
		switch t.(type) {
		case xml.StartElement:
			depth++
		case xml.EndElement:
			depth--
			if depth == 0 {
				out := append([]xml.Token(nil), toks[:i]...)
				return append(out, s.End())
			}
		}
	}
	return nil
}

// denoted is the element the property says the call must put on the wire.
func (cl call) denoted() []xml.Token {
	switch cl.entry {
	case "send", "iq", "msg", "pres":
		return firstElement(cl.toks)
	case "sendel":
		out := append([]xml.Token{*cl.start}, cl.toks...)
		return append(out, cl.start.End())
	case "encel", "replyel":
		out := append([]xml.Token(nil), cl.toks...)
		depth := 0
		for i, t := range out {
			switch s := t.(type) {
			case xml.StartElement:
				if depth == 0 {
					// encoding/xml's EncodeElement: start's name, start's attributes, then the
					// value's own (its default namespace declaration goes with its name)
					as := append([]xml.Attr(nil), cl.start.Attr...)
					for _, a := range s.Attr {
						if !(a.Name.Space == "" && a.Name.Local == "xmlns") {
							as = append(as, a)
						}
					}
					out[i] = xml.StartElement{Name: cl.start.Name, Attr: as}
				}
				depth++
			case xml.EndElement:
				depth--
				if depth == 0 {
					out[i] = cl.start.End()
				}
			}
		}
		return out
	}
	return cl.toks
}

// copyArgs / argsDiffer: the caller's start element and tokens must be what they were
// before the call ("nothing else is altered" includes the caller's own data).
func (cl call) copyArgs() call {
	cp := cl
	if cl.start != nil {
		st := xml.CopyToken(*cl.start).(xml.StartElement)
		cp.start = &st
	}
	cp.toks = make([]xml.Token, len(cl.toks))
	for i, t := range cl.toks {
		cp.toks[i] = xml.CopyToken(t)
	}
	return cp
}

func (cl call) argsDiffer(saved call) string {
	if cl.start != nil && common.EncTok(*cl.start) != common.EncTok(*saved.start) {
		return fmt.Sprintf("the start element passed to the call was modified in place: %s became %s", common.EncTok(*saved.start), common.EncTok(*cl.start))
	}
	if common.EncToks(cl.toks) != common.EncToks(saved.toks) {
		return "the tokens passed to the call were modified in place"
	}
	return ""
}

type sess struct {
	rs    *common.RawSession
	reply chan []replyJob
}

type replyJob struct {
	cl   call
	done chan string
}

func newSess(cfg cfgT) (*common.RawSession, error) {
	if cfg.recv {
		return newRecvSess(cfg)
	}
	rs, err := common.NewRawSession(0, cfg.ns, localJID, remoteJID)
	if err == nil && cfg.from != "" && rs.S.LocalAddr().String() != cfg.from {
		return nil, fmt.Errorf("LocalAddr() is %q, the session was created for %q", rs.S.LocalAddr(), cfg.from)
	}
	return rs, err
}

func classify(err error) string {
	switch {
	case err == nil:
		return "ok"
	case errors.Is(err, xmpp.ErrOutputStreamClosed):
		return "closed"
	case errors.Is(err, io.EOF):
		return "eof"
	case errors.Is(err, context.Canceled):
		return "ok" // SendIQ & co. wrote the element, then gave up waiting for a reply
	case strings.Contains(err.Error(), "did not begin with a StartElement"), strings.Contains(err.Error(), "start element, got"):
		return "notstart"
	case strings.Contains(err.Error(), "expected start element to be"):
		return "wrongkind"
	}
	return "err"
}

var cancelled = func() context.Context {
	c, f := context.WithCancel(context.Background())
	f()
	return c
}()

// exec runs one call on a session and returns its status.
func exec(s *xmpp.Session, cl call) (status string) {
	ctx := context.Background()
	var err error
	done := make(chan struct{})
	var pan string
	go func() {
		defer close(done)
		pan = common.Recover(func() {
			switch cl.entry {
			case "send":
				err = s.Send(ctx, reader(cl.toks))
			case "sendel":
				err = s.SendElement(ctx, reader(cl.toks), *cl.start)
			case "enc":
				err = s.Encode(ctx, cl.value())
			case "encel":
				err = s.EncodeElement(ctx, cl.value(), *cl.start)
			case "tw":
				w := s.TokenWriter()
				fl := flushPositions(cl.form)
				for i, t := range cl.toks {
					if fl[i] {
						if err = w.Flush(); err != nil {
							break
						}
					}
					if err = w.EncodeToken(xml.CopyToken(t)); err != nil {
						break
					}
				}
				if err == nil && fl[len(cl.toks)] {
					err = w.Flush()
				}
				if e := w.Close(); err == nil {
					err = e
				}
			case "iq", "msg", "pres":
				var resp xmlstream.TokenReadCloser
				if cl.form == "el" || cl.form == "encel" || cl.form == "encv" {
					if r2, e2, done := familyCall(s, cancelled, cl); done {
						resp, err = r2, e2
						if resp != nil {
							resp.Close()
						}
						break
					}
				}
				switch cl.entry {
				case "iq":
					if strings.HasPrefix(cl.form, "struct:") {
						resp, err = s.EncodeIQ(cancelled, cl.value())
					} else {
						resp, err = s.SendIQ(cancelled, reader(cl.toks))
					}
				case "msg":
					resp, err = s.SendMessage(cancelled, reader(cl.toks))
				default:
					resp, err = s.SendPresence(cancelled, reader(cl.toks))
				}
				if resp != nil {
					resp.Close()
				}
			default:
				err = fmt.Errorf("unknown entry %q", cl.entry)
			}
		})
	}()
	select {
	case <-done:
	case <-time.After(10 * time.Second):
		return "STALL"
	}
	if pan != "" {
		return "PANIC"
	}
	return classify(err)
}

// execReply lets a handler write the call's tokens as its reply to a stanza.
func execReply(cfg cfgT, cl call) (status string, wire []byte) {
	rs, err := newSess(cfg)
	if err != nil {
		return "err", nil
	}
	n := 0
	first := make(chan string, 1)
	second := make(chan struct{}, 1)
	go rs.S.Serve(xmpp.HandlerFunc(func(t xmlstream.TokenReadEncoder, start *xml.StartElement) error {
		n++
		if n > 1 {
			second <- struct{}{}
			return nil
		}
		var err error
		p := common.Recover(func() {
			switch {
			case cl.entry == "replyel":
				err = t.EncodeElement(cl.value(), *cl.start)
			case cl.form == "reader":
				for _, tok := range cl.toks {
					if err = t.EncodeToken(xml.CopyToken(tok)); err != nil {
						break
					}
				}
			default:
				err = t.Encode(cl.value())
			}
		})
		if p != "" {
			first <- "PANIC"
		} else {
			first <- classify(err)
		}
		return nil
	}))
	go rs.Feed([]byte(`<message xmlns="` + cfg.ns + `" id="trigger"/><message xmlns="` + cfg.ns + `" id="sync"/>`))
	select {
	case status = <-first:
	case <-time.After(10 * time.Second):
		return "STALL", rs.Out.Bytes()
	}
	select {
	case <-second:
	case <-time.After(10 * time.Second):
		return "STALL", rs.Out.Bytes()
	}
	wire = rs.Out.Bytes()
	rs.In.Close()
	return status, wire
}

type ctxT struct {
	r      *common.Run
	sess   map[cfgT]*common.RawSession
	failed bool
	stalls int
}

func (c *ctxT) fail(clause, key string, lines []string, detail string) {
	c.failed = true
	c.r.Fail(clause, key, lines, detail)
}

func (c *ctxT) session(cfg cfgT) *common.RawSession {
	if s := c.sess[cfg]; s != nil {
		return s
	}
	s, err := newSess(cfg)
	if err != nil {
		panic(err)
	}
	c.sess[cfg] = s
	return s
}

func (cl call) line(cfg cfgT) string {
	st := "-"
	if cl.start != nil {
		st = common.EncTok(*cl.start)
	}
	return fmt.Sprintf("tx %s %s %s %s %s %s", cl.entry, cfg.ns, cfg.fromField(), st, common.EncToks(cl.toks), cl.form)
}

// check evaluates the property's clauses on what one call put on the wire.
func (c *ctxT) check(cfg cfgT, cl call, status string, wire []byte, lines []string) (obs string) {
	key := cl.entry + "/" + strings.SplitN(cl.form, ":", 2)[0]
	if status == "PANIC" || status == "STALL" {
		c.fail("total", key+"/"+status, lines, status)
		return status + " -"
	}
	toks, err := parseInStream(cfg.ns, wire)
	if err != nil {
		if status == "ok" {
			c.fail("wellformed", key, lines, fmt.Sprintf("wire %q: %v", clip(wire), err))
		}
		return status + " MALFORMED"
	}
	masked, _ := maskIDs(toks)
	obs = status + " " + common.EncToks(common.SortedAttrs(masked))
	if status != "ok" {
		if len(wire) != 0 && status != "err" {
			c.fail("failed-call-writes", key+"/"+status, lines, fmt.Sprintf("call failed with %s but wrote %q", status, clip(wire)))
		}
		return obs
	}
	els, stray := splitTop(masked)
	den := cl.denoted()
	if den == nil {
		return obs
	}
	exp, err := expected(cfg.ns, cfg.from, den)
	if err != nil {
		// the argument cannot be printed by encoding/xml at all: not a case the property covers
		return obs
	}
	expEls, _ := splitTop(exp)
	switch {
	case len(els) == 0 && len(expEls) > 0:
		c.fail("one-element", key, lines, "the call returned nil but wrote nothing")
		return obs
	case len(expEls) != 1 && len(els) == len(expEls) && !stray && (cl.entry == "enc" || cl.entry == "encel" || cl.entry == "reply" || cl.entry == "replyel"):
		// round E (review A-5): the VALUE encodes to several top-level elements (or none) and the
		// call reports success: not "exactly one complete top-level element"
		c.fail("one-element", "value-of-many-elements", lines, fmt.Sprintf("the value handed to %s encodes to %d top-level elements; the call returned nil and wrote all of them: %q", cl.entry, len(expEls), clip(wire)))
		return obs
	case len(els) != len(expEls) || stray:
		c.fail("one-element", key, lines, fmt.Sprintf("%d top-level elements on the wire (stray=%v), expected %d: %q", len(els), stray, len(expEls), clip(wire)))
		return obs
	}
	for i := range els {
		// round E (review A-2): "every outgoing stanza carries the stream's content namespace"
		if ws, ok := els[i][0].(xml.StartElement); ok && isStanzaName(ws.Name) && ws.Name.Space != cfg.ns {
			c.fail("stream-namespace", "other-stanza-namespace", lines, fmt.Sprintf("a top-level <%s> in %q went out on a stream whose content namespace is %q (completed like a stanza of the stream); wire %q", ws.Name.Local, ws.Name.Space, cfg.ns, clip(wire)))
		}
		// the from address of a stanza on a server-to-server stream: the caller's, else the
		// address the session reports as its own (LocalAddr(), verified when the session was made)
		if ws, ok := els[i][0].(xml.StartElement); ok && cfg.from != "" {
			if es, ok := expEls[i][0].(xml.StartElement); ok && isStanzaName(es.Name) && ws.Name == es.Name {
				if got, want := attrValue(ws, "from"), attrValue(es, "from"); got != want {
					c.fail("from-local-addr", key, lines, fmt.Sprintf("the stanza went out with from=%q, the session's LocalAddr() is %q and the property asks for from=%q; wire %q", got, cfg.from, want, clip(wire)))
					return obs
				}
			}
		}
		if ok, why := sameElement(els[i], expEls[i]); !ok {
			clause := "exact-element"
			if foreignRawStanza(cfg, den) {
				key = "raw-top-stanza/foreign-xmlns"
			}
			if cl.entry == "encel" || cl.entry == "replyel" || cl.entry == "sendel" {
				if s, ok := els[i][0].(xml.StartElement); ok {
					if e, ok := expEls[i][0].(xml.StartElement); ok && s.Name != e.Name {
						clause = "start-outermost"
					}
				}
			}
			c.fail(clause, key, lines, fmt.Sprintf("%s; wire %q", why, clip(wire)))
			return obs
		}
	}
	return obs
}

// foreignRawStanza: the element starts with a stanza name without namespace that carries an
// xmlns attribute naming something else than the stream's content namespace.
func foreignRawStanza(cfg cfgT, den []xml.Token) bool {
	if len(den) == 0 {
		return false
	}
	s, ok := den[0].(xml.StartElement)
	if !ok || s.Name.Space != "" || !isStanzaLocal(s.Name.Local) {
		return false
	}
	for _, a := range s.Attr {
		if a.Name.Space == "" && a.Name.Local == "xmlns" && a.Value != cfg.ns {
			return true
		}
	}
	return false
}

// noForeign takes the foreign xmlns attribute off a raw-spelled top-level stanza (known
// finding raw-top-stanza/foreign-xmlns): the concurrent scenarios recognise every element on the
// wire by what the property says it must be.
func noForeign(cfg cfgT, cl call) call {
	if !foreignRawStanza(cfg, cl.denoted()) {
		return cl
	}
	strip := func(s xml.StartElement) xml.StartElement {
		var as []xml.Attr
		for _, a := range s.Attr {
			if !(a.Name.Space == "" && a.Name.Local == "xmlns") {
				as = append(as, a)
			}
		}
		s.Attr = as
		return s
	}
	if cl.start != nil {
		st := strip(*cl.start)
		cl.start = &st
	}
	if len(cl.toks) > 0 {
		if s, ok := cl.toks[0].(xml.StartElement); ok && (cl.start == nil || cl.entry == "encel") {
			cl.toks = append([]xml.Token(nil), cl.toks...)
			cl.toks[0] = strip(s)
		}
	}
	return cl
}

func attrValue(s xml.StartElement, local string) string {
	for _, a := range s.Attr {
		if a.Name.Local == local {
			return a.Value
		}
	}
	return ""
}

func clip(b []byte) string {
	if len(b) > 400 {
		return string(b[:400]) + "…"
	}
	return string(b)
}

// one runs a call sequentially and records line, case and oracle verdicts.
func (c *ctxT) one(cfg cfgT, cl call, class string) {
	r := c.r
	line := cl.line(cfg)
	lines := []string{r.Prop + " " + line}
	var status string
	var wire, late []byte
	saved := cl.copyArgs()
	if cl.entry == "reply" || cl.entry == "replyel" {
		status, wire = execReply(cfg, cl)
	} else {
		rs := c.session(cfg)
		rs.Out.Take()
		status = exec(rs.S, cl)
		wire = rs.Out.Take()
		if status == "ok" {
			// anything a later flush still brings out was not on the connection when
			// the call returned
			if !common.WithTimeout(5*time.Second, func() {
				if w := rs.S.TokenWriter(); w.Close() == nil {
					late = rs.Out.Take()
				}
			}) {
				c.fail("lock-released", cl.entry, lines, "the output lock is still held after the call returned")
				delete(c.sess, cfg)
				r.Line(line, "STALL -")
				return
			}
		}
	}
	c.failed = false
	formClass := strings.SplitN(cl.form, ":", 2)[0]
	if cl.entry != "reply" && cl.entry != "replyel" && status == "ok" {
		r.Line(fmt.Sprintf("flush %s %s", cl.entry, formClass), common.B(len(late) == 0))
		if len(late) != 0 {
			c.fail("flushed", cl.entry+"/"+formClass, lines, fmt.Sprintf("the call returned nil with %d of %d bytes of its element still in the encoder's buffer", len(late), len(late)+len(wire)))
			wire = append(wire, late...)
		}
	}
	obs := c.check(cfg, saved, status, wire, lines)
	if why := cl.argsDiffer(saved); why != "" {
		c.fail("arguments-unaltered", cl.entry, lines, why)
	}
	if status != "ok" || c.failed {
		delete(c.sess, cfg) // the encoder may be mid-element or hold unflushed bytes: start afresh
	}
	r.Line(line, obs)
	r.Case(line, status == "ok", class+"/"+cl.entry+"/"+strings.SplitN(cl.form, ":", 2)[0]+"/"+status)
}

// value forms: how the argument of Encode/EncodeElement is handed over.  xmlm / xmlmp: a value
// whose ONLY encoding method is MarshalXML (value / pointer receiver), see roundd.go
var forms = []string{"reader", "marshaler", "writerto", "xmlm", "xmlmp"}

func (c *ctxT) genCall(rnd *common.Rand, big int) call {
	entry := pickS(rnd, []string{"send", "send", "sendel", "enc", "enc", "encel", "encel", "tw", "iq", "msg", "pres", "reply", "replyel"})
	cl := call{entry: entry, form: "reader"}
	switch entry {
	case "send", "tw":
		cl.toks = genElement(rnd, 0, true, big)
		if entry == "tw" && rnd.Chance(2, 3) {
			cl.form = randomFlushes(rnd, len(cl.toks))
		}
		if entry == "send" && rnd.Chance(1, 4) {
			// trailing tokens after the first element must not be sent
			cl.toks = append(cl.toks, genElement(rnd, 1, true, 0)...)
		}
		if entry == "send" && rnd.Chance(1, 25) {
			cl.toks = append([]xml.Token{xml.CharData("x")}, cl.toks...)
		}
	case "sendel":
		name := genName(rnd, true)
		st := xml.StartElement{Name: name, Attr: genAttrs(rnd, name, true)}
		cl.start = &st
		n := rnd.Intn(3)
		for i := 0; i < n; i++ {
			if rnd.Chance(1, 3) {
				cl.toks = append(cl.toks, xml.CharData(pick(rnd, textPool)))
			} else {
				cl.toks = append(cl.toks, genElement(rnd, 1, false, big)...)
				big = 0
			}
		}
	case "enc", "encel", "reply", "replyel":
		if rnd.Chance(1, 3) {
			k := rnd.Intn(len(structPool))
			if entry == "encel" || entry == "replyel" {
				k = rnd.Intn(8) // values whose children carry their own namespace
			}
			cl.form = "struct:" + strconv.Itoa(k)
			cl.toks, _ = structToks(structPool[k])
		} else {
			cl.form = forms[rnd.Intn(len(forms))]
			cl.toks = genElement(rnd, 0, true, big)
			if cl.form == "xmlm" && rnd.Chance(1, 3) {
				// the same element as a field of a plain struct
				cl.form = "wrapm"
				cl.toks = wrapToks(genElement(rnd, 1, false, big))
			}
			if printsItself(cl.form) {
				cl.toks = consistentNs(cl.toks)
				if entry == "encel" || entry == "replyel" {
					cl.toks = resolveInherit(cl.toks)
				}
			}
		}
		if entry == "encel" || entry == "replyel" {
			name := genName(rnd, true)
			st := xml.StartElement{Name: name, Attr: genAttrs(rnd, name, true)}
			if strings.HasPrefix(cl.form, "struct:") {
				st.Attr = at("s1", pick(rnd, valPool))
			} else if s0, ok := cl.toks[0].(xml.StartElement); ok {
				// an attribute may not appear twice on the merged start element
				var own []xml.Attr
				for _, a := range s0.Attr {
					dup := false
					for _, b := range st.Attr {
						dup = dup || (a.Name == b.Name) || (a.Name.Local == b.Name.Local && (a.Name.Local == "id" || a.Name.Local == "from" || a.Name.Local == "xmlns"))
					}
					if !dup {
						own = append(own, a)
					}
				}
				s0.Attr = own
				cl.toks[0] = s0
			}
			cl.start = &st
		}
		if entry == "reply" && cl.form != "reader" && !strings.HasPrefix(cl.form, "struct:") {
			cl.form = "reader"
		}
	case "iq", "msg", "pres":
		loc := map[string]string{"iq": "iq", "msg": "message", "pres": "presence"}[entry]
		cl.toks = genElement(rnd, 0, true, big)
		s := cl.toks[0].(xml.StartElement)
		if !rnd.Chance(1, 10) {
			s.Name = xml.Name{Space: pickS(rnd, []string{"", "", nsClient, nsServer}), Local: loc}
			var as []xml.Attr
			for _, a := range s.Attr {
				if !(a.Name.Local == "xmlns") {
					as = append(as, a)
				}
			}
			s.Attr = as
		}
		cl.toks[0] = s
		cl.toks[len(cl.toks)-1] = s.End()
		if rnd.Chance(2, 5) && s.Name.Local == loc {
			cl = familyVariant(rnd, cl)
		}
	}
	return cl
}

func pickS(r *common.Rand, l []string) string { return l[r.Intn(len(l))] }
func pickInt(r *common.Rand, l []int) int     { return l[r.Intn(len(l))] }

// ---- concurrent runs -----------------------------------------------------------------

func withMarker(cl call, mk string) call {
	set := func(s xml.StartElement) xml.StartElement {
		var as []xml.Attr
		for _, a := range s.Attr {
			if a.Name.Local != "id" {
				as = append(as, a)
			}
		}
		s.Attr = append(as, xml.Attr{Name: xml.Name{Local: "id"}, Value: mk})
		return s
	}
	if cl.start != nil {
		s := set(*cl.start)
		cl.start = &s
		if cl.entry == "encel" {
			// own id attributes would duplicate the marker
			toks := append([]xml.Token(nil), cl.toks...)
			if s0, ok := toks[0].(xml.StartElement); ok {
				var as []xml.Attr
				for _, a := range s0.Attr {
					if a.Name.Local != "id" {
						as = append(as, a)
					}
				}
				s0.Attr = as
				toks[0] = s0
			}
			cl.toks = toks
		}
		return cl
	}
	toks := append([]xml.Token(nil), cl.toks...)
	if s0, ok := toks[0].(xml.StartElement); ok {
		toks[0] = set(s0)
	}
	cl.toks = toks
	return cl
}

func (c *ctxT) concurrent(cfg cfgT, rnd *common.Rand, nG, nK int, caseNo int) {
	r := c.r
	rs, err := newSess(cfg)
	if err != nil {
		panic(err)
	}
	defer rs.In.Close() // ends a Serve started below
	type job struct {
		cl  call
		mk  string
		idx int
	}
	var all []job
	perG := make([][]job, nG)
	for g := 0; g < nG; g++ {
		for k := 0; k < nK; k++ {
			var cl call
			for {
				big := 0
				if rnd.Chance(1, 3) {
					big = 3000 + rnd.Intn(9000)
				}
				cl = c.genCall(rnd, big)
				if cl.entry == "reply" || cl.entry == "replyel" || strings.HasPrefix(cl.form, "struct:") || cl.form == "wrapm" {
					continue
				}
				if loc, ok := map[string]string{"iq": "iq", "msg": "message", "pres": "presence"}[cl.entry]; ok {
					if s0, isS := cl.toks[0].(xml.StartElement); !isS || s0.Name.Local != loc {
						continue
					}
				}
				if len(cl.toks) > 0 {
					if _, ok := cl.toks[0].(xml.StartElement); !ok && cl.start == nil {
						continue
					}
				}
				if cl.start == nil && len(cl.toks) == 0 {
					continue
				}
				cl = noForeign(cfg, cl)
				break
			}
			mk := fmt.Sprintf("m-%d-%d", g, k)
			cl = withMarker(cl, mk)
			j := job{cl: cl, mk: mk, idx: len(all)}
			all = append(all, j)
			perG[g] = append(perG[g], j)
		}
	}
	xmpp.VerifSetYield(func(point string) {
		runtime.Gosched()
		time.Sleep(time.Duration(50+len(point)) * time.Microsecond)
	})
	defer xmpp.VerifSetYield(nil)
	// handler replies written by Serve while the other goroutines transmit
	var replies []job
	if caseNo%2 == 1 {
		nR := 1 + rnd.Intn(5)
		for k := 0; k < nR; k++ {
			big := 0
			if rnd.Chance(1, 2) {
				big = 3000 + rnd.Intn(9000)
			}
			mk := fmt.Sprintf("m-%d-%d", nG, k)
			cl := withMarker(noForeign(cfg, call{entry: "reply", form: "reader", toks: genElement(rnd, 0, true, big)}), mk)
			j := job{cl: cl, mk: mk, idx: len(all)}
			all = append(all, j)
			replies = append(replies, j)
		}
	}
	statuses := make([]string, len(all))
	var wg sync.WaitGroup
	if len(replies) > 0 {
		n := 0
		synced := make(chan struct{})
		go rs.S.Serve(xmpp.HandlerFunc(func(t xmlstream.TokenReadEncoder, start *xml.StartElement) error {
			k := n
			n++
			if k >= len(replies) {
				if k == len(replies) {
					close(synced)
				}
				return nil
			}
			st := "ok"
			for _, tok := range replies[k].cl.toks {
				if err := t.EncodeToken(xml.CopyToken(tok)); err != nil {
					st = classify(err)
					break
				}
			}
			statuses[replies[k].idx] = st
			return nil
		}))
		wg.Add(1)
		go func() {
			defer wg.Done()
			for k := 0; k <= len(replies); k++ {
				rs.Feed([]byte(fmt.Sprintf(`<message xmlns="%s" id="in%d"/>`, cfg.ns, k)))
			}
			select {
			case <-synced:
			case <-time.After(30 * time.Second):
			}
		}()
	}
	for g := 0; g < nG; g++ {
		wg.Add(1)
		go func(g int) {
			defer wg.Done()
			for _, j := range perG[g] {
				statuses[j.idx] = exec(rs.S, j.cl.copyArgs())
			}
		}(g)
	}
	finished := common.WithTimeout(60*time.Second, wg.Wait)
	if finished {
		// bring out what Encode/EncodeElement left in the buffer for WriterTo values (known
		// finding, reported by the sequential cases); atomicity is judged on the complete stream
		finished = common.WithTimeout(10*time.Second, func() { rs.S.TokenWriter().Close() })
	}
	wire := rs.Out.Bytes()
	r.Mark("case conc %d", caseNo)
	var lines []string
	for _, j := range all {
		lines = append(lines, r.Prop+" "+j.cl.line(cfg))
	}
	if len(lines) > 40 {
		lines = lines[:40]
	}
	r.Case(fmt.Sprintf("conc %d %s %d %d", caseNo, cfg.ns, nG, nK), true, "concurrent")
	fail := func(detail string) {
		r.Fail("atomic", "concurrent", lines, detail)
		r.Line(fmt.Sprintf("conc %d -", len(all)), "bad")
	}
	if !finished {
		fail("concurrent calls did not return")
		return
	}
	for i, st := range statuses {
		if st != "ok" {
			fail(fmt.Sprintf("call %d (%s) returned %s", i, all[i].cl.entry, st))
			return
		}
	}
	toks, err := parseInStream(cfg.ns, wire)
	if err != nil {
		fail(fmt.Sprintf("the bytes at the peer end are not well-formed: %v (%d bytes)", err, len(wire)))
		return
	}
	masked, _ := maskIDs(toks)
	els, stray := splitTop(masked)
	if stray || len(els) != len(all) {
		fail(fmt.Sprintf("%d top-level elements for %d calls (stray=%v)", len(els), len(all), stray))
		return
	}
	byMk := map[string]job{}
	for _, j := range all {
		byMk[j.mk] = j
	}
	var order []string
	seen := map[string]bool{}
	lastK := map[int]int{}
	for _, el := range els {
		s := el[0].(xml.StartElement)
		mk := ""
		for _, a := range s.Attr {
			if a.Name.Space == "" && a.Name.Local == "id" {
				mk = a.Value
			}
		}
		j, ok := byMk[mk]
		if !ok || seen[mk] {
			fail(fmt.Sprintf("element with marker %q does not belong to exactly one call", mk))
			return
		}
		seen[mk] = true
		exp, err := expected(cfg.ns, cfg.from, j.cl.denoted())
		if err == nil {
			if ok, why := sameElement(el, exp); !ok {
				fail(fmt.Sprintf("element of call %s (%s/%s) is not the call's element: %s", mk, j.cl.entry, j.cl.form, why))
				return
			}
		}
		var g, k int
		fmt.Sscanf(mk, "m-%d-%d", &g, &k)
		if last, ok := lastK[g]; ok && k < last {
			fail(fmt.Sprintf("calls of goroutine %d appear out of program order", g))
			return
		}
		lastK[g] = k
		order = append(order, strconv.Itoa(j.idx))
	}
	r.Line(fmt.Sprintf("conc %d %s", len(all), common.Join(order, ",")), "ok")
}

// ---- runner -----------------------------------------------------------------------------

func el(space, local string, attrs []xml.Attr, children ...xml.Token) []xml.Token {
	s := xml.StartElement{Name: xml.Name{Space: space, Local: local}, Attr: attrs}
	out := append([]xml.Token{s}, children...)
	return append(out, s.End())
}

func at(kv ...string) []xml.Attr {
	var as []xml.Attr
	for i := 0; i+1 < len(kv); i += 2 {
		as = append(as, xml.Attr{Name: xml.Name{Local: kv[i]}, Value: kv[i+1]})
	}
	return as
}

func corpus() []call {
	msg := el("", "message", at("to", "b@example.com"), el("", "body", nil, xml.CharData("hi"))...)
	st := xml.StartElement{Name: xml.Name{Local: "message"}, Attr: at("to", "x@example.org", "id", "e1")}
	stIQ := xml.StartElement{Name: xml.Name{Space: nsClient, Local: "iq"}, Attr: at("type", "result", "id", "e2")}
	q := el("urn:a", "query", at("a", "1"))
	var cs []call
	// past witnesses first: EncodeElement ignoring start, WriterTo values not flushed,
	// xml:lang mangled on the reflection path
	for _, f := range []string{"reader", "marshaler", "writerto", "struct:6"} {
		toks := q
		if f == "struct:6" {
			toks, _ = structToks(structPool[6])
		}
		cs = append(cs, call{entry: "encel", form: f, toks: toks, start: &st})
		cs = append(cs, call{entry: "encel", form: f, toks: toks, start: &stIQ})
		cs = append(cs, call{entry: "enc", form: f, toks: toks})
	}
	for k := range structPool {
		t, _ := structToks(structPool[k])
		cs = append(cs, call{entry: "enc", form: "struct:" + strconv.Itoa(k), toks: t})
		cs = append(cs, call{entry: "reply", form: "struct:" + strconv.Itoa(k), toks: t})
	}
	cs = append(cs,
		call{entry: "send", form: "reader", toks: msg},
		call{entry: "send", form: "reader", toks: el("", "iq", at("id", "", "from", "", "type", "get"))},
		call{entry: "send", form: "reader", toks: el(nsServer, "presence", at("xmlns", nsServer, "id", "p"))},
		call{entry: "send", form: "reader", toks: el("urn:a", "x", at("xmlns", "urn:a"), el("", "message", nil)...)},
		call{entry: "send", form: "reader", toks: []xml.Token{xml.CharData("x")}},
		call{entry: "send", form: "reader", toks: nil},
		call{entry: "sendel", form: "reader", toks: q, start: &st},
		call{entry: "sendel", form: "reader", toks: nil, start: &stIQ},
		call{entry: "tw", form: "reader", toks: msg},
		call{entry: "reply", form: "reader", toks: msg},
		call{entry: "iq", form: "reader", toks: el("", "iq", at("type", "result"), q...)},
		call{entry: "iq", form: "reader", toks: el("", "iq", at("type", "get", "id", ""), q...)},
		call{entry: "iq", form: "reader", toks: msg},
		call{entry: "msg", form: "reader", toks: msg},
		call{entry: "msg", form: "reader", toks: el(nsClient, "message", at("type", "error", "id", "k"))},
		call{entry: "pres", form: "reader", toks: el("", "presence", at("type", "error"))},
		call{entry: "pres", form: "reader", toks: el("", "presence", nil)},
		call{entry: "send", form: "reader", toks: el("", "message", nil, xml.CharData(strings.Repeat("A", 70000)))},
	)
	// round E (review A-5): a value that encodes to two sibling elements
	two := append(el("urn:a", "a", nil), el("urn:a", "b", nil)...)
	for _, f := range []string{"reader", "marshaler", "xmlm"} {
		cs = append(cs, call{entry: "enc", form: f, toks: two})
	}
	// round E (review A-1), witnesses on the tree before `fix: the stanza encoder takes any
	// attribute with the local name id / from / xmlns ...`: attributes that only share the LOCAL
	// name with id / from / xmlns are other attributes
	nsAt := func(kv ...string) []xml.Attr {
		var as []xml.Attr
		for i := 0; i+2 < len(kv); i += 3 {
			as = append(as, xml.Attr{Name: xml.Name{Space: kv[i], Local: kv[i+1]}, Value: kv[i+2]})
		}
		return as
	}
	for _, as := range [][]xml.Attr{
		nsAt(nsXML, "id", "x1"),                            // xml:id is not the stanza id: an id must be generated
		nsAt("urn:attr", "id", "n1", "", "type", "get"),    // the same with an extension namespace
		nsAt("urn:attr", "from", "o@example.org"),          // does not stand for the from of an s2s stanza
		nsAt("urn:attr", "id", "", "urn:attr", "from", ""), // empty values: kept, they are not id / from
		nsAt("urn:attr", "xmlns", "urn:v"),                 // not a namespace declaration
		nsAt("", "id", "p1", "urn:attr", "id", "n1", "", "from", "a@example.org", "urn:attr", "from", "f"),
	} {
		for _, loc := range []string{"iq", "message", "presence"} {
			for _, sp := range []string{"", nsClient, nsServer} {
				cs = append(cs, call{entry: "send", form: "reader", toks: el(sp, loc, as, el("urn:a", "x", nsAt("urn:attr", "xmlns", "v", "urn:attr", "id", ""))...)})
			}
		}
		cs = append(cs,
			call{entry: "tw", form: "reader", toks: el("", "message", as)},
			call{entry: "enc", form: "marshaler", toks: el("", "presence", as)},
			call{entry: "enc", form: "xmlm", toks: el(nsClient, "message", as)},
			call{entry: "sendel", form: "reader", toks: q, start: &xml.StartElement{Name: xml.Name{Local: "iq"}, Attr: as}},
			call{entry: "encel", form: "reader", toks: q, start: &xml.StartElement{Name: xml.Name{Local: "message"}, Attr: as}},
			call{entry: "reply", form: "reader", toks: el("", "iq", as)},
			call{entry: "msg", form: "reader", toks: el("", "message", as)},
			call{entry: "pres", form: "reader", toks: el("", "presence", as)},
		)
	}
	return cs
}

// sameStartTwice sends the same start element value through SendElement twice
// (past witness: the encoder filtered the caller's attribute slice in place, so
// the second element went out with a duplicated attribute).
func (c *ctxT) sameStartTwice(cfg cfgT) {
	st := xml.StartElement{Name: xml.Name{Local: "message"}, Attr: at("id", "", "x", "1")}
	cl := call{entry: "sendel", form: "reader", start: &st}
	for i := 0; i < 2; i++ {
		r := c.r
		saved := call{entry: "sendel", form: "reader", start: &xml.StartElement{Name: st.Name, Attr: at("id", "", "x", "1")}}
		line := saved.line(cfg)
		lines := []string{r.Prop + " " + line, r.Prop + " " + line, "#the same xml.StartElement value is passed to both calls"}
		rs := c.session(cfg)
		rs.Out.Take()
		status := exec(rs.S, cl)
		wire := rs.Out.Take()
		c.failed = false
		obs := c.check(cfg, saved, status, wire, lines)
		r.Line(line, obs)
		r.Case(line+fmt.Sprint(i), status == "ok", "corpus/same-start-twice")
		if c.failed {
			delete(c.sess, cfg)
		}
	}
}

// Run is the C05 runner.
func Run(r *common.Run) error {
	c := &ctxT{r: r, sess: map[cfgT]*common.RawSession{}}
	if r.Replay != "" {
		lines, err := common.ReplayLines(r.Replay)
		if err != nil {
			return err
		}
		// every kind of witness is executed again the way it was produced
		executed, scenario := 0, ""
		for _, l := range lines {
			f := strings.Fields(l)
			if len(f) > 0 && strings.HasPrefix(f[0], "#scenario=") {
				scenario = strings.TrimSuffix(strings.TrimPrefix(f[0], "#scenario="), ":")
				continue
			}
			if strings.HasPrefix(l, "#the same xml.StartElement") {
				scenario = "same-start-twice"
				continue
			}
			if len(f) == 8 && f[0] == "C05" && f[1] == "fault" {
				cfg := mkCfg(f[3], f[4])
				k, _ := strconv.Atoi(f[5])
				ts, err1 := decToks(f[6])
				nx, err2 := decToks(f[7])
				if err1 == nil && err2 == nil && k <= len(ts) && len(nx) > 0 {
					c.fault(cfg, f[2], ts, k, nx)
					executed++
				}
				continue
			}
			if len(f) == 11 && f[0] == "C05" && f[1] == "behind" {
				cfg := mkCfg(f[7], f[8])
				park, _ := strconv.Atoi(f[3])
				k, _ := strconv.Atoi(f[4])
				ts, err1 := decToks(f[5])
				us, err2 := decToks(f[10])
				cl := call{entry: f[6], form: "reader", toks: us}
				if f[6] == "enc" || f[6] == "encel" {
					cl.form = "marshaler"
				}
				if f[9] != "-" {
					st, err := decToks(f[9])
					if err != nil || len(st) != 1 {
						continue
					}
					if s, ok := st[0].(xml.StartElement); ok {
						cl.start = &s
					}
				}
				if err1 == nil && err2 == nil {
					c.behind(cfg, f[2], park, k, ts, cl)
					executed++
				}
				continue
			}
			if len(f) == 6 && f[0] == "C05" && f[1] == "serveiter" {
				if ts, err := decToks(f[5]); err == nil {
					c.serveIter(mkCfg(f[2], f[3]), f[4], ts)
					executed++
				}
				continue
			}
			if len(f) == 12 && f[0] == "C05" && f[1] == "queued" {
				cl := call{entry: f[4], form: f[7]}
				if f[5] != "-" {
					if st, err := decToks(f[5]); err == nil && len(st) == 1 {
						if s, ok := st[0].(xml.StartElement); ok {
							cl.start = &s
						}
					}
				}
				ts, err1 := decToks(f[6])
				ws, err2 := decToks(f[10])
				if err1 == nil && err2 == nil {
					cl.toks = ts
					c.queued(mkCfg(f[2], f[3]), cl, f[8], f[9], ws)
					executed++
				}
				continue
			}
			if len(f) == 15 && f[0] == "C05" && f[1] == "wfault" {
				cl := call{entry: f[4], form: f[7]}
				if f[5] != "-" {
					if st, err := decToks(f[5]); err == nil && len(st) == 1 {
						if s, ok := st[0].(xml.StartElement); ok {
							cl.start = &s
						}
					}
				}
				ts, err := decToks(f[6])
				at, _ := strconv.Atoi(f[9])
				n, _ := strconv.Atoi(f[10])
				if err == nil {
					cl.toks = ts
					c.wfault(mkCfg(f[2], f[3]), cl, at, n, f[11])
					executed++
				}
				continue
			}
			if len(f) == 6 && f[0] == "C05" && f[1] == "reuse" {
				c.reuse(mkCfg(f[2], f[3]), f[4], strings.Split(f[5], ","))
				executed++
				continue
			}
			pendN, pendMode := 0, ""
			if len(f) == 10 && f[0] == "C05" && f[1] == "pend" {
				pendN, _ = strconv.Atoi(f[2])
				pendMode = f[3]
				f = append([]string{"C05", "tx"}, f[4:]...)
			}
			if len(f) != 8 || f[0] != "C05" || f[1] != "tx" {
				continue
			}
			cfg := mkCfg(f[3], f[4])
			cl := call{entry: f[2], form: f[7]}
			if f[5] != "-" {
				ts, err := decToks(f[5])
				if err != nil || len(ts) != 1 {
					continue
				}
				s, ok := ts[0].(xml.StartElement)
				if !ok {
					continue
				}
				cl.start = &s
			}
			ts, err := decToks(f[6])
			if err != nil {
				continue // a line that was clipped for the report
			}
			cl.toks = ts
			if pendN > 0 {
				c.pending(cfg, cl, pendN, pendMode)
				executed++
			} else if scenario == "" && len(lines) == 1 {
				c.one(cfg, cl, "replay")
				executed++
			}
		}
		switch {
		case scenario == "cross":
			for _, n := range []int{300, 3000} {
				c.cross(n, []string{"enc", "enc"})
				c.cross(n, []string{"enc", "iq", "enc"})
				c.cross(n, []string{"iq", "enc"})
			}
		case scenario == "auto-reply":
			for _, cfg := range cfgs {
				c.autoReply(cfg)
			}
		case scenario == "same-start-twice":
			for _, cfg := range cfgs {
				c.sameStartTwice(cfg)
			}
		case executed == 0 || len(lines) > 1:
			// a witness of the concurrent runs: the schedule search again, same seed
			for i := 0; i < 30; i++ {
				c.concurrent(cfgs[i%len(cfgs)], r.Rnd, 2+r.Rnd.Intn(15), 2+r.Rnd.Intn(6), i)
			}
			for i := 0; i < 15; i++ {
				c.multiSession(r.Rnd, i)
			}
		}
		return nil
	}

	if r.Race() {
		// race-detector run: only the concurrent scenarios, more of them
		for i := 0; i < 150; i++ {
			c.concurrent(cfgs[i%len(cfgs)], r.Rnd, 2+r.Rnd.Intn(15), 2+r.Rnd.Intn(6), i)
			if i%3 == 0 {
				c.multiSession(r.Rnd, i)
			}
			if i%10 == 0 {
				c.autoReply(cfgs[i%len(cfgs)])
				c.behindCorpus(cfgs[i%len(cfgs)])
				c.queuedCorpus(cfgs[i%len(cfgs)])
			}
		}
		return nil
	}
	r.Mark("case corpus")
	for _, n := range []int{300, 3000} {
		c.cross(n, []string{"enc", "enc"})
		c.cross(n, []string{"enc", "iq", "enc"})
		c.cross(n, []string{"iq", "enc"})
	}
	for _, cfg := range cfgs {
		c.flushCorpus(cfg)
		c.faultCorpus(cfg)
		c.spellingCorpus(cfg)
		c.rawTopCorpus(cfg)
		c.autoReply(cfg)
	}
	r.Mark("case calls queued behind a sender that stops inside its element")
	for _, cfg := range cfgs {
		c.behindCorpus(cfg)
	}
	r.Mark("case a call returns while another call is queued for the output lock behind it")
	for _, cfg := range cfgs {
		c.queuedCorpus(cfg)
	}
	r.Mark("case requests with the same id are still waiting for their response")
	for _, cfg := range cfgs {
		c.pendingCorpus(cfg)
	}
	r.Mark("case one iteration of the serve loop: handler reply, automatic reply, open element")
	for _, cfg := range cfgs {
		c.serveIterCorpus(cfg)
	}
	r.Mark("case one write of the transport answered with a fault")
	for _, cfg := range cfgs {
		c.wfaultCorpus(cfg)
	}
	r.Mark("case token writer handles used after Close")
	c.reuseAll()
	r.Exhaustive = append(r.Exhaustive, "every program of length <= 3 over {EncodeToken, Flush, Close} on a closed token writer handle x {no holder (without Close), a second handle idle, a second handle mid-element} x session configuration")
	for _, cfg := range cfgs {
		c.sameStartTwice(cfg)
		for _, cl := range corpus() {
			c.one(cfg, cl, "corpus")
		}
	}
	rnd := r.Rnd
	n := r.Pick(6000, 60000)
	for i := 0; i < n; i++ {
		big := 0
		if i%40 == 0 {
			big = 4000 + rnd.Intn(70000)
		}
		c.one(cfgs[rnd.Intn(len(cfgs))], c.genCall(rnd, big), "random")
	}
	nFault := r.Pick(150, 3000)
	for i := 0; i < nFault; i++ {
		cfg := cfgs[rnd.Intn(len(cfgs))]
		toks := noForeign(cfg, call{entry: "send", toks: genElement(rnd, 0, true, 0)}).toks
		next := noForeign(cfg, call{entry: "send", toks: genElement(rnd, 0, true, 0)}).toks
		c.fault(cfg, pickS(rnd, []string{"reader", "tw", "badtok", "badend"}), toks, 1+rnd.Intn(len(toks)-1), next)
	}
	nBehind := r.Pick(40, 600)
	for i := 0; i < nBehind; i++ {
		cfg := cfgs[rnd.Intn(len(cfgs))]
		bigH, bigN := 0, 0
		if i%8 == 0 {
			bigH = 4000 + rnd.Intn(20000) // larger than the encoder's buffer: bytes reach the connection while the lock is held
		}
		if i%8 == 4 {
			bigN = 4000 + rnd.Intn(20000)
		}
		toks := noForeign(cfg, call{entry: "send", toks: genElement(rnd, 0, true, bigH)}).toks
		next := noForeign(cfg, call{entry: "send", toks: genElement(rnd, 0, true, bigN)}).toks
		cl, ok := behindCall(pickS(rnd, []string{"send", "sendel", "enc", "encel", "tw", "reply"}), next)
		if !ok || len(toks) < 3 {
			continue
		}
		cl = noForeign(cfg, cl)
		k := 1 + rnd.Intn(len(toks)-1)
		c.behind(cfg, pickS(rnd, []string{"fail", "finish", "twfail", "encfail"}), rnd.Intn(k+1), k, toks, cl)
	}
	c.queuedRandom(rnd, r.Pick(150, 2500))
	c.pendingRandom(rnd, r.Pick(150, 2500))
	c.serveIterRandom(rnd, r.Pick(100, 1500))
	nW := r.Pick(200, 3000)
	for i := 0; i < nW; i++ {
		cfg := cfgs[rnd.Intn(len(cfgs))]
		big := 0
		if i%3 == 0 {
			big = 3000 + rnd.Intn(20000) // several transport writes
		}
		var cl call
		for {
			cl = c.genCall(rnd, big)
			if cl.entry == "reply" || cl.entry == "replyel" || cl.entry == "iq" || cl.form == "writerto" || foreignRawStanza(cfg, cl.denoted()) {
				continue // handler replies are written by Serve; WriterTo values are not flushed by Encode (known finding)
			}
			break
		}
		at := 0
		if big > 0 {
			at = rnd.Intn(2 + big/4096)
		}
		n := pickInt(rnd, []int{0, 1, 2, 17, 100, 1000, 4095, 4096, 1 << 20})
		if rnd.Chance(1, 2) {
			n = rnd.Intn(300)
		}
		c.wfault(cfg, cl, at, n, pickS(rnd, wfaultKinds))
	}
	nConc := r.Pick(30, 300)
	for i := 0; i < nConc; i++ {
		c.concurrent(cfgs[i%len(cfgs)], rnd, 2+rnd.Intn(15), 2+rnd.Intn(6), i)
	}
	nMulti := r.Pick(10, 100)
	for i := 0; i < nMulti; i++ {
		c.multiSession(rnd, i)
	}
	r.Notes = append(r.Notes, "the agreement of the value forms (token reader, Marshaler, WriterTo, struct) is checked on the implementation by the oracle; the model sees the argument's token list")
	return nil
}

// decToks decodes the protocol encoding of a token list.
func decToks(s string) ([]xml.Token, error) {
	if s == "-" {
		return nil, nil
	}
	unhex := func(h string) (string, error) {
		if h == "" {
			return "", nil
		}
		b, err := common.UnHex(h)
		return string(b), err
	}
	var out []xml.Token
	for _, ts := range strings.Split(s, ";") {
		f := strings.Split(ts, ":")
		var bad error
		g := func(i int) string {
			if i >= len(f) {
				bad = fmt.Errorf("short token %q", ts)
				return ""
			}
			v, err := unhex(f[i])
			if err != nil {
				bad = err
			}
			return v
		}
		switch f[0] {
		case "S":
			st := xml.StartElement{Name: xml.Name{Space: g(1), Local: g(2)}}
			for _, a := range f[min(3, len(f)):] {
				p := strings.Split(a, "=")
				if len(p) != 3 {
					return nil, fmt.Errorf("bad attr %q", a)
				}
				sp, _ := unhex(p[0])
				lo, _ := unhex(p[1])
				v, _ := unhex(p[2])
				st.Attr = append(st.Attr, xml.Attr{Name: xml.Name{Space: sp, Local: lo}, Value: v})
			}
			out = append(out, st)
		case "E":
			out = append(out, xml.EndElement{Name: xml.Name{Space: g(1), Local: g(2)}})
		case "C":
			out = append(out, xml.CharData(g(1)))
		case "M":
			out = append(out, xml.Comment(g(1)))
		case "P":
			out = append(out, xml.ProcInst{Target: g(1), Inst: []byte(g(2))})
		case "D":
			out = append(out, xml.Directive(g(1)))
		default:
			return nil, fmt.Errorf("bad token %q", ts)
		}
		if bad != nil {
			return nil, bad
		}
	}
	return out, nil
}

var _ = bytes.Equal
