package c05

import (
	"encoding/xml"
	"fmt"
	"strings"

	"verifharness/common"
)

const (
	nsClient = "jabber:client"
	nsServer = "jabber:server"
	nsXML    = "http://www.w3.org/XML/1998/namespace"
)

var textPool = []string{"hi", "a<b>&\"c'", "ünï ☃ 𝄞", " lead and trail ", "line1\nline2\ttab", "]]>", "x"}
var valPool = []string{"v", "", "a&b<c>\"'", "é☃", "x y"}

func pick(r *common.Rand, l []string) string { return l[r.Intn(len(l))] }

// genAttrs draws attributes for a start element. stanza decides whether the
// id/from/type family is likely.
func genAttrs(r *common.Rand, name xml.Name, top bool) []xml.Attr {
	var as []xml.Attr
	add := func(space, local, v string) {
		for _, a := range as {
			if a.Name.Space == space && a.Name.Local == local {
				return
			}
		}
		as = append(as, xml.Attr{Name: xml.Name{Space: space, Local: local}, Value: v})
	}
	n := r.Intn(5)
	for i := 0; i < n; i++ {
		switch r.Intn(10) {
		case 0:
			add("", "id", pick(r, []string{"", "abc", "i-1", "q&1"}))
		case 1:
			add("", "from", pick(r, []string{"", "a@example.org/r", "example.org"}))
		case 2:
			add("", "to", pick(r, []string{"b@example.com", "", "example.net"}))
		case 3:
			add("", "type", pick(r, []string{"get", "set", "result", "error", "chat", "", "probe"}))
		case 4:
			add(nsXML, "lang", pick(r, []string{"en", "de-CH"}))
		case 5:
			if name.Space != "" {
				// duplicate declaration (mellium.im/issue/75)
				add("", "xmlns", pick(r, []string{name.Space, "urn:dup"}))
			} else if top && isStanzaLocal(name.Local) {
				// a top-level stanza in raw spelling: no namespace in the name, the declaration as
				// an attribute (the stream's namespace, the other stanza namespace, a foreign one)
				add("", "xmlns", pick(r, []string{nsClient, nsServer, "urn:dup"}))
			}
		case 6:
			add("urn:attr", "k", pick(r, valPool))
		case 7:
			// round E (review A-1): attributes that share only the LOCAL name with id / from /
			// xmlns.  The property speaks about the stanza's id and from attribute (no
			// namespace); a namespaced attribute of that local name is "anything else" and
			// must neither be taken for the id / from nor be deleted.
			switch r.Intn(5) {
			case 0:
				add(nsXML, "id", pick(r, []string{"x1", ""}))
			case 1:
				add("urn:attr", "id", pick(r, []string{"n1", ""}))
			case 2:
				add("urn:attr", "from", pick(r, []string{"other@example.org", ""}))
			case 3:
				add("urn:attr", "xmlns", pick(r, []string{"urn:v", ""}))
			default:
				add("urn:attr", "to", pick(r, valPool))
			}
		default:
			add("", pick(r, []string{"a", "b", "c"}), pick(r, valPool))
		}
	}
	return as
}

func isStanzaLocal(l string) bool { return l == "iq" || l == "message" || l == "presence" }

func genName(r *common.Rand, top bool) xml.Name {
	if r.Chance(1, 2) && top || r.Chance(1, 6) {
		return xml.Name{Space: pick(r, []string{"", "", nsClient, nsServer}), Local: pick(r, []string{"iq", "message", "presence"})}
	}
	return xml.Name{Space: pick(r, []string{"", "urn:a", "urn:b", nsClient}), Local: pick(r, []string{"x", "query", "body", "ping"})}
}

// genElement returns the tokens of one balanced element.
func genElement(r *common.Rand, depth int, top bool, big int) []xml.Token {
	name := genName(r, top)
	start := xml.StartElement{Name: name, Attr: genAttrs(r, name, top)}
	if name.Space != "" && r.Chance(1, 3) {
		// the RAW spelling of the same element (as xmlstream.Wrap-based payloads and
		// Decoder.RawToken produce it): no namespace in the name, an xmlns attribute instead;
		// children without a namespace of their own then live in that namespace
		var as []xml.Attr
		for _, a := range start.Attr {
			if !(a.Name.Space == "" && a.Name.Local == "xmlns") {
				as = append(as, a)
			}
		}
		start = xml.StartElement{Name: xml.Name{Local: name.Local}, Attr: append([]xml.Attr{{Name: xml.Name{Local: "xmlns"}, Value: name.Space}}, as...)}
	}
	toks := []xml.Token{start}
	n := r.Intn(4)
	if depth >= 3 {
		n = r.Intn(2)
	}
	for i := 0; i < n; i++ {
		switch r.Intn(6) {
		case 0, 1:
			toks = append(toks, xml.CharData(pick(r, textPool)))
		case 2:
			if big > 0 {
				toks = append(toks, xml.CharData(strings.Repeat("0123456789abcdef", big/16+1)))
				big = 0
			} else {
				toks = append(toks, xml.CharData(""))
			}
		case 3:
			if r.Chance(1, 4) {
				toks = append(toks, xml.Comment("c"))
			} else {
				toks = append(toks, xml.CharData(pick(r, textPool)))
			}
		default:
			if depth < 3 {
				toks = append(toks, genElement(r, depth+1, false, 0)...)
			}
		}
	}
	if big > 0 {
		toks = append(toks, xml.CharData(strings.Repeat("0123456789abcdef", big/16+1)))
	}
	return append(toks, start.End())
}

// sliceReader is an xml.TokenReader over a token slice.
type sliceReader struct {
	t []xml.Token
	i int
}

func (s *sliceReader) Token() (xml.Token, error) {
	if s.i >= len(s.t) {
		return nil, errEOF
	}
	t := s.t[s.i]
	s.i++
	return xml.CopyToken(t), nil
}

func reader(t []xml.Token) xml.TokenReader { return &sliceReader{t: t} }

func describe(t []xml.Token) string {
	if len(t) == 0 {
		return "empty"
	}
	if s, ok := t[0].(xml.StartElement); ok {
		return fmt.Sprintf("%s|%s", s.Name.Space, s.Name.Local)
	}
	return "nostart"
}
