package c05

import (
	"bytes"
	"encoding/xml"
	"fmt"
	"io"
	"regexp"
	"sort"
	"strings"

	"verifharness/common"
)

var errEOF = io.EOF

const streamNS = "http://etherx.jabber.org/streams"

func isNsDecl(a xml.Attr) bool {
	return a.Name.Space == "xmlns" || (a.Name.Space == "" && a.Name.Local == "xmlns")
}

// parseInStream parses bytes as the content of a stream whose default
// namespace is ns, with the real decoder, and returns the tokens between the
// stream's start and end tag with namespace declarations removed from the
// attribute lists (they are reflected in the resolved names).
func parseInStream(ns string, b []byte) ([]xml.Token, error) {
	doc := "<stream:stream xmlns='" + ns + "' xmlns:stream='" + streamNS + "'>" + string(b) + "</stream:stream>"
	toks, err := common.Tokenize([]byte(doc))
	if err != nil {
		return nil, err
	}
	// encoding/xml accepts a start tag that has the same attribute twice; XML does not
	// (well-formedness constraint "unique att spec"), nor do other parsers
	if err := duplicateAttr(b); err != nil {
		return nil, err
	}
	if len(toks) < 2 {
		return nil, fmt.Errorf("short document")
	}
	toks = toks[1 : len(toks)-1]
	out := make([]xml.Token, 0, len(toks))
	for _, t := range toks {
		if s, ok := t.(xml.StartElement); ok {
			var as []xml.Attr
			for _, a := range s.Attr {
				if !isNsDecl(a) {
					as = append(as, a)
				}
			}
			s.Attr = as
			t = s
		}
		out = append(out, t)
	}
	return out, nil
}

func duplicateAttr(b []byte) error {
	d := xml.NewDecoder(bytes.NewReader(b))
	for {
		tok, err := d.RawToken()
		if err != nil {
			return nil
		}
		if s, ok := tok.(xml.StartElement); ok {
			seen := map[xml.Name]bool{}
			for _, a := range s.Attr {
				if seen[a.Name] {
					n := a.Name.Local
					if a.Name.Space != "" {
						n = a.Name.Space + ":" + n
					}
					return fmt.Errorf("attribute %q appears twice in <%s>: not well-formed", n, s.Name.Local)
				}
				seen[a.Name] = true
			}
		}
	}
}

var hex16 = regexp.MustCompile(`^[0-9a-f]{16}$`)

// maskIDs replaces generated ids (16 hex digits, never used by the generators)
// on top-level start elements by the placeholder the model driver prints.
func maskIDs(toks []xml.Token) (masked []xml.Token, generated int) {
	depth := 0
	for _, t := range toks {
		switch s := t.(type) {
		case xml.StartElement:
			if depth == 0 {
				as := append([]xml.Attr(nil), s.Attr...)
				for i := range as {
					if as[i].Name.Space == "" && as[i].Name.Local == "id" && hex16.MatchString(as[i].Value) {
						as[i].Value = "ID#"
						generated++
					}
				}
				s.Attr = as
				t = s
			}
			depth++
		case xml.EndElement:
			depth--
		}
		masked = append(masked, t)
	}
	return masked, generated
}

// splitTop splits a token list into its top-level elements; stray says whether
// anything other than elements appears at the top level.
func splitTop(toks []xml.Token) (els [][]xml.Token, stray bool) {
	depth := 0
	var cur []xml.Token
	for _, t := range toks {
		switch t.(type) {
		case xml.StartElement:
			depth++
			cur = append(cur, t)
		case xml.EndElement:
			depth--
			cur = append(cur, t)
			if depth == 0 {
				els = append(els, cur)
				cur = nil
			}
		default:
			if depth == 0 {
				if c, ok := t.(xml.CharData); ok && len(bytes.TrimSpace(c)) == 0 {
					continue
				}
				stray = true
			} else {
				cur = append(cur, t)
			}
		}
	}
	if len(cur) > 0 {
		stray = true
	}
	return els, stray
}

// ---- the property's own reading of "the element denoting the call's arguments" --------

// printPlain serialises a token list with a plain xml.Encoder after removing
// redundant xmlns attributes from namespaced start elements (the encoder
// regenerates the declaration from the name; keeping both is not well-formed).
func printPlain(toks []xml.Token) ([]byte, error) {
	var b bytes.Buffer
	e := xml.NewEncoder(&b)
	for _, t := range toks {
		if s, ok := t.(xml.StartElement); ok && s.Name.Space != "" {
			var as []xml.Attr
			for _, a := range s.Attr {
				if a.Name.Space == "" && a.Name.Local == "xmlns" {
					continue
				}
				as = append(as, a)
			}
			s.Attr = as
			t = s
		}
		if err := e.EncodeToken(t); err != nil {
			return nil, err
		}
	}
	if err := e.Flush(); err != nil {
		return nil, err
	}
	return b.Bytes(), nil
}

func isStanzaName(n xml.Name) bool {
	return (n.Local == "iq" || n.Local == "message" || n.Local == "presence") && (n.Space == nsClient || n.Space == nsServer)
}

// expected computes, from the tokens the call denotes, what the property
// allows on the wire: the same element, and on a top-level stanza no empty
// id/from, a from on s2s streams, a non-empty id.
func expected(ns, from string, denoted []xml.Token) ([]xml.Token, error) {
	b, err := printPlain(denoted)
	if err != nil {
		return nil, err
	}
	toks, err := parseInStream(ns, b)
	if err != nil {
		return nil, err
	}
	if len(toks) == 0 {
		return toks, nil
	}
	s, ok := toks[0].(xml.StartElement)
	if !ok || !isStanzaName(s.Name) {
		return toks, nil
	}
	var as []xml.Attr
	hasID, hasFrom := false, false
	for _, a := range s.Attr {
		// the stanza's id / from are the attributes WITHOUT a namespace (round E: full
		// names; {urn:x}id or xml:id is some other attribute and is kept as it is)
		plain := a.Name.Space == ""
		if plain && (a.Name.Local == "id" || a.Name.Local == "from") && a.Value == "" {
			continue
		}
		if plain && a.Name.Local == "id" {
			hasID = true
		}
		if plain && a.Name.Local == "from" {
			hasFrom = true
		}
		as = append(as, a)
	}
	if from != "" && !hasFrom {
		as = append(as, xml.Attr{Name: xml.Name{Local: "from"}, Value: from})
	}
	if !hasID {
		as = append(as, xml.Attr{Name: xml.Name{Local: "id"}, Value: "ID#"})
	}
	s.Attr = as
	out := append([]xml.Token{s}, toks[1:]...)
	return out, nil
}

func attrKey(a xml.Attr) string { return a.Name.Space + "\x00" + a.Name.Local + "\x00" + a.Value }

// sameElement compares two canonical token lists; attribute order is not
// significant.
func sameElement(a, b []xml.Token) (bool, string) {
	if len(a) != len(b) {
		return false, fmt.Sprintf("token count %d vs %d", len(a), len(b))
	}
	for i := range a {
		switch x := a[i].(type) {
		case xml.StartElement:
			y, ok := b[i].(xml.StartElement)
			if !ok || x.Name != y.Name {
				return false, fmt.Sprintf("token %d: start %v vs %v", i, x.Name, common.EncTok(b[i]))
			}
			var ka, kb []string
			for _, t := range x.Attr {
				ka = append(ka, attrKey(t))
			}
			for _, t := range y.Attr {
				kb = append(kb, attrKey(t))
			}
			sort.Strings(ka)
			sort.Strings(kb)
			if strings.Join(ka, "\x01") != strings.Join(kb, "\x01") {
				return false, fmt.Sprintf("token %d <%s>: attributes %q vs %q", i, x.Name.Local, ka, kb)
			}
		case xml.EndElement:
			y, ok := b[i].(xml.EndElement)
			if !ok || x.Name != y.Name {
				return false, fmt.Sprintf("token %d: end %v", i, x.Name)
			}
		default:
			if common.EncTok(a[i]) != common.EncTok(b[i]) {
				return false, fmt.Sprintf("token %d differs", i)
			}
		}
	}
	return true, ""
}
