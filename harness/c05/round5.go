package c05

import (
	"encoding/xml"
)

// rawTopCorpus: a top-level stanza in RAW spelling (no namespace in the name, an explicit
// xmlns attribute: what Decoder.RawToken, hand-built tokens and some Marshalers produce), for
// the three stanza kinds, the xmlns value being the stream's content namespace, the other
// stanza namespace and a foreign one, through every entry point.  The stamped element must be
// well-formed (one namespace declaration) whatever else happens to it.
func (c *ctxT) rawTopCorpus(cfg cfgT) {
	body := el("urn:a", "x", at("k", "v"), xml.CharData("hi"))
	entryOf := map[string]string{"iq": "iq", "message": "msg", "presence": "pres"}
	typeOf := map[string]string{"iq": "result", "message": "chat", "presence": "unavailable"}
	for _, local := range []string{"iq", "message", "presence"} {
		for _, x := range []string{nsClient, nsServer, "urn:other"} {
			for _, extra := range [][]xml.Attr{nil, at("id", "r5", "from", "a@example.org/r"), at("id", "", "to", "b@example.com")} {
				attrs := append(at("xmlns", x, "type", typeOf[local]), extra...)
				toks := el("", local, attrs, body...)
				st := toks[0].(xml.StartElement)
				c.one(cfg, call{entry: "send", form: "reader", toks: toks}, "raw-top")
				c.one(cfg, call{entry: entryOf[local], form: "reader", toks: toks}, "raw-top")
				c.one(cfg, call{entry: "tw", form: "reader", toks: toks}, "raw-top")
				c.one(cfg, call{entry: "reply", form: "reader", toks: toks}, "raw-top")
				for _, f := range forms {
					c.one(cfg, call{entry: "enc", form: f, toks: toks}, "raw-top")
					s2 := st
					c.one(cfg, call{entry: "encel", form: f, toks: el("", "v", at("w", "1"), body...), start: &s2}, "raw-top")
					s3 := st
					c.one(cfg, call{entry: "replyel", form: f, toks: el("", "v", at("w", "1"), body...), start: &s3}, "raw-top")
				}
				s4 := st
				c.one(cfg, call{entry: "sendel", form: "reader", toks: body, start: &s4}, "raw-top")
			}
		}
	}
}
