package c05

import (
	"context"
	"encoding/xml"
	"fmt"
	"io"
	"time"

	"mellium.im/xmlstream"
	"mellium.im/xmpp"
	"mellium.im/xmpp/jid"

	"verifharness/common"
)

// what the initiating server sends to a receiving one: its stream header, which names the
// virtual host it wants (to=) and then the selection of the one (trivial) stream feature
const recvPeerHeader = `<?xml version='1.0'?><stream:stream xmlns='jabber:server' xmlns:stream='http://etherx.jabber.org/streams' version='1.0' to='` + recvAddr + `'><ready xmlns='urn:example'/>`

func readyFeature() xmpp.StreamFeature {
	return xmpp.StreamFeature{
		Name: xml.Name{Space: "urn:example", Local: "ready"},
		List: func(ctx context.Context, e xmlstream.TokenWriter, start xml.StartElement) (bool, error) {
			if err := e.EncodeToken(start); err != nil {
				return true, err
			}
			return true, e.EncodeToken(start.End())
		},
		Parse: func(ctx context.Context, d *xml.Decoder, start *xml.StartElement) (bool, interface{}, error) {
			return true, nil, d.Skip()
		},
		Negotiate: func(ctx context.Context, session *xmpp.Session, data interface{}) (xmpp.SessionState, io.ReadWriter, error) {
			r := session.TokenReader()
			defer r.Close()
			for i := 0; i < 2; i++ {
				if _, err := r.Token(); err != nil {
					return 0, nil, err
				}
			}
			return xmpp.Ready, nil, nil
		},
	}
}

type recvRW struct {
	io.Reader
	io.Writer
}

// newRecvSess negotiates a real received server-to-server session with the library's own
// negotiator (xmpp.ReceiveServerSession, zero addresses): the session learns who it is from the
// peer's header.  The from address the encoder stamps must be the one LocalAddr() reports.
func newRecvSess(cfg cfgT) (*common.RawSession, error) { return newRecvSessOn(cfg, nil) }

// newRecvSessOn: the same, the session writing through wrap(out) (round D: a transport with
// scripted write faults below the session).
func newRecvSessOn(cfg cfgT, wrap func(*common.SafeBuffer) io.Writer) (*common.RawSession, error) {
	pr, pw := io.Pipe()
	out := &common.SafeBuffer{}
	var wr io.Writer = out
	if wrap != nil {
		wr = wrap(out)
	}
	go pw.Write([]byte(recvPeerHeader))
	var s *xmpp.Session
	var err error
	ctx, cancel := context.WithTimeout(context.Background(), 10*time.Second)
	defer cancel()
	if !common.WithTimeout(10*time.Second, func() {
		s, err = xmpp.ReceiveServerSession(ctx, jid.JID{}, jid.JID{}, recvRW{pr, wr}, readyFeature())
	}) {
		return nil, fmt.Errorf("negotiation of the received session stalled")
	}
	if err != nil {
		return nil, err
	}
	if s.State()&xmpp.Ready == 0 || s.State()&xmpp.Received == 0 || s.Out().XMLNS != cfg.ns {
		return nil, fmt.Errorf("received session: state %v, namespace %q", s.State(), s.Out().XMLNS)
	}
	if got := s.LocalAddr().String(); got != cfg.from {
		return nil, fmt.Errorf("received session: LocalAddr() is %q, the peer asked for %q", got, cfg.from)
	}
	out.Take() // our own header and features
	return &common.RawSession{S: s, In: pw, Out: out}, nil
}

// rawTopCorpus: a top-level stanza in RAW spelling (no namespace in the name, an explicit
// xmlns attribute: what Decoder.RawToken, hand-built tokens and some Marshalers produce), for
// the three stanza kinds, the xmlns value being the stream's content namespace, the other
// stanza namespace and a foreign one, through every entry point.  The stamped element must be
// well-formed (one namespace declaration) whatever else happens to it.
func (c *ctxT) rawTopCorpus(cfg cfgT) {
	body := el("urn:a", "x", at("k", "v"), xml.CharData("hi"))
	entryOf := map[string]string{"iq": "iq", "message": "msg", "presence": "pres"}
	typeOf := map[string]string{"iq": "result", "message": "chat", "presence": "unavailable"}
	for _, local := range []string{"iq", "message", "presence"} {
		for _, x := range []string{nsClient, nsServer, "urn:other"} {
			for _, extra := range [][]xml.Attr{nil, at("id", "r5", "from", "a@example.org/r"), at("id", "", "to", "b@example.com")} {
				attrs := append(at("xmlns", x, "type", typeOf[local]), extra...)
				toks := el("", local, attrs, body...)
				st := toks[0].(xml.StartElement)
				c.one(cfg, call{entry: "send", form: "reader", toks: toks}, "raw-top")
				c.one(cfg, call{entry: entryOf[local], form: "reader", toks: toks}, "raw-top")
				c.one(cfg, call{entry: "tw", form: "reader", toks: toks}, "raw-top")
				c.one(cfg, call{entry: "reply", form: "reader", toks: toks}, "raw-top")
				for _, f := range forms {
					c.one(cfg, call{entry: "enc", form: f, toks: toks}, "raw-top")
					s2 := st
					c.one(cfg, call{entry: "encel", form: f, toks: el("", "v", at("w", "1"), body...), start: &s2}, "raw-top")
					s3 := st
					c.one(cfg, call{entry: "replyel", form: f, toks: el("", "v", at("w", "1"), body...), start: &s3}, "raw-top")
				}
				s4 := st
				c.one(cfg, call{entry: "sendel", form: "reader", toks: body, start: &s4}, "raw-top")
			}
		}
	}
}
