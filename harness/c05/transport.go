package c05

// Round D (2): the transport below the encoder.
//
// Every scenario so far wrote into a buffer that accepts everything.  What lies between the XML
// encoder's buffered writer and the wire - the net.Conn wrapper the session puts around a plain
// io.ReadWriter (conn.go) - was never made to answer anything but (len(p), nil).  Scenario
// `wfault`: every one-shot entry point on a session whose transport answers ONE chosen write
// with (n, err): n in 0..len accepted bytes, err temporary / timeout / permanent / none (a
// short write).  A twin run without fault gives the sizes of the transport writes (the model's
// input) and the exact bytes.
//
//	wfault <ns> <from|-> <entry> <start|-> <toks> <form> <chunks> <at> <n> <kind> <status> <accepted> <next>  -> ok | bad
//
// The driver answers whether the observed (status of the call, bytes accepted by the transport,
// status of the next call) is one a transport layer that hands every byte on exactly once can
// show (relation: a layer that retries a temporary error CORRECTLY is as good as one that gives
// up).  The oracle works on the bytes: a call that returns nil has exactly its element on the
// wire; whatever a failed call got out is a prefix of its element's bytes (`transport-exact`).

import (
	"bytes"
	"context"
	"encoding/xml"
	"fmt"
	"io"
	"regexp"
	"strconv"
	"strings"
	"sync"
	"time"

	"mellium.im/xmpp"

	"verifharness/common"
)

type netErr struct {
	msg             string
	temp, isTimeout bool
}

func (e *netErr) Error() string   { return e.msg }
func (e *netErr) Temporary() bool { return e.temp }
func (e *netErr) Timeout() bool   { return e.isTimeout }

func faultErr(kind string) error {
	switch kind {
	case "temp":
		return &netErr{"transport: resource temporarily unavailable", true, false}
	case "timeout":
		return &netErr{"transport: i/o timeout", true, true}
	case "perm":
		return &netErr{"transport: broken pipe", false, false}
	}
	return nil // "short": fewer bytes than asked for and no error
}

// resp is the transport's answer to one Write: it accepts the first n bytes (all if n < 0 or
// n > len) and returns err.
type resp struct {
	n    int
	kind string // "" = no error
}

// faultWriter is NOT a net.Conn: the session wraps it.  Once armed it answers the Write calls
// with script[at-th call ...]; calls outside the script are accepted whole.
type faultWriter struct {
	mu     sync.Mutex
	out    *common.SafeBuffer
	armed  bool
	at     int
	script []resp
	calls  int
	chunks []int
}

func (f *faultWriter) Write(p []byte) (int, error) {
	f.mu.Lock()
	defer f.mu.Unlock()
	if !f.armed {
		return f.out.Write(p)
	}
	i := f.calls - f.at
	f.calls++
	f.chunks = append(f.chunks, len(p))
	if i < 0 || i >= len(f.script) {
		return f.out.Write(p)
	}
	r := f.script[i]
	n := r.n
	if n < 0 || n > len(p) {
		n = len(p)
	}
	f.out.Write(p[:n])
	return n, faultErr(r.kind)
}

func (f *faultWriter) arm(at int, script []resp) {
	f.mu.Lock()
	f.armed, f.at, f.script, f.calls, f.chunks = true, at, script, 0, nil
	f.mu.Unlock()
}

func (f *faultWriter) seen() (calls int, chunks []int) {
	f.mu.Lock()
	defer f.mu.Unlock()
	return f.calls, append([]int(nil), f.chunks...)
}

func newFaultSess(cfg cfgT) (*common.RawSession, *faultWriter, error) {
	fw := &faultWriter{}
	if cfg.recv {
		rs, err := newRecvSessOn(cfg, func(out *common.SafeBuffer) io.Writer { fw.out = out; return fw })
		return rs, fw, err
	}
	pr, pw := io.Pipe()
	fw.out = &common.SafeBuffer{}
	s, err := xmpp.NewSession(context.Background(), remoteJID, localJID, recvRW{pr, fw}, 0, common.ReadyNegotiator(0, cfg.ns))
	if err != nil {
		return nil, nil, err
	}
	return &common.RawSession{S: s, In: pw, Out: fw.out}, fw, nil
}

func intsField(l []int) string {
	if len(l) == 0 {
		return "-"
	}
	var s []string
	for _, x := range l {
		s = append(s, strconv.Itoa(x))
	}
	return strings.Join(s, ",")
}

// prefixModuloIDs: is got a prefix of want, a generated id (16 hex digits after id=") being
// free to differ?
func prefixModuloIDs(got, want []byte) bool {
	if len(got) > len(want) {
		return false
	}
	free := make([]bool, len(want))
	for _, loc := range idAttrRe.FindAllIndex(want, -1) {
		for i := loc[0] + 4; i < loc[1]-1; i++ {
			free[i] = true
		}
	}
	isHex := func(b byte) bool { return b >= '0' && b <= '9' || b >= 'a' && b <= 'f' }
	for i := range got {
		if got[i] != want[i] && !(free[i] && isHex(got[i])) {
			return false
		}
	}
	return true
}

var afterEl = el("", "presence", at("id", "after-the-fault", "type", "unavailable"))

// wfault runs cl with the transport answering its at-th write with (n, kind).
func (c *ctxT) wfault(cfg cfgT, cl call, at, n int, kind string) {
	r := c.r
	run := func(script []resp) (status, next string, wire, nextWire []byte, calls int, chunks []int, ok bool) {
		rs, fw, err := newFaultSess(cfg)
		if err != nil {
			return
		}
		defer rs.In.Close()
		rs.Out.Take()
		fw.arm(at, script)
		status = exec(rs.S, cl.copyArgs())
		calls, chunks = fw.seen()
		wire = rs.Out.Take()
		fw.arm(1<<30, nil) // what follows is accepted
		var err2 error
		if !common.WithTimeout(5*time.Second, func() { err2 = rs.S.Send(context.Background(), reader(afterEl)) }) {
			return status, "STALL", wire, nil, calls, chunks, true
		}
		next = classify(err2)
		nextWire = rs.Out.Take()
		return status, next, wire, nextWire, calls, chunks, true
	}
	cStatus, _, cWire, _, _, cChunks, ok := run(nil)
	if !ok || cStatus != "ok" {
		return // the call does not succeed on a faultless transport: nothing to compare with
	}
	status, next, wire, nextWire, calls, _, ok := run([]resp{{n, kind}})
	if !ok {
		return
	}
	stf := "-"
	if cl.start != nil {
		stf = common.EncTok(*cl.start)
	}
	line := fmt.Sprintf("wfault %s %s %s %s %s %s %s %d %d %s %s %d %s", cfg.ns, cfg.fromField(), cl.entry, stf, common.EncToks(cl.toks), cl.form,
		intsField(cChunks), at, n, kind, status, len(wire), next)
	lines := []string{r.Prop + " " + line}
	key := "wfault/" + kind
	switch {
	case status == "STALL" || status == "PANIC" || next == "STALL":
		r.Fail("total", key+"/"+status+next, lines, "a call on a transport that reported a write fault did not return")
	case status == "ok":
		c.failed = false
		c.check(cfg, cl, "ok", wire, lines)
		if !c.failed && !bytes.Equal(maskGenerated(wire), maskGenerated(cWire)) {
			r.Fail("transport-exact", key, lines, fmt.Sprintf("the call returned nil; the transport accepted %q, the element is %q", clip(wire), clip(cWire)))
		}
	default:
		if !prefixModuloIDs(wire, cWire) {
			r.Fail("transport-exact", key, lines, fmt.Sprintf("write %d of the call was answered (%d, %s); the bytes the transport accepted are not a prefix of the element: %q, element %q", at, n, kind, clip(wire), clip(cWire)))
		}
	}
	if next == "ok" {
		// the element of the next call, whole, directly after what was there
		if toks, err := parseInStream(cfg.ns, append(append([]byte(nil), wire...), nextWire...)); err != nil || status != "ok" && len(wire) != 0 {
			_ = toks
			r.Fail("next-after-failure", key, lines, fmt.Sprintf("the call failed inside its element (%d bytes out) and the next Send returned nil: wire %q", len(wire), clip(append(wire, nextWire...))))
		}
	} else if len(nextWire) != 0 {
		r.Fail("failed-call-writes", key, lines, fmt.Sprintf("the refused call wrote %d bytes", len(nextWire)))
	}
	_ = calls
	r.Line(line, "ok")
	fired := at < len(cChunks) && (kind != "short" || n < cChunks[at])
	r.Case(line, fired, fmt.Sprintf("wfault/%s/%s/%s/%s", cl.entry, kind, status, next))
}

var idAttrRe = regexp.MustCompile(`id="[0-9a-f]{16}"`)

func startPtr(t xml.Token) *xml.StartElement {
	s := t.(xml.StartElement)
	return &s
}

func maskGenerated(b []byte) []byte {
	return idAttrRe.ReplaceAll(b, []byte(`id="ID#"`))
}

var wfaultKinds = []string{"temp", "timeout", "perm", "short"}

// wfaultCorpus: small and large elements through every one-shot entry point, every kind of
// answer, the first / a middle / the last transport write, nothing / half / all but one byte /
// everything accepted.
func (c *ctxT) wfaultCorpus(cfg cfgT) {
	msg := el("", "message", at("to", "juliet@example.com", "type", "chat"), el("", "body", nil, xml.CharData("wherefore art thou"))...)
	big := el("", "message", at("to", "juliet@example.com", "id", "big1"), el("", "body", nil, xml.CharData(strings.Repeat("0123456789abcdef", 640)))...)
	st := big[0]
	for _, cl := range []call{
		{entry: "send", form: "reader", toks: msg},
		{entry: "enc", form: "marshaler", toks: msg},
		{entry: "enc", form: "xmlm", toks: msg},
		{entry: "enc", form: "struct:0", toks: mustStructToks(0)},
		{entry: "tw", form: "reader", toks: msg},
		{entry: "msg", form: "reader", toks: msg},
		{entry: "sendel", form: "reader", toks: big[1 : len(big)-1], start: startPtr(st)},
		{entry: "encel", form: "reader", toks: el("urn:a", "query", at("k", "v"), msg...), start: startPtr(xml.StartElement{Name: xml.Name{Local: "iq"}, Attr: at("type", "set", "id", "q7")})},
		{entry: "send", form: "reader", toks: big},
		{entry: "enc", form: "reader", toks: big},
	} {
		nWrites := 1
		if len(cl.toks) > 0 && (cl.entry == "sendel" || len(cl.toks) == len(big)) {
			nWrites = 3
		}
		for _, kind := range wfaultKinds {
			for at := 0; at < nWrites; at++ {
				for _, n := range []int{0, 1, 40, 1 << 20} {
					c.wfault(cfg, cl, at, n, kind)
				}
			}
		}
	}
}

func mustStructToks(k int) []xml.Token {
	t, _ := structToks(structPool[k])
	return t
}
