package c05

import (
	"context"
	"encoding/xml"
	"errors"
	"fmt"
	"runtime"
	"strconv"
	"strings"
	"sync"
	"time"

	"mellium.im/xmlstream"
	"mellium.im/xmpp"
	"mellium.im/xmpp/stanza"

	"verifharness/common"
)

// ---- token writers that flush in the middle of an element ----------------------------

// flushPositions parses the form "f:<i,j,…>": Flush is called before token i
// (len(tokens) = after the last token).
func flushPositions(form string) map[int]bool {
	out := map[int]bool{}
	if !strings.HasPrefix(form, "f:") {
		return out
	}
	for _, p := range strings.Split(form[2:], ",") {
		if n, err := strconv.Atoi(p); err == nil {
			out[n] = true
		}
	}
	return out
}

func flushForm(pos []int) string {
	if len(pos) == 0 {
		return "f:-"
	}
	s := make([]string, len(pos))
	for i, p := range pos {
		s[i] = strconv.Itoa(p)
	}
	return "f:" + strings.Join(s, ",")
}

// flushCorpus: elements with stanza-named children that carry no id / from, a
// flush at every single position and at all positions.
func (c *ctxT) flushCorpus(cfg cfgT) {
	fwd := el("urn:xmpp:forward:0", "forwarded", nil, el("", "message", at("type", "chat"), el("", "body", nil, xml.CharData("hi"))...)...)
	elems := [][]xml.Token{
		el("", "message", at("to", "b@example.com"), fwd...),
		el("", "x", nil, append(el("", "iq", at("type", "get")), el(nsClient, "presence", nil)...)...),
		el("", "iq", at("type", "result", "id", "q"), el("urn:a", "query", nil, el("", "message", nil)...)...),
	}
	for _, toks := range elems {
		all := []int{}
		for i := 0; i <= len(toks); i++ {
			c.one(cfg, call{entry: "tw", form: flushForm([]int{i}), toks: toks}, "flush-corpus")
			all = append(all, i)
		}
		c.one(cfg, call{entry: "tw", form: flushForm(all), toks: toks}, "flush-corpus")
	}
}

func randomFlushes(rnd *common.Rand, n int) string {
	var pos []int
	for i := 0; i <= n; i++ {
		if rnd.Chance(1, 3) {
			pos = append(pos, i)
		}
	}
	return flushForm(pos)
}

// ---- large struct values ----------------------------------------------------------------

type bigNote struct {
	XMLName xml.Name `xml:"urn:example:big note"`
	Owner   string   `xml:"owner,attr"`
	Items   []string `xml:"item"`
}

type bigIQ struct {
	stanza.IQ
	Note bigNote
}

// bigValue builds the value a descriptor "big:<kind>:<prefix>:<n>" names.
func bigValue(desc string) interface{} {
	f := strings.Split(desc, ":")
	if len(f) != 4 {
		return bigNote{}
	}
	n, _ := strconv.Atoi(f[3])
	note := bigNote{Owner: f[2]}
	for i := 0; i < n; i++ {
		note.Items = append(note.Items, fmt.Sprintf("%s-%06d", f[2], i))
	}
	if f[1] == "iq" {
		return bigIQ{IQ: stanza.IQ{ID: "big-" + f[2], Type: stanza.ResultIQ}, Note: note}
	}
	return note
}

func bigCall(entry, kind, prefix string, n int) call {
	form := fmt.Sprintf("struct:big:%s:%s:%d", kind, prefix, n)
	toks, _ := structToks(bigValue(form[7:]))
	return call{entry: entry, form: form, toks: toks}
}

// cross runs Encode / EncodeIQ of large values on several sessions such that the
// second call happens in the middle of the first one's element (from inside the
// first session's connection Write) and the third inside the second's.  Every
// session must carry exactly its own call's element.
func (c *ctxT) cross(n int, entries []string) {
	r := c.r
	prev := runtime.GOMAXPROCS(1)
	defer runtime.GOMAXPROCS(prev)
	cfg := cfgs[0]
	type part struct {
		rs     *common.RawSession
		cl     call
		status string
	}
	parts := make([]*part, len(entries))
	for i, e := range entries {
		rs, err := newSess(cfg)
		if err != nil {
			return
		}
		kind := "note"
		if e == "iq" {
			kind = "iq"
		}
		parts[i] = &part{rs: rs, cl: bigCall(e, kind, strings.Repeat(string(rune('a'+i)), 4), n)}
	}
	for i := 0; i+1 < len(parts); i++ {
		next := parts[i+1]
		var once sync.Once
		parts[i].rs.Out.OnWrite = func([]byte) {
			once.Do(func() { next.status = exec(next.rs.S, next.cl) })
		}
	}
	parts[0].status = exec(parts[0].rs.S, parts[0].cl)
	r.Mark("case cross %d %s", n, strings.Join(entries, ","))
	for _, p := range parts {
		p.rs.Out.OnWrite = nil
		if p.status == "" {
			p.status = "notrun"
		}
		line := p.cl.line(cfg)
		wire := p.rs.Out.Bytes()
		c.failed = false
		obs := c.check(cfg, p.cl, p.status, wire, []string{r.Prop + " " + line, "#scenario=cross: the next session's call runs from inside this session's connection Write"})
		r.Line(line, obs)
		r.Case(fmt.Sprintf("cross %d %s", n, p.cl.form), p.status == "ok", "cross/"+p.cl.entry)
	}
}

// ---- a call that fails half way, then another call ---------------------------------------

type failReader struct {
	t []xml.Token
	k int
	i int
}

var errInjected = errors.New("c05: injected reader failure")

func (f *failReader) Token() (xml.Token, error) {
	if f.i >= len(f.t) {
		return nil, errEOF
	}
	if f.i == f.k {
		return nil, errInjected
	}
	t := f.t[f.i]
	f.i++
	return xml.CopyToken(t), nil
}

// fault: the first call stops after k tokens of its element; then Send(next).
func (c *ctxT) fault(cfg cfgT, mode string, toks []xml.Token, k int, next []xml.Token) {
	r := c.r
	if c.stalls >= 3 {
		return // the finding is recorded; every further case would wait for its watchdogs
	}
	if mode == "badtok" {
		// an unmatched end tag directly inside the outermost element is taken for its end by
		// xmlstream.Inner (no failure): only positions inside a child make the encoder refuse it
		d := 0
		for _, t := range toks[:k] {
			switch t.(type) {
			case xml.StartElement:
				d++
			case xml.EndElement:
				d--
			}
		}
		if d < 2 {
			mode = "reader"
		}
	}
	if mode == "badend" {
		d := 0
		for _, t := range toks[:k] {
			switch t.(type) {
			case xml.StartElement:
				d++
			case xml.EndElement:
				d--
			}
		}
		if d != 1 {
			mode = "reader"
		}
	}
	line := fmt.Sprintf("fault %s %s %s %d %s %s", mode, cfg.ns, cfg.fromField(), k, common.EncToks(toks), common.EncToks(next))
	lines := []string{r.Prop + " " + line}
	rs, err := newSess(cfg)
	if err != nil {
		return
	}
	ctx := context.Background()
	var err1 error
	var p, p2 string
	stalled := !common.WithTimeout(10*time.Second, func() {
		p = common.Recover(func() {
			switch mode {
			case "reader":
				err1 = rs.S.Send(ctx, &failReader{t: toks, k: k})
			case "tw":
				w := rs.S.TokenWriter()
				for i := 0; i < k && i < len(toks); i++ {
					if err1 = w.EncodeToken(xml.CopyToken(toks[i])); err1 != nil {
						break
					}
				}
				if e := w.Close(); err1 == nil {
					err1 = e
				}
			case "badtok":
				bad := append(append(append([]xml.Token(nil), toks[:k]...), xml.EndElement{Name: xml.Name{Local: "zzz"}}), toks[k:]...)
				err1 = rs.S.Send(ctx, reader(bad))
			case "badend":
				// SendElement copies its whole payload: an unmatched end tag directly inside the
				// element brings the stanza encoder's depth back to 0 although the XML encoder refused it
				st := toks[0].(xml.StartElement)
				payload := append(append([]xml.Token(nil), toks[1:k]...), xml.EndElement{Name: xml.Name{Local: "zzz"}})
				err1 = rs.S.SendElement(ctx, reader(payload), st)
			}
		})
	})
	s1 := "ok"
	if err1 != nil {
		s1 = "fail"
	}
	before := rs.Out.Len()
	var err2 error
	stalled = stalled || !common.WithTimeout(10*time.Second, func() {
		p2 = common.Recover(func() { err2 = rs.S.Send(ctx, reader(next)) })
	})
	s2 := "ok"
	if err2 != nil {
		s2 = "broken"
	}
	wroteNext := rs.Out.Len() - before
	// bring out whatever is still buffered (a refused writer does not write, it only flushes)
	stalled = stalled || !common.WithTimeout(2*time.Second, func() { common.Recover(func() { rs.S.TokenWriter().Close() }) })
	wire := rs.Out.Bytes()
	// a token writer after the two calls: whatever it is told, it must give the lock back
	var err3 error
	stalled = stalled || !common.WithTimeout(2*time.Second, func() {
		common.Recover(func() {
			w := rs.S.TokenWriter()
			st := next[0].(xml.StartElement)
			err3 = w.EncodeToken(xml.CopyToken(st))
			if err3 == nil {
				err3 = w.EncodeToken(st.End())
			}
			w.Close()
		})
	})
	if (err3 == nil) != (s2 == "ok") && !stalled {
		r.Fail("next-after-failure", "fault/"+mode+"/tokenwriter", lines, fmt.Sprintf("Send after the failed call returned %v but a token writer's first EncodeToken returned %v", err2, err3))
	}
	stalled = stalled || !common.WithTimeout(2*time.Second, func() { common.Recover(func() { rs.S.TokenWriter().Close() }) })
	if stalled {
		c.stalls++
		r.Line(line, "STALL")
		r.Fail("lock-released", "fault/"+mode, lines, "a call after the failed one blocks: the output lock was not released")
		return
	}
	toksOnWire, perr := parseInStream(cfg.ns, wire)
	if perr != nil {
		// an unfinished element: keep what the decoder delivered before it hit the end
		toksOnWire = partialTokens(cfg.ns, wire)
	}
	masked, _ := maskIDs(toksOnWire)
	obs := fmt.Sprintf("%s %s %s", s1, s2, common.EncToks(common.SortedAttrs(masked)))
	if p != "" || p2 != "" {
		obs = "PANIC"
		r.Fail("total", "fault/"+mode, lines, p+p2)
	}
	r.Line(line, obs)
	r.Case(line, true, "fault/"+mode+"/"+s1+"/"+s2)
	// the property: a successful call puts one complete top-level element on the wire
	if s2 == "ok" {
		exp, eerr := expected(cfg.ns, cfg.from, firstElement(next))
		els, stray := splitTop(masked)
		okEl := perr == nil && !stray && len(els) > 0 && eerr == nil
		if okEl {
			same, _ := sameElement(els[len(els)-1], exp)
			okEl = same
		}
		if !okEl {
			r.Fail("next-after-failure", "fault/"+mode, lines, fmt.Sprintf("the call before stopped after %d tokens of its element (%s); the next Send returned nil but its element is not a complete top-level element on the wire: %q", k, s1, clip(wire)))
		}
	} else if wroteNext != 0 {
		r.Fail("failed-call-writes", "fault/"+mode, lines, fmt.Sprintf("the refused call wrote %d bytes", wroteNext))
	}
}

// partialTokens tokenises a wire that ends inside an element.
func partialTokens(ns string, b []byte) []xml.Token {
	doc := "<stream:stream xmlns='" + ns + "' xmlns:stream='" + streamNS + "'>" + string(b)
	toks, _ := common.Tokenize([]byte(doc))
	if len(toks) == 0 {
		return nil
	}
	var out []xml.Token
	for _, t := range toks[1:] {
		if s, ok := t.(xml.StartElement); ok {
			var as []xml.Attr
			for _, a := range s.Attr {
				if !isNsDecl(a) {
					as = append(as, a)
				}
			}
			s.Attr = as
			t = s
		}
		out = append(out, t)
	}
	return out
}

func (c *ctxT) faultCorpus(cfg cfgT) {
	msg := el("", "message", at("type", "chat"), el("", "body", nil, xml.CharData("hi"))...)
	next := el("", "presence", nil)
	for k := 0; k <= len(msg); k++ {
		c.fault(cfg, "reader", msg, k, next)
		c.fault(cfg, "tw", msg, k, next)
		if k == 2 || k == 3 {
			c.fault(cfg, "badtok", msg, k, next)
		}
		if k == 1 || k == 4 {
			c.fault(cfg, "badend", msg, k, next)
		}
	}
}

// ---- several sessions at once --------------------------------------------------------------

// multiSession: goroutines on several sessions transmit large struct values (and
// other forms) at the same time; every session's wire is checked against its own
// calls.
func (c *ctxT) multiSession(rnd *common.Rand, caseNo int) {
	r := c.r
	cfg := cfgs[caseNo%len(cfgs)]
	nS := 2 + rnd.Intn(3)
	type job struct {
		cl     call
		mk     string
		status string
	}
	sess := make([]*common.RawSession, nS)
	jobs := make([][]*job, nS)
	for i := range sess {
		rs, err := newSess(cfg)
		if err != nil {
			return
		}
		sess[i] = rs
		defer rs.In.Close()
		nK := 2 + rnd.Intn(4)
		for k := 0; k < nK; k++ {
			mk := fmt.Sprintf("s%d-%d", i, k)
			var cl call
			if rnd.Chance(2, 3) {
				entry := pickS(rnd, []string{"enc", "iq"})
				kind := map[string]string{"enc": "note", "iq": "iq"}[entry]
				cl = bigCall(entry, kind, mk, 150+rnd.Intn(700))
			} else {
				cl = withMarker(noForeign(cfg, call{entry: "send", form: "reader", toks: genElement(rnd, 0, true, 2000+rnd.Intn(8000))}), mk)
			}
			jobs[i] = append(jobs[i], &job{cl: cl, mk: mk})
		}
	}
	xmpp.VerifSetYield(func(string) { runtime.Gosched() })
	defer xmpp.VerifSetYield(nil)
	var wg sync.WaitGroup
	for i := range sess {
		for _, j := range jobs[i] {
			wg.Add(1)
			go func(i int, j *job) { defer wg.Done(); j.status = exec(sess[i].S, j.cl.copyArgs()) }(i, j)
		}
	}
	finished := common.WithTimeout(60*time.Second, wg.Wait)
	r.Mark("case multi %d", caseNo)
	r.Case(fmt.Sprintf("multi %d", caseNo), true, "multi-session")
	var lines []string
	for i := range jobs {
		for _, j := range jobs[i] {
			l := j.cl.line(cfg)
			if len(l) > 400 {
				l = l[:400] + "…"
			}
			lines = append(lines, r.Prop+" "+l)
		}
	}
	if len(lines) > 20 {
		lines = lines[:20]
	}
	fail := func(detail string) { r.Fail("atomic", "multi-session", lines, detail) }
	if !finished {
		fail("calls did not return")
		return
	}
	for i := range sess {
		toks, err := parseInStream(cfg.ns, sess[i].Out.Bytes())
		if err != nil {
			fail(fmt.Sprintf("session %d: wire not well-formed: %v", i, err))
			return
		}
		masked, _ := maskIDs(toks)
		els, stray := splitTop(masked)
		if stray || len(els) != len(jobs[i]) {
			fail(fmt.Sprintf("session %d: %d top-level elements for %d calls", i, len(els), len(jobs[i])))
			return
		}
		// match every element with one call of this session: by id marker or by big value owner
		used := map[int]bool{}
		for _, e := range els {
			found := false
			for k, j := range jobs[i] {
				if used[k] || j.status != "ok" {
					continue
				}
				exp, err := expected(cfg.ns, cfg.from, j.cl.denoted())
				if err != nil {
					continue
				}
				if same, _ := sameElement(e, exp); same {
					used[k], found = true, true
					break
				}
			}
			if !found {
				s0, _ := e[0].(xml.StartElement)
				fail(fmt.Sprintf("session %d: an element on the wire (<%s>, %d tokens) is not the element of any call made on that session", i, s0.Name.Local, len(e)))
				return
			}
		}
	}
}

// ---- round 4: both spellings of namespaces below a replaced start element ---------------------

// spellingCorpus: EncodeElement (on the session and from a handler) with values that produce
// their own tokens, whose children are in namespaces of their own written either in the name
// (resolved) or as an xmlns attribute on a name without namespace (raw); the wire is judged by
// the resolved (space, local) of every element.
func (c *ctxT) spellingCorpus(cfg cfgT) {
	raw := func(ns, local string, attrs []xml.Attr, children ...xml.Token) []xml.Token {
		return el("", local, append([]xml.Attr{{Name: xml.Name{Local: "xmlns"}, Value: ns}}, attrs...), children...)
	}
	item := el("", "item", at("jid", "a@example.net"), el("", "group", nil, xml.CharData("friends"))...)
	values := [][]xml.Token{
		// <x><query xmlns=roster><item><group/></item></query></x>, query resolved / raw
		el("", "x", nil, el("jabber:iq:roster", "query", at("ver", "1"), item...)...),
		el("", "x", nil, raw("jabber:iq:roster", "query", at("ver", "1"), item...)...),
		// raw root, raw grandchild in yet another namespace
		raw("urn:a", "outer", nil, append(raw("urn:b", "inner", nil, el("", "leaf", nil)...), el("urn:c", "other", nil, raw("urn:d", "deep", nil)...)...)...),
		// a forwarded stanza spelled raw inside a resolved wrapper
		el("urn:xmpp:forward:0", "forwarded", nil, raw(nsClient, "message", at("type", "chat"), el("", "body", nil, xml.CharData("hi"))...)...),
	}
	starts := []xml.StartElement{
		{Name: xml.Name{Local: "iq"}, Attr: at("type", "result", "id", "sp1")},
		{Name: xml.Name{Space: nsClient, Local: "message"}, Attr: at("to", "b@example.com")},
		{Name: xml.Name{Space: "urn:wrap", Local: "w"}},
	}
	for _, v := range values {
		for i := range starts {
			st := starts[i]
			for _, f := range forms {
				c.one(cfg, call{entry: "encel", form: f, toks: v, start: &st}, "spelling")
				c.one(cfg, call{entry: "replyel", form: f, toks: v, start: &st}, "spelling")
			}
			c.one(cfg, call{entry: "sendel", form: "reader", toks: v, start: &st}, "spelling")
		}
		c.one(cfg, call{entry: "enc", form: "marshaler", toks: v}, "spelling")
		c.one(cfg, call{entry: "reply", form: "reader", toks: v}, "spelling")
	}
}

// ---- round 4: the session's own default reply against a sender parked inside its element ------

type gatedReader struct {
	t       []xml.Token
	i, k    int
	reached chan struct{}
	gate    chan struct{}
}

func (g *gatedReader) Token() (xml.Token, error) {
	if g.i >= len(g.t) {
		return nil, errEOF
	}
	if g.i == g.k {
		select {
		case g.reached <- struct{}{}:
		default:
		}
		<-g.gate
	}
	t := g.t[g.i]
	g.i++
	return xml.CopyToken(t), nil
}

// autoReply: a Send is parked in the middle of its element (its token reader waits); a get IQ
// that no handler answers arrives, so Serve writes the default service-unavailable reply.  The
// reply has to wait for the sender: the wire must be the sender's whole element, then the reply.
func (c *ctxT) autoReply(cfg cfgT) {
	r := c.r
	r.Mark("case auto-reply")
	lines := []string{"#scenario=auto-reply"}
	rs, err := newSess(cfg)
	if err != nil {
		return
	}
	defer rs.In.Close()
	handled := make(chan struct{}, 4)
	go rs.S.Serve(xmpp.HandlerFunc(func(t xmlstream.TokenReadEncoder, start *xml.StartElement) error {
		handled <- struct{}{}
		return nil
	}))
	msg := el("", "message", at("id", "parked", "type", "chat"), el("", "body", nil, xml.CharData("first half"), xml.CharData(" second half"))...)
	gr := &gatedReader{t: msg, k: 3, reached: make(chan struct{}, 1), gate: make(chan struct{})}
	var sendErr error
	done := make(chan struct{})
	go func() { defer close(done); sendErr = rs.S.Send(context.Background(), gr) }()
	fail := func(detail string) {
		r.Fail("atomic", "auto-reply", lines, detail)
		r.Line("conc 2 -", "bad")
	}
	select {
	case <-gr.reached:
	case <-time.After(3 * time.Second):
		close(gr.gate)
		fail("the sender did not reach the middle of its element")
		return
	}
	go rs.Feed([]byte(`<iq xmlns="` + cfg.ns + `" type="get" id="auto1"><ping xmlns="urn:xmpp:ping"/></iq>`))
	select {
	case <-handled:
	case <-time.After(3 * time.Second):
	}
	time.Sleep(60 * time.Millisecond) // the default reply is due now; it must wait for the sender
	early := rs.Out.Bytes()
	close(gr.gate)
	<-done
	go rs.Feed([]byte(`<message xmlns="` + cfg.ns + `" id="sync"/>`))
	select {
	case <-handled:
	case <-time.After(3 * time.Second):
	}
	r.Case("auto-reply "+cfg.ns, true, "auto-reply")
	if sendErr != nil {
		fail("the parked Send returned " + sendErr.Error())
		return
	}
	wire := rs.Out.Bytes()
	toks, perr := parseInStream(cfg.ns, wire)
	if perr != nil {
		fail(fmt.Sprintf("wire not well-formed (%v): %q (while the sender was parked: %q)", perr, clip(wire), clip(early)))
		return
	}
	masked, _ := maskIDs(toks)
	els, stray := splitTop(masked)
	if stray || len(els) != 2 {
		fail(fmt.Sprintf("%d top-level elements, expected the sender's element and the reply: %q", len(els), clip(wire)))
		return
	}
	exp, _ := expected(cfg.ns, cfg.from, msg)
	if same, why := sameElement(els[0], exp); !same {
		fail(fmt.Sprintf("the first element is not the sender's element (%s): %q; on the wire while the sender was parked: %q", why, clip(wire), clip(early)))
		return
	}
	if s0, ok := els[1][0].(xml.StartElement); !ok || s0.Name.Local != "iq" {
		fail(fmt.Sprintf("the second element is not the reply: %q", clip(wire)))
		return
	}
	r.Line("conc 2 0,1", "ok")
}
