package c05

// Round D.
//
// (1) value forms: a value may offer any of WriteXML (xmlstream.WriterTo), TokenReader()
// (xmlstream.Marshaler), Token() (xml.TokenReader), MarshalXML (xml.Marshaler), or nothing
// (reflection); until round D only the first three and a pool of plain structs were run.
// New forms `xmlm` / `xmlmp` (MarshalXML only, value and pointer receiver, writing the case's
// own token list through the *xml.Encoder it is given) and `wrapm` (a plain struct with such a
// value as a field) put every generated element - namespaced attributes, xml:lang, raw
// spelling, stanza names - through the print-and-read-back path of internal/marshal.
//
// (2) the transport below the encoder: see transport.go.

import (
	"encoding/xml"
)

type tokXMLMarshaler struct{ t []xml.Token }

func (m tokXMLMarshaler) MarshalXML(e *xml.Encoder, _ xml.StartElement) error {
	for _, t := range m.t {
		if err := e.EncodeToken(xml.CopyToken(t)); err != nil {
			return err
		}
	}
	return nil
}

type tokXMLMarshalerP struct{ t []xml.Token }

func (m *tokXMLMarshalerP) MarshalXML(e *xml.Encoder, _ xml.StartElement) error {
	return tokXMLMarshaler{m.t}.MarshalXML(e, xml.StartElement{})
}

// wrapM is a plain struct (reflection path) one of whose fields has a MarshalXML method.
type wrapM struct {
	XMLName xml.Name `xml:"urn:wrap w"`
	N       string   `xml:"n,attr"`
	V       tokXMLMarshaler
}

// wrapToks / wrapOf: the token list of a wrapM around an element and back.
func wrapToks(inner []xml.Token) []xml.Token {
	return el("urn:wrap", "w", at("n", "1"), inner...)
}

func wrapOf(toks []xml.Token) interface{} {
	if len(toks) < 2 {
		return wrapM{N: "1"}
	}
	return wrapM{N: "1", V: tokXMLMarshaler{toks[1 : len(toks)-1]}}
}

func printsItself(form string) bool { return form == "xmlm" || form == "xmlmp" || form == "wrapm" }

// consistentNs drops the xmlns attribute of every start element whose name already carries a
// namespace.  A token list that says both (possibly two different namespaces) is given a meaning
// only by whoever prints it; a value with a MarshalXML method is DEFINED by the bytes
// encoding/xml prints for it, and those would carry the declaration twice - not an element.
func consistentNs(toks []xml.Token) []xml.Token {
	out := make([]xml.Token, len(toks))
	for i, t := range toks {
		if s, ok := t.(xml.StartElement); ok && s.Name.Space != "" {
			var as []xml.Attr
			for _, a := range s.Attr {
				if a.Name.Space == "" && a.Name.Local == "xmlns" {
					continue
				}
				as = append(as, a)
			}
			s.Attr = as
			t = s
		}
		out[i] = t
	}
	return out
}

// resolveInherit spells every name of a token list resolved: an element without a namespace in
// its name takes the one of its own xmlns attribute (raw spelling), else the one its parent
// has.  A value that prints itself denotes the element its bytes parse to, so a child written
// without namespace belongs to the namespace of the value's OWN outermost element, whatever
// name EncodeElement's start element gives that element afterwards (for a token reader the
// tokens themselves are the value and such a child follows the new name; both are what
// encoding/xml's EncodeElement does with the respective kind of value).
func resolveInherit(toks []xml.Token) []xml.Token {
	out := make([]xml.Token, len(toks))
	stack := []string{""}
	for i, t := range toks {
		switch s := t.(type) {
		case xml.StartElement:
			ns := s.Name.Space
			if ns == "" {
				ns = stack[len(stack)-1]
				var as []xml.Attr
				for _, a := range s.Attr {
					if a.Name.Space == "" && a.Name.Local == "xmlns" {
						ns = a.Value
						continue
					}
					as = append(as, a)
				}
				s.Attr = as
			}
			s.Name.Space = ns
			stack = append(stack, ns)
			t = s
		case xml.EndElement:
			if len(stack) > 1 {
				s.Name.Space = stack[len(stack)-1]
				stack = stack[:len(stack)-1]
			}
			t = s
		}
		out[i] = t
	}
	return out
}
