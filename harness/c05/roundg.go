package c05

// Round G: one iteration of the serve loop as a transmit call of its own kind.
//
//	serveiter <ns> <from> <typ> <reply toks>   ->   alive <canonical wire> | ended -
//
// The peer sends <iq type=typ id="q1" from="peer@example.net/r">; the handler writes `reply`
// (a complete element, several, none, or only the first k tokens of one: it returns nil with an
// element open) and returns nil.  Model: SendKinds.serveIter - the handler's tokens, then the
// automatic service-unavailable reply iff the IQ is a get/set the handler did not answer, all
// through one writer; a handler that leaves an element open ends the session and NOTHING is
// written after its tokens (theorem C05_serve_iteration_whole_or_ends).

import (
	"bytes"
	"encoding/xml"
	"fmt"
	"time"

	"mellium.im/xmlstream"
	"mellium.im/xmpp"

	"verifharness/common"
)

func (c *ctxT) serveIter(cfg cfgT, typ string, reply []xml.Token) {
	r := c.r
	if c.stalls >= 3 {
		return
	}
	rs, err := newSess(cfg)
	if err != nil {
		return
	}
	defer rs.In.Close()
	line := fmt.Sprintf("serveiter %s %s %s %s", cfg.ns, cfg.fromField(), typ, common.EncToks(reply))
	lines := []string{r.Prop + " " + line}
	second := make(chan struct{}, 2)
	n := 0
	refused := false
	ended := make(chan struct{})
	go func() {
		defer close(ended)
		common.Recover(func() {
			rs.S.Serve(xmpp.HandlerFunc(func(t xmlstream.TokenReadEncoder, start *xml.StartElement) error {
				n++
				if n > 1 {
					second <- struct{}{}
					return nil
				}
				for _, tok := range reply {
					if err := t.EncodeToken(xml.CopyToken(tok)); err != nil {
						refused = true
						break
					}
				}
				return nil
			}))
		})
	}()
	go rs.Feed([]byte(`<iq xmlns="` + cfg.ns + `" type="` + typ + `" id="q1" from="peer@example.net/r"><q xmlns="urn:a"/></iq><message xmlns="` + cfg.ns + `" id="sync"/>`))
	alive := false
	select {
	case <-second:
		alive = true
	case <-ended:
	case <-time.After(5 * time.Second):
		c.stalls++
		r.Line(line, "STALL")
		r.Fail("lock-released", "serveiter", lines, "the serve loop neither handled the next stanza nor ended")
		return
	}
	wire := rs.Out.Bytes()
	obs := "ended -"
	if alive {
		toks, perr := parseInStream(cfg.ns, wire)
		if perr != nil {
			obs = "alive MALFORMED"
			r.Fail("wellformed", "serveiter", lines, fmt.Sprintf("the serve loop goes on after a handler's reply but the wire is not well formed: %q", clip(wire)))
		} else {
			masked, _ := maskIDs(toks)
			obs = "alive " + common.EncToks(common.SortedAttrs(masked))
		}
	} else if bytes.Contains(wire, []byte("service-unavailable")) {
		r.Fail("wellformed", "serveiter/auto-reply-after-open-element", lines, fmt.Sprintf("the automatic reply was written after a handler that left an element open: %q", clip(wire)))
	}
	if refused {
		obs += " refused"
	}
	r.Line(line, obs)
	r.Case(line, true, "serveiter/"+typ+"/"+obs[:5])
}

func (c *ctxT) serveIterCorpus(cfg cfgT) {
	q := el("urn:a", "query", at("a", "1"))
	msg := el("", "message", at("to", "b@example.com", "id", "m1"), el("", "body", nil, xml.CharData("hi"))...)
	answer := el("", "iq", at("type", "result", "id", "q1", "to", "peer@example.net/r"), q...)
	wrongID := el("", "iq", at("type", "result", "id", "other"), q...)
	nested := el("urn:a", "wrap", nil, el("", "iq", at("type", "result", "id", "q1"))...)
	replies := [][]xml.Token{nil, msg, answer, wrongID, nested, append(append([]xml.Token(nil), msg...), answer...), append(append([]xml.Token(nil), msg...), msg...)}
	for k := 1; k < len(msg); k++ {
		replies = append(replies, msg[:k])
	}
	replies = append(replies, answer[:1], append(append([]xml.Token(nil), msg...), q[:1]...))
	for _, typ := range []string{"get", "set", "result", "error"} {
		for _, rp := range replies {
			c.serveIter(cfg, typ, rp)
		}
	}
}

func (c *ctxT) serveIterRandom(rnd *common.Rand, n int) {
	for i := 0; i < n; i++ {
		cfg := cfgs[rnd.Intn(len(cfgs))]
		var rp []xml.Token
		for j := rnd.Intn(3); j > 0; j-- {
			rp = append(rp, noForeign(cfg, call{entry: "send", toks: genElement(rnd, 0, true, 0)}).toks...)
		}
		if len(rp) > 1 && rnd.Chance(1, 3) {
			rp = rp[:1+rnd.Intn(len(rp)-1)]
		}
		c.serveIter(cfg, pickS(rnd, []string{"get", "set", "result"}), rp)
	}
}
