package c05

import (
	"context"
	"encoding/xml"
	"errors"
	"fmt"
	"io"
	"strings"
	"time"

	"mellium.im/xmlstream"
	"mellium.im/xmpp"

	"verifharness/common"
)

// ---- round 6: a token writer handle used again after Close -----------------------------------
//
// Handle A writes <a/> and is closed.  Then, depending on the variant, nobody holds the output
// (none), a second handle B holds it and has written nothing yet (idle), or B is in the middle
// of its element <b> (mid).  A is used again: E (two EncodeToken calls: <x> and </x>), F (Flush),
// C (Close again: the explicit Close + deferred Close idiom).  Every operation on the closed
// handle must be inert: EncodeToken refuses (io.EOF), nothing is written or flushed, and who
// holds the output lock does not change.  Finally B completes <b/> (none: a fresh Send does)
// and the wire must be <a/><b/>.

var reuseHolders = []string{"none", "idle", "mid"}

func reusePrograms() [][]string {
	var out [][]string
	var rec func(cur []string)
	rec = func(cur []string) {
		if len(cur) > 0 {
			out = append(out, append([]string(nil), cur...))
		}
		if len(cur) == 3 {
			return
		}
		for _, o := range []string{"E", "F", "C"} {
			rec(append(cur, o))
		}
	}
	rec(nil)
	return out
}

func wireNames(ns string, wire []byte) string {
	toks, err := parseInStream(ns, wire)
	if err != nil {
		return "MALFORMED"
	}
	var l []string
	for _, t := range toks {
		switch x := t.(type) {
		case xml.StartElement:
			l = append(l, "+"+x.Name.Local)
		case xml.EndElement:
			l = append(l, "-"+x.Name.Local)
		}
	}
	return common.Join(l, ",")
}

func (c *ctxT) reuse(cfg cfgT, holder string, ops []string) {
	r := c.r
	line := fmt.Sprintf("reuse %s %s %s %s", cfg.ns, cfg.fromField(), holder, strings.Join(ops, ","))
	lines := []string{r.Prop + " " + line}
	key := holder
	if holder == "none" {
		// without a holder a second unlock is a fatal runtime error (not a panic): Close again is
		// exercised with a holder present only
		for _, o := range ops {
			if o == "C" {
				return
			}
		}
	}
	rs, err := newSess(cfg)
	if err != nil {
		r.Line(line, "ERR "+err.Error())
		return
	}
	defer rs.In.Close()
	el := func(n string) xml.StartElement { return xml.StartElement{Name: xml.Name{Space: "urn:reuse", Local: n}} }
	var a, b xmlstream.TokenWriteFlushCloser
	stalled := !common.WithTimeout(5*time.Second, func() {
		a = rs.S.TokenWriter()
		a.EncodeToken(el("a"))
		a.EncodeToken(el("a").End())
		err = a.Close()
		if err != nil {
			return
		}
		if holder != "none" {
			b = rs.S.TokenWriter()
			if holder == "mid" {
				err = b.EncodeToken(el("b"))
			}
		}
	})
	if stalled || err != nil {
		r.Line(line, fmt.Sprintf("ERR setup stalled=%v err=%v", stalled, err))
		return
	}
	want := holder != "none"
	var res, locks []string
	broken := false
	for _, o := range ops {
		var e error
		before := rs.Out.Len()
		switch o {
		case "E":
			e = a.EncodeToken(el("x"))
			if e2 := a.EncodeToken(el("x").End()); e == nil || e2 == nil {
				e = nil
			}
		case "F":
			e = a.Flush()
		case "C":
			e = a.Close()
		}
		cls := "err"
		switch {
		case e == nil:
			cls = "nil"
		case errors.Is(e, io.EOF):
			cls = "eof"
		}
		res = append(res, cls)
		if o == "E" && e == nil {
			c.fail("closed-handle-refuses", key, lines, "EncodeToken on a token writer that was closed returned nil (documented: io.EOF)")
			broken = true
		}
		if rs.Out.Len() != before {
			c.fail("closed-handle-writes", key, lines, fmt.Sprintf("operation %s on the closed handle put %d bytes on the connection", o, rs.Out.Len()-before))
			broken = true
		}
		locked := xmpp.VerifOutputLocked(rs.S)
		locks = append(locks, common.B(locked))
		if locked != want {
			c.fail("closed-handle-keeps-lock", key, lines, fmt.Sprintf("after %s on the closed handle the output lock is held=%v, before it was held=%v (holder variant %s): a stale handle changed who owns the output", o, locked, want, holder))
			broken = true
			break
		}
	}
	wire := "ABANDONED"
	if !broken || xmpp.VerifOutputLocked(rs.S) == want {
		ok := common.WithTimeout(5*time.Second, func() {
			switch holder {
			case "none":
				err = rs.S.Send(context.Background(), reader([]xml.Token{el("b"), el("b").End()}))
			case "idle":
				b.EncodeToken(el("b"))
				b.EncodeToken(el("b").End())
				err = b.Close()
			default:
				b.EncodeToken(el("b").End())
				err = b.Close()
			}
		})
		if ok {
			wire = wireNames(cfg.ns, rs.Out.Bytes())
			if wire != "+a,-a,+b,-b" {
				c.fail("closed-handle-writes", key, lines, fmt.Sprintf("wire %q: expected the two elements <a/> and <b/> only", clip(rs.Out.Bytes())))
			}
		} else {
			wire = "STALL"
			c.fail("lock-released", "reuse", lines, "the second element could not be completed")
		}
	}
	r.Line(line, fmt.Sprintf("%s %s %s", common.Join(res, ","), common.Join(locks, ","), wire))
	r.Case(line, true, "reuse/"+holder)
}

func (c *ctxT) reuseAll() {
	for _, cfg := range cfgs {
		for _, h := range reuseHolders {
			for _, p := range reusePrograms() {
				c.reuse(cfg, h, p)
			}
		}
	}
}
