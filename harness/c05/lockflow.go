package c05

// Lock-flow analysis of the root package (round C).
//
// The facts about the output lock cannot be probed at run time (which goroutine holds a mutex
// at a given statement is not observable), so they stay syntactic - but they are computed
// from the *flow* of each function, following calls into unexported helpers of the package,
// and do not depend on the names of helpers, locals or unexported fields:
//
//   - the output side of a Session and its encoder are found by their TYPES (the field of
//     struct Session that is an anonymous struct embedding sync.Locker and holding a token
//     writer), not by the names `out` / `e`;
//   - the lock holder type is whatever (*Session).TokenWriter returns;
//   - a "probe" is a type assertion on the encoder (reads its state), every other mention is
//     a "write";
//   - a function is `locked` when every one of its own mentions of the encoder comes after a
//     top-level `X.out.Lock()` of its body and before any non-deferred unlock;
//   - an unexported function that does not lock itself is `held` (`probe` if it only probes)
//     when EVERY place in the package that calls it, or takes it as a method value / function
//     value, holds the lock at that point - decided recursively through unexported callers;
//   - an entry point is `guarded` when the function that takes the lock on its behalf
//     evaluates a probe (through helpers, in an `if`, a `switch` or an assignment followed by
//     one) AFTER `Lock` / `defer Unlock` and returns early BEFORE its first write.
//
// Moving the probe in front of the Lock, narrowing the lock, unlocking before the flush, a
// new writer without the lock or a helper that is also called without the lock all change
// the emitted classes; extracting the prelude into a helper, switch instead of if, renaming
// helpers / fields / locals do not.

import (
	"go/ast"
	"go/parser"
	"go/token"
	"os"
	"path/filepath"
	"sort"
	"strings"
)

const followDepth = 3

type lockPkg struct {
	files []*ast.File
	fds   []*ast.FuncDecl
	out   string // name of the output field of Session
	enc   string // name of the encoder field inside it
	unexp map[string][]*ast.FuncDecl
	// holder type (returned by TokenWriter) and the field of it that carries the Locker
	holder, holderLock string
	setup              map[string]bool
	flows              map[*ast.FuncDecl][]flowEv
}

func loadLockPkg(repo string) (*lockPkg, error) {
	ents, err := os.ReadDir(repo)
	if err != nil {
		return nil, err
	}
	fset := token.NewFileSet()
	p := &lockPkg{unexp: map[string][]*ast.FuncDecl{}, flows: map[*ast.FuncDecl][]flowEv{},
		setup: map[string]bool{}}
	for _, e := range ents {
		n := e.Name()
		if e.IsDir() || !strings.HasSuffix(n, ".go") || strings.HasSuffix(n, "_test.go") {
			continue
		}
		f, err := parser.ParseFile(fset, filepath.Join(repo, n), nil, 0)
		if err != nil {
			return nil, err
		}
		if f.Name.Name != "xmpp" {
			continue
		}
		p.files = append(p.files, f)
		for _, d := range f.Decls {
			if fd, ok := d.(*ast.FuncDecl); ok && fd.Body != nil {
				p.fds = append(p.fds, fd)
				if !fd.Name.IsExported() {
					p.unexp[fd.Name.Name] = append(p.unexp[fd.Name.Name], fd)
				}
			}
		}
	}
	p.findOutput()
	if p.out != "" {
		p.findHolder()
	}
	return p, nil
}

func isTokenWriterType(t ast.Expr) bool {
	switch x := t.(type) {
	case *ast.InterfaceType:
		for _, m := range x.Methods.List {
			if len(m.Names) == 0 && isTokenWriterType(m.Type) {
				return true
			}
		}
	case *ast.SelectorExpr, *ast.Ident:
		s := selString(x)
		return strings.Contains(s, "TokenWrite") || strings.HasSuffix(s, "Encoder")
	case *ast.StarExpr:
		return isTokenWriterType(x.X)
	}
	return false
}

// findOutput: the field of struct Session whose type is an anonymous struct that embeds a
// sync locker and has a field holding a token writer.
func (p *lockPkg) findOutput() {
	for _, f := range p.files {
		for _, d := range f.Decls {
			gd, ok := d.(*ast.GenDecl)
			if !ok || gd.Tok != token.TYPE {
				continue
			}
			for _, sp := range gd.Specs {
				ts := sp.(*ast.TypeSpec)
				st, ok := ts.Type.(*ast.StructType)
				if !ok || ts.Name.Name != "Session" {
					continue
				}
				for _, fl := range st.Fields.List {
					inner, ok := fl.Type.(*ast.StructType)
					if !ok || len(fl.Names) != 1 {
						continue
					}
					locker, enc := false, ""
					for _, g := range inner.Fields.List {
						if len(g.Names) == 0 {
							if s := selString(g.Type); s == "sync.Locker" || s == "sync.Mutex" {
								locker = true
							}
							continue
						}
						if len(g.Names) == 1 && isTokenWriterType(g.Type) {
							enc = g.Names[0].Name
						}
					}
					if locker && enc != "" {
						p.out, p.enc = fl.Names[0].Name, enc
						return
					}
				}
			}
		}
	}
}

// isOut: X.<out>
func (p *lockPkg) isOut(e ast.Expr) bool {
	se, ok := e.(*ast.SelectorExpr)
	return ok && se.Sel.Name == p.out
}

// isEnc: X.<out>.<enc>
func (p *lockPkg) isEnc(e ast.Expr) bool {
	se, ok := e.(*ast.SelectorExpr)
	return ok && se.Sel.Name == p.enc && p.isOut(se.X)
}

// lockCall: X.<out>.Lock() / X.<out>.Locker.Lock(), or, inside methods of the holder type,
// R.<holderLock>.Lock(); which is "Lock" or "Unlock".
func (p *lockPkg) lockCall(fd *ast.FuncDecl, e ast.Expr, which string) bool {
	c, ok := e.(*ast.CallExpr)
	if !ok || len(c.Args) != 0 {
		return false
	}
	se, ok := c.Fun.(*ast.SelectorExpr)
	if !ok || se.Sel.Name != which {
		return false
	}
	x := se.X
	if in, ok := x.(*ast.SelectorExpr); ok && in.Sel.Name == "Locker" {
		x = in.X
	}
	if p.isOut(x) {
		return true
	}
	if in, ok := x.(*ast.SelectorExpr); ok && p.holderLock != "" && in.Sel.Name == p.holderLock &&
		fd != nil && recvName(fd) == p.holder {
		return true
	}
	return false
}

// findHolder: the type of the composite literal (*Session).TokenWriter returns, and the field
// of it initialised with X.<out>.Locker (or X.<out>).
func (p *lockPkg) findHolder() {
	for _, fd := range p.fds {
		if recvName(fd) != "Session" || fd.Name.Name != "TokenWriter" {
			continue
		}
		ast.Inspect(fd.Body, func(n ast.Node) bool {
			rs, ok := n.(*ast.ReturnStmt)
			if !ok || len(rs.Results) != 1 {
				return true
			}
			e := rs.Results[0]
			if u, ok := e.(*ast.UnaryExpr); ok {
				e = u.X
			}
			cl, ok := e.(*ast.CompositeLit)
			if !ok {
				return true
			}
			if id, ok := cl.Type.(*ast.Ident); ok {
				p.holder = id.Name
				for _, el := range cl.Elts {
					kv, ok := el.(*ast.KeyValueExpr)
					if !ok {
						continue
					}
					v := kv.Value
					if in, ok := v.(*ast.SelectorExpr); ok && in.Sel.Name == "Locker" {
						v = in.X
					}
					if p.isOut(v) {
						p.holderLock = selString(kv.Key)
					}
				}
			}
			return true
		})
	}
}

func (p *lockPkg) fname(fd *ast.FuncDecl) string {
	rn := recvName(fd)
	if rn != "" && rn != "Session" {
		return rn + "." + fd.Name.Name
	}
	return fd.Name.Name
}

// flowEv is one event of a function body in source order.
type flowEv struct {
	kind string // lock (top level), lock? (nested), defer-unlock, unlock, probe, write, ref
	name string // ref: name of the unexported function / method referred to
	top  int    // index of the top-level statement (yield points skipped)
	inGo bool   // inside a `go` statement: runs without whatever the function holds
	exit bool   // unlock inside a branch that ends with return / panic: does not reach the code after it
	pos  token.Pos
}

// terminates: a block or case clause whose last statement is a return or a call of panic.
func terminates(n ast.Node) bool {
	var l []ast.Stmt
	switch v := n.(type) {
	case *ast.BlockStmt:
		l = v.List
	case *ast.CaseClause:
		l = v.Body
	default:
		return false
	}
	if len(l) == 0 {
		return false
	}
	switch v := l[len(l)-1].(type) {
	case *ast.ReturnStmt:
		return true
	case *ast.ExprStmt:
		if c, ok := v.X.(*ast.CallExpr); ok {
			if id, ok := c.Fun.(*ast.Ident); ok && id.Name == "panic" {
				return true
			}
		}
	}
	return false
}

func isYield(st ast.Stmt) bool {
	if es, ok := st.(*ast.ExprStmt); ok {
		if c, ok := es.X.(*ast.CallExpr); ok && selString(c.Fun) == "verifhook.Yield" {
			return true
		}
	}
	return false
}

// flow lists the lock operations, the mentions of the encoder and the references to
// unexported functions of one function body, in source order.
func (p *lockPkg) flow(fd *ast.FuncDecl) []flowEv {
	if f, ok := p.flows[fd]; ok {
		return f
	}
	var evs []flowEv
	locals := map[string]bool{}
	if fd.Type.Params != nil {
		for _, f := range fd.Type.Params.List {
			for _, n := range f.Names {
				locals[n.Name] = true
			}
		}
	}
	if fd.Type.Results != nil {
		for _, f := range fd.Type.Results.List {
			for _, n := range f.Names {
				locals[n.Name] = true
			}
		}
	}
	top := -1
	for _, st := range fd.Body.List {
		if isYield(st) {
			continue
		}
		top++
		topLevelStmt := st
		var walk func(n ast.Node, inGo, deferred bool)
		exitDepth := 0
		walk = func(n ast.Node, inGo, deferred bool) {
			var stack []bool
			ast.Inspect(n, func(x ast.Node) (descend bool) {
				if x == nil {
					if stack[len(stack)-1] {
						exitDepth--
					}
					stack = stack[:len(stack)-1]
					return false
				}
				defer func() {
					if descend {
						t := terminates(x)
						if t {
							exitDepth++
						}
						stack = append(stack, t)
					}
				}()
				switch v := x.(type) {
				case *ast.GoStmt:
					walk(v.Call, true, false)
					return false
				case *ast.DeferStmt:
					if p.lockCall(fd, v.Call, "Unlock") {
						evs = append(evs, flowEv{kind: "defer-unlock", top: top, inGo: inGo, pos: v.Pos()})
						return false
					}
					walk(v.Call, inGo, true)
					return false
				case *ast.AssignStmt:
					if v.Tok == token.DEFINE {
						for _, l := range v.Lhs {
							if id, ok := l.(*ast.Ident); ok {
								locals[id.Name] = true
							}
						}
					}
				case *ast.RangeStmt:
					if v.Tok == token.DEFINE {
						for _, l := range []ast.Expr{v.Key, v.Value} {
							if id, ok := l.(*ast.Ident); ok {
								locals[id.Name] = true
							}
						}
					}
				case *ast.ValueSpec:
					for _, id := range v.Names {
						locals[id.Name] = true
					}
				case *ast.TypeAssertExpr:
					if p.isEnc(v.X) {
						evs = append(evs, flowEv{kind: "probe", top: top, inGo: inGo, pos: v.Pos()})
						return false
					}
				case *ast.CallExpr:
					if p.lockCall(fd, v, "Lock") {
						k := "lock?"
						if es, ok := topLevelStmt.(*ast.ExprStmt); ok && es.X == ast.Expr(v) && !inGo {
							k = "lock"
						}
						evs = append(evs, flowEv{kind: k, top: top, inGo: inGo, pos: v.Pos()})
						return false
					}
					if p.lockCall(fd, v, "Unlock") {
						k := "unlock"
						if deferred {
							// inside a deferred function literal: runs when the function returns
							k = "defer-unlock"
						}
						evs = append(evs, flowEv{kind: k, top: top, inGo: inGo, exit: exitDepth > 0, pos: v.Pos()})
						return false
					}
				case *ast.SelectorExpr:
					if p.isEnc(v) {
						evs = append(evs, flowEv{kind: "write", top: top, inGo: inGo, pos: v.Pos()})
						return false
					}
					if _, ok := p.unexp[v.Sel.Name]; ok && p.isMethod(v.Sel.Name) {
						evs = append(evs, flowEv{kind: "ref", name: v.Sel.Name, top: top, inGo: inGo, pos: v.Sel.Pos()})
					}
					walk(v.X, inGo, deferred)
					return false
				case *ast.Ident:
					if _, ok := p.unexp[v.Name]; ok && !locals[v.Name] && p.isFunc(v.Name) {
						evs = append(evs, flowEv{kind: "ref", name: v.Name, top: top, inGo: inGo, pos: v.Pos()})
					}
				case *ast.KeyValueExpr:
					// field keys of composite literals are not references
					walk(v.Value, inGo, deferred)
					return false
				}
				return true
			})
		}
		walk(st, false, false)
	}
	sort.SliceStable(evs, func(i, j int) bool { return evs[i].pos < evs[j].pos })
	p.flows[fd] = evs
	return evs
}

func (p *lockPkg) isMethod(name string) bool {
	for _, fd := range p.unexp[name] {
		if fd.Recv != nil {
			return true
		}
	}
	return false
}

func (p *lockPkg) isFunc(name string) bool {
	for _, fd := range p.unexp[name] {
		if fd.Recv == nil {
			return true
		}
	}
	return false
}

// heldAt replays the lock operations of a flow and reports for every event whether the
// output lock is held there by the function itself.
func heldAt(evs []flowEv) []bool {
	held := false
	out := make([]bool, len(evs))
	for i, e := range evs {
		switch e.kind {
		case "lock":
			held = true
		case "unlock":
			if !e.inGo && !e.exit {
				held = false
			}
		}
		out[i] = held && !e.inGo
	}
	return out
}

// ambient: the function runs with the lock held by construction (method of the holder type)
// or before the session is shared (stream negotiation).
func (p *lockPkg) ambient(fd *ast.FuncDecl) string {
	if p.holder != "" && recvName(fd) == p.holder {
		return "holder"
	}
	if fd.Recv == nil && !fd.Name.IsExported() && p.isSetup(fd.Name.Name, followDepth+1, map[string]bool{}) {
		return "setup"
	}
	return ""
}

// takesSession: the function has a parameter of type *Session (somebody who already HAS a
// session can call it).
func takesSession(fd *ast.FuncDecl) bool {
	if fd.Type.Params == nil {
		return false
	}
	for _, f := range fd.Type.Params.List {
		if st, ok := f.Type.(*ast.StarExpr); ok {
			if id, ok := st.X.(*ast.Ident); ok && id.Name == "Session" {
				return true
			}
		}
	}
	return false
}

// isSetup (round E, replaces a list of two function names): the unexported top-level function
// `name` can only run while a session is being MADE, before any other goroutine can have it.
// Structurally: every reference to it (call, function value, also inside a function literal)
// sits in a top-level function - never in a method (the methods of Session are what the owner of
// a finished session can call), never in a go statement - that is either exported and takes no
// *Session (a constructor: NewSession, ReceiveSession, NewNegotiator, ...) or unexported and
// itself setup by the same rule.  No function name is used.
func (p *lockPkg) isSetup(name string, depth int, seen map[string]bool) bool {
	if v, ok := p.setup[name]; ok {
		return v
	}
	if depth == 0 || seen[name] {
		return false
	}
	seen[name] = true
	defer delete(seen, name)
	sites := 0
	for _, g := range p.fds {
		for _, e := range p.flow(g) {
			if e.kind != "ref" || e.name != name || g.Name.Name == name {
				continue
			}
			sites++
			if e.inGo || g.Recv != nil {
				return false
			}
			if g.Name.IsExported() {
				if takesSession(g) {
					return false
				}
				continue
			}
			if !p.isSetup(g.Name.Name, depth-1, seen) {
				return false
			}
		}
	}
	if sites > 0 && depth == followDepth+1 {
		p.setup[name] = true
	}
	return sites > 0
}

// callersHold: every reference to the unexported function name (call, method value, function
// value) anywhere in the package is made while the lock is held.
func (p *lockPkg) callersHold(name string, depth int, seen map[string]bool) bool {
	if depth == 0 || seen[name] {
		return false
	}
	seen[name] = true
	defer delete(seen, name)
	sites := 0
	for _, g := range p.fds {
		evs := p.flow(g)
		held := heldAt(evs)
		for i, e := range evs {
			if e.kind != "ref" || e.name != name {
				continue
			}
			if g.Name.Name == name {
				continue // recursion
			}
			sites++
			if e.inGo {
				return false
			}
			if held[i] || p.ambient(g) != "" {
				continue
			}
			if g.Name.IsExported() || !p.callersHold(g.Name.Name, depth-1, seen) {
				return false
			}
		}
	}
	return sites > 0
}

// classOf: how the function's own mentions of the encoder are protected.
func (p *lockPkg) classOf(fd *ast.FuncDecl) (class string, touches bool) {
	evs := p.flow(fd)
	held := heldAt(evs)
	writes, probes, allHeld := 0, 0, true
	for i, e := range evs {
		if e.kind != "write" && e.kind != "probe" {
			continue
		}
		if e.kind == "write" {
			writes++
		} else {
			probes++
		}
		if !held[i] {
			allHeld = false
		}
	}
	if writes+probes == 0 {
		return "", false
	}
	if a := p.ambient(fd); a != "" {
		if writes == 0 {
			return "probe", true
		}
		return a, true
	}
	if allHeld {
		return "locked", true
	}
	if !fd.Name.IsExported() && p.callersHold(fd.Name.Name, followDepth+1, map[string]bool{}) {
		if writes == 0 {
			return "probe", true
		}
		return "held", true
	}
	if writes == 0 {
		return "unlocked-probe", true
	}
	return "unlocked", true
}

// reaches: the node mentions the encoder in the given way (probe / write), directly or
// through calls to (or values of) unexported functions, depth levels deep.
func (p *lockPkg) reaches(n ast.Node, kind string, depth int) bool {
	found := false
	ast.Inspect(n, func(x ast.Node) bool {
		if found || x == nil {
			return false
		}
		switch v := x.(type) {
		case *ast.TypeAssertExpr:
			if p.isEnc(v.X) {
				if kind == "probe" {
					found = true
				}
				return false
			}
		case *ast.SelectorExpr:
			if p.isEnc(v) {
				if kind == "write" {
					found = true
				}
				return false
			}
			if depth > 0 && p.isMethod(v.Sel.Name) {
				for _, fd := range p.unexp[v.Sel.Name] {
					if fd.Recv != nil && p.reaches(fd.Body, kind, depth-1) {
						found = true
					}
				}
			}
		case *ast.Ident:
			if depth > 0 && p.isFunc(v.Name) {
				for _, fd := range p.unexp[v.Name] {
					if fd.Recv == nil && p.reaches(fd.Body, kind, depth-1) {
						found = true
					}
				}
			}
		}
		return !found
	})
	return found
}

func hasReturn(st ast.Stmt) bool {
	switch st.(type) {
	case *ast.IfStmt, *ast.SwitchStmt, *ast.TypeSwitchStmt:
	default:
		return false
	}
	found := false
	ast.Inspect(st, func(x ast.Node) bool {
		switch x.(type) {
		case *ast.ReturnStmt:
			found = true
		case *ast.FuncLit:
			return false
		}
		return !found
	})
	return found
}

// guardedBody: among the top-level statements, the first one that reaches a probe comes after
// the lock has been taken (needLock) and its deferred release registered, and between it and
// the first statement that reaches a write there is a conditional that returns.
func (p *lockPkg) guardedBody(fd *ast.FuncDecl, needLock bool) bool {
	var b []ast.Stmt
	for _, st := range fd.Body.List {
		if !isYield(st) {
			b = append(b, st)
		}
	}
	iL, iD, iG, iW, iU := -1, -1, -1, -1, -1
	for i, st := range b {
		if es, ok := st.(*ast.ExprStmt); ok && p.lockCall(fd, es.X, "Lock") && iL < 0 {
			iL = i
			continue
		}
		if ds, ok := st.(*ast.DeferStmt); ok {
			unl := false
			ast.Inspect(ds.Call, func(x ast.Node) bool {
				if c, ok := x.(*ast.CallExpr); ok && p.lockCall(fd, c, "Unlock") {
					unl = true
				}
				return !unl
			})
			if unl && iD < 0 {
				iD = i
			}
			continue // deferred calls run at the end
		}
		if es, ok := st.(*ast.ExprStmt); ok && p.lockCall(fd, es.X, "Unlock") && iU < 0 {
			iU = i
		}
		if iG < 0 && p.reaches(st, "probe", followDepth) {
			iG = i
		}
		if iW < 0 && p.reaches(st, "write", followDepth) {
			iW = i
		}
	}
	if iG < 0 || iW < 0 {
		return false
	}
	if needLock {
		if !(iL >= 0 && iL < iG && (iD < 0 || (iD > iL && iD < iG)) && (iU < 0 || iU > iW)) {
			return false
		}
		evs := p.flow(fd)
		held := heldAt(evs)
		for i, e := range evs {
			if (e.kind == "write" || e.kind == "probe") && !held[i] {
				return false
			}
		}
	}
	if iW <= iG {
		return false
	}
	for j := iG; j < iW; j++ {
		if hasReturn(b[j]) {
			return true
		}
	}
	return false
}

// lockers: the functions reachable from fd through references to unexported functions
// (fd included) that take the lock at top level and write to the encoder.
func (p *lockPkg) lockers(fd *ast.FuncDecl, depth int, seen map[*ast.FuncDecl]bool, out *[]*ast.FuncDecl) {
	if seen[fd] {
		return
	}
	seen[fd] = true
	evs := p.flow(fd)
	locks := false
	for _, e := range evs {
		if e.kind == "lock" {
			locks = true
		}
	}
	if locks && p.reaches(fd.Body, "write", followDepth) {
		*out = append(*out, fd)
		return
	}
	if depth == 0 {
		return
	}
	for _, e := range evs {
		if e.kind == "ref" {
			for _, g := range p.unexp[e.name] {
				p.lockers(g, depth-1, seen, out)
			}
		}
	}
}

// entryGuarded: the exported method of Session takes the lock itself or delegates to
// unexported functions that do, and each of those is guarded.
func (p *lockPkg) entryGuarded(name string) (found, ok bool) {
	for _, fd := range p.fds {
		if recvName(fd) != "Session" || fd.Name.Name != name {
			continue
		}
		var ls []*ast.FuncDecl
		p.lockers(fd, followDepth, map[*ast.FuncDecl]bool{}, &ls)
		if len(ls) == 0 {
			return true, false
		}
		for _, l := range ls {
			if !p.guardedBody(l, true) {
				return true, false
			}
		}
		return true, true
	}
	return false, false
}

// probedType: the type named in the type assertions on the encoder ("stanzaEncoder"), "" if
// there is none or more than one.
func (p *lockPkg) probedType() string {
	names := map[string]bool{}
	for _, fd := range p.fds {
		ast.Inspect(fd.Body, func(x ast.Node) bool {
			if ta, ok := x.(*ast.TypeAssertExpr); ok && p.isEnc(ta.X) && ta.Type != nil {
				t := ta.Type
				if s, ok := t.(*ast.StarExpr); ok {
					t = s.X
				}
				if id, ok := t.(*ast.Ident); ok {
					names[id.Name] = true
				}
			}
			return true
		})
	}
	if len(names) != 1 {
		return ""
	}
	for n := range names {
		return n
	}
	return ""
}

// encoderMutators: which functions assign to a field of a value of the stanza encoder's type
// (found by the names of the fields the type declares, whatever they are called): methods of
// the type, and everything else.  A method that only reads (a String method, a getter) is not
// listed; a Flush that resets the depth, or a reset from the session's code, is.
func (p *lockPkg) encoderMutators(encType string) (methods, others []string) {
	fields := map[string]bool{}
	for _, f := range p.files {
		for _, d := range f.Decls {
			gd, ok := d.(*ast.GenDecl)
			if !ok || gd.Tok != token.TYPE {
				continue
			}
			for _, sp := range gd.Specs {
				ts := sp.(*ast.TypeSpec)
				st, ok := ts.Type.(*ast.StructType)
				if !ok || ts.Name.Name != encType {
					continue
				}
				for _, fl := range st.Fields.List {
					for _, n := range fl.Names {
						fields[n.Name] = true
					}
				}
			}
		}
	}
	// names of fields that other struct types of the package declare too are ambiguous without
	// type information: only count them on values known to be of the encoder's type (receiver,
	// or a local initialised with a composite literal / type assertion of that type)
	for _, fd := range p.fds {
		vars := map[string]bool{}
		if recvName(fd) == encType && len(fd.Recv.List[0].Names) == 1 {
			vars[fd.Recv.List[0].Names[0].Name] = true
		}
		ofEncType := func(e ast.Expr) bool {
			if u, ok := e.(*ast.UnaryExpr); ok {
				e = u.X
			}
			if cl, ok := e.(*ast.CompositeLit); ok {
				return selString(cl.Type) == encType
			}
			if ta, ok := e.(*ast.TypeAssertExpr); ok && ta.Type != nil {
				t := ta.Type
				if s, ok := t.(*ast.StarExpr); ok {
					t = s.X
				}
				return selString(t) == encType
			}
			return false
		}
		ast.Inspect(fd.Body, func(n ast.Node) bool {
			if as, ok := n.(*ast.AssignStmt); ok && len(as.Rhs) >= 1 && ofEncType(as.Rhs[0]) {
				if id, ok := as.Lhs[0].(*ast.Ident); ok {
					vars[id.Name] = true
				}
			}
			return true
		})
		mut := false
		isField := func(e ast.Expr) bool {
			se, ok := e.(*ast.SelectorExpr)
			if !ok || !fields[se.Sel.Name] {
				return false
			}
			id, ok := se.X.(*ast.Ident)
			return ok && vars[id.Name]
		}
		ast.Inspect(fd.Body, func(n ast.Node) bool {
			switch v := n.(type) {
			case *ast.AssignStmt:
				for _, l := range v.Lhs {
					if isField(l) {
						mut = true
					}
				}
			case *ast.IncDecStmt:
				if isField(v.X) {
					mut = true
				}
			case *ast.UnaryExpr:
				if v.Op == token.AND && isField(v.X) {
					mut = true // address taken: may be written through the pointer
				}
			}
			return true
		})
		if mut {
			if recvName(fd) == encType {
				methods = append(methods, fd.Name.Name)
			} else {
				others = append(others, p.fname(fd))
			}
		}
	}
	sort.Strings(methods)
	sort.Strings(others)
	return
}
