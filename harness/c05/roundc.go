package c05

// Round C: a call that QUEUES for the output lock behind a call that stops inside its element.
//
//	behind <mode> <park> <k> <holder toks> <entry> <ns> <from> <start|-> <toks>  ->  <s1> <s2> <wire>
//
// The holder is a Send whose token reader parks after it has delivered `park` tokens of its
// element (0 <= park <= k; park = 0: the lock is held, nothing has been written yet).  While it
// is parked the second call (any entry point) is started and the harness waits until that
// goroutine is blocked in sync.(*Mutex).Lock.  Then the holder goes on and its reader fails
// after k tokens (mode `fail`, 0 < k < len) or delivers all of them (mode `finish`, k = len).
// Mode `twfail`: the holder is a token writer that writes k tokens of the element and is then
// closed (an abandoned handle: its Close succeeds, the stream is left inside the element).
// Mode `encfail`: the holder is Encode of a value whose token reader fails after k tokens.  A call that asked "is the stream inside an unfinished
// element?" BEFORE it queued acts on a stale answer: after `fail` it writes its element inside
// the unfinished one and reports success, during `finish` it is refused although nothing is
// broken.  The model (SendGuard LTS, guard under the lock) says: fail -> refused, nothing
// written; finish -> both elements, whole, in order.

import (
	"context"
	"encoding/xml"
	"errors"
	"fmt"
	"runtime"
	"strings"
	"time"

	"mellium.im/xmlstream"
	"mellium.im/xmpp"
	"mellium.im/xmpp/jid"
	"mellium.im/xmpp/stanza"

	"verifharness/common"
)

type parkReader struct {
	t       []xml.Token
	i, k    int
	park    int
	parked  bool
	fail    bool
	reached chan struct{}
	gate    chan struct{}
}

var errParked = errors.New("c05: the payload reader failed")

// readerMarshaler is a value that marshals to whatever its token reader delivers.
type readerMarshaler struct{ r xml.TokenReader }

func (m readerMarshaler) TokenReader() xml.TokenReader { return m.r }

func (g *parkReader) Token() (xml.Token, error) {
	if g.i == g.park && !g.parked {
		g.parked = true
		select {
		case g.reached <- struct{}{}:
		default:
		}
		<-g.gate
	}
	if g.fail && g.i == g.k {
		return nil, errParked
	}
	if g.i >= len(g.t) {
		return nil, errEOF
	}
	t := g.t[g.i]
	g.i++
	return xml.CopyToken(t), nil
}

// blockedInLock: some goroutine started by exec is waiting for a mutex.
func blockedInLock() bool {
	buf := make([]byte, 1<<20)
	buf = buf[:runtime.Stack(buf, true)]
	for _, g := range strings.Split(string(buf), "\n\n") {
		if strings.Contains(g, "sync.(*Mutex).Lock") && (strings.Contains(g, "c05.exec.func") || strings.Contains(g, "c05.(*ctxT).behind")) {
			return true
		}
	}
	return false
}

// behindCall builds the second call of the scenario from a complete element.
func behindCall(entry string, next []xml.Token) (call, bool) {
	st, ok := next[0].(xml.StartElement)
	if !ok || len(next) < 2 {
		return call{}, false
	}
	switch entry {
	case "send", "tw", "msg", "reply":
		return call{entry: entry, form: "reader", toks: next}, true
	case "enc":
		return call{entry: entry, form: "marshaler", toks: next}, true
	case "sendel":
		s := xml.StartElement{Name: st.Name, Attr: append([]xml.Attr(nil), st.Attr...)}
		return call{entry: entry, form: "reader", toks: next[1 : len(next)-1], start: &s}, true
	case "encel":
		s := xml.StartElement{Name: st.Name}
		return call{entry: entry, form: "marshaler", toks: next, start: &s}, true
	}
	return call{}, false
}

func (c *ctxT) behind(cfg cfgT, mode string, park, k int, toks []xml.Token, cl call) {
	r := c.r
	if mode == "finish" {
		k = len(toks)
	}
	if c.stalls >= 3 || k <= 0 || (mode != "finish" && k >= len(toks)) || park < 0 || park > k || park >= len(toks) {
		return
	}
	startF := "-"
	if cl.start != nil {
		startF = common.EncToks([]xml.Token{*cl.start})
	}
	line := fmt.Sprintf("behind %s %d %d %s %s %s %s %s %s", mode, park, k, common.EncToks(toks), cl.entry, cfg.ns, cfg.fromField(), startF, common.EncToks(cl.toks))
	lines := []string{r.Prop + " " + line}
	rs, err := newSess(cfg)
	if err != nil {
		return
	}
	pr := &parkReader{t: toks, k: k, park: park, fail: mode != "finish", reached: make(chan struct{}, 1), gate: make(chan struct{})}
	var err1 error
	var p1 string
	done1 := make(chan struct{})
	go func() {
		defer close(done1)
		p1 = common.Recover(func() {
			if mode == "encfail" {
				// Encode of a value whose token reader fails: the copy loop of internal/marshal
				err1 = rs.S.Encode(context.Background(), readerMarshaler{pr})
				return
			}
			if mode != "twfail" {
				err1 = rs.S.Send(context.Background(), pr)
				return
			}
			// a token writer that is abandoned (closed) after k tokens of its element
			w := rs.S.TokenWriter()
			for i := 0; i <= k; i++ {
				if i == park {
					pr.reached <- struct{}{}
					<-pr.gate
				}
				if i == k {
					break
				}
				if err1 = w.EncodeToken(xml.CopyToken(toks[i])); err1 != nil {
					break
				}
			}
			if e := w.Close(); err1 == nil {
				err1 = e
			}
		})
	}()
	select {
	case <-pr.reached:
	case <-time.After(3 * time.Second):
		close(pr.gate)
		c.stalls++
		r.Line(line, "STALL")
		r.Fail("lock-released", "behind/holder", lines, "the first Send did not reach token "+fmt.Sprint(park)+" of its element")
		return
	}
	// the second call: it has to queue behind the holder
	s2c := make(chan string, 1)
	if cl.entry == "reply" {
		// a handler's reply: Serve hands the handler a writer that takes the output lock at
		// its first EncodeToken
		n := 0
		go rs.S.Serve(xmpp.HandlerFunc(func(t xmlstream.TokenReadEncoder, start *xml.StartElement) error {
			n++
			if n > 1 {
				return nil
			}
			var err error
			p := common.Recover(func() {
				for _, tok := range cl.toks {
					if err = t.EncodeToken(xml.CopyToken(tok)); err != nil {
						break
					}
				}
			})
			if p != "" {
				s2c <- "PANIC"
			} else {
				s2c <- classify(err)
			}
			return nil
		}))
		defer rs.In.Close()
		go rs.Feed([]byte(`<message xmlns="` + cfg.ns + `" id="trigger"/>`))
	} else {
		go func() { s2c <- exec(rs.S, cl) }()
	}
	queued := false
	s2 := ""
	deadline := time.Now().Add(400 * time.Millisecond)
wait:
	for time.Now().Before(deadline) {
		select {
		case s2 = <-s2c:
			break wait // it did not wait at all
		default:
		}
		if blockedInLock() {
			queued = true
			break
		}
		time.Sleep(200 * time.Microsecond)
	}
	close(pr.gate)
	stalled := false
	select {
	case <-done1:
	case <-time.After(10 * time.Second):
		stalled = true
	}
	if s2 == "" {
		select {
		case s2 = <-s2c:
		case <-time.After(12 * time.Second):
			s2, stalled = "STALL", true
		}
	}
	// bring out whatever is still buffered (a refused writer does not write, it only flushes)
	stalled = stalled || !common.WithTimeout(2*time.Second, func() { common.Recover(func() { rs.S.TokenWriter().Close() }) })
	if stalled || s2 == "STALL" {
		c.stalls++
		r.Line(line, "STALL")
		r.Fail("lock-released", "behind/"+mode+"/"+cl.entry, lines, "a call queued behind a parked sender never returned")
		return
	}
	wire := rs.Out.Bytes()
	st1 := "ok"
	if err1 != nil {
		st1 = "fail"
	}
	st2 := "ok"
	if s2 != "ok" {
		st2 = "broken"
	}
	toksOnWire, perr := parseInStream(cfg.ns, wire)
	if perr != nil {
		toksOnWire = partialTokens(cfg.ns, wire)
	}
	masked, _ := maskIDs(toksOnWire)
	obs := fmt.Sprintf("%s %s %s", st1, st2, common.EncToks(common.SortedAttrs(masked)))
	if p1 != "" || s2 == "PANIC" {
		obs = "PANIC"
		r.Fail("total", "behind/"+mode+"/"+cl.entry, lines, p1+" "+s2)
	}
	r.Line(line, obs)
	r.Case(line, queued, "behind/"+mode+"/"+cl.entry+"/"+st1+"/"+st2)
	// the property, independent of the model: a call that reports success has put one complete
	// top-level element denoting its arguments on the wire, after the holder's
	if st2 == "ok" {
		exp, eerr := expected(cfg.ns, cfg.from, cl.denoted())
		els, stray := splitTop(masked)
		okEl := perr == nil && !stray && len(els) > 0 && eerr == nil
		if okEl {
			same, _ := sameElement(els[len(els)-1], exp)
			okEl = same
		}
		if okEl && mode == "finish" {
			exp1, e1 := expected(cfg.ns, cfg.from, toks)
			okEl = len(els) == 2 && e1 == nil
			if okEl {
				okEl, _ = sameElement(els[0], exp1)
			}
		}
		if !okEl {
			what := "abandoned after"
			if mode == "finish" {
				what = "completed,"
			}
			r.Fail("next-after-failure", "behind/"+mode+"/"+cl.entry, lines, fmt.Sprintf("a %s call queued for the output lock while a Send was parked after %d tokens of its element, which it then %s %d tokens (first call: %s); it returned nil but its element is not a complete top-level element on the wire: %q", cl.entry, park, what, k, st1, clip(wire)))
		}
	}
}

var behindEntries = []string{"send", "sendel", "enc", "encel", "tw", "msg", "reply"}

func (c *ctxT) behindCorpus(cfg cfgT) {
	msg := el("", "message", at("type", "chat", "id", "first"), el("", "body", nil, xml.CharData("hi"))...)
	next := el("", "message", at("to", "juliet@example.com"), el("", "body", nil, xml.CharData("second"))...)
	for _, entry := range behindEntries {
		cl, ok := behindCall(entry, next)
		if !ok {
			continue
		}
		for k := 1; k < len(msg); k++ {
			for _, park := range []int{0, k / 2, k} {
				if park == k/2 && (park == 0 || park == k) {
					continue
				}
				c.behind(cfg, "fail", park, k, msg, cl)
				c.behind(cfg, "twfail", park, k, msg, cl)
				c.behind(cfg, "encfail", park, k, msg, cl)
			}
			c.behind(cfg, "finish", k, len(msg), msg, cl)
		}
		c.behind(cfg, "finish", 0, len(msg), msg, cl)
	}
}

// ---- round C: the remaining members of the IQ / message / presence families ---------------
//
// SendIQElement, SendMessageElement, SendPresenceElement (payload reader + stanza value),
// EncodeIQElement, EncodeMessageElement, EncodePresenceElement (payload value + stanza value),
// EncodeIQ, EncodeMessage, EncodePresence (a value that marshals to the whole stanza).  The line
// of such a call is the line of the plain SendIQ / SendMessage / SendPresence call with the
// same denotation: `toks` is exactly what the stanza value's Wrap produces around the payload
// (forms `el`, `encel`), resp. what the value marshals to (`encv`); the stanza value is
// recovered from the start element of `toks` (stanzaParts), so a replay makes the same call.

type stanzaParts struct {
	id, typ  string
	to, from jid.JID
	space    string
}

// stanzaParts reads id/to/from/type from a start element; ok is false if the element carries
// anything a stanza value cannot reproduce exactly.
func partsOf(st xml.StartElement) (p stanzaParts, ok bool) {
	p.space = st.Name.Space
	seenType := false
	for _, a := range st.Attr {
		if a.Name.Space != "" || a.Value == "" && a.Name.Local != "type" {
			return p, false
		}
		switch a.Name.Local {
		case "id":
			p.id = a.Value
		case "type":
			p.typ, seenType = a.Value, true
		case "to", "from":
			j, err := jid.Parse(a.Value)
			if err != nil || j.String() != a.Value {
				return p, false
			}
			if a.Name.Local == "to" {
				p.to = j
			} else {
				p.from = j
			}
		default:
			return p, false
		}
	}
	return p, seenType
}

func sameStart(a, b xml.StartElement) bool {
	if a.Name != b.Name || len(a.Attr) != len(b.Attr) {
		return false
	}
	m := map[string]int{}
	for _, x := range a.Attr {
		m[attrKey(x)]++
	}
	for _, x := range b.Attr {
		m[attrKey(x)]--
	}
	for _, v := range m {
		if v != 0 {
			return false
		}
	}
	return true
}

// familyCall makes the call of form el / encel / encv for entry iq / msg / pres; done is false
// when toks is not exactly what the stanza value denotes (the caller then makes the plain call).
func familyCall(s *xmpp.Session, ctx context.Context, cl call) (resp xmlstream.TokenReadCloser, err error, done bool) {
	if len(cl.toks) < 2 {
		return nil, nil, false
	}
	st, ok := cl.toks[0].(xml.StartElement)
	if !ok {
		return nil, nil, false
	}
	if cl.form == "encv" {
		v := tokMarshaler{cl.toks}
		switch cl.entry {
		case "iq":
			resp, err = s.EncodeIQ(ctx, v)
		case "msg":
			resp, err = s.EncodeMessage(ctx, v)
		default:
			resp, err = s.EncodePresence(ctx, v)
		}
		return resp, err, true
	}
	p, ok := partsOf(st)
	if !ok {
		return nil, nil, false
	}
	inner := cl.toks[1 : len(cl.toks)-1]
	name := xml.Name{Space: p.space}
	switch cl.entry {
	case "iq":
		v := stanza.IQ{XMLName: name, ID: p.id, To: p.to, From: p.from, Type: stanza.IQType(p.typ)}
		if !sameStart(v.StartElement(), st) {
			return nil, nil, false
		}
		if cl.form == "el" {
			resp, err = s.SendIQElement(ctx, reader(inner), v)
		} else {
			resp, err = s.EncodeIQElement(ctx, tokMarshaler{inner}, v)
		}
	case "msg":
		v := stanza.Message{XMLName: name, ID: p.id, To: p.to, From: p.from, Type: stanza.MessageType(p.typ)}
		if !sameStart(v.StartElement(), st) {
			return nil, nil, false
		}
		if cl.form == "el" {
			resp, err = s.SendMessageElement(ctx, reader(inner), v)
		} else {
			resp, err = s.EncodeMessageElement(ctx, tokMarshaler{inner}, v)
		}
	default:
		v := stanza.Presence{XMLName: name, ID: p.id, To: p.to, From: p.from, Type: stanza.PresenceType(p.typ)}
		if !sameStart(v.StartElement(), st) {
			return nil, nil, false
		}
		if cl.form == "el" {
			resp, err = s.SendPresenceElement(ctx, reader(inner), v)
		} else {
			resp, err = s.EncodePresenceElement(ctx, tokMarshaler{inner}, v)
		}
	}
	return resp, err, true
}

// familyVariant rewrites a generated iq / msg / pres call into one of the other members of its
// family: the start element becomes what a stanza value produces.
func familyVariant(rnd *common.Rand, cl call) call {
	form := pickS(rnd, []string{"el", "encel", "encv"})
	if form == "encv" {
		cl.form = form
		return cl
	}
	st := cl.toks[0].(xml.StartElement)
	typ := map[string][]string{"iq": {"get", "set", "result", "error"}, "msg": {"chat", "normal", "headline", "error", ""},
		"pres": {"", "unavailable", "subscribe", "probe", "error"}}[cl.entry]
	as := at("type", pickS(rnd, typ))
	if rnd.Chance(1, 2) {
		as = append(as, xml.Attr{Name: xml.Name{Local: "to"}, Value: remoteJID.String()})
	}
	if rnd.Chance(1, 3) {
		as = append(as, xml.Attr{Name: xml.Name{Local: "from"}, Value: localJID.String()})
	}
	if rnd.Chance(1, 2) {
		as = append(as, xml.Attr{Name: xml.Name{Local: "id"}, Value: pick(rnd, valPool)})
	}
	var keep []xml.Attr
	for _, a := range as {
		if a.Value != "" || a.Name.Local == "type" {
			keep = append(keep, a)
		}
	}
	local := map[string]string{"iq": "iq", "msg": "message", "pres": "presence"}[cl.entry]
	st = xml.StartElement{Name: xml.Name{Space: pickS(rnd, []string{"", "", nsClient, nsServer}), Local: local}, Attr: keep}
	toks := append([]xml.Token{st}, cl.toks[1:len(cl.toks)-1]...)
	cl.toks = append(toks, st.End())
	cl.form = form
	return cl
}
