package c05

// Round E probe fact (review A-4): WHO writes to the connection with the output lock held.
//
// The lock-flow table (lockflow.go) is an analysis of the source text; it cannot see a transmit
// path that does not mention the encoder at all (a method that writes to s.Conn() directly) and
// it depends on the shape of the code.  This probe is behaviour: every exported method of
// *xmpp.Session is found by reflection and CALLED on a fresh real session with synthesized
// arguments (a context, a token reader / start element / value for each of three candidate
// elements iq, message, presence, zero values for everything else); the session's transport
// asks `xmpp.VerifOutputLocked` inside every Write.  Row: (method, did it write, was the output
// lock held at EVERY write).  No method name is used by the probe; a method whose arguments
// cannot be synthesized or that blocks simply writes nothing (row with wrote = false).  While the
// method runs an unhandled IQ is fed to the input: a method that serves the stream writes the
// session's automatic service-unavailable reply, which is observed like any other write.

import (
	"context"
	"encoding/xml"
	"fmt"
	"reflect"
	"sort"
	"strings"
	"sync"
	"time"

	"mellium.im/xmpp"

	"verifharness/common"
)

var (
	tCtx    = reflect.TypeOf((*context.Context)(nil)).Elem()
	tReader = reflect.TypeOf((*xml.TokenReader)(nil)).Elem()
	tStart  = reflect.TypeOf(xml.StartElement{})
	tEmpty  = reflect.TypeOf((*interface{})(nil)).Elem()
)

func lockProbeArgs(mt reflect.Type, ctx context.Context, cand []xml.Token) []reflect.Value {
	st := cand[0].(xml.StartElement)
	var args []reflect.Value
	n := mt.NumIn()
	if mt.IsVariadic() {
		n-- // no variadic arguments
	}
	for i := 1; i < n; i++ { // 0 is the receiver
		t := mt.In(i)
		switch {
		case t == tCtx:
			args = append(args, reflect.ValueOf(ctx))
		case t == tReader:
			args = append(args, reflect.ValueOf(reader(cand)))
		case t == tStart:
			args = append(args, reflect.ValueOf(st))
		case t == reflect.PtrTo(tStart):
			s2 := st
			args = append(args, reflect.ValueOf(&s2))
		case t == tEmpty:
			args = append(args, reflect.ValueOf(tokMarshaler{cand}))
		case t.Kind() == reflect.Slice && t.Elem().Kind() == reflect.Uint8:
			args = append(args, reflect.ValueOf([]byte("<x/>")).Convert(t))
		case t.Kind() == reflect.String:
			args = append(args, reflect.ValueOf("x").Convert(t))
		default:
			args = append(args, reflect.Zero(t))
		}
	}
	return args
}

// probeLock returns the Lean term of the table.
func probeLock() (string, error) {
	q := el("urn:a", "query", nil)
	cands := [][]xml.Token{
		el("", "iq", at("type", "get", "id", "lp1"), q...),
		el("", "message", at("id", "lp2"), q...),
		el("", "presence", at("id", "lp3"), q...),
	}
	st := reflect.TypeOf((*xmpp.Session)(nil))
	type row struct {
		name        string
		wrote, held bool
	}
	var rows []row
	for m := 0; m < st.NumMethod(); m++ {
		meth := st.Method(m)
		r := row{name: meth.Name, held: true}
		for _, cand := range cands {
			for _, mode := range []string{"cancelled", "timeout"} {
				rs, err := common.NewRawSession(0, nsClient, localJID, remoteJID)
				if err != nil {
					return "", err
				}
				var mu sync.Mutex
				writes, unlocked := 0, 0
				rs.Out.OnWrite = func(p []byte) {
					l := xmpp.VerifOutputLocked(rs.S)
					mu.Lock()
					writes++
					if !l {
						unlocked++
					}
					mu.Unlock()
				}
				ctx := cancelled
				cancel := func() {}
				if mode == "timeout" {
					ctx, cancel = context.WithTimeout(context.Background(), 150*time.Millisecond)
				}
				args := append([]reflect.Value{reflect.ValueOf(rs.S)}, lockProbeArgs(meth.Type, ctx, cand)...)
				// input for a method that reads the stream (Serve): an IQ nobody handles, so that the
				// session's own automatic reply is one of the observed writes
				go func() {
					time.Sleep(10 * time.Millisecond)
					common.Recover(func() { rs.Feed([]byte(`<iq xmlns="jabber:client" type="get" id="lpq"><q xmlns="urn:x"/></iq>`)) })
				}()
				common.WithTimeout(400*time.Millisecond, func() {
					common.Recover(func() { meth.Func.Call(args) })
				})
				cancel()
				mu.Lock()
				w, u := writes, unlocked
				mu.Unlock()
				rs.In.Close()
				if w > 0 {
					r.wrote = true
					if u > 0 {
						r.held = false
					}
				}
				if w > 0 {
					break // the second context is only for methods that refuse a cancelled one
				}
			}
		}
		rows = append(rows, r)
	}
	sort.Slice(rows, func(i, j int) bool { return rows[i].name < rows[j].name })
	var out []string
	for _, r := range rows {
		out = append(out, fmt.Sprintf("(%q, %v, %v)", r.name, r.wrote, r.held))
	}
	return "some [" + strings.Join(out, ", ") + "]", nil
}
