package c05

import (
	"fmt"
	"go/ast"
	"go/parser"
	"go/token"
	"os"
	"path/filepath"
	"sort"
	"strconv"
	"strings"
)

// selString renders a selector chain such as s.out.e ("" for anything else).
func selString(e ast.Expr) string {
	switch x := e.(type) {
	case *ast.Ident:
		return x.Name
	case *ast.SelectorExpr:
		p := selString(x.X)
		if p == "" {
			return ""
		}
		return p + "." + x.Sel.Name
	}
	return ""
}

// exprString renders selector chains and calls without arguments ("s.LocalAddr()"); "?" for
// anything else.
func exprString(e ast.Expr) string {
	if c, ok := e.(*ast.CallExpr); ok && len(c.Args) == 0 {
		if f := selString(c.Fun); f != "" {
			return f + "()"
		}
		return "?"
	}
	if s := selString(e); s != "" {
		return s
	}
	return "?"
}

func isCall(e ast.Expr, suffix string) bool {
	c, ok := e.(*ast.CallExpr)
	if !ok || len(c.Args) != 0 {
		return false
	}
	return strings.HasSuffix(selString(c.Fun), suffix)
}

func recvName(fd *ast.FuncDecl) string {
	if fd.Recv == nil || len(fd.Recv.List) == 0 {
		return ""
	}
	t := fd.Recv.List[0].Type
	if s, ok := t.(*ast.StarExpr); ok {
		t = s.X
	}
	if id, ok := t.(*ast.Ident); ok {
		return id.Name
	}
	return ""
}

// PackageFuncs parses the non-test files of the root package.
func PackageFuncs(repo string) ([]*ast.FuncDecl, error) {
	ents, err := os.ReadDir(repo)
	if err != nil {
		return nil, err
	}
	fset := token.NewFileSet()
	var out []*ast.FuncDecl
	for _, e := range ents {
		n := e.Name()
		if e.IsDir() || !strings.HasSuffix(n, ".go") || strings.HasSuffix(n, "_test.go") {
			continue
		}
		f, err := parser.ParseFile(fset, filepath.Join(repo, n), nil, 0)
		if err != nil {
			return nil, err
		}
		if f.Name.Name != "xmpp" {
			continue
		}
		for _, d := range f.Decls {
			if fd, ok := d.(*ast.FuncDecl); ok && fd.Body != nil {
				out = append(out, fd)
			}
		}
	}
	return out, nil
}

// Stmts returns the statements of a body without the add-only verification
// yield points (verifhook.Yield(...) expression statements).
func Stmts(fd *ast.FuncDecl) []ast.Stmt {
	var out []ast.Stmt
	for _, st := range fd.Body.List {
		if es, ok := st.(*ast.ExprStmt); ok {
			if c, ok := es.X.(*ast.CallExpr); ok && SelString(c.Fun) == "verifhook.Yield" {
				continue
			}
		}
		out = append(out, st)
	}
	return out
}

// SelString renders a selector chain such as s.out.e ("" for anything else).
func SelString(e ast.Expr) string { return selString(e) }

// IsCall reports whether e is a call without arguments of a selector ending in suffix.
func IsCall(e ast.Expr, suffix string) bool { return isCall(e, suffix) }

// RecvName returns the receiver type name of a method ("" for functions).
func RecvName(fd *ast.FuncDecl) string { return recvName(fd) }

// LocksWholeBody: first statement X.out.Lock(), second defer X.out.Unlock().
func LocksWholeBody(fd *ast.FuncDecl) bool {
	b := Stmts(fd)
	if len(b) < 2 {
		return false
	}
	es, ok := b[0].(*ast.ExprStmt)
	if !ok || !isCall(es.X, ".out.Lock") {
		return false
	}
	ds, ok := b[1].(*ast.DeferStmt)
	return ok && isCall(ds.Call, ".out.Unlock")
}

// PackageVars is packageVars for the other properties' fact generators.
func PackageVars(dir string) ([]string, error) { return packageVars(dir) }

// packageVars lists the package-level variables of the non-test files of a directory.
// mutablePackageVars is packageVars without what cannot carry state from one call to the next:
// the blank identifier (interface assertions) and error sentinels (initialised by errors.New
// or fmt.Errorf and nothing else).
func mutablePackageVars(dir string) ([]string, error) {
	ents, err := os.ReadDir(dir)
	if err != nil {
		return nil, err
	}
	fset := token.NewFileSet()
	var out []string
	for _, e := range ents {
		n := e.Name()
		if e.IsDir() || !strings.HasSuffix(n, ".go") || strings.HasSuffix(n, "_test.go") {
			continue
		}
		f, err := parser.ParseFile(fset, filepath.Join(dir, n), nil, 0)
		if err != nil {
			return nil, err
		}
		for _, d := range f.Decls {
			gd, ok := d.(*ast.GenDecl)
			if !ok || gd.Tok != token.VAR {
				continue
			}
			for _, sp := range gd.Specs {
				vs := sp.(*ast.ValueSpec)
				for i, id := range vs.Names {
					if id.Name == "_" {
						continue
					}
					if i < len(vs.Values) {
						if c, ok := vs.Values[i].(*ast.CallExpr); ok {
							if fn := selString(c.Fun); fn == "errors.New" || fn == "fmt.Errorf" {
								continue
							}
						}
					}
					out = append(out, strconv.Quote(id.Name))
				}
			}
		}
	}
	sort.Strings(out)
	return out, nil
}

func packageVars(dir string) ([]string, error) {
	ents, err := os.ReadDir(dir)
	if err != nil {
		return nil, err
	}
	fset := token.NewFileSet()
	var out []string
	for _, e := range ents {
		n := e.Name()
		if e.IsDir() || !strings.HasSuffix(n, ".go") || strings.HasSuffix(n, "_test.go") {
			continue
		}
		f, err := parser.ParseFile(fset, filepath.Join(dir, n), nil, 0)
		if err != nil {
			return nil, err
		}
		for _, d := range f.Decls {
			if gd, ok := d.(*ast.GenDecl); ok && gd.Tok == token.VAR {
				for _, sp := range gd.Specs {
					for _, id := range sp.(*ast.ValueSpec).Names {
						out = append(out, strconv.Quote(id.Name))
					}
				}
			}
		}
	}
	sort.Strings(out)
	return out, nil
}

// Facts regenerates lean/XmppModel/Generated/C05.lean: the lock discipline of
// every function of the root package that touches the output encoder (see lockflow.go).
func Facts(repo string) (string, error) {
	lp, err := loadLockPkg(repo)
	if err != nil {
		return "", err
	}
	fds := lp.fds
	var sb strings.Builder
	sb.WriteString("-- GENERATED by `harness facts C05` from the root package of the repository; do not edit.\n")
	sb.WriteString("namespace XmppModel.Generated.C05\n\n")
	if lp.out == "" || lp.enc == "" {
		// the output side of Session was not found: nothing can be said
		sb.WriteString("def transmitFns : Option (List (String × String)) := none\n")
		sb.WriteString("def entryGuard : Option (List (String × Bool)) := none\n")
		sb.WriteString("def holderGuard : Option Bool := none\n")
		sb.WriteString("def tokenWriterLocks : Option Bool := none\ndef closeUnlocks : Option Bool := none\ndef holderOnlyFromLocked : Option Bool := none\n")
	} else {
		type row struct{ name, class string }
		var rows []row
		for _, fd := range fds {
			if class, touches := lp.classOf(fd); touches {
				rows = append(rows, row{lp.fname(fd), class})
			}
		}
		sort.Slice(rows, func(i, j int) bool { return rows[i].name < rows[j].name })
		var l []string
		for _, r := range rows {
			l = append(l, fmt.Sprintf("(%q, %q)", r.name, r.class))
		}
		if len(rows) == 0 {
			sb.WriteString("def transmitFns : Option (List (String × String)) := none\n")
		} else {
			fmt.Fprintf(&sb, "/-- every function that mentions the output encoder of a Session (found by type: field `%s.%s`) and how\nthat mention is protected -/\ndef transmitFns : Option (List (String × String)) := some [%s]\n", lp.out, lp.enc, strings.Join(l, ", "))
		}
		// the exported one-shot entry points: lock, deferred unlock, probe of the encoder's state
		// with an early return, only then the first write
		var gl []string
		okAll := true
		for _, n := range []string{"Encode", "EncodeElement", "Send", "SendElement"} {
			found, ok := lp.entryGuarded(n)
			if !found {
				okAll = false
			}
			gl = append(gl, fmt.Sprintf("(%q, %v)", n, ok))
		}
		if okAll {
			fmt.Fprintf(&sb, "def entryGuard : Option (List (String × Bool)) := some [%s]\n", strings.Join(gl, ", "))
		} else {
			sb.WriteString("def entryGuard : Option (List (String × Bool)) := none\n")
		}
		// the lock holder: what TokenWriter returns
		twLocks, closeUnlocks, holderGuard, onlyLocked := "none", "none", "none", "none"
		if lp.holder != "" {
			onlyLockedB := true
			for _, fd := range fds {
				evs := lp.flow(fd)
				held := heldAt(evs)
				if recvName(fd) == "Session" && fd.Name.Name == "TokenWriter" {
					locks, releases := false, false
					for _, e := range evs {
						switch e.kind {
						case "lock":
							locks = true
						case "unlock", "defer-unlock":
							releases = true
						}
					}
					twLocks = fmt.Sprintf("some %v", locks && !releases)
				}
				if recvName(fd) == lp.holder && fd.Name.Name == "Close" {
					deferred, plain := false, false
					for _, e := range evs {
						switch e.kind {
						case "defer-unlock":
							deferred = true
						case "unlock":
							plain = true
						}
					}
					closeUnlocks = fmt.Sprintf("some %v", deferred && !plain)
				}
				if recvName(fd) == lp.holder && fd.Name.Name == "EncodeToken" {
					holderGuard = fmt.Sprintf("some %v", lp.guardedBody(fd, false))
				}
				// every place that makes a value of the holder type holds the lock there
				ast.Inspect(fd.Body, func(n ast.Node) bool {
					cl, ok := n.(*ast.CompositeLit)
					if !ok {
						return true
					}
					if id, ok := cl.Type.(*ast.Ident); ok && id.Name == lp.holder {
						h := false
						for i, e := range evs {
							if e.pos < cl.Pos() {
								h = held[i]
							}
						}
						if !h {
							onlyLockedB = false
						}
					}
					return true
				})
			}
			onlyLocked = fmt.Sprintf("some %v", onlyLockedB)
		}
		fmt.Fprintf(&sb, "/-- `EncodeToken` of the type `TokenWriter` returns probes the encoder's state and returns early before it writes -/\ndef holderGuard : Option Bool := %s\n", holderGuard)
		fmt.Fprintf(&sb, "def tokenWriterLocks : Option Bool := %s\n", twLocks)
		fmt.Fprintf(&sb, "def closeUnlocks : Option Bool := %s\n", closeUnlocks)
		fmt.Fprintf(&sb, "def holderOnlyFromLocked : Option Bool := %s\n", onlyLocked)
	}
	// who changes the stanza encoder's state (the type named in the probes of the encoder's
	// state): anything besides EncodeToken could move the depth counter behind the model's back
	// (a Flush that resets it, a reset from the session's code, …); methods that only read
	// are not listed
	encType := lp.probedType()
	if encType == "" {
		sb.WriteString("def stanzaEncoderMethods : Option (List String) := none\n")
		sb.WriteString("def stanzaEncoderOutsideWriters : Option (List String) := none\n")
	} else {
		q := func(l []string) string {
			var o []string
			for _, x := range l {
				o = append(o, strconv.Quote(x))
			}
			return strings.Join(o, ", ")
		}
		ms, os := lp.encoderMutators(encType)
		fmt.Fprintf(&sb, "/-- methods of the stanza encoder's type that assign to one of its fields -/\ndef stanzaEncoderMethods : Option (List String) := some [%s]\n", q(ms))
		fmt.Fprintf(&sb, "/-- other functions that assign to a field of a value of that type -/\ndef stanzaEncoderOutsideWriters : Option (List String) := some [%s]\n", q(os))
	}
	// package-level variables of internal/marshal: state shared between calls and sessions
	mg, err := mutablePackageVars(filepath.Join(repo, "internal", "marshal"))
	if err != nil {
		sb.WriteString("def marshalGlobals : Option (List String) := none\n")
	} else {
		fmt.Fprintf(&sb, "def marshalGlobals : Option (List String) := some [%s]\n", strings.Join(mg, ", "))
	}
	// where the address the encoder stamps comes from: a probe of real sessions whose four
	// addresses are pairwise different (probe.go)
	fp, perr := probeFrom()
	if perr != nil {
		fp = "none"
		fmt.Fprintf(&sb, "-- probeFrom failed: %s\n", strings.ReplaceAll(perr.Error(), "\n", " "))
	}
	fmt.Fprintf(&sb, "/-- probe: (role of the session, stream namespace, the address `LocalAddr()` reports, the `from` stamped on\nan outgoing `<message/>`) for sessions whose four addresses are `inTo`, `inFrom`, `outFrom`, `outTo` -/\ndef fromProbe : Option (List (String × String × String × String)) := %s\n", fp)
	vp, verr := probeValues()
	if verr != nil {
		vp = "none"
		fmt.Fprintf(&sb, "-- probeValues failed: %s\n", strings.ReplaceAll(verr.Error(), "\n", " "))
	}
	fmt.Fprintf(&sb, "/-- probe: (entry point, which encoding methods the value has (w = WriteXML, m = TokenReader(), r = Token(),\nx = MarshalXML), the method whose element reached the wire (p = reflection), did the element arrive with its\nname and its two namespaced attributes intact and nothing else) -/\ndef valueProbe : Option (List (String × String × String × Bool)) := %s\n", vp)
	cp, cerr := probeConnWrite()
	if cerr != nil {
		cp = "none"
		fmt.Fprintf(&sb, "-- probeConnWrite failed: %s\n", strings.ReplaceAll(cerr.Error(), "\n", " "))
	}
	fmt.Fprintf(&sb, "/-- probe: `Session.Conn().Write(\"abcdefgh\")` on a transport that is not a net.Conn and answers with the\nscript (bytes accepted, 0 = no error / 1 = temporary / 2 = timeout / 3 = permanent): reported count, was an\nerror reported, the bytes the transport accepted -/\ndef connWriteProbe : Option (List (List (Nat × Nat) × Nat × Bool × List Nat)) := %s\n", cp)
	lpr, lerr := probeLock()
	if lerr != nil {
		lpr = "none"
		fmt.Fprintf(&sb, "-- probeLock failed: %s\n", strings.ReplaceAll(lerr.Error(), "\n", " "))
	}
	fmt.Fprintf(&sb, "/-- probe: every exported method of `*xmpp.Session` (found by reflection) called on a fresh real session with\nsynthesized arguments: (method, did it write to the connection, was the output lock held at EVERY write) -/\ndef lockProbe : Option (List (String × Bool × Bool)) := %s\n", lpr)
	sb.WriteString("\nend XmppModel.Generated.C05\n")
	return sb.String(), nil
}
