package c05

import (
	"fmt"
	"go/ast"
	"go/parser"
	"go/token"
	"os"
	"path/filepath"
	"sort"
	"strconv"
	"strings"
)

// selString renders a selector chain such as s.out.e ("" for anything else).
func selString(e ast.Expr) string {
	switch x := e.(type) {
	case *ast.Ident:
		return x.Name
	case *ast.SelectorExpr:
		p := selString(x.X)
		if p == "" {
			return ""
		}
		return p + "." + x.Sel.Name
	}
	return ""
}

// exprString renders selector chains and calls without arguments ("s.LocalAddr()"); "?" for
// anything else.
func exprString(e ast.Expr) string {
	if c, ok := e.(*ast.CallExpr); ok && len(c.Args) == 0 {
		if f := selString(c.Fun); f != "" {
			return f + "()"
		}
		return "?"
	}
	if s := selString(e); s != "" {
		return s
	}
	return "?"
}

func isCall(e ast.Expr, suffix string) bool {
	c, ok := e.(*ast.CallExpr)
	if !ok || len(c.Args) != 0 {
		return false
	}
	return strings.HasSuffix(selString(c.Fun), suffix)
}

func recvName(fd *ast.FuncDecl) string {
	if fd.Recv == nil || len(fd.Recv.List) == 0 {
		return ""
	}
	t := fd.Recv.List[0].Type
	if s, ok := t.(*ast.StarExpr); ok {
		t = s.X
	}
	if id, ok := t.(*ast.Ident); ok {
		return id.Name
	}
	return ""
}

// PackageFuncs parses the non-test files of the root package.
func PackageFuncs(repo string) ([]*ast.FuncDecl, error) {
	ents, err := os.ReadDir(repo)
	if err != nil {
		return nil, err
	}
	fset := token.NewFileSet()
	var out []*ast.FuncDecl
	for _, e := range ents {
		n := e.Name()
		if e.IsDir() || !strings.HasSuffix(n, ".go") || strings.HasSuffix(n, "_test.go") {
			continue
		}
		f, err := parser.ParseFile(fset, filepath.Join(repo, n), nil, 0)
		if err != nil {
			return nil, err
		}
		if f.Name.Name != "xmpp" {
			continue
		}
		for _, d := range f.Decls {
			if fd, ok := d.(*ast.FuncDecl); ok && fd.Body != nil {
				out = append(out, fd)
			}
		}
	}
	return out, nil
}

// Stmts returns the statements of a body without the add-only verification
// yield points (verifhook.Yield(...) expression statements).
func Stmts(fd *ast.FuncDecl) []ast.Stmt {
	var out []ast.Stmt
	for _, st := range fd.Body.List {
		if es, ok := st.(*ast.ExprStmt); ok {
			if c, ok := es.X.(*ast.CallExpr); ok && SelString(c.Fun) == "verifhook.Yield" {
				continue
			}
		}
		out = append(out, st)
	}
	return out
}

// SelString renders a selector chain such as s.out.e ("" for anything else).
func SelString(e ast.Expr) string { return selString(e) }

// IsCall reports whether e is a call without arguments of a selector ending in suffix.
func IsCall(e ast.Expr, suffix string) bool { return isCall(e, suffix) }

// RecvName returns the receiver type name of a method ("" for functions).
func RecvName(fd *ast.FuncDecl) string { return recvName(fd) }

// LocksWholeBody: first statement X.out.Lock(), second defer X.out.Unlock().
func LocksWholeBody(fd *ast.FuncDecl) bool {
	b := Stmts(fd)
	if len(b) < 2 {
		return false
	}
	es, ok := b[0].(*ast.ExprStmt)
	if !ok || !isCall(es.X, ".out.Lock") {
		return false
	}
	ds, ok := b[1].(*ast.DeferStmt)
	return ok && isCall(ds.Call, ".out.Unlock")
}

func mentions(fd *ast.FuncDecl, suffix string) bool {
	found := false
	ast.Inspect(fd.Body, func(n ast.Node) bool {
		if se, ok := n.(*ast.SelectorExpr); ok && strings.HasSuffix(selString(se), suffix) {
			found = true
		}
		return !found
	})
	return found
}

// onlyProbes: the function mentions the selector, and every mention is the operand of a
// type assertion (it inspects the value, it does not call through it).
func onlyProbes(fd *ast.FuncDecl, suffix string) bool {
	total, asserted := 0, 0
	ast.Inspect(fd.Body, func(n ast.Node) bool {
		switch x := n.(type) {
		case *ast.TypeAssertExpr:
			if strings.HasSuffix(selString(x.X), suffix) {
				asserted++
			}
		case *ast.SelectorExpr:
			if strings.HasSuffix(selString(x), suffix) {
				total++
				return false
			}
		}
		return true
	})
	return total > 0 && total == asserted
}

func callsIn(n ast.Node, name string) bool {
	found := false
	ast.Inspect(n, func(x ast.Node) bool {
		if c, ok := x.(*ast.CallExpr); ok {
			if se, ok := c.Fun.(*ast.SelectorExpr); ok && se.Sel.Name == name {
				found = true
			}
		}
		return !found
	})
	return found
}

func mentionsNode(n ast.Node, suffix string) bool {
	found := false
	ast.Inspect(n, func(x ast.Node) bool {
		if se, ok := x.(*ast.SelectorExpr); ok && strings.HasSuffix(selString(se), suffix) {
			found = true
		}
		return !found
	})
	return found
}

// PackageVars is packageVars for the other properties' fact generators.
func PackageVars(dir string) ([]string, error) { return packageVars(dir) }

// packageVars lists the package-level variables of the non-test files of a directory.
func packageVars(dir string) ([]string, error) {
	ents, err := os.ReadDir(dir)
	if err != nil {
		return nil, err
	}
	fset := token.NewFileSet()
	var out []string
	for _, e := range ents {
		n := e.Name()
		if e.IsDir() || !strings.HasSuffix(n, ".go") || strings.HasSuffix(n, "_test.go") {
			continue
		}
		f, err := parser.ParseFile(fset, filepath.Join(dir, n), nil, 0)
		if err != nil {
			return nil, err
		}
		for _, d := range f.Decls {
			if gd, ok := d.(*ast.GenDecl); ok && gd.Tok == token.VAR {
				for _, sp := range gd.Specs {
					for _, id := range sp.(*ast.ValueSpec).Names {
						out = append(out, strconv.Quote(id.Name))
					}
				}
			}
		}
	}
	sort.Strings(out)
	return out, nil
}

func callsMethod(fd *ast.FuncDecl, name string) bool {
	found := false
	ast.Inspect(fd.Body, func(n ast.Node) bool {
		if c, ok := n.(*ast.CallExpr); ok {
			if se, ok := c.Fun.(*ast.SelectorExpr); ok && se.Sel.Name == name {
				found = true
			}
			if id, ok := c.Fun.(*ast.Ident); ok && id.Name == name {
				found = true
			}
		}
		return !found
	})
	return found
}

// Facts regenerates lean/XmppModel/Generated/C05.lean: the lock discipline of
// every function of the root package that touches the output encoder.
func Facts(repo string) (string, error) {
	fds, err := PackageFuncs(repo)
	if err != nil {
		return "", err
	}
	type row struct{ name, class string }
	var rows []row
	var probes []string
	twLocks, closeUnlocks := "none", "none"
	for _, fd := range fds {
		rn := recvName(fd)
		name := fd.Name.Name
		if rn != "" && rn != "Session" {
			name = rn + "." + name
		}
		if rn == "Session" && fd.Name.Name == "TokenWriter" {
			ok := false
			if len(fd.Body.List) >= 2 {
				if es, isE := fd.Body.List[0].(*ast.ExprStmt); isE && isCall(es.X, ".out.Lock") {
					if rs, isR := fd.Body.List[len(fd.Body.List)-1].(*ast.ReturnStmt); isR && len(rs.Results) == 1 {
						if u, isU := rs.Results[0].(*ast.UnaryExpr); isU {
							if cl, isC := u.X.(*ast.CompositeLit); isC && selString(cl.Type) == "lockWriteCloser" {
								ok = true
							}
						}
					}
				}
			}
			twLocks = fmt.Sprintf("some %v", ok)
		}
		if rn == "lockWriteCloser" && fd.Name.Name == "Close" {
			ok := false
			for _, st := range fd.Body.List {
				if ds, isD := st.(*ast.DeferStmt); isD && isCall(ds.Call, ".m.Unlock") {
					ok = true
				}
			}
			closeUnlocks = fmt.Sprintf("some %v", ok)
		}
		if !mentions(fd, ".out.e") {
			continue
		}
		class := "unlocked"
		switch {
		case onlyProbes(fd, ".out.e"):
			// looks at the encoder's state (type assertion), writes nothing: its callers must
			// hold the lock (fact probeCallers)
			class = "probe"
			probes = append(probes, fd.Name.Name)
		case rn == "lockWriteCloser":
			class = "holder"
		case fd.Name.Name == "negotiateSession" || fd.Name.Name == "writeStreamFeatures":
			// stream negotiation: runs before NewSession hands the session to its user
			class = "setup"
		case LocksWholeBody(fd):
			class = "locked"
		}
		rows = append(rows, row{name, class})
	}
	sort.Slice(rows, func(i, j int) bool { return rows[i].name < rows[j].name })
	var sb strings.Builder
	sb.WriteString("-- GENERATED by `harness facts C05` from the root package of the repository; do not edit.\n")
	sb.WriteString("namespace XmppModel.Generated.C05\n\n")
	var l []string
	for _, r := range rows {
		l = append(l, fmt.Sprintf("(%q, %q)", r.name, r.class))
	}
	if len(rows) == 0 {
		sb.WriteString("def transmitFns : Option (List (String × String)) := none\n")
	} else {
		fmt.Fprintf(&sb, "/-- every function that mentions `….out.e` and how it is protected -/\ndef transmitFns : Option (List (String × String)) := some [%s]\n", strings.Join(l, ", "))
	}
	// every caller of a probe is itself a locked function or a method of the lock holder
	classOf := map[string]string{}
	for _, r := range rows {
		classOf[r.name] = r.class
	}
	var pc []string
	for _, fd := range fds {
		rn := recvName(fd)
		name := fd.Name.Name
		if rn != "" && rn != "Session" {
			name = rn + "." + name
		}
		for _, p := range probes {
			if callsMethod(fd, p) {
				cl := classOf[name]
				if cl == "" {
					cl = "unlocked"
					if LocksWholeBody(fd) {
						cl = "locked"
					}
				}
				pc = append(pc, fmt.Sprintf("(%q, %q)", name, cl))
			}
		}
	}
	sort.Strings(pc)
	fmt.Fprintf(&sb, "def probeCallers : Option (List (String × String)) := some [%s]\n", strings.Join(pc, ", "))
	// methods of stanzaEncoder: anything besides EncodeToken could touch the depth counter
	// behind the model's back (a Flush that resets it, …)
	var sem []string
	guards := map[string]bool{}
	for _, fd := range fds {
		if recvName(fd) == "stanzaEncoder" {
			sem = append(sem, strconv.Quote(fd.Name.Name))
		}
		name := fd.Name.Name
		if rn := recvName(fd); rn != "" && rn != "Session" {
			name = rn + "." + name
		}
		// calls outputBroken in an if that returns, before any other statement mentions .out.e
		for _, st := range Stmts(fd) {
			if is, ok := st.(*ast.IfStmt); ok && callsIn(is.Cond, "outputBroken") {
				guards[name] = true
				break
			}
			if mentionsNode(st, ".out.e") {
				if _, isDefer := st.(*ast.DeferStmt); !isDefer {
					break
				}
			}
		}
	}
	sort.Strings(sem)
	fmt.Fprintf(&sb, "def stanzaEncoderMethods : Option (List String) := some [%s]\n", strings.Join(sem, ", "))
	var gl []string
	for _, n := range []string{"Encode", "EncodeElement", "send"} {
		gl = append(gl, fmt.Sprintf("(%q, %v)", n, guards[n]))
	}
	fmt.Fprintf(&sb, "def brokenGuard : Option (List (String × Bool)) := some [%s]\n", strings.Join(gl, ", "))
	// package-level variables of internal/marshal: state shared between calls and sessions
	mg, err := packageVars(filepath.Join(repo, "internal", "marshal"))
	if err != nil {
		sb.WriteString("def marshalGlobals : Option (List String) := none\n")
	} else {
		fmt.Fprintf(&sb, "def marshalGlobals : Option (List String) := some [%s]\n", strings.Join(mg, ", "))
	}
	// where the address the encoder stamps comes from: every assignment to the from field of a
	// stanzaEncoder (assignment statements and composite literals), and what LocalAddr returns
	var ef []string
	localAddr := "none"
	for _, fd := range fds {
		if recvName(fd) == "stanzaEncoder" {
			continue // the encoder reading its own field
		}
		if recvName(fd) == "Session" && fd.Name.Name == "LocalAddr" && len(fd.Body.List) == 1 {
			if rs, ok := fd.Body.List[0].(*ast.ReturnStmt); ok && len(rs.Results) == 1 {
				localAddr = "some " + strconv.Quote(exprString(rs.Results[0]))
			}
		}
		ast.Inspect(fd.Body, func(n ast.Node) bool {
			switch x := n.(type) {
			case *ast.AssignStmt:
				for i, l := range x.Lhs {
					if se, ok := l.(*ast.SelectorExpr); ok && se.Sel.Name == "from" && i < len(x.Rhs) {
						ef = append(ef, fmt.Sprintf("(%q, %q)", fd.Name.Name, exprString(x.Rhs[i])))
					}
				}
			case *ast.CompositeLit:
				if selString(x.Type) == "stanzaEncoder" {
					for _, e := range x.Elts {
						if kv, ok := e.(*ast.KeyValueExpr); ok && selString(kv.Key) == "from" {
							ef = append(ef, fmt.Sprintf("(%q, %q)", fd.Name.Name, exprString(kv.Value)))
						}
					}
				}
			}
			return true
		})
	}
	sort.Strings(ef)
	fmt.Fprintf(&sb, "/-- every assignment to the `from` field of a stanzaEncoder: function and assigned expression -/\ndef encoderFrom : Option (List (String × String)) := some [%s]\n", strings.Join(ef, ", "))
	fmt.Fprintf(&sb, "/-- the expression `(*Session).LocalAddr` returns -/\ndef localAddrReturns : Option String := %s\n", localAddr)
	fmt.Fprintf(&sb, "def tokenWriterLocks : Option Bool := %s\n", twLocks)
	fmt.Fprintf(&sb, "def closeUnlocks : Option Bool := %s\n", closeUnlocks)
	sb.WriteString("\nend XmppModel.Generated.C05\n")
	return sb.String(), nil
}
