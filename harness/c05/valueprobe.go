package c05

// Probe facts of round D (see probe.go for the idea): run the real code on a complete finite
// domain inside `harness facts`.

import (
	"context"
	"encoding/xml"
	"fmt"
	"strings"
	"time"

	"mellium.im/xmlstream"

	"verifharness/common"
)

const xmlNS = "http://www.w3.org/XML/1998/namespace"

// ---- valueProbe: which of a value's encoding methods reaches the wire, and do namespaced
// attributes survive.  16 values, one for every subset of {WriteXML, TokenReader(), Token(),
// MarshalXML}; every method writes <v xmlns="urn:probe" src="<its letter>" xml:lang="en"
// a:flag="1"/> (a: = urn:probe:attr), reflection writes the same with src="p".

func probeToks(src string) []xml.Token {
	return el("urn:probe", "v", []xml.Attr{{Name: xml.Name{Local: "src"}, Value: src}, {Name: xml.Name{Space: xmlNS, Local: "lang"}, Value: "en"}, {Name: xml.Name{Space: "urn:probe:attr", Local: "flag"}, Value: "1"}})
}

type pBase struct {
	XMLName xml.Name `xml:"urn:probe v"`
	Src     string   `xml:"src,attr"`
	Lang    string   `xml:"http://www.w3.org/XML/1998/namespace lang,attr"`
	Flag    string   `xml:"urn:probe:attr flag,attr"`
}

type mixW struct{}

func (mixW) WriteXML(w xmlstream.TokenWriter) (int, error) {
	return xmlstream.Copy(w, reader(probeToks("w")))
}

type mixM struct{}

func (mixM) TokenReader() xml.TokenReader { return reader(probeToks("m")) }

type mixR struct{ r xml.TokenReader }

func (m *mixR) Token() (xml.Token, error) { return m.r.Token() }

type mixX struct{}

func (mixX) MarshalXML(e *xml.Encoder, _ xml.StartElement) error {
	for _, t := range probeToks("x") {
		if err := e.EncodeToken(t); err != nil {
			return err
		}
	}
	return nil
}

type pv0001 struct {
	pBase
	mixX
}

type pv0010 struct {
	pBase
	*mixR
}

type pv0011 struct {
	pBase
	*mixR
	mixX
}

type pv0100 struct {
	pBase
	mixM
}

type pv0101 struct {
	pBase
	mixM
	mixX
}

type pv0110 struct {
	pBase
	mixM
	*mixR
}

type pv0111 struct {
	pBase
	mixM
	*mixR
	mixX
}

type pv1000 struct {
	pBase
	mixW
}

type pv1001 struct {
	pBase
	mixW
	mixX
}

type pv1010 struct {
	pBase
	mixW
	*mixR
}

type pv1011 struct {
	pBase
	mixW
	*mixR
	mixX
}

type pv1100 struct {
	pBase
	mixW
	mixM
}

type pv1101 struct {
	pBase
	mixW
	mixM
	mixX
}

type pv1110 struct {
	pBase
	mixW
	mixM
	*mixR
}

type pv1111 struct {
	pBase
	mixW
	mixM
	*mixR
	mixX
}

func probeValue(code string) interface{} {
	base := pBase{Src: "p", Lang: "en", Flag: "1"}
	switch code {
	case "----":
		return base
	case "---x":
		return pv0001{base, mixX{}}
	case "--r-":
		return pv0010{base, &mixR{reader(probeToks("r"))}}
	case "--rx":
		return pv0011{base, &mixR{reader(probeToks("r"))}, mixX{}}
	case "-m--":
		return pv0100{base, mixM{}}
	case "-m-x":
		return pv0101{base, mixM{}, mixX{}}
	case "-mr-":
		return pv0110{base, mixM{}, &mixR{reader(probeToks("r"))}}
	case "-mrx":
		return pv0111{base, mixM{}, &mixR{reader(probeToks("r"))}, mixX{}}
	case "w---":
		return pv1000{base, mixW{}}
	case "w--x":
		return pv1001{base, mixW{}, mixX{}}
	case "w-r-":
		return pv1010{base, mixW{}, &mixR{reader(probeToks("r"))}}
	case "w-rx":
		return pv1011{base, mixW{}, &mixR{reader(probeToks("r"))}, mixX{}}
	case "wm--":
		return pv1100{base, mixW{}, mixM{}}
	case "wm-x":
		return pv1101{base, mixW{}, mixM{}, mixX{}}
	case "wmr-":
		return pv1110{base, mixW{}, mixM{}, &mixR{reader(probeToks("r"))}}
	case "wmrx":
		return pv1111{base, mixW{}, mixM{}, &mixR{reader(probeToks("r"))}, mixX{}}
	}
	return nil
}

func probeValues() (string, error) {
	var rows []string
	for _, entry := range []string{"enc", "encel"} {
		for _, w := range []string{"-", "w"} {
			for _, m := range []string{"-", "m"} {
				for _, r := range []string{"-", "r"} {
					for _, x := range []string{"-", "x"} {
						code := w + m + r + x
						rs, err := newSess(cfgs[0])
						if err != nil {
							return "", err
						}
						var cerr error
						if !common.WithTimeout(10*time.Second, func() {
							if entry == "enc" {
								cerr = rs.S.Encode(context.Background(), probeValue(code))
							} else {
								cerr = rs.S.EncodeElement(context.Background(), probeValue(code), xml.StartElement{Name: xml.Name{Space: "urn:probe:start", Local: "s"}})
							}
							rs.S.TokenWriter().Close()
						}) || cerr != nil {
							return "", fmt.Errorf("valueProbe %s %s: %v", entry, code, cerr)
						}
						toks, perr := parseInStream(nsClient, rs.Out.Bytes())
						rs.In.Close()
						if perr != nil || len(toks) == 0 {
							return "", fmt.Errorf("valueProbe %s %s: wire %q: %v", entry, code, rs.Out.Bytes(), perr)
						}
						st, ok := toks[0].(xml.StartElement)
						if !ok {
							return "", fmt.Errorf("valueProbe %s %s: wire %q", entry, code, rs.Out.Bytes())
						}
						src, lang, flag, extra := "", false, false, 0
						for _, a := range st.Attr {
							switch {
							case a.Name.Space == "" && a.Name.Local == "src":
								src = a.Value
							case a.Name == xml.Name{Space: xmlNS, Local: "lang"} && a.Value == "en":
								lang = true
							case a.Name == xml.Name{Space: "urn:probe:attr", Local: "flag"} && a.Value == "1":
								flag = true
							default:
								extra++
							}
						}
						wantName := xml.Name{Space: "urn:probe", Local: "v"}
						if entry == "encel" {
							wantName = xml.Name{Space: "urn:probe:start", Local: "s"}
						}
						okEl := lang && flag && extra == 0 && st.Name == wantName && len(toks) == 2
						rows = append(rows, fmt.Sprintf("(%q, %q, %q, %v)", entry, code, src, okEl))
					}
				}
			}
		}
	}
	return "some [" + strings.Join(rows, ", ") + "]", nil
}

// ---- connWriteProbe: the net.Conn wrapper around a plain io.ReadWriter (what Session.Conn()
// returns) is handed "abcdefgh" while the transport answers with every script of two answers
// from {0, 3, 8 bytes accepted} x {no error, temporary, timeout, permanent}, and with every
// script of four answers from {(3, temporary), (0, temporary), (8, none)}.  Row: (script as
// (n, kind) pairs with kind 0..3, reported count, was an error reported, what the transport
// accepted).

func probeConnWrite() (string, error) {
	kinds := []string{"", "temp", "timeout", "perm"}
	type ans struct{ n, k int }
	var scripts [][]ans
	var alpha []ans
	for _, n := range []int{0, 3, 8} {
		for k := range kinds {
			alpha = append(alpha, ans{n, k})
		}
	}
	for _, a := range alpha {
		for _, b := range alpha {
			scripts = append(scripts, []ans{a, b})
		}
	}
	small := []ans{{3, 1}, {0, 1}, {8, 0}}
	for _, a := range small {
		for _, b := range small {
			for _, c := range small {
				for _, d := range small {
					scripts = append(scripts, []ans{a, b, c, d})
				}
			}
		}
	}
	var rows []string
	for _, sc := range scripts {
		rs, fw, err := newFaultSess(cfgs[0])
		if err != nil {
			return "", err
		}
		var script []resp
		var enc []string
		for _, a := range sc {
			script = append(script, resp{a.n, kinds[a.k]})
			enc = append(enc, fmt.Sprintf("(%d, %d)", a.n, a.k))
		}
		rs.Out.Take()
		fw.arm(0, script)
		var n int
		var werr error
		if !common.WithTimeout(10*time.Second, func() { n, werr = rs.S.Conn().Write([]byte("abcdefgh")) }) {
			return "", fmt.Errorf("connWriteProbe: Write stalled")
		}
		var acc []string
		for _, b := range rs.Out.Take() {
			acc = append(acc, fmt.Sprint(int(b)))
		}
		rows = append(rows, fmt.Sprintf("([%s], %d, %v, [%s])", strings.Join(enc, ", "), n, werr != nil, strings.Join(acc, ", ")))
		rs.In.Close()
	}
	return "some [" + strings.Join(rows, ",\n  ") + "]", nil
}
