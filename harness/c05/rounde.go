package c05

// Round E: a call that RETURNS nil has put its element on the output stream at that moment,
// whoever is queued for the output lock behind it.
//
//	queued <ns> <from> <entry> <start|-> <toks> <form> <wentry> <wmode> <wtoks> <order>
//	    ->  <status of the call> <status of the queued call> <wire when the call returned> <final wire>
//
// A token writer handle holds the output lock (nothing written).  The call under test (any
// entry point, any value form, exactly as in a `tx` line) is started and seen blocked in
// Mutex.Lock, then a second call W is started and seen blocked as well.  The handle is closed.
// W is a call that, once it has the lock, does NOT write for a while or not at all:
//
//	park      its token reader (Send, Encode) / its user (TokenWriter) parks before the first token,
//	          holding the lock; it completes its own element after the snapshot
//	fail0     its token reader fails on the first token: the call returns an error, nothing written
//	notstart  Send of a reader whose first token is not a start element: errNotStart
//
// The wire is read the moment the call under test has returned (W parked under the lock or gone:
// nobody else can write or flush in between).  `order` is what happened: hw = the call got
// the lock before W (the usual outcome: Go's mutex wakes waiters in FIFO order), wh = W got it
// first (then W's element precedes).  Class of seeded C05-19 ("group commit": the flush at the
// end of send is skipped when another sender is queued - and that sender never flushes).
// Model: SendFlush LTS (Lean), theorem C05_returned_on_wire; the driver runs the LTS on the
// observed order and prints both wires.

import (
	"context"
	"encoding/xml"
	"fmt"
	"runtime"
	"strings"
	"time"

	"verifharness/common"
)

// blockedCount: goroutines of this package's scenarios that wait for a mutex.
func blockedCount() int {
	buf := make([]byte, 1<<20)
	buf = buf[:runtime.Stack(buf, true)]
	n := 0
	for _, g := range strings.Split(string(buf), "\n\n") {
		// parked on the mutex's semaphore (wait reason in the header line), not merely inside
		// Lock (a goroutine that still spins there can overtake the waiters)
		head := g
		if i := strings.IndexByte(g, '\n'); i >= 0 {
			head = g[:i]
		}
		parked := strings.Contains(head, "[sync.Mutex.Lock") || strings.Contains(head, "[semacquire")
		if parked && strings.Contains(g, "sync.(*Mutex).Lock") && (strings.Contains(g, "c05.exec.func") || strings.Contains(g, "c05.(*ctxT).queued")) {
			n++
		}
	}
	return n
}

func waitBlocked(n int, d time.Duration) bool {
	deadline := time.Now().Add(d)
	for time.Now().Before(deadline) {
		if blockedCount() >= n {
			return true
		}
		time.Sleep(200 * time.Microsecond)
	}
	return false
}

var queuedW = [][2]string{
	{"send", "park"}, {"send", "fail0"}, {"send", "notstart"},
	{"enc", "park"}, {"enc", "fail0"},
	{"tw", "park"},
}

func (c *ctxT) queued(cfg cfgT, cl call, wentry, wmode string, wtoks []xml.Token) {
	r := c.r
	if c.stalls >= 3 || cl.denoted() == nil || len(wtoks) < 2 {
		return
	}
	rs, err := newSess(cfg)
	if err != nil {
		return
	}
	startF := "-"
	if cl.start != nil {
		startF = common.EncTok(*cl.start)
	}
	prefix := fmt.Sprintf("queued %s %s %s %s %s %s %s %s %s", cfg.ns, cfg.fromField(), cl.entry, startF, common.EncToks(cl.toks), cl.form, wentry, wmode, common.EncToks(wtoks))
	key := "queued/" + cl.entry + "/" + strings.SplitN(cl.form, ":", 2)[0] + "/" + wentry + "-" + wmode
	stall := func(what string) {
		c.stalls++
		line := prefix + " hw"
		r.Line(line, "STALL")
		r.Fail("lock-released", key, []string{r.Prop + " " + line}, what)
	}
	// the pre-holder
	w0 := rs.S.TokenWriter()
	released := false
	release := func() {
		if !released {
			released = true
			common.Recover(func() { w0.Close() })
		}
	}
	defer release()
	hDone := make(chan string, 1)
	go func() { hDone <- exec(rs.S, cl) }()
	if !waitBlocked(1, 2*time.Second) {
		select {
		case <-hDone:
			return // the call did not get as far as the lock (it failed before): not a case
		default:
		}
		stall("the call under test neither returned nor queued for the output lock")
		return
	}
	pr := &parkReader{t: wtoks, k: 0, park: -1, fail: wmode == "fail0", reached: make(chan struct{}, 1), gate: make(chan struct{})}
	if wmode == "park" {
		pr.park = 0
	}
	wDone := make(chan string, 1)
	go func() { // (*ctxT).queued.func: W
		var err error
		p := common.Recover(func() {
			switch {
			case wmode == "notstart":
				err = rs.S.Send(context.Background(), reader([]xml.Token{xml.CharData("x")}))
			case wentry == "send":
				err = rs.S.Send(context.Background(), pr)
			case wentry == "enc":
				err = rs.S.Encode(context.Background(), readerMarshaler{pr})
			default:
				w := rs.S.TokenWriter()
				pr.reached <- struct{}{}
				<-pr.gate
				for _, t := range wtoks {
					if err = w.EncodeToken(xml.CopyToken(t)); err != nil {
						break
					}
				}
				if e := w.Close(); err == nil {
					err = e
				}
			}
		})
		if p != "" {
			wDone <- "PANIC"
			return
		}
		wDone <- classify(err)
	}()
	bothQueued := waitBlocked(2, 2*time.Second)
	release()
	order, sH, sW := "hw", "", ""
	var snap []byte
	gateOpen := false
	openGate := func() {
		if !gateOpen {
			gateOpen = true
			close(pr.gate)
		}
	}
	defer openGate()
	select {
	case sH = <-hDone:
		snap = rs.Out.Bytes()
		if wmode == "park" {
			select {
			case <-pr.reached:
			case <-time.After(5 * time.Second):
				stall("the queued call never got the output lock after the first call returned")
				return
			}
		}
		openGate()
	case <-pr.reached:
		// W is parked under the lock.  If the call under test has returned as well it did so
		// BEFORE W got the lock (it cannot run while W is parked): order hw, and the wire is
		// still what it was when the call returned
		// (its status may still be on its way through exec's goroutine: a grace period; a call
		// that is really blocked behind W cannot return before the gate is opened)
		select {
		case sH = <-hDone:
			snap = rs.Out.Bytes()
		case <-time.After(50 * time.Millisecond):
			order = "wh"
		}
		openGate()
	case <-time.After(10 * time.Second):
		stall("neither the call under test nor the queued call went on after the lock was released")
		return
	}
	select {
	case sW = <-wDone:
	case <-time.After(10 * time.Second):
		stall("the queued call never returned")
		return
	}
	if sH == "" {
		select {
		case sH = <-hDone:
			snap = rs.Out.Bytes()
		case <-time.After(10 * time.Second):
			stall("the call under test never returned")
			return
		}
	}
	final := rs.Out.Bytes()
	line := prefix + " " + order
	lines := []string{r.Prop + " " + line}
	canonOf := func(b []byte) (string, []xml.Token, error) {
		toks, perr := parseInStream(cfg.ns, b)
		if perr != nil {
			return "MALFORMED", nil, perr
		}
		masked, _ := maskIDs(toks)
		return common.EncToks(common.SortedAttrs(masked)), masked, nil
	}
	cs, snapToks, serr := canonOf(snap)
	cf, finToks, ferr := canonOf(final)
	if sW != "ok" {
		sW = "fail"
	}
	obs := fmt.Sprintf("%s %s %s %s", sH, sW, cs, cf)
	if sH == "PANIC" || sW == "PANIC" {
		obs = "PANIC"
		r.Fail("total", key, lines, "panic")
	}
	r.Line(line, obs)
	r.Case(line, bothQueued && order == "hw", key+"/"+order)
	if sH != "ok" {
		return
	}
	// the property, independent of the model: the call returned nil, so one complete top-level
	// element denoting its arguments is on the wire NOW (the last one: in order wh W's precedes)
	exp, eerr := expected(cfg.ns, cfg.from, cl.denoted())
	if eerr != nil {
		return
	}
	judge := func(what string, toks []xml.Token, perr error, raw []byte) {
		els, stray := splitTop(toks)
		ok := perr == nil && !stray && len(els) > 0
		if ok {
			ok = false
			for _, e := range els {
				if same, _ := sameElement(e, exp); same {
					ok = true
				}
			}
		}
		if !ok {
			r.Fail("flushed", key, lines, fmt.Sprintf("%s (%s) returned nil while a %s call (%s) was queued for the output lock behind it, but %s its complete element is not on the output stream: %q", cl.entry, cl.form, wentry, wmode, what, clip(raw)))
		}
	}
	judge("at the moment it returned", snapToks, serr, snap)
	if serr == nil {
		judge("even after the queued call had ended", finToks, ferr, final)
	}
	if sW == "ok" {
		// W's own element: whole, once
		expW, e2 := expected(cfg.ns, cfg.from, wtoks)
		els, _ := splitTop(finToks)
		n := 0
		for _, e := range els {
			if same, _ := sameElement(e, expW); same && e2 == nil {
				n++
			}
		}
		same, _ := sameElement(exp, expW)
		if ferr != nil || (n != 1 && !same) || len(els) != 2 {
			r.Fail("atomic", key, lines, fmt.Sprintf("two queued calls that both returned nil: the wire is not their two complete elements: %q", clip(final)))
		}
	}
}

func (c *ctxT) queuedCorpus(cfg cfgT) {
	msg := el("", "message", at("type", "chat", "id", "first"), el("", "body", nil, xml.CharData("hi"))...)
	next := el("", "message", at("to", "juliet@example.com"), el("", "body", nil, xml.CharData("second"))...)
	q := el("urn:a", "query", at("a", "1"))
	st := xml.StartElement{Name: xml.Name{Local: "message"}, Attr: at("to", "x@example.org", "id", "e1")}
	calls := []call{
		{entry: "send", form: "reader", toks: msg},
		{entry: "sendel", form: "reader", toks: q, start: &st},
		{entry: "enc", form: "marshaler", toks: msg},
		{entry: "enc", form: "reader", toks: msg},
		{entry: "enc", form: "xmlm", toks: msg},
		{entry: "enc", form: "struct:0", toks: mustStructToks(0)},
		{entry: "encel", form: "marshaler", toks: q, start: &st},
		{entry: "tw", form: "reader", toks: msg},
		{entry: "msg", form: "reader", toks: msg},
		{entry: "pres", form: "reader", toks: el("", "presence", at("id", "p1"))},
		{entry: "iq", form: "reader", toks: el("", "iq", at("type", "result", "id", "r1"), q...)},
		{entry: "iq", form: "reader", toks: el("", "iq", at("type", "get", "id", "g1"), q...)},
		{entry: "send", form: "reader", toks: el("", "message", at("id", "big"), xml.CharData(strings.Repeat("B", 9000)))},
	}
	for _, cl := range calls {
		for _, w := range queuedW {
			c.queued(cfg, cl, w[0], w[1], next)
		}
	}
}

// queuedRandom: random calls (every entry point and value form of genCall that Session offers
// directly) with a random queued call behind.
func (c *ctxT) queuedRandom(rnd *common.Rand, n int) {
	for i := 0; i < n; i++ {
		cfg := cfgs[rnd.Intn(len(cfgs))]
		big := 0
		if i%6 == 0 {
			big = 3000 + rnd.Intn(12000)
		}
		var cl call
		for {
			cl = c.genCall(rnd, big)
			if cl.entry == "reply" || cl.entry == "replyel" || cl.form == "writerto" || foreignRawStanza(cfg, cl.denoted()) || cl.denoted() == nil {
				continue // handler replies are written by Serve; WriterTo values are not flushed by Encode (known finding)
			}
			break
		}
		w := queuedW[rnd.Intn(len(queuedW))]
		wt := noForeign(cfg, call{entry: "send", toks: genElement(rnd, 0, true, 0)}).toks
		c.queued(cfg, cl, w[0], w[1], wt)
	}
}

// ---- round E: requests that are still waiting for their response (seeded C05-22) -----------
//
//	pend <n> <same|diff> <entry> <ns> <from> <start|-> <toks> <form>   ->  the observation of the `tx` line
//
// Session state left behind by EARLIER calls as a dimension of every transmit call: n requests
// (SendIQ get, SendMessage, SendPresence in turn) are on the wire and still waiting for their
// response - with the SAME id as the call under test or with other ids - when the call is made.
// The property does not know such state: the element on the wire denotes the call's arguments
// (the caller's id included), so the observation must be that of the plain `tx` line and the
// oracle is the one of every single call (`check`).

func plainID(toks []xml.Token) string {
	if len(toks) == 0 {
		return ""
	}
	s, ok := toks[0].(xml.StartElement)
	if !ok {
		return ""
	}
	for _, a := range s.Attr {
		if a.Name.Space == "" && a.Name.Local == "id" {
			return a.Value
		}
	}
	return ""
}

func (c *ctxT) pending(cfg cfgT, cl call, n int, mode string) {
	r := c.r
	den := cl.denoted()
	id := plainID(den)
	if c.stalls >= 3 || den == nil || (mode == "same" && id == "") || n < 1 {
		return
	}
	rs, err := newSess(cfg)
	if err != nil {
		return
	}
	ctx, cancel := context.WithCancel(context.Background())
	defer cancel()
	q := el("urn:pend", "q", nil)
	for i := 0; i < n; i++ {
		pid := id
		if mode != "same" {
			pid = fmt.Sprintf("other-%d", i)
		}
		i := i
		go common.Recover(func() {
			switch i % 3 {
			case 0:
				if resp, _ := rs.S.SendIQ(ctx, reader(el("", "iq", at("type", "get", "id", pid), q...))); resp != nil {
					resp.Close()
				}
			case 1:
				if resp, _ := rs.S.SendMessage(ctx, reader(el("", "message", at("type", "chat", "id", pid), q...))); resp != nil {
					resp.Close()
				}
			default:
				if resp, _ := rs.S.SendPresence(ctx, reader(el("", "presence", at("id", pid), q...))); resp != nil {
					resp.Close()
				}
			}
		})
		// one after the other: each is on the wire (so registered) before the next is made
		deadline := time.Now().Add(3 * time.Second)
		for {
			toks, perr := parseInStream(cfg.ns, rs.Out.Bytes())
			els, _ := splitTop(toks)
			if perr == nil && len(els) == i+1 {
				break
			}
			if time.Now().After(deadline) {
				c.stalls++
				return
			}
			time.Sleep(200 * time.Microsecond)
		}
	}
	rs.Out.Take()
	line := fmt.Sprintf("pend %d %s %s", n, mode, strings.TrimPrefix(cl.line(cfg), "tx "))
	lines := []string{r.Prop + " " + line}
	status := exec(rs.S, cl)
	wire := rs.Out.Take()
	was := c.failed
	c.failed = false
	obs := c.check(cfg, cl, status, wire, lines)
	c.failed = c.failed || was
	r.Line(line, obs)
	r.Case(line, status == "ok", fmt.Sprintf("pend/%s/%s/%s", mode, cl.entry, strings.SplitN(cl.form, ":", 2)[0]))
}

func (c *ctxT) pendingCorpus(cfg cfgT) {
	q := el("urn:a", "query", at("a", "1"))
	st := xml.StartElement{Name: xml.Name{Local: "message"}, Attr: at("to", "x@example.org", "id", "dup-1")}
	calls := []call{
		{entry: "iq", form: "reader", toks: el("", "iq", at("type", "get", "id", "dup-1"), q...)},
		{entry: "iq", form: "reader", toks: el("", "iq", at("type", "set", "id", "dup-1"), q...)},
		{entry: "iq", form: "reader", toks: el("", "iq", at("type", "result", "id", "dup-1"), q...)},
		{entry: "iq", form: "el", toks: el("", "iq", at("type", "get", "id", "dup-1"), q...)},
		{entry: "iq", form: "encv", toks: el("", "iq", at("type", "get", "id", "dup-1"), q...)},
		{entry: "msg", form: "reader", toks: el("", "message", at("type", "chat", "id", "dup-1"), q...)},
		{entry: "msg", form: "el", toks: el("", "message", at("type", "chat", "id", "dup-1"), q...)},
		{entry: "pres", form: "reader", toks: el("", "presence", at("id", "dup-1"), q...)},
		{entry: "pres", form: "encv", toks: el("", "presence", at("id", "dup-1"))},
		{entry: "send", form: "reader", toks: el("", "iq", at("type", "get", "id", "dup-1"), q...)},
		{entry: "sendel", form: "reader", toks: q, start: &st},
		{entry: "enc", form: "marshaler", toks: el("", "message", at("id", "dup-1"), q...)},
		{entry: "tw", form: "reader", toks: el("", "presence", at("id", "dup-1"))},
	}
	for _, cl := range calls {
		c.pending(cfg, cl, 1, "same")
		c.pending(cfg, cl, 3, "same")
		c.pending(cfg, cl, 2, "diff")
	}
}

func (c *ctxT) pendingRandom(rnd *common.Rand, n int) {
	for i := 0; i < n; i++ {
		cfg := cfgs[rnd.Intn(len(cfgs))]
		var cl call
		for k := 0; ; k++ {
			cl = c.genCall(rnd, 0)
			if cl.entry == "reply" || cl.entry == "replyel" || cl.form == "writerto" || cl.denoted() == nil {
				continue
			}
			if k < 20 && plainID(cl.denoted()) == "" {
				continue // prefer calls that carry an id of their own
			}
			break
		}
		mode := "same"
		if rnd.Chance(1, 4) || plainID(cl.denoted()) == "" {
			mode = "diff"
		}
		c.pending(cfg, cl, 1+rnd.Intn(3), mode)
	}
}
