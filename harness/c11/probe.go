package c11

// Probe facts: the real exported API is run on a complete finite domain and the
// resulting tables are emitted (Generated.C11.localByteProbe, forbidden,
// partLenProbe).  They describe what the checks of jid.go *do*, so they do not
// change when localChecks / resourceChecks / normalizeDomainpart are rewritten
// (lookup table instead of bytes.ContainsAny, helpers, other constant names) and
// they do change when a character stops being rejected or a limit moves.

import (
	"fmt"
	"sort"
	"strings"

	"mellium.im/xmpp/jid"
)

func accepted(f func() (jid.JID, error)) (ok bool, panicked bool) {
	var err error
	if p := guard(func() { _, err = f() }); p != "" {
		return false, true
	}
	return err == nil, false
}

// probeLocalBytes: every ASCII byte and every fullwidth form U+FF01..U+FF5E as a
// localpart, alone and next to an ordinary letter, through New, Parse-free
// WithLocal and New again; entries are keyed by the single byte PRECIS maps the
// input to (the checks run on the normalised form).  rejected[o] = the code
// rejects a localpart that PRECIS accepts and whose normalised form contains o.
func probeLocalBytes() (table map[byte]bool, ok bool) {
	table = map[byte]bool{}
	base, err := jid.New("", "example.net", "")
	if err != nil {
		return nil, false
	}
	var inputs []string
	for c := 0; c < 128; c++ {
		inputs = append(inputs, string(rune(c)))
	}
	for r := rune(0xFF01); r <= 0xFF5E; r++ {
		inputs = append(inputs, string(r))
	}
	for _, in := range inputs {
		o, err := nL(in)
		if err != nil || len(o) != 1 {
			continue // PRECIS rejects it (or maps it to something longer): nothing to learn
		}
		for _, ctx := range []string{"%s", "x%s", "%sx", "x%sx"} {
			l := fmt.Sprintf(ctx, in)
			if n, err := nL(l); err != nil || len(n) != len(ctx)-1 {
				continue
			}
			a1, p1 := accepted(func() (jid.JID, error) { return jid.New(l, "example.net", "") })
			a2, p2 := accepted(func() (jid.JID, error) { return base.WithLocal(l) })
			if p1 || p2 || a1 != a2 {
				return nil, false
			}
			if prev, seen := table[o[0]]; seen && prev != !a1 {
				return nil, false // not a function of the normalised byte
			}
			table[o[0]] = !a1
		}
	}
	return table, len(table) > 0
}

var probeLens = []int{0, 1, 2, 1022, 1023, 1024, 1025, 2047}

// domainOfLen: a domainpart whose normalised form has n bytes (labels of at most
// 63 letters), checked against the IDNA oracle.
func domainOfLen(n int) (string, bool) {
	var sb strings.Builder
	for sb.Len() < n {
		k := n - sb.Len()
		if k > 63 {
			k = 63
			if n-sb.Len()-63 == 1 { // do not leave room for a dot only
				k = 62
			}
		}
		sb.WriteString(strings.Repeat("a", k))
		if sb.Len() < n {
			sb.WriteString(".")
		}
	}
	d := sb.String()
	if n == 0 {
		return d, true
	}
	o, err := toUnicode(d)
	return d, err == nil && len(o) == n && !strings.HasSuffix(d, ".")
}

// probeLens: is a part whose normalised form has n bytes accepted?  (local, domain,
// resource), through New and through the With* methods.
func probePartLens() (rows [][3]bool, ok bool) {
	base, err := jid.New("l", "example.net", "r")
	if err != nil {
		return nil, false
	}
	for _, n := range probeLens {
		s := strings.Repeat("a", n)
		d, dok := domainOfLen(n)
		if !dok {
			return nil, false
		}
		if n > 0 {
			if o, err := nL(s); err != nil || len(o) != n {
				return nil, false
			}
			if o, err := nR(s); err != nil || len(o) != n {
				return nil, false
			}
		}
		var row [3]bool
		for k, fs := range [3][2]func() (jid.JID, error){
			{func() (jid.JID, error) { return jid.New(s, "example.net", "") }, func() (jid.JID, error) { return base.WithLocal(s) }},
			{func() (jid.JID, error) { return jid.New("", d, "") }, func() (jid.JID, error) { return base.WithDomain(d) }},
			{func() (jid.JID, error) { return jid.New("", "example.net", s) }, func() (jid.JID, error) { return base.WithResource(s) }},
		} {
			a1, p1 := accepted(fs[0])
			a2, p2 := accepted(fs[1])
			if p1 || p2 || a1 != a2 {
				return nil, false
			}
			row[k] = a1
		}
		rows = append(rows, row)
	}
	return rows, true
}

func probeFacts(sb *strings.Builder) {
	if t, ok := probeLocalBytes(); ok {
		var keys []int
		for k := range t {
			keys = append(keys, int(k))
		}
		sort.Ints(keys)
		var all, rej []string
		for _, k := range keys {
			all = append(all, fmt.Sprintf("(0x%02x, %v)", k, t[byte(k)]))
			if t[byte(k)] {
				rej = append(rej, fmt.Sprintf("0x%02x", k))
			}
		}
		fmt.Fprintf(sb, "/-- for every byte `o` that is the PRECIS (UsernameCaseMapped) form of an ASCII character or of a\nfullwidth form: does the real New / WithLocal reject a localpart whose normalised form contains `o`\n(alone, first, last, in the middle)? -/\ndef localByteProbe : Option (List (UInt8 × Bool)) := some [%s]\n\n", strings.Join(all, ", "))
		fmt.Fprintf(sb, "/-- the rejected ones -/\ndef forbidden : Option (List UInt8) := some [%s]\n\n", strings.Join(rej, ", "))
	} else {
		sb.WriteString("def localByteProbe : Option (List (UInt8 × Bool)) := none\n\ndef forbidden : Option (List UInt8) := none\n\n")
	}
	if rows, ok := probePartLens(); ok {
		var el []string
		for i, n := range probeLens {
			el = append(el, fmt.Sprintf("(%d, %v, %v, %v)", n, rows[i][0], rows[i][1], rows[i][2]))
		}
		fmt.Fprintf(sb, "/-- (n, local, domain, resource): is a part whose normalised form has `n` bytes accepted by the real\nNew and by WithLocal / WithDomain / WithResource (they must agree)? -/\ndef partLenProbe : Option (List (Nat × Bool × Bool × Bool)) := some [%s]\n", strings.Join(el, ", "))
	} else {
		sb.WriteString("def partLenProbe : Option (List (Nat × Bool × Bool × Bool)) := none\n")
	}
}
