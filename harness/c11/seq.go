package c11

// Operation sequences on a pool of live JID values (clause `immutable`).
//
// A jid.JID is a value: no operation on one JID may change what any other JID
// value reports.  The packed representation shares backing arrays between
// values (Bare, Domain, Copy and plain assignment return slices of the
// receiver's array, possibly with spare capacity), so this is a property of
// operation *sequences*, not of single calls: after EVERY operation all live
// values are read again (String and the three parts) and compared with what
// they reported when they were created.
//
// Protocol line (one line = one whole sequence, self-contained):
//
//	seq <op>;<op>;…      -> <report>,<report>,…   one report per operation, in order
//
// op (fields joined by ':', byte strings hex, oracle fields as in the other lines):
//
//	P:<s>:<nl>:<nr>:<ip6>:<ip4>:<idna>:<idna2>            v := Parse(s)
//	N:<l>:<d>:<r>:<nl>:<nr>:<ip6>:<ip4>:<idna>:<idna2>    v := New(l,d,r)
//	B:<i>  D:<i>  C:<i>                                   v := v_i.Bare() / v_i.Domain() / v_i (copy by value, Copy())
//	L:<i>:<l>:<nl>                                        v := v_i.WithLocal(l)
//	M:<i>:<d>:<ip6>:<ip4>:<idna>:<idna2>                  v := v_i.WithDomain(d)
//	R:<i>:<r>:<nr>                                        v := v_i.WithResource(r)
//	A:<i>:<s>:<nl>:<nr>:<ip6>:<ip4>:<idna>:<idna2>        v := v_i; (&v).UnmarshalXMLAttr(s)
//
// report = <data>/<ll>/<dl> as read at the END of the sequence, or `err` when the
// operation failed (such a slot is never used again).  The model answers with the
// values the pure functions return: equality means no later operation disturbed
// an earlier value (refinement of the value semantics by the sharing
// implementation).

import (
	"encoding/xml"
	"fmt"
	"strconv"
	"strings"

	"mellium.im/xmpp/jid"

	"verifharness/common"
)

type sop struct {
	kind    byte
	i       int
	a, b, c string
}

type live struct {
	j       jid.JID
	ok      bool
	origin  byte
	created string // enc + String() when created
}

func colon(s string) string { return strings.ReplaceAll(s, " ", ":") }

func (o sop) enc(c *ctx) string {
	switch o.kind {
	case 'P':
		return "P:" + common.HexS(o.a) + ":" + colon(c.splitOracles(o.a))
	case 'N':
		return fmt.Sprintf("N:%s:%s:%s:%s", common.HexS(o.a), common.HexS(o.b), common.HexS(o.c), colon(oracles(o.a, o.b, o.c)))
	case 'L':
		return fmt.Sprintf("L:%d:%s:%s", o.i, common.HexS(o.a), orcL(o.a))
	case 'M':
		return fmt.Sprintf("M:%d:%s:%s", o.i, common.HexS(o.a), colon(domOracles(o.a)))
	case 'R':
		return fmt.Sprintf("R:%d:%s:%s", o.i, common.HexS(o.a), orc(nR(o.a)))
	case 'A':
		return fmt.Sprintf("A:%d:%s:%s", o.i, common.HexS(o.a), colon(c.splitOracles(o.a)))
	}
	return fmt.Sprintf("%c:%d", o.kind, o.i)
}

func decodeSeq(s string) ([]sop, error) {
	var ops []sop
	un := func(x string) string { b, _ := common.UnHex(x); return string(b) }
	for _, t := range strings.Split(s, ";") {
		f := strings.Split(t, ":")
		if len(f) < 2 || len(f[0]) != 1 {
			return nil, fmt.Errorf("bad op %q", t)
		}
		o := sop{kind: f[0][0]}
		switch o.kind {
		case 'P':
			o.a = un(f[1])
		case 'N':
			if len(f) < 4 {
				return nil, fmt.Errorf("bad op %q", t)
			}
			o.a, o.b, o.c = un(f[1]), un(f[2]), un(f[3])
		case 'B', 'D', 'C':
			o.i, _ = strconv.Atoi(f[1])
		case 'L', 'M', 'R', 'A':
			if len(f) < 3 {
				return nil, fmt.Errorf("bad op %q", t)
			}
			o.i, _ = strconv.Atoi(f[1])
			o.a = un(f[2])
		default:
			return nil, fmt.Errorf("bad op %q", t)
		}
		ops = append(ops, o)
	}
	return ops, nil
}

func readAll(j jid.JID) (s string) {
	defer func() {
		if p := recover(); p != nil {
			s = fmt.Sprintf("PANIC(%v)", p)
		}
	}()
	return enc(j) + " " + common.HexS(j.String())
}

func slash(e string) string { return strings.ReplaceAll(e, " ", "/") }

// runSeq executes a sequence on the real package; after every operation every
// live value is read again.
func (c *ctx) runSeq(ops []sop, class string) {
	r := c.r
	var parts []string
	for _, o := range ops {
		parts = append(parts, o.enc(c))
	}
	line := "seq " + strings.Join(parts, ";")
	lines := []string{r.Prop + " " + line}
	var vals []*live
	reported := map[string]bool{}
	usable := func(i int) bool { return i >= 0 && i < len(vals) && vals[i].ok }
	for n, o := range ops {
		var v jid.JID
		var err error
		if o.kind != 'P' && o.kind != 'N' && !usable(o.i) {
			// a sequence that refers to a failed slot is not meaningful; stop here
			r.Hist["seq-dangling"]++
			return
		}
		p := guard(func() {
			switch o.kind {
			case 'P':
				v, err = jid.Parse(o.a)
			case 'N':
				v, err = jid.New(o.a, o.b, o.c)
			case 'B':
				v = vals[o.i].j.Bare()
			case 'D':
				v = vals[o.i].j.Domain()
			case 'C':
				v = vals[o.i].j
				v = v.Copy()
			case 'L':
				v, err = vals[o.i].j.WithLocal(o.a)
			case 'M':
				v, err = vals[o.i].j.WithDomain(o.a)
			case 'R':
				v, err = vals[o.i].j.WithResource(o.a)
			case 'A':
				v = vals[o.i].j
				// an undecodable value clears the receiver and reports the error: the slot stays live
				_ = (&v).UnmarshalXMLAttr(xml.Attr{Name: xml.Name{Local: "j"}, Value: o.a})
			}
		})
		if p != "" {
			c.fail("total", "seq-"+string(o.kind), lines, "operation %d (%c) of the sequence panicked: %s", n, o.kind, p)
			return
		}
		nv := &live{j: v, ok: err == nil, origin: o.kind}
		if nv.ok {
			nv.created = readAll(v)
		}
		vals = append(vals, nv)
		// every live value must still report what it reported when it was created
		for k, lv := range vals[:len(vals)-1] {
			if !lv.ok {
				continue
			}
			if now := readAll(lv.j); now != lv.created {
				recv := byte('-')
				if o.kind != 'P' && o.kind != 'N' {
					recv = vals[o.i].origin
				}
				key := fmt.Sprintf("%c-on-%c:changed-%c", o.kind, recv, lv.origin)
				if !reported[key] {
					reported[key] = true
					c.fail("immutable", key, lines, "operation %d (%s) changed value %d: it reported %q when created and reports %q now", n, o.enc(c), k, lv.created, now)
				}
				lv.created = now // report each disturbance once
			}
		}
	}
	var rep []string
	for _, lv := range vals {
		if !lv.ok {
			rep = append(rep, "err")
			continue
		}
		rep = append(rep, slash(enc(lv.j)))
	}
	r.Line(line, strings.Join(rep, ","))
	r.Case(line, true, class)
}

// seqAlphabet: the operations tried on every live index during the exhaustive part.
func seqAlphabet(full bool) []sop {
	a := []sop{{kind: 'B'}, {kind: 'C'}, {kind: 'L', a: "x"}, {kind: 'M', a: "c"}, {kind: 'R', a: "x"}, {kind: 'R', a: ""}}
	if full {
		a = append(a, sop{kind: 'D'}, sop{kind: 'L', a: ""}, sop{kind: 'R', a: "yyyyyyyyyyyy"}, sop{kind: 'A', a: ""}, sop{kind: 'A', a: "q@r/s"})
	}
	return a
}

// enumSeqs runs every sequence `seed; op…` with up to depth further operations,
// shortest first (every prefix is itself one of the sequences).
func (c *ctx) enumSeqs(seed sop, depth int, full bool) int {
	n := 0
	alpha := seqAlphabet(full)
	for d := 0; d <= depth; d++ {
		var rec func(cur []sop)
		rec = func(cur []sop) {
			if len(cur) == d+1 {
				c.runSeq(cur, "seq-exhaustive")
				n++
				return
			}
			for i := 0; i < len(cur); i++ {
				for _, o := range alpha {
					o.i = i
					rec(append(append([]sop(nil), cur...), o))
				}
			}
		}
		rec([]sop{seed})
	}
	return n
}

func (c *ctx) shortPart(table []string) string {
	for k := 0; k < 8; k++ {
		if s := c.genPart(table); len(s) <= 40 {
			return s
		}
	}
	return "a"
}

func (c *ctx) randomSeq() {
	rnd := c.r.Rnd
	n := 2 + rnd.Intn(11)
	ops := []sop{{kind: 'P', a: assemble(c.shortPart(locals), c.shortPart(domains), c.shortPart(resources))}}
	if rnd.Chance(2, 3) {
		ops[0].a = []string{"juliet@example.com/étage", "a@b/日本", "romeo@example.net/orchard", "example.net/r", "a@[::1]/ß"}[rnd.Intn(5)]
	}
	for len(ops) < n {
		i := rnd.Intn(len(ops))
		var o sop
		switch rnd.Intn(12) {
		case 0:
			o = sop{kind: 'P', a: assemble(c.shortPart(locals), c.shortPart(domains), c.shortPart(resources))}
		case 1:
			o = sop{kind: 'N', a: c.shortPart(locals), b: c.shortPart(domains), c: c.shortPart(resources)}
		case 2, 3:
			o = sop{kind: 'B', i: i}
		case 4:
			o = sop{kind: 'D', i: i}
		case 5:
			o = sop{kind: 'C', i: i}
		case 6:
			o = sop{kind: 'L', i: i, a: c.shortPart(locals)}
		case 7:
			o = sop{kind: 'M', i: i, a: c.shortPart(domains)}
		case 8, 9, 10:
			o = sop{kind: 'R', i: i, a: c.shortPart(resources)}
		default:
			o = sop{kind: 'A', i: i, a: assemble(c.shortPart(locals), c.shortPart(domains), c.shortPart(resources))}
		}
		ops = append(ops, o)
	}
	// drop operations that refer to a slot whose operation fails: run a dry pass
	// with the real package to find them (the sequence stays a function of the seed)
	c.runSeq(c.pruneSeq(ops), "seq-random")
}

// pruneSeq redirects references to failed slots to slot 0 when that one is live,
// otherwise cuts the sequence there.
func (c *ctx) pruneSeq(ops []sop) []sop {
	var ok []bool
	var vals []jid.JID
	out := ops[:0:0]
	for _, o := range ops {
		if o.kind != 'P' && o.kind != 'N' && !(o.i < len(ok) && ok[o.i]) {
			if len(ok) > 0 && ok[0] {
				o.i = 0
			} else {
				break
			}
		}
		var v jid.JID
		var err error
		if guard(func() {
			switch o.kind {
			case 'P':
				v, err = jid.Parse(o.a)
			case 'N':
				v, err = jid.New(o.a, o.b, o.c)
			case 'B':
				v = vals[o.i].Bare()
			case 'D':
				v = vals[o.i].Domain()
			case 'C', 'A':
				v = vals[o.i]
			case 'L':
				v, err = vals[o.i].WithLocal(o.a)
			case 'M':
				v, err = vals[o.i].WithDomain(o.a)
			case 'R':
				v, err = vals[o.i].WithResource(o.a)
			}
		}) != "" {
			err = fmt.Errorf("panic")
		}
		out = append(out, o)
		ok = append(ok, err == nil)
		vals = append(vals, v)
	}
	return out
}

// sequences is the part of the runner that exercises operation sequences.
func (c *ctx) sequences() {
	r := c.r
	// corpus: the witness of seeded C11-5 and its sibling form, shortest first
	for _, ops := range [][]sop{
		{{kind: 'P', a: "juliet@example.com/étage"}, {kind: 'B', i: 0}, {kind: 'R', i: 1, a: "x"}},
		{{kind: 'P', a: "juliet@example.com/orchard"}, {kind: 'B', i: 0}, {kind: 'R', i: 1, a: "balcony"}, {kind: 'R', i: 1, a: "chamber"}},
		{{kind: 'P', a: "a@b/r"}, {kind: 'D', i: 0}, {kind: 'R', i: 1, a: "x"}, {kind: 'L', i: 1, a: "y"}},
		{{kind: 'P', a: "a@b/r"}, {kind: 'C', i: 0}, {kind: 'A', i: 1, a: "q@r/s"}, {kind: 'A', i: 0, a: "//"}},
	} {
		c.runSeq(ops, "seq-corpus")
	}
	n := c.enumSeqs(sop{kind: 'P', a: "a@b/étage"}, r.Pick(3, 3), true)
	n += c.enumSeqs(sop{kind: 'P', a: "b"}, 2, true)
	if !r.Quick() {
		n += c.enumSeqs(sop{kind: 'N', a: "", b: "[::1]", c: "日本"}, 4, false)
	}
	r.Exhaustive = append(r.Exhaustive, fmt.Sprintf("every sequence of up to 3 (reduced alphabet, thorough: 4) operations from {Bare, Domain, copy, WithLocal, WithDomain, WithResource (shorter, empty, longer), UnmarshalXMLAttr} applied to any earlier value after an initial Parse/New: %d sequences, all live values re-read after every operation", n))
	for k, m := 0, r.Pick(1500, 40000); k < m; k++ {
		c.randomSeq()
	}
}
