package c11

// Probes over the COMPLETE domain of Unicode scalar values (round E).
//
// The canonical-form theorems hold for every behaviour of PRECIS / IDNA that satisfies
// Norm.Lib; until round D those hypotheses were only tested on whatever the generators
// produced, and one of them (idempotence of UsernameCaseMapped) was false for inputs no
// table contained.  Here every scalar value c (U+0000..U+10FFFF without the surrogates) is
// put into a few contexts per part and
//
//   - scalarCanonical: the property itself is probed on the real package: whenever New
//     returns an address, Parse of its string form returns an equal address with the same
//     string form (count of failures per context, all must be 0);
//   - libProbe: every field of Norm.Lib is probed on the real libraries (count of outputs
//     that violate it, all must be 0).
//
// A bump of golang.org/x/text or x/net that changes any of this changes the facts.

import (
	"bytes"
	"fmt"
	"strings"
	"sync"
	"unicode/utf8"

	"mellium.im/xmpp/jid"
)

type scalarCtx struct {
	name string
	mk   func(c string) (l, d, r string)
}

var scalarCtxs = []scalarCtx{
	{"local:c+mark", func(c string) (string, string, string) { return c + "́", "example.net", "" }},
	{"local:a+c", func(c string) (string, string, string) { return "a" + c, "example.net", "" }},
	{"resource:c+mark", func(c string) (string, string, string) { return "", "example.net", c + "́" }},
	{"domain:c+a", func(c string) (string, string, string) { return "", c + "a", "" }},
	{"domain:a+c", func(c string) (string, string, string) { return "", "a" + c, "" }},
}

var libFields = []string{"nL-nonempty", "nL-utf8", "nR-idempotent", "nR-nonempty", "nR-utf8", "idna-utf8", "idna-clean"}

type scalarResult struct {
	canon   []int
	lib     []int
	witness []string
	unstabL int // informational: enforced localparts that are not fixed points of the profile
}

func probeScalars() (res scalarResult, ok bool) {
	const workers = 4
	parts := make([]scalarResult, workers)
	oks := make([]bool, workers)
	var wg sync.WaitGroup
	for w := 0; w < workers; w++ {
		wg.Add(1)
		go func(w int) {
			defer wg.Done()
			defer func() {
				if recover() != nil {
					oks[w] = false
				}
			}()
			oks[w] = true
			pr := &parts[w]
			pr.canon = make([]int, len(scalarCtxs))
			pr.lib = make([]int, len(libFields))
			bad := func(k int, in string) {
				pr.lib[k]++
				if len(pr.witness) < 3 {
					pr.witness = append(pr.witness, fmt.Sprintf("%s fails on %q", libFields[k], in))
				}
			}
			for c := rune(w); c <= 0x10ffff; c += workers {
				if c >= 0xd800 && c <= 0xdfff {
					continue
				}
				cs := string(c)
				for k, sc := range scalarCtxs {
					l, d, r := sc.mk(cs)
					j, err := jid.New(l, d, r)
					if err != nil {
						continue
					}
					s := j.String()
					again, err := jid.Parse(s)
					if err != nil || !again.Equal(j) || again.String() != s {
						pr.canon[k]++
						if len(pr.witness) < 3 {
							pr.witness = append(pr.witness, fmt.Sprintf("%s: New(%q, %q, %q) = %q, Parse of that = %q (%v)", sc.name, l, d, r, s, again.String(), err))
						}
					}
				}
				for _, in := range []string{cs + "́", "a" + cs} {
					if out, err := nL(in); err == nil {
						if len(out) == 0 {
							bad(0, in)
						}
						if !utf8.Valid(out) {
							bad(1, in)
						}
						if again, err := nL(string(out)); err != nil || !bytes.Equal(again, out) {
							pr.unstabL++
						}
					}
					if out, err := nR(in); err == nil {
						if again, err := nR(string(out)); err != nil || !bytes.Equal(again, out) {
							bad(2, in)
						}
						if len(out) == 0 {
							bad(3, in)
						}
						if !utf8.Valid(out) {
							bad(4, in)
						}
					}
				}
				for _, in := range []string{cs + "a", "a" + cs} {
					if ip6(in) || ip4(in) {
						continue
					}
					if out, err := toUnicode(in); err == nil {
						if !utf8.Valid(out) {
							bad(5, in)
						}
						if bytes.ContainsAny(out, "@/") {
							bad(6, in)
						}
					}
				}
			}
		}(w)
	}
	wg.Wait()
	res.canon = make([]int, len(scalarCtxs))
	res.lib = make([]int, len(libFields))
	for w := range parts {
		if !oks[w] {
			return res, false
		}
		for k, n := range parts[w].canon {
			res.canon[k] += n
		}
		for k, n := range parts[w].lib {
			res.lib[k] += n
		}
		res.unstabL += parts[w].unstabL
		res.witness = append(res.witness, parts[w].witness...)
	}
	return res, true
}

func scalarFacts(sb *strings.Builder) {
	res, ok := probeScalars()
	if !ok {
		sb.WriteString("\ndef scalarCanonical : Option (List (String × Nat)) := none\n\ndef libProbe : Option (List (String × Nat)) := none\n")
		return
	}
	for k, w := range res.witness {
		if k < 6 {
			fmt.Fprintf(sb, "\n-- %s", strings.ReplaceAll(w, "\n", " "))
		}
	}
	fmt.Fprintf(sb, "\n-- informational: %d enforced localparts (contexts c+U+0301, a+c) are not fixed points of UsernameCaseMapped; the code rejects them\n", res.unstabL)
	var el []string
	for k, sc := range scalarCtxs {
		el = append(el, fmt.Sprintf("(%q, %d)", sc.name, res.canon[k]))
	}
	fmt.Fprintf(sb, "\n/-- for every Unicode scalar value c in the named context: number of addresses the real New returns\nwhose string form does not parse to an equal address with the same string form -/\ndef scalarCanonical : Option (List (String × Nat)) := some [%s]\n", strings.Join(el, ", "))
	el = nil
	for k, f := range libFields {
		el = append(el, fmt.Sprintf("(%q, %d)", f, res.lib[k]))
	}
	fmt.Fprintf(sb, "\n/-- for every Unicode scalar value c (inputs c+U+0301 and a+c for the two PRECIS profiles, c+a and a+c\nfor ToUnicode): number of outputs of the real libraries that violate the named field of Norm.Lib -/\ndef libProbe : Option (List (String × Nat)) := some [%s]\n", strings.Join(el, ", "))
}
