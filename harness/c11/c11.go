// Package c11 drives package jid (property C11: JIDs are canonical).
//
// Protocol lines (byte strings hex, "-" empty; oracle fields are the results
// of the real external libraries on the inputs of the line, "!" = error):
//
//	split <safe> <s>                                   -> ok <l> <d> <r> | err
//	punsafe <s>                                        -> <data> <ll> <dl> <ok>
//	new <l> <d> <r> <nl> <nr> <ip6> <ip4> <idna> <idna2>   -> ok <data> <ll> <dl> | err
//	parse <s> <nl> <nr> <ip6> <ip4> <idna> <idna2>         -> ok <data> <ll> <dl> | err
//	withl <data> <ll> <dl> <l> <nl>                        -> ok … | err
//	withd <data> <ll> <dl> <d> <ip6> <ip4> <idna> <idna2>  -> ok … | err
//	withr <data> <ll> <dl> <r> <nr>                    -> ok … | err
//	str <data> <ll> <dl>                               -> <String()>
//	parts <data> <ll> <dl>                             -> <l> <d> <r> <bare> <domain>
//	eq <j1> <j2>                                       -> 0|1
//	utf8 <s>                                           -> 0|1
//	unattr / unelem <v> <oracles of its split>         -> <data> <ll> <dl> <ok>
//
// nl = precis.UsernameCaseMapped on the localpart, nr = precis.OpaqueString on
// the resourcepart, ip6/ip4 = the two net.ParseIP tests of normalizeDomainpart,
// idna = idna.Display.ToUnicode on the domainpart without one trailing dot,
// idna2 = ToUnicode on that result.
package c11

import (
	"bytes"
	"encoding/hex"
	"encoding/xml"
	"fmt"
	"net"
	"strconv"
	"strings"
	"unicode/utf8"

	"golang.org/x/net/idna"
	"golang.org/x/text/secure/precis"
	"mellium.im/xmpp/jid"

	"verifharness/common"
)

// ---- the external libraries, called the way jid.go calls them ------------------------------

func orc(b []byte, err error) string {
	if err != nil {
		return "!"
	}
	return common.Hex(b)
}

func nL(l string) ([]byte, error) { return precis.UsernameCaseMapped.Append(nil, []byte(l)) }

// orcL: the oracle field of the localpart.  `!` = the profile refuses it, `<hex>` = its
// enforced form, which the profile maps to itself, `<hex>~<second>` = the enforced form is
// NOT a fixed point: a second pass gives <second> (hex or `!`).  UsernameCaseMapped of
// golang.org/x/text is not idempotent (NFC composition after the case mapping looks pairs
// up with both runes truncated to 16 bits), so the driver needs both answers.
func orcL(l string) string {
	out, err := nL(l)
	if err != nil {
		return "!"
	}
	again, err2 := nL(string(out))
	if err2 == nil && bytes.Equal(again, out) {
		return common.Hex(out)
	}
	return common.Hex(out) + "~" + orc(again, err2)
}
func nR(r string) ([]byte, error) { return precis.OpaqueString.Append(nil, []byte(r)) }

func ip6(d string) bool {
	if l := len(d) - 1; l > 1 && d[0] == '[' && d[l] == ']' {
		if ip := net.ParseIP(d[1:l]); ip != nil && ip.To4() == nil {
			return true
		}
	}
	return false
}

func ip4(d string) bool {
	ip := net.ParseIP(d)
	return ip != nil && ip.To4() != nil
}

func toUnicode(d string) ([]byte, error) {
	s, err := idna.Display.ToUnicode(strings.TrimSuffix(d, "."))
	return []byte(s), err
}

// domOracles: ip6, ip4, idna of the domainpart without its trailing dot, and
// idna of that result (the second normalization pass of normalizeDomainpart).
func domOracles(d string) string {
	out, err := toUnicode(d)
	second := "!"
	if err == nil {
		second = orc(toUnicode2(string(out)))
	}
	return fmt.Sprintf("%s %s %s %s", common.B(ip6(d)), common.B(ip4(d)), orc(out, err), second)
}

func toUnicode2(d string) ([]byte, error) {
	s, err := idna.Display.ToUnicode(d)
	return []byte(s), err
}

func oracles(l, d, r string) string {
	return fmt.Sprintf("%s %s %s", orcL(l), orc(nR(r)), domOracles(d))
}

// ---- observations -----------------------------------------------------------------------------

type jv struct {
	j  jid.JID
	ok bool
}

// enc reads a JID through its accessors; a value whose accessors panic (a
// corrupt packed representation) is reported as such.
func enc(j jid.JID) (s string) {
	defer func() {
		if recover() != nil {
			s = "PANIC-IN-ACCESSOR"
		}
	}()
	l, d, r := j.Localpart(), j.Domainpart(), j.Resourcepart()
	return fmt.Sprintf("%s %d %d", common.HexS(l+d+r), len(l), len(d))
}

func obsRes(j jid.JID, err error, panicked string) string {
	switch {
	case panicked != "":
		return "PANIC"
	case err != nil:
		return "err"
	}
	return "ok " + enc(j)
}

func guard(f func()) (p string) {
	defer func() {
		if x := recover(); x != nil {
			p = fmt.Sprint(x)
		}
	}()
	f()
	return ""
}

const forbiddenLocal = `"&'/:<>@`

func assemble(l, d, r string) string {
	s := d
	if l != "" {
		s = l + "@" + s
	}
	if r != "" {
		s = s + "/" + r
	}
	return s
}

// refSplit: first '/', then the first '@' of what precedes it.
func refSplit(s string, safe bool) (l, d, r string, ok bool) {
	if i := strings.IndexByte(s, '/'); i >= 0 {
		r = s[i+1:]
		s = s[:i]
		if safe && r == "" {
			return "", "", "", false
		}
	}
	if i := strings.IndexByte(s, '@'); i >= 0 {
		if safe && i == 0 {
			return "", "", "", false
		}
		return s[:i], s[i+1:], r, true
	}
	return "", s, r, true
}

type ctx struct {
	r    *common.Run
	seen map[string]bool // JIDs already examined (by enc)
	pool []jid.JID       // some valid JIDs for eq / with*
}

func (c *ctx) fail(clause, key string, lines []string, format string, a ...interface{}) {
	c.r.Fail(clause, key, lines, fmt.Sprintf(format, a...))
}

// traits of a part, for coarse stable keys
func domainTrait(d string) string {
	switch {
	case d == "":
		return "domain-empty"
	case strings.HasSuffix(d, "."):
		return "domain-trailing-dot"
	case strings.ContainsAny(d, "@/"):
		return "domain-separator"
	}
	return "domain"
}

// canonical examines an address the package returned without error: the
// clauses of C11 that speak about one address.
func (c *ctx) canonical(j jid.JID, from []string, how string) {
	r := c.r
	e := enc(j)
	if p := guard(func() { _ = j.String(); _ = j.Bare().String(); _ = j.Domain().String(); _ = j.Equal(j) }); p != "" || e == "PANIC-IN-ACCESSOR" {
		c.fail("total", "accessors", from, "%s returned a value whose accessors panic: %s", how, p)
		return
	}
	l, d, res := j.Localpart(), j.Domainpart(), j.Resourcepart()
	// parts valid
	switch {
	case !utf8.ValidString(l) || !utf8.ValidString(d) || !utf8.ValidString(res):
		c.fail("parts-valid", "utf8", from, "%s returned parts that are not valid UTF-8: %q %q %q", how, l, d, res)
	case len(l) > 1023:
		c.fail("parts-valid", "long-local", from, "%s returned a localpart of %d bytes", how, len(l))
	case len(d) > 1023:
		c.fail("parts-valid", "long-domain", from, "%s returned a domainpart of %d bytes", how, len(d))
	case len(res) > 1023:
		c.fail("parts-valid", "long-resource", from, "%s returned a resourcepart of %d bytes", how, len(res))
	case d == "":
		c.fail("parts-valid", "domain-empty", from, "%s returned an empty domainpart (%q)", how, j.String())
	case strings.ContainsAny(l, forbiddenLocal):
		c.fail("parts-valid", "forbidden-local", from, "%s returned the localpart %q", how, l)
	}
	if c.seen[e] {
		return
	}
	c.seen[e] = true
	if len(c.pool) < 64 || r.Rnd.Chance(1, 50) {
		if len(c.pool) < 64 {
			c.pool = append(c.pool, j)
		} else {
			c.pool[r.Rnd.Intn(len(c.pool))] = j
		}
	}
	// accessors agree (model lines + oracle)
	s := j.String()
	r.Line("str "+e, common.HexS(s))
	b, dm := j.Bare(), j.Domain()
	r.Line("parts "+e, fmt.Sprintf("%s %s %s %s %s", common.HexS(l), common.HexS(d), common.HexS(res), enc(b), enc(dm)))
	lines := append(append([]string(nil), from...), r.Prop+" str "+e, r.Prop+" parts "+e)
	if s != assemble(l, d, res) {
		c.fail("accessors-agree", "string-vs-parts", lines, "String() = %q, parts %q %q %q", s, l, d, res)
	}
	if b.Localpart() != l || b.Domainpart() != d || b.Resourcepart() != "" || b.String() != assemble(l, d, "") {
		c.fail("accessors-agree", "bare", lines, "Bare() of %q is %q", s, b.String())
	}
	if dm.Localpart() != "" || dm.Domainpart() != d || dm.Resourcepart() != "" || dm.String() != d {
		c.fail("accessors-agree", "domain", lines, "Domain() of %q is %q", s, dm.String())
	}
	if !j.Equal(j) || !j.Equal(j.Copy()) || (res == "" && !j.Equal(b)) || (res != "" && j.Equal(b)) {
		c.fail("accessors-agree", "equal", lines, "Equal disagrees with the parts of %q", s)
	}
	// parsing the string form yields an equal address
	var j2 jid.JID
	var err error
	p := guard(func() { j2, err = jid.Parse(s) })
	pl := "parse " + common.HexS(s) + " " + c.splitOracles(s)
	r.Line(pl, obsRes(j2, err, p))
	lines2 := append(append([]string(nil), from...), r.Prop+" "+pl)
	switch {
	case p != "":
		c.fail("total", "parse", lines2, "Parse(%q) panicked: %s", s, p)
	case err != nil:
		c.fail("parse-idempotent", domainTrait(d)+"/reparse-error", lines2, "%s returned %q (parts %q %q %q) but Parse of that string fails: %v", how, s, l, d, res, err)
	case !j.Equal(j2):
		key := "resource"
		switch {
		case j2.Domainpart() != d:
			key = domainTrait(d)
		case j2.Localpart() != l:
			key = "local"
		}
		c.fail("parse-idempotent", key, lines2, "%s returned %q (parts %q %q %q); Parse(%q) = %q (parts %q %q %q)", how, s, l, d, res, s, j2.String(), j2.Localpart(), j2.Domainpart(), j2.Resourcepart())
	}
	// XML encodings round-trip (they go through Parse: when that already failed the cause is the same)
	if p == "" && err == nil && j.Equal(j2) {
		c.xmlRoundTrip(j, lines)
	}
}

type attrHolder struct {
	XMLName xml.Name `xml:"x"`
	J       jid.JID  `xml:"j,attr"`
}
type elemHolder struct {
	XMLName xml.Name `xml:"x"`
	J       jid.JID  `xml:"j"`
}

func (c *ctx) xmlRoundTrip(j jid.JID, lines []string) {
	s := j.String()
	var a2 attrHolder
	var e2 elemHolder
	var err1, err2 error
	p := guard(func() {
		var b []byte
		b, err1 = xml.Marshal(attrHolder{J: j})
		if err1 == nil {
			err1 = xml.Unmarshal(b, &a2)
		}
		b, err2 = xml.Marshal(elemHolder{J: j})
		if err2 == nil {
			err2 = xml.Unmarshal(b, &e2)
		}
	})
	switch {
	case p != "":
		c.fail("total", "xml", lines, "XML encoding of %q panicked: %s", s, p)
	case err1 != nil || !a2.J.Equal(j):
		c.fail("xml-roundtrip", "attr", lines, "attribute encoding of %q decodes to %q (%v)", s, a2.J.String(), err1)
	case err2 != nil || !e2.J.Equal(j):
		c.fail("xml-roundtrip", "element", lines, "element encoding of %q decodes to %q (%v)", s, e2.J.String(), err2)
	}
	c.marshalTokens(j)
	if len(c.seen)%4 == 0 || len(s) < 8 {
		c.elemVariants(s, lines)
	}
	// the decoding step on the token level, for the model
	for _, op := range []string{"unattr", "unelem"} {
		old := jid.MustParse("z")
		var err error
		if op == "unattr" {
			err = (&old).UnmarshalXMLAttr(xml.Attr{Name: xml.Name{Local: "j"}, Value: s})
		} else {
			d := xml.NewDecoder(strings.NewReader("<j>" + escText(s) + "</j>"))
			tok, _ := d.Token()
			if st, ok := tok.(xml.StartElement); ok {
				err = (&old).UnmarshalXML(d, st)
			}
		}
		c.r.Line(op+" "+common.HexS(s)+" "+c.splitOracles(s), enc(old)+" "+common.B(err == nil))
	}
}

// tokensOf tokenises an XML document with the real decoder.
func tokensOf(doc string) ([]xml.Token, error) {
	d := xml.NewDecoder(strings.NewReader(doc))
	var out []xml.Token
	for {
		t, err := d.Token()
		if err != nil {
			if err.Error() == "EOF" {
				return out, nil
			}
			return out, err
		}
		out = append(out, xml.CopyToken(t))
	}
}

// marshalTokens: what MarshalXML / MarshalXMLAttr write, re-read with the real decoder.
func (c *ctx) marshalTokens(j jid.JID) {
	e := enc(j)
	b, err := xml.Marshal(elemHolder{J: j})
	if err == nil {
		if toks, err := tokensOf(string(b)); err == nil && len(toks) >= 2 {
			c.r.Line("melem "+e, common.EncToks(toks[1:len(toks)-1]))
		}
	}
	if a, err := j.MarshalXMLAttr(xml.Name{Local: "j"}); err == nil {
		c.r.Line("mattr "+e, common.HexS(a.Value))
	}
}

// elemVariants decodes the element <j>…</j> with the text written in different ways
// (white space around it, comments, CDATA sections, a child element, nothing at all):
// UnmarshalXML parses exactly the character data that stands directly in the element.
func (c *ctx) elemVariants(s string, lines []string) {
	k := len(s) / 2
	for k > 0 && k < len(s) && !utf8.RuneStart(s[k]) {
		k--
	}
	cd := func(x string) string { return "<![CDATA[" + strings.ReplaceAll(x, "]]>", "]]]]><![CDATA[>") + "]]>" }
	for _, v := range []string{
		escText(s), " " + escText(s), escText(s) + "\n", "\n  " + escText(s) + "\n", "\t" + escText(s),
		"<!--c-->" + escText(s), escText(s[:k]) + "<!-- c -->" + escText(s[k:]), cd(s[:k]) + escText(s[k:]), cd(s),
		escText(s) + "<x>junk</x>", "<x>" + escText(s) + "</x>", escText(s[:k]) + "<x/>" + escText(s[k:]), "", " ", "<!--" + strings.ReplaceAll(escText(s), "--", "") + "-->",
	} {
		doc := "<j>" + v + "</j>"
		toks, err := tokensOf(doc)
		if err != nil || len(toks) < 2 {
			continue
		}
		inner := toks[1 : len(toks)-1]
		text, depth := "", 0
		for _, t := range inner {
			switch t := t.(type) {
			case xml.StartElement:
				depth++
			case xml.EndElement:
				depth--
			case xml.CharData:
				if depth == 0 {
					text += string(t)
				}
			}
		}
		old := jid.MustParse("z")
		var uerr error
		p := guard(func() {
			d := xml.NewDecoder(strings.NewReader(doc))
			tok, _ := d.Token()
			if st, ok := tok.(xml.StartElement); ok {
				uerr = (&old).UnmarshalXML(d, st)
			}
		})
		line := "unelemtoks " + common.EncToks(inner) + " " + c.splitOracles(text)
		if p != "" {
			c.r.Line(line, "PANIC")
			c.fail("total", "unmarshal-xml", append(append([]string(nil), lines...), c.r.Prop+" "+line), "UnmarshalXML of %q panicked: %s", doc, p)
			continue
		}
		c.r.Line(line, enc(old)+" "+common.B(uerr == nil))
		// property oracle: the element decodes to what Parse makes of exactly its character data
		want, werr := jid.Parse(text)
		if werr != nil {
			want = jid.MustParse("z")
		}
		if (uerr == nil) != (werr == nil) || !old.Equal(want) {
			c.fail("xml-roundtrip", "element-chardata", append(append([]string(nil), lines...), c.r.Prop+" "+line), "UnmarshalXML of %q gives %q (%v); Parse of its character data %q gives %q (%v)", doc, old.String(), uerr, text, want.String(), werr)
		}
	}
}

// zeroJID: the encodings of the zero value JID{}.
func (c *ctx) zeroJID() {
	var z jid.JID
	// hypothesis of C11_zero_jid_xml: ToUnicode("") = ""
	if out, err := toUnicode(""); err != nil || len(out) != 0 {
		c.r.Hist["hypothesis-fails:idna-empty"]++
		c.r.Notes = append(c.r.Notes, "hypothesis idna-empty fails: ToUnicode(\"\") is not the empty string")
	}
	c.marshalTokens(z)
	c.elemVariants("", []string{c.r.Prop + " melem - 0 0"})
	var a attrHolder
	b, err := xml.Marshal(attrHolder{})
	if err == nil {
		err = xml.Unmarshal(b, &a)
	}
	if err != nil || !a.J.Equal(z) {
		c.fail("xml-roundtrip", "zero-attr", []string{c.r.Prop + " mattr - 0 0"}, "the zero JID does not survive the attribute encoding: %q (%v)", a.J.String(), err)
	}
}

func escText(s string) string {
	var b bytes.Buffer
	_ = xml.EscapeText(&b, []byte(s))
	return b.String()
}

// splitOracles: the oracle fields for the parts Parse will normalise.
func (c *ctx) splitOracles(s string) string {
	l, d, r, ok := refSplit(s, true)
	if !ok {
		return "! ! 0 0 ! !"
	}
	return oracles(l, d, r)
}

// hypotheses of the theorems (Norm.Good), tested on the real libraries for the
// inputs at hand.  A failing hypothesis is not a failure of the property; it is
// counted, and the property-level checks of `canonical` decide.
func (c *ctx) hypotheses(l, d, r string) {
	h := c.r.Hist
	note := func(name, in string) {
		h["hypothesis-fails:"+name]++
		if len(c.r.Notes) < 20 {
			c.r.Notes = append(c.r.Notes, fmt.Sprintf("hypothesis %s fails on %q", name, in))
		}
	}
	// facts about the libraries that the theorems do NOT assume (the repaired code
	// defends against them); counted for the record only
	observe := func(name string) { h["observation:"+name]++ }
	for _, p := range []struct {
		name string
		f    func(string) ([]byte, error)
		in   string
	}{{"nL", nL, l}, {"nR", nR, r}} {
		if p.in == "" || !utf8.ValidString(p.in) {
			continue
		}
		out, err := p.f(p.in)
		if err != nil {
			continue
		}
		if len(out) == 0 {
			note(p.name+"-nonempty", p.in)
		}
		if !utf8.Valid(out) {
			note(p.name+"-utf8", p.in)
		}
		if again, err := p.f(string(out)); err != nil || !bytes.Equal(again, out) {
			if p.name == "nL" {
				// not a hypothesis any more (round E): UsernameCaseMapped is not idempotent
				// and the repaired code tests the fixed point itself (Norm.code)
				observe("nL-not-idempotent")
			} else {
				note(p.name+"-idempotent", p.in)
			}
		}
	}
	if !utf8.ValidString(d) {
		return
	}
	if ip6(d) || ip4(d) {
		if strings.ContainsAny(d, "@/") || d == "" || len(d) > 1023 {
			note("ip-clean", d)
		}
		return
	}
	out, err := toUnicode(d)
	if err != nil {
		return
	}
	if bytes.ContainsAny(out, "@/") {
		note("idna-clean", d)
	}
	if !utf8.Valid(out) {
		note("idna-utf8", d)
	}
	if !bytes.HasSuffix(out, []byte(".")) {
		if ip6(string(out)) || ip4(string(out)) {
			observe("idna-output-is-an-ip-literal")
		}
		if again, err := toUnicode(string(out)); err != nil || !bytes.Equal(again, out) {
			observe("idna-not-idempotent")
		}
	}
}

// str runs everything that starts from a string.
func (c *ctx) str(s string, class string) {
	r := c.r
	hs := common.HexS(s)
	defer func() {
		// an exported function or accessor panicked outside the guarded calls (a corrupt value)
		if p := recover(); p != nil {
			c.fail("total", "panic", []string{r.Prop + " parse " + hs + " " + c.splitOracles(s)}, "panic while examining %q: %v", s, p)
		}
	}()
	r.Line("utf8 "+hs, common.B(utf8.ValidString(s)))
	// splitting
	l, d, res, err := jid.SplitString(s)
	obs := "err"
	if err == nil {
		obs = fmt.Sprintf("ok %s %s %s", common.HexS(l), common.HexS(d), common.HexS(res))
	}
	r.Line("split 1 "+hs, obs)
	rl, rd, rr, rok := refSplit(s, true)
	if (err == nil) != rok || (rok && (l != rl || d != rd || res != rr)) {
		c.fail("split-law", "safe", []string{r.Prop + " split 1 " + hs}, "SplitString(%q) = %q %q %q (%v); first '/' then first '@' gives %q %q %q (ok=%v)", s, l, d, res, err, rl, rd, rr, rok)
	}
	var u jid.Unsafe
	var uerr error
	p := guard(func() { u, uerr = jid.ParseUnsafe(s) })
	if p != "" {
		r.Line("punsafe "+hs, "PANIC")
		c.fail("total", "parse-unsafe", []string{r.Prop + " punsafe " + hs}, "ParseUnsafe(%q) panicked: %s", s, p)
	} else {
		r.Line("punsafe "+hs, enc(u.JID)+" "+common.B(uerr == nil))
		ul, ud, ur, _ := refSplit(s, false)
		if uerr != nil || u.Localpart() != ul || u.Domainpart() != ud || u.Resourcepart() != ur {
			c.fail("split-law", "unsafe", []string{r.Prop + " punsafe " + hs}, "ParseUnsafe(%q) = %q %q %q (%v); want %q %q %q", s, u.Localpart(), u.Domainpart(), u.Resourcepart(), uerr, ul, ud, ur)
		}
		// accessors on an arbitrary packed value
		us := u.String()
		e := enc(u.JID)
		if !c.seen["u"+e] {
			c.seen["u"+e] = true
			r.Line("str "+e, common.HexS(us))
			b, dm := u.Bare(), u.Domain()
			r.Line("parts "+e, fmt.Sprintf("%s %s %s %s %s", common.HexS(u.Localpart()), common.HexS(u.Domainpart()), common.HexS(u.Resourcepart()), enc(b), enc(dm)))
			if us != assemble(ul, ud, ur) {
				c.fail("accessors-agree", "string-vs-parts", []string{r.Prop + " punsafe " + hs, r.Prop + " str " + e}, "unsafe %q: String() = %q, parts %q %q %q", s, us, ul, ud, ur)
			}
		}
	}
	// parsing
	var j jid.JID
	p = guard(func() { j, err = jid.Parse(s) })
	line := "parse " + hs + " " + c.splitOracles(s)
	r.Line(line, obsRes(j, err, p))
	r.Case("parse "+hs, err == nil, class)
	if rok {
		c.hypotheses(rl, rd, rr)
	}
	if p != "" {
		c.fail("total", "parse", []string{r.Prop + " " + line}, "Parse(%q) panicked: %s", s, p)
		return
	}
	// MustParse: the same function with the error turned into a panic that names the input and
	// the error (round D: every exported constructor is an entry point); its observation is a
	// second answer to the same `parse` line, so it is tied to the model's `parse` as well
	var mj jid.JID
	mp := guard(func() { mj = jid.MustParse(s) })
	mobs := "ok " + enc(mj)
	if mp != "" {
		mobs = "PANIC"
		if err != nil && strings.HasPrefix(mp, "jid: Parse(") && strings.HasSuffix(mp, err.Error()) {
			mobs = "err"
		}
	}
	r.Line(line, mobs)
	if mobs != obsRes(j, err, "") {
		c.fail("build-agree", "mustparse", []string{r.Prop + " " + line}, "Parse(%q) = %s (%v), MustParse: %s %s", s, obsRes(j, err, ""), err, mobs, mp)
	}
	if err == nil {
		c.canonical(j, []string{r.Prop + " " + line}, fmt.Sprintf("Parse(%q)", s))
		if n := j.Network(); n != "xmpp" {
			c.fail("accessors-agree", "network", []string{r.Prop + " " + line}, "Network() = %q", n)
		}
		var a net.Addr = j
		if a.String() != j.String() {
			c.fail("accessors-agree", "net-addr", []string{r.Prop + " " + line}, "as net.Addr: %q, String() %q", a.String(), j.String())
		}
	}
}

// triple runs everything that starts from three parts.
func (c *ctx) triple(l, d, res string, class string) {
	r := c.r
	defer func() {
		if p := recover(); p != nil {
			c.fail("total", "panic", []string{fmt.Sprintf("%s new %s %s %s %s", r.Prop, common.HexS(l), common.HexS(d), common.HexS(res), oracles(l, d, res))},
				"panic while examining the parts %q %q %q: %v", l, d, res, p)
		}
	}()
	c.hypotheses(l, d, res)
	var j jid.JID
	var err error
	p := guard(func() { j, err = jid.New(l, d, res) })
	line := fmt.Sprintf("new %s %s %s %s", common.HexS(l), common.HexS(d), common.HexS(res), oracles(l, d, res))
	r.Line(line, obsRes(j, err, p))
	r.Case(line, err == nil, class)
	lines := []string{r.Prop + " " + line}
	if p != "" {
		c.fail("total", "new", lines, "New(%q,%q,%q) panicked: %s", l, d, res, p)
		return
	}
	how := fmt.Sprintf("New(%q,%q,%q)", l, d, res)
	if err == nil {
		c.canonical(j, lines, how)
	}
	// building in steps agrees with building at once
	type step struct {
		name string
		f    func() (jid.JID, error, []string)
	}
	with := func(base jid.JID, op, arg, orcl string, f func() (jid.JID, error)) (jid.JID, error, []string) {
		var o jid.JID
		var e error
		ln := fmt.Sprintf("%s %s %s %s", op, enc(base), common.HexS(arg), orcl)
		pp := guard(func() { o, e = f() })
		r.Line(ln, obsRes(o, e, pp))
		if pp != "" {
			c.fail("total", op, []string{r.Prop + " " + ln}, "%s panicked: %s", op, pp)
			e = fmt.Errorf("panic")
		}
		return o, e, []string{r.Prop + " " + ln}
	}
	steps := []step{
		{"WithResource", func() (jid.JID, error, []string) {
			b, e := jid.New(l, d, "")
			if e != nil {
				return b, e, nil
			}
			return with(b, "withr", res, orc(nR(res)), func() (jid.JID, error) { return b.WithResource(res) })
		}},
		{"WithLocal", func() (jid.JID, error, []string) {
			b, e := jid.New("", d, res)
			if e != nil {
				return b, e, nil
			}
			return with(b, "withl", l, orcL(l), func() (jid.JID, error) { return b.WithLocal(l) })
		}},
		{"WithDomain", func() (jid.JID, error, []string) {
			b, e := jid.New(l, "example.net", res)
			if e != nil {
				return b, e, nil
			}
			return with(b, "withd", d, domOracles(d), func() (jid.JID, error) { return b.WithDomain(d) })
		}},
	}
	for _, st := range steps {
		o, e, ls := st.f()
		all := append(append([]string(nil), lines...), ls...)
		switch {
		case (e == nil) != (err == nil):
			c.fail("build-agree", st.name, all, "%s: err=%v, in steps through %s: err=%v", how, err, st.name, e)
		case e == nil && !o.Equal(j):
			c.fail("build-agree", st.name, all, "%s = %q, in steps through %s = %q", how, j.String(), st.name, o.String())
		case e == nil:
			c.canonical(o, all, st.name)
		}
	}
	// parsing the assembled string, when it splits back into the same parts
	s := assemble(l, d, res)
	if sl, sd, sr, ok := refSplit(s, true); ok && sl == l && sd == d && sr == res {
		var pj jid.JID
		var perr error
		pp := guard(func() { pj, perr = jid.Parse(s) })
		pl := "parse " + common.HexS(s) + " " + oracles(l, d, res)
		r.Line(pl, obsRes(pj, perr, pp))
		all := append(append([]string(nil), lines...), r.Prop+" "+pl)
		switch {
		case pp != "":
			c.fail("total", "parse", all, "Parse(%q) panicked: %s", s, pp)
		case (perr == nil) != (err == nil):
			c.fail("build-agree", "Parse", all, "%s: err=%v, Parse(%q): err=%v", how, err, s, perr)
		case perr == nil && !pj.Equal(j):
			c.fail("build-agree", "Parse", all, "%s = %q, Parse(%q) = %q", how, j.String(), s, pj.String())
		}
	}
	// replacing a part of some other valid address
	if len(c.pool) > 0 {
		b := c.pool[r.Rnd.Intn(len(c.pool))]
		for k, st := range []struct {
			op, arg, orcl string
			f             func() (jid.JID, error)
			want          func() (jid.JID, error)
		}{
			{"withl", l, orcL(l), func() (jid.JID, error) { return b.WithLocal(l) }, func() (jid.JID, error) { return jid.New(l, b.Domainpart(), b.Resourcepart()) }},
			{"withd", d, domOracles(d), func() (jid.JID, error) { return b.WithDomain(d) }, func() (jid.JID, error) { return jid.New(b.Localpart(), d, b.Resourcepart()) }},
			{"withr", res, orc(nR(res)), func() (jid.JID, error) { return b.WithResource(res) }, func() (jid.JID, error) { return jid.New(b.Localpart(), b.Domainpart(), res) }},
		} {
			if k != r.Rnd.Intn(3) {
				continue
			}
			o, e, ls := with(b, st.op, st.arg, st.orcl, st.f)
			w, we := st.want()
			switch {
			case (e == nil) != (we == nil):
				c.fail("build-agree", st.op, ls, "%s on %q with %q: err=%v, New of the parts: err=%v", st.op, b.String(), st.arg, e, we)
			case e == nil && !o.Equal(w):
				c.fail("build-agree", st.op, ls, "%s on %q with %q = %q, New of the parts = %q", st.op, b.String(), st.arg, o.String(), w.String())
			case e == nil:
				c.canonical(o, ls, st.op)
			}
		}
	}
}

func (c *ctx) eqPair(a, b jid.JID) {
	r := c.r
	eq := a.Equal(b)
	r.Line("eq "+enc(a)+" "+enc(b), common.B(eq))
	same := a.Localpart() == b.Localpart() && a.Domainpart() == b.Domainpart() && a.Resourcepart() == b.Resourcepart()
	if eq != same || eq != b.Equal(a) {
		c.fail("accessors-agree", "equal", []string{r.Prop + " eq " + enc(a) + " " + enc(b)}, "Equal(%q,%q) = %v, parts equal = %v", a.String(), b.String(), eq, same)
	}
}

func (c *ctx) equalPairs() {
	r := c.r
	for i := 0; i < len(c.pool); i++ {
		for k := 0; k < 3; k++ {
			a, b := c.pool[i], c.pool[r.Rnd.Intn(len(c.pool))]
			switch k {
			case 0:
				b = a.Bare()
			case 1:
				// the same bytes cut at other places
				l, d, res := a.Localpart(), a.Domainpart(), a.Resourcepart()
				switch r.Rnd.Intn(3) {
				case 0:
					b = jid.NewUnsafe(l, d+res, "").JID
				case 1:
					b = jid.NewUnsafe("", l+d, res).JID
				default:
					b = jid.NewUnsafe(l+d, res, "").JID
				}
			}
			c.eqPair(a, b)
		}
	}
}

// ---- generators -----------------------------------------------------------------------------------

var locals = []string{"", "a", "A", "user", "USER", "ｕｓｅｒ", "ß", "ẞ", "σ", "ς", "Σ", "é", "é", "İ", "ı", "ǅ", "ﬁ", "ª",
	"日本", "שלום", "abא", "ال", "a‍b", "a­b", "̀", "à", "1", "a.b", "a_b", "a-b", "a+b", "a b", "a b", " a",
	"a@b", "a/b", "a:b", "a\"b", "a&b", "a'b", "a<b", "a>b", "＠", "／", "﹫", "﹕", "＂", "＆", "＇", "＜", "＞", "\\20", "d'artagnan\\40musketeers",
	"\xff", "a\xc0\x80", "\xed\xa0\x80", "\x00", "a\x7f", "K", "ẞ", "ǆ", "Ǆ", "ΐ", "ΰ", "ŉ", "ᾼ", "ϓ", "ẛ̣", "ḍ̇", "q̣̇", "Å", "Å", "㎒", "①", "Ⅸ", "ⅸ",
	// a supplementary-plane rune whose low 16 bits are a cased letter, followed by a combining
	// mark that composes with that letter (x/text NFC looks the pair up truncated to 16 bits)
	"\U00010041\u0301", "x\U000E0045\u0300y", "\U00020055\u0308", "\U000F0041\u030a", "\U00100043\u0327", "\U00010391\u0301", "\U00010061\u0301", "a\U00030049\u0307",
	strings.Repeat("a", 1023), strings.Repeat("a", 1024), strings.Repeat("é", 511), strings.Repeat("é", 512), strings.Repeat("ẞ", 341), strings.Repeat("ẞ", 342), strings.Repeat("ǰ", 400)}

var domains = []string{"[fe80::1%a/b]", "[fe80::1%a@b]", "[::1%/]", "[fe80::1%25eth0]", "fe80::1%eth0", "\u2135a", "\u2136.com", "a\u2137", "\u2138z.example", "", "a", "b", "example.net", "EXAMPLE.NET", "example.net.", "example.net..", "example.net...", ".", "..", "a.", "a..", ".a", "a..b",
	"example。net", "example.net。", "example.net．", "example.net｡", "a｡", "。", "a.。", "a｡.", "ｅｘａｍｐｌｅ.net", "ex­ample.net",
	"xn--nxasmq6b", "xn--nxasmq6b.", "XN--NXASMQ6B", "xn--bcher-kva.example", "bücher.example", "BÜCHER.example", "bücher.example", "xn--", "xn--.com", "xn--a", "xn--a.com", "xn--fa-hia.de", "faß.de", "FASS.de", "fass.de",
	"straße.de", "STRASSE.de", "βόλος.com", "βόλοσ.com", "ΒΌΛΟΣ.com", "日本.jp", "日本。jp", "שלום.il", "aא.il", "אa.il", "1א.il", "a‌b.com", "a‍b.com", "न्‍.com",
	"127.0.0.1", "127.0.0.1.", "127.0.0.1..", "1.2.3.4", "01.2.3.4", "1.2.3", "256.1.1.1", "１２７.0.0.1", "[::1]", "[::1].", "[::]", "[1::2:3]", "[::ffff:1.2.3.4]", "[1.2.3.4]", "[::1", "::1", "[]", "[a]", "[fe80::1%eth0]", "[::1]]", "[[::1]]",
	"a@b", "a/b", "a b", "a_b", "-a", "a-", "a--b", "ab--c", "a.b-", "a。", "＠", "a／b", "a:5222", "a%b", "a\x00b", "\xff", "a\xc0\x80",
	"i̇.com", "İ.com", "ı.com", "ǅ.com", "ﬁ.com", "㎒.com", "①.com", "ª.com", "₨.com", "℡.com", "à.com", "̀a.com", "Å.com", "Å.com",
	strings.Repeat("a", 63) + ".com", strings.Repeat("a", 64) + ".com", strings.Repeat("a.", 511) + "a", strings.Repeat("a.", 512), strings.Repeat("a.", 512) + "a", strings.Repeat("é.", 341) + "a", strings.Repeat("é.", 342), strings.Repeat("a", 1023), strings.Repeat("a", 1024), strings.Repeat("a", 1023) + ".", strings.Repeat("a", 1024) + "."}

var resources = []string{"", "r", "R", "home", "a/b", "a@b", "/", "@", "//", " ", " r", "r ", "a b", "a b", "a　b", "a b", "ｒ", "ß", "ẞ", "é", "é", "Å", "Å", "ﬁ", "①", "日本", "שלום", "aא", "̀", "a‍b", "a­b",
	"\U00010041\u0301", "\U000E0045\u0300", "x\U00020055\u0308",
	"\x00", "a\x7f", "\t", "a\nb", "\r", "\xff", "a\xed\xa0\x80", " ", "　", "<", "&", "\"", "'", "]]>", "😀", "\U000e0001", "�", "\ufeff", " ",
	strings.Repeat("r", 1023), strings.Repeat("r", 1024), strings.Repeat("é", 511), strings.Repeat("é", 512), strings.Repeat("é", 341), strings.Repeat("é", 342), strings.Repeat("　", 341), strings.Repeat("　", 342), strings.Repeat("　", 1023)}

func (c *ctx) pick(l []string) string { return l[c.r.Rnd.Intn(len(l))] }

var runeRanges = [][2]rune{{0x20, 0x7e}, {0x20, 0x7e}, {0xa0, 0x17f}, {0x180, 0x24f}, {0x300, 0x36f}, {0x370, 0x3ff}, {0x400, 0x4ff}, {0x590, 0x5ff}, {0x600, 0x6ff}, {0x900, 0x97f},
	{0x1e00, 0x1eff}, {0x1f00, 0x1fff}, {0x2000, 0x206f}, {0x2100, 0x218f}, {0x2460, 0x24ff}, {0x3000, 0x303f}, {0x3040, 0x30ff}, {0x4e00, 0x4e80}, {0xac00, 0xac80}, {0xfb00, 0xfb4f}, {0xfe50, 0xfe6f}, {0xff00, 0xffef}, {0x1d400, 0x1d7ff}, {0x1f600, 0x1f64f}, {0x0, 0x1f}, {0xe0000, 0xe007f}}

func (c *ctx) randString(maxRunes int) string {
	rnd := c.r.Rnd
	n := rnd.Intn(maxRunes + 1)
	var b strings.Builder
	for i := 0; i < n; i++ {
		switch rnd.Intn(12) {
		case 0:
			b.WriteByte("@/.:\"&'<>[]-_% \\"[rnd.Intn(16)])
		case 1:
			b.WriteByte(byte(rnd.Intn(256)))
		case 2, 3, 4:
			b.WriteByte("abcxyzABZ019"[rnd.Intn(12)])
		case 5:
			if rnd.Intn(3) == 0 {
				// a BMP letter that has canonical compositions, shifted to a plane 1-16, then a mark
				base := []rune("AEIOUCNaeioucn\u0391\u0395\u0399\u03b1\u0415\u0418")[rnd.Intn(20)]
				b.WriteRune(rune(1+rnd.Intn(16))<<16 | base)
				b.WriteRune([]rune{0x300, 0x301, 0x302, 0x303, 0x308, 0x30a, 0x327, 0x306}[rnd.Intn(8)])
				break
			}
			fallthrough
		default:
			rg := runeRanges[rnd.Intn(len(runeRanges))]
			b.WriteRune(rg[0] + rune(rnd.Intn(int(rg[1]-rg[0]+1))))
		}
	}
	return b.String()
}

func (c *ctx) genPart(table []string) string {
	rnd := c.r.Rnd
	switch rnd.Intn(10) {
	case 0, 1, 2:
		return c.randString(6)
	case 3:
		return c.pick(table) + c.randString(2)
	case 4:
		return c.randString(2) + c.pick(table)
	}
	return c.pick(table)
}

func enumerate(alphabet string, n int, f func(string)) {
	buf := make([]byte, n)
	var rec func(i int)
	rec = func(i int) {
		if i == n {
			f(string(buf))
			return
		}
		for k := 0; k < len(alphabet); k++ {
			buf[i] = alphabet[k]
			rec(i + 1)
		}
	}
	rec(0)
}

// Run is the C11 runner.
func Run(r *common.Run) error {
	c := &ctx{r: r, seen: map[string]bool{}}
	if r.Replay != "" {
		lines, err := common.ReplayLines(r.Replay)
		if err != nil {
			return err
		}
		un := func(s string) string { b, _ := common.UnHex(s); return string(b) }
		for _, l := range lines {
			f := strings.Fields(l)
			if len(f) < 3 || f[0] != "C11" {
				continue
			}
			switch f[1] {
			case "parse", "split", "punsafe", "utf8", "unattr", "unelem":
				s := f[2]
				if f[1] == "split" && len(f) > 3 {
					s = f[3]
				}
				c.str(un(s), "replay")
			case "new":
				if len(f) >= 5 {
					c.triple(un(f[2]), un(f[3]), un(f[4]), "replay")
				}
			case "melem", "mattr":
				if len(f) >= 5 {
					data := un(f[2])
					ll, _ := strconv.Atoi(f[3])
					dl, _ := strconv.Atoi(f[4])
					if ll+dl <= len(data) {
						if len(data) == 0 {
							c.zeroJID()
						} else {
							c.triple(data[:ll], data[ll:ll+dl], data[ll+dl:], "replay")
						}
					}
				}
			case "unelemtoks":
				// the character data of the tokens, re-run through every way of writing it
				text := ""
				depth := 0
				for _, t := range strings.Split(f[2], ";") {
					p := strings.Split(t, ":")
					switch p[0] {
					case "S":
						depth++
					case "E":
						depth--
					case "C":
						if depth == 0 && len(p) > 1 {
							b, _ := hex.DecodeString(p[1])
							text += string(b)
						}
					}
				}
				c.elemVariants(text, nil)
				c.str(strings.TrimSpace(text), "replay")
			case "seq":
				ops, err := decodeSeq(f[2])
				if err != nil {
					return err
				}
				c.runSeq(ops, "replay")
			case "eq":
				if len(f) >= 8 {
					mk := func(data, ll, dl string) (jid.JID, bool) {
						d := un(data)
						a, _ := strconv.Atoi(ll)
						b, _ := strconv.Atoi(dl)
						if a+b > len(d) {
							return jid.JID{}, false
						}
						return jid.NewUnsafe(d[:a], d[a:a+b], d[a+b:]).JID, true
					}
					a, ok1 := mk(f[2], f[3], f[4])
					b, ok2 := mk(f[5], f[6], f[7])
					if ok1 && ok2 {
						c.pool = []jid.JID{a, b}
						c.eqPair(a, b)
					}
				}
			case "withl", "withd", "withr", "str", "parts":
				if len(f) >= 5 {
					data := un(f[2])
					ll, _ := strconv.Atoi(f[3])
					dl, _ := strconv.Atoi(f[4])
					if ll+dl <= len(data) {
						l, d, res := data[:ll], data[ll:ll+dl], data[ll+dl:]
						arg := ""
						if len(f) >= 6 {
							arg = un(f[5])
						}
						switch f[1] {
						case "withl":
							l = arg
						case "withd":
							d = arg
						case "withr":
							res = arg
						}
						c.triple(l, d, res, "replay")
					}
				}
			}
		}
		c.equalPairs()
		return nil
	}

	// corpus: past witnesses first
	for _, s := range []string{"\u2137z", "\u2136Z\u04ea", "a@\u2135b/r", "example.com..", "a..", "..", "a@b｡", "a@example.net。/r", "a@b．.", "example.net.", "a@b/c", "a/b@c", "a@b@c", "@b", "a@", "a@b/", "/", "@", ""} {
		c.str(s, "corpus")
	}
	for _, t := range [][3]string{{"", "[fe80::1%a/b]", ""}, {"a", "[fe80::1%x@y]", "r"}, {"", "example.com..", ""}, {"a", "b｡", "r"}, {"a", "b", "r"}, {"", "b", ""}, {"A", "B.", "R"}, {"a@", "b", ""}, {"", "[::1]", "r"}} {
		c.triple(t[0], t[1], t[2], "corpus")
	}

	// operation sequences on live values (clause immutable)
	c.sequences()
	c.zeroJID()

	// exhaustive: every string up to length L over {a @ / .}
	maxLen := r.Pick(6, 8)
	n := 0
	for k := 0; k <= maxLen; k++ {
		enumerate("a@/.", k, func(s string) { c.str(s, "exhaustive"); n++ })
	}
	r.Exhaustive = append(r.Exhaustive, fmt.Sprintf("all %d strings of length <= %d over {a @ / .}: SplitString, ParseUnsafe, Parse and every check on the result", n, maxLen))

	// the edge-case tables: every triple of the tables in the thorough tier, a sample in quick
	if r.Quick() {
		for _, l := range locals {
			c.triple(l, c.pick(domains), c.pick(resources), "table")
		}
		for _, d := range domains {
			c.triple(c.pick(locals), d, c.pick(resources), "table")
			c.triple("", d, "", "table")
			c.str(d, "table")
		}
		for _, res := range resources {
			c.triple(c.pick(locals), c.pick(domains), res, "table")
		}
	} else {
		for _, d := range domains {
			c.str(d, "table")
			for _, l := range locals {
				for _, res := range resources {
					if len(l)+len(res) > 1500 && r.Rnd.Chance(9, 10) {
						continue
					}
					if l != "" && res != "" && r.Rnd.Chance(3, 4) {
						continue
					}
					c.triple(l, d, res, "table")
				}
			}
		}
	}

	// random
	nRandom := r.Pick(6000, 150000)
	for k := 0; k < nRandom; k++ {
		l, d, res := c.genPart(locals), c.genPart(domains), c.genPart(resources)
		if r.Rnd.Chance(1, 3) {
			l = ""
		}
		if r.Rnd.Chance(1, 3) {
			res = ""
		}
		if len(l)+len(d)+len(res) > 3000 && r.Rnd.Chance(19, 20) {
			continue
		}
		c.triple(l, d, res, "random-parts")
		s := assemble(l, d, res)
		switch r.Rnd.Intn(4) {
		case 0:
			s = c.randString(12)
		case 1:
			s = s + c.randString(2)
		}
		c.str(s, "random-string")
	}
	c.equalPairs()
	return nil
}

// ---- facts -----------------------------------------------------------------------------------------

// Facts regenerates lean/XmppModel/Generated/C11.lean.  Every fact is a probe of the real
// package through its exported API (probe.go, alias.go); nothing is read from the source text.
func Facts(repo string) (string, error) {
	var sb strings.Builder
	sb.WriteString("-- GENERATED by `harness facts C11` by running the real package jid; do not edit.\n")
	sb.WriteString("namespace XmppModel.Generated.C11\n\n")
	probeFacts(&sb)
	aliasFacts(&sb)
	scalarFacts(&sb)
	sb.WriteString("\nend XmppModel.Generated.C11\n")
	return sb.String(), nil
}
