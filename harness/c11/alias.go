package c11

// The aliasing probe (round D; replaces the go/ast fact of the same name).
//
// writesOnFresh asks about BEHAVIOUR: does an operation of the package write into memory that
// belongs to a value that already exists?  It is answered by running the real operations on
// live values and looking at the memory: the backing array of the root value (the one New /
// Parse returned, found by reflection as the only byte-slice field of jid.JID whatever its
// name) is dumped up to its capacity before and after the operation; receivers are the root,
// its Bare / Domain / Bare.Domain windows (which share the root's array and have spare
// capacity holding the root's other parts) and a Copy; arguments are empty, shorter, of equal
// length, longer, and equal to what is there.  For the constructors (no receiver) the same
// call is made twice: the first result must keep its bytes and the two results must not
// share memory.  How the functions are written (helpers, names of locals and fields, append
// vs copy) does not matter; writing into a receiver's array does.

import (
	"bytes"
	"fmt"
	"reflect"
	"sort"
	"strings"
	"unsafe"

	"mellium.im/xmpp/jid"
)

// bytesOf returns the byte-slice field of a JID (nil if the representation has none or more
// than one: then the probe cannot see the memory and reports no table).
func bytesOf(j *jid.JID) (b []byte, ok bool) {
	v := reflect.ValueOf(j).Elem()
	n := 0
	var walk func(v reflect.Value)
	walk = func(v reflect.Value) {
		switch v.Kind() {
		case reflect.Struct:
			for i := 0; i < v.NumField(); i++ {
				walk(v.Field(i))
			}
		case reflect.Slice:
			if v.Type().Elem().Kind() == reflect.Uint8 {
				b = *(*[]byte)(unsafe.Pointer(v.UnsafeAddr()))
				n++
			}
		}
	}
	walk(v)
	return b, n == 1
}

func overlap(a, b []byte) bool {
	if cap(a) == 0 || cap(b) == 0 {
		return false
	}
	a, b = a[:cap(a)], b[:cap(b)]
	pa, pb := uintptr(unsafe.Pointer(&a[0])), uintptr(unsafe.Pointer(&b[0]))
	return pa < pb+uintptr(len(b)) && pb < pa+uintptr(len(a))
}

type aliasOp struct {
	name string
	args []string
	with func(j jid.JID, a string) (jid.JID, error) // nil: constructor
	mk   func(a string) (jid.JID, error)
}

func aliasOps() []aliasOp {
	parts := []string{"", "x", "cd", "xy", "b", "quite-a-bit-longer-than-anything-there", "\uff41\uff42"} // fullwidth: shrinks when normalised
	return []aliasOp{
		{name: "New", args: parts, mk: func(a string) (jid.JID, error) { return jid.New(a, "example.net", a) }},
		{name: "NewUnsafe", args: parts, mk: func(a string) (jid.JID, error) { return jid.NewUnsafe(a, "d", a).JID, nil }},
		{name: "WithLocal", args: parts, with: func(j jid.JID, a string) (jid.JID, error) { return j.WithLocal(a) }},
		{name: "WithDomain", args: []string{"b", "c", "example.org", "[::1]", "xn--bcher-kva.example"}, with: func(j jid.JID, a string) (jid.JID, error) { return j.WithDomain(a) }},
		{name: "WithResource", args: parts, with: func(j jid.JID, a string) (jid.JID, error) { return j.WithResource(a) }},
	}
}

var aliasRoots = []func() (jid.JID, error){
	func() (jid.JID, error) { return jid.Parse("a@b/cd") },
	func() (jid.JID, error) { return jid.Parse("b/cd") },
	func() (jid.JID, error) { return jid.Parse("a@b") },
	func() (jid.JID, error) { return jid.New("", "[::1]", "\u65e5\u672c") },
	func() (jid.JID, error) { return jid.New("\uff41\uff42", "example.net", "resource") }, // spare capacity left by the shrinking localpart
	func() (jid.JID, error) { return jid.NewUnsafe("lo", "do", "re").JID, nil },
}

var aliasShapes = []func(j jid.JID) jid.JID{
	func(j jid.JID) jid.JID { return j },
	func(j jid.JID) jid.JID { return j.Bare() },
	func(j jid.JID) jid.JID { return j.Domain() },
	func(j jid.JID) jid.JID { return j.Bare().Domain() },
	func(j jid.JID) jid.JID { return j.Copy() },
	func(j jid.JID) jid.JID { r, _ := j.WithResource(""); return r },
}

// probeAlias returns, per operation, whether it left every existing array untouched on the
// whole domain; ok=false if the memory of a value cannot be seen or an operation panics.
func probeAlias() (res map[string]bool, witness map[string]string, ok bool) {
	res, witness = map[string]bool{}, map[string]string{}
	ok = true
	defer func() {
		if p := recover(); p != nil {
			ok = false
		}
	}()
	note := func(op string, fresh bool, format string, a ...interface{}) {
		if _, seen := res[op]; !seen {
			res[op] = true
		}
		if !fresh {
			res[op] = false
			if witness[op] == "" {
				witness[op] = fmt.Sprintf(format, a...)
			}
		}
	}
	for _, op := range aliasOps() {
		for _, a := range op.args {
			if op.with == nil {
				first, err := op.mk(a)
				if err != nil {
					continue
				}
				fb, seen := bytesOf(&first)
				if !seen {
					return nil, nil, false
				}
				before := append([]byte(nil), fb[:cap(fb)]...)
				second, err := op.mk(a)
				if err != nil {
					continue
				}
				sb, _ := bytesOf(&second)
				note(op.name, bytes.Equal(before, fb[:cap(fb)]) && !overlap(fb, sb), "%s(%q) twice: the results share memory", op.name, a)
				continue
			}
			for ri, mkRoot := range aliasRoots {
				for si, shape := range aliasShapes {
					root, err := mkRoot()
					if err != nil {
						return nil, nil, false
					}
					rb, seen := bytesOf(&root)
					if !seen {
						return nil, nil, false
					}
					recv := shape(root)
					before := append([]byte(nil), rb[:cap(rb)]...)
					rootStr := root.String()
					_, _ = op.with(recv, a)
					note(op.name, bytes.Equal(before, rb[:cap(rb)]) && root.String() == rootStr,
						"%s(%q) on shape %d of root %d (%s) changed the root's array from %q to %q", op.name, a, si, ri, rootStr, before, rb[:cap(rb)])
				}
			}
		}
	}
	return res, witness, ok
}

func aliasFacts(sb *strings.Builder) {
	res, witness, ok := probeAlias()
	doc := "/-- for every operation of package jid that builds a value (`New`, `NewUnsafe`, `WithLocal`,\n`WithDomain`, `WithResource`): did it leave the backing array of every value that existed before\nuntouched (up to its capacity) for every probed receiver (root, Bare, Domain, Bare.Domain, Copy,\nWithResource(\"\") of six roots) and argument; for the constructors: do two calls return\nvalues that share no memory?  Probed on the real code with reflect/unsafe. -/\n"
	if !ok {
		sb.WriteString("\n" + doc + "def writesOnFresh : Option (List (String × Bool)) := none\n")
		return
	}
	var names []string
	for n := range res {
		names = append(names, n)
	}
	sort.Strings(names)
	var el []string
	for _, n := range names {
		el = append(el, fmt.Sprintf("(%q, %v)", n, res[n]))
		if w := witness[n]; w != "" {
			fmt.Fprintf(sb, "\n-- %s\n", strings.ReplaceAll(w, "\n", " "))
		}
	}
	fmt.Fprintf(sb, "\n%sdef writesOnFresh : Option (List (String × Bool)) := some [%s]\n", doc, strings.Join(el, ", "))
}
