package main

import "verifharness/c14"

func init() { runners["C14"] = c14.Run; facts["C14"] = c14.Facts }
