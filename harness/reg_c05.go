package main

import "verifharness/c05"

func init() { runners["C05"] = c05.Run; facts["C05"] = c05.Facts }
