package c09

import (
	"fmt"
	"os"
	"strings"
)

// Delta debugging of a helper witness (a maintenance tool, not part of the check):
//
//	C09_CHILD=minimise C09_MIN=<helper>:<type>:<reply-hex> harness run C09 -work DIR
//
// greedily removes nodes and attributes of the reply as long as the helper case keeps its
// outcome class (PANIC / STALL), and prints the minimal reply.
func (c *ctx) minimise(spec string) error {
	f := strings.SplitN(spec, ":", 3)
	if len(f) != 3 {
		return fmt.Errorf("C09_MIN: want helper:type:replyhex")
	}
	h := helperByName(f[0])
	reply, err := unhexS(f[2])
	if h == nil || err != nil {
		return fmt.Errorf("C09_MIN: bad helper or reply")
	}
	want := helperCase(h, f[1], []byte(reply)).obs()
	if want == "ok" {
		return fmt.Errorf("C09_MIN: the witness does not fail (ok)")
	}
	root := parse("<w xmlns=\"jabber:client\">" + reply + "</w>")
	if root == nil {
		return fmt.Errorf("C09_MIN: cannot parse the reply")
	}
	render := func(r *node) string {
		var b strings.Builder
		for _, ch := range r.children {
			ch.write(&b, "jabber:client")
		}
		return b.String()
	}
	fails := func(r *node) bool { return helperCase(h, f[1], []byte(render(r))).obs() == want }
	for changed := true; changed; {
		changed = false
		n := len(root.elems())
		for ei := 0; ei < n && ei < len(root.elems()); ei++ {
			for ci := 0; ci < len(root.elems()[ei].children); ci++ {
				t := root.clone()
				e := t.elems()[ei]
				e.children = append(e.children[:ci], e.children[ci+1:]...)
				if fails(t) {
					root, changed = t, true
					ci--
				}
			}
			if ei >= len(root.elems()) {
				break
			}
			for ai := 0; ai < len(root.elems()[ei].attrs); ai++ {
				t := root.clone()
				e := t.elems()[ei]
				e.attrs = append(e.attrs[:ai], e.attrs[ai+1:]...)
				if fails(t) {
					root, changed = t, true
					ai--
				}
			}
		}
	}
	fmt.Fprintf(os.Stderr, "MINIMAL %s %s %s: %s\n", f[0], f[1], want, render(root))
	return nil
}
