package c09

// Round E: "a value decoded from the peer's reply is handed to the next request" as a
// dimension of its own, with a differential tie.  form.Data is the value every helper that
// returns a form (muc.GetConfig, ad-hoc command payloads, disco#info extensions) decodes from
// the peer and that the application sends back with Submit / muc.SetConfig.  Submit cuts the
// peer's instructions and text-multi values into lines with loops that have no bound of their
// own (form/form.go, (*Data).TokenReader); Model/FormLines.lean models those loops with fuel,
// Lemmas/FormLines.lean proves they return within length+1 turns and what they return.
//
//	formsubmit <instructions> <values>   ->  i:<list>/v:<list> | STALL | PANIC
//
// <instructions> = the text of the <instructions/> children of the peer's form, <values> = the
// <value/> children of its text-multi field; lists are ','-joined, every element "s"+hex,
// the empty list "-".  The observation: i = the <instructions/> elements of the decoded form
// marshaled again (Data.TokenReader: the instructions loop), v = the <value/> children of the
// field in the submission (Submit: the text-multi loop).  The driver computes both from the model.

import (
	"bytes"
	"encoding/hex"
	"encoding/xml"
	"fmt"
	"strings"
	"time"

	"mellium.im/xmlstream"
	"mellium.im/xmpp/form"
)

func encList(l []string) string {
	if len(l) == 0 {
		return "-"
	}
	var out []string
	for _, s := range l {
		out = append(out, "s"+hex.EncodeToString([]byte(s)))
	}
	return strings.Join(out, ",")
}

func decList(s string) ([]string, error) {
	if s == "-" {
		return nil, nil
	}
	var out []string
	for _, e := range strings.Split(s, ",") {
		if !strings.HasPrefix(e, "s") {
			return nil, fmt.Errorf("bad list element %q", e)
		}
		b, err := hex.DecodeString(e[1:])
		if err != nil {
			return nil, err
		}
		out = append(out, string(b))
	}
	return out, nil
}

// xmlText escapes s as character data; CR and LF travel as character references (the XML
// tokenizer would turn a literal CR into LF).
func xmlText(s string) string {
	var b strings.Builder
	for i := 0; i < len(s); i++ {
		switch ch := s[i]; ch {
		case '\n':
			b.WriteString("&#10;")
		case '\r':
			b.WriteString("&#13;")
		case '<':
			b.WriteString("&lt;")
		case '>':
			b.WriteString("&gt;")
		case '&':
			b.WriteString("&amp;")
		default:
			b.WriteByte(ch)
		}
	}
	return b.String()
}

// peerForm is the form as the peer sends it.
func peerForm(instr, values []string) string {
	var b strings.Builder
	b.WriteString(`<x xmlns="jabber:x:data" type="form">`)
	for _, s := range instr {
		b.WriteString("<instructions>" + xmlText(s) + "</instructions>")
	}
	b.WriteString(`<field type="text-multi" var="m">`)
	for _, s := range values {
		b.WriteString("<value>" + xmlText(s) + "</value>")
	}
	b.WriteString(`</field></x>`)
	return b.String()
}

// formSubmitCase decodes the peer's form with the real decoder, submits it and reads the
// submission back.
func formSubmitCase(instr, values []string) (string, outcome) {
	type result struct {
		obs string
		o   outcome
	}
	done := make(chan result, 1)
	go func() {
		var obs string
		o := guard(func() {
			var d form.Data
			if err := xml.NewDecoder(strings.NewReader(peerForm(instr, values))).Decode(&d); err != nil {
				obs = "decode-error"
				return
			}
			type formBack struct {
				Instructions []string `xml:"instructions"`
				Field        []struct {
					Var   string   `xml:"var,attr"`
					Value []string `xml:"value"`
				} `xml:"field"`
			}
			readBack := func(r xml.TokenReader) (back formBack, ok bool) {
				var buf bytes.Buffer
				e := xml.NewEncoder(&buf)
				if _, err := xmlstream.Copy(e, r); err != nil {
					obs = "encode-error"
					return back, false
				}
				if err := e.Flush(); err != nil {
					obs = "encode-error"
					return back, false
				}
				if err := xml.Unmarshal(buf.Bytes(), &back); err != nil {
					obs = "reparse-error"
					return back, false
				}
				return back, true
			}
			// the decoded form marshaled again (an application that passes the form on): its
			// instructions go through the instructions loop
			again, ok := readBack(d.TokenReader())
			if !ok {
				return
			}
			// the submission (Submit drops title and instructions, cuts text-multi values)
			sub, _ := d.Submit()
			back, ok := readBack(sub)
			if !ok {
				return
			}
			if len(back.Instructions) != 0 {
				obs = "submission-with-instructions"
				return
			}
			back.Instructions = again.Instructions
			var vals []string
			for _, f := range back.Field {
				if f.Var == "m" {
					vals = append(vals, f.Value...)
				}
			}
			obs = "i:" + encList(back.Instructions) + "/v:" + encList(vals)
		})
		done <- result{obs, o}
	}()
	select {
	case r := <-done:
		if r.o.panicMsg != "" {
			return "PANIC", r.o
		}
		return r.obs, r.o
	case <-time.After(wd()):
		return "STALL", outcome{stalled: true, where: "form.Data.Submit / TokenReader of a form decoded from the peer"}
	}
}

func (c *ctx) formSubmit(instr, values []string, class string) {
	line := "formsubmit " + encList(instr) + " " + encList(values)
	if c.stalls["formsubmit"] >= 3 || !c.begin(line) {
		return
	}
	var obs string
	o := retryStalled(func() outcome {
		var oo outcome
		obs, oo = formSubmitCase(instr, values)
		return oo
	})
	r := rec{Lines: [][2]string{{line, obs}}, Canon: line, Class: class}
	switch {
	case o.panicMsg != "":
		fn, file, ln := panicLocation(o.stack, c.repo)
		r.Fail = &recFail{Clause: "no-panic", Key: "panic:" + fn, Lines: []string{c.r.Prop + " " + line},
			Detail: fmt.Sprintf("panic %q at %s:%d in %s", o.panicMsg, file, ln, fn)}
	case o.stalled:
		c.stalls["formsubmit"]++
		r.Fail = &recFail{Clause: "no-wedge", Key: "stall:formsubmit", Lines: []string{c.r.Prop + " " + line},
			Detail: "still running after " + wd().String() + ": " + o.where}
	}
	c.emit(r)
}

// formRoundTrips: exhaustive small scope first (every string over {a, LF, CR} up to length 4 as
// the only value and as the only instructions element; every list of up to three elements over
// a small universe), then random longer ones.
func (c *ctx) formRoundTrips() {
	c.r.Mark("case formsubmit")
	alpha := []string{"a", "\n", "\r"}
	var strs []string
	var gen func(prefix string, n int)
	gen = func(prefix string, n int) {
		strs = append(strs, prefix)
		if n == 0 {
			return
		}
		for _, a := range alpha {
			gen(prefix+a, n-1)
		}
	}
	gen("", c.r.Pick(3, 4))
	for _, s := range strs {
		c.formSubmit(nil, []string{s}, "formsubmit-value")
		c.formSubmit([]string{s}, []string{"v"}, "formsubmit-instructions")
	}
	uni := []string{"", "a", "\n", "b\r\nc"}
	var lists [][]string
	lists = append(lists, nil)
	for _, x := range uni {
		lists = append(lists, []string{x})
		for _, y := range uni {
			lists = append(lists, []string{x, y})
			for _, z := range uni {
				lists = append(lists, []string{x, y, z})
			}
		}
	}
	for _, l := range lists {
		c.formSubmit(nil, l, "formsubmit-values")
		c.formSubmit(l, nil, "formsubmit-instructions-list")
	}
	rnd := c.r.Rnd
	pieces := []string{"", "a", "bc", " ", "\n", "\r", "\r\n", "\n\n", "x<y&z", "é"}
	n := c.r.Pick(150, 1500)
	for i := 0; i < n; i++ {
		mk := func() []string {
			var l []string
			for k := rnd.Intn(4); k > 0; k-- {
				var b strings.Builder
				for j := rnd.Intn(7); j > 0; j-- {
					b.WriteString(pieces[rnd.Intn(len(pieces))])
				}
				if rnd.Intn(20) == 0 {
					b.WriteString(strings.Repeat("l\n", 1+rnd.Intn(3000)))
				}
				l = append(l, b.String())
			}
			return l
		}
		c.formSubmit(mk(), mk(), "formsubmit-random")
	}
}
