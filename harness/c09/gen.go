package c09

import (
	"encoding/xml"
	"strings"

	"verifharness/common"
)

// node is an XML tree the generators build and mutate.
type node struct {
	kind     int // 0 element, 1 text, 2 comment, 3 procinst, 4 cdata
	text     string
	space    string
	local    string
	attrs    [][2]string
	children []*node
}

const (
	nElem = iota
	nText
	nComment
	nPI
	nCDATA
)

func esc(s string) string {
	var b strings.Builder
	_ = xml.EscapeText(&b, []byte(s))
	return b.String()
}

func (n *node) write(b *strings.Builder, parentNS string) {
	switch n.kind {
	case nText:
		b.WriteString(esc(n.text))
	case nComment:
		b.WriteString("<!--" + strings.ReplaceAll(n.text, "--", "- -") + "-->")
	case nPI:
		b.WriteString("<?" + n.text + "?>")
	case nCDATA:
		b.WriteString("<![CDATA[" + strings.ReplaceAll(n.text, "]]>", "]] >") + "]]>")
	case nElem:
		b.WriteString("<" + n.local)
		if n.space != parentNS {
			b.WriteString(` xmlns="` + esc(n.space) + `"`)
		}
		for _, a := range n.attrs {
			b.WriteString(" " + a[0] + `="` + esc(a[1]) + `"`)
		}
		if len(n.children) == 0 {
			b.WriteString("/>")
			return
		}
		b.WriteString(">")
		for _, c := range n.children {
			c.write(b, n.space)
		}
		b.WriteString("</" + n.local + ">")
	}
}

func (n *node) String() string {
	var b strings.Builder
	// the harness session reads no <stream:stream> header, so the default namespace is
	// declared on every top-level element
	n.write(&b, "")
	return b.String()
}

func (n *node) clone() *node {
	c := *n
	c.attrs = append([][2]string(nil), n.attrs...)
	c.children = make([]*node, len(n.children))
	for i, ch := range n.children {
		c.children[i] = ch.clone()
	}
	return &c
}

// elems lists the element nodes of the tree in document order.
func (n *node) elems() []*node {
	if n.kind != nElem {
		return nil
	}
	r := []*node{n}
	for _, c := range n.children {
		r = append(r, c.elems()...)
	}
	return r
}

// parse builds a tree from well-formed XML (templates).
func parse(s string) *node {
	d := xml.NewDecoder(strings.NewReader(s))
	var stack []*node
	var root *node
	for {
		t, err := d.RawToken()
		if err != nil {
			break
		}
		switch t := t.(type) {
		case xml.StartElement:
			n := &node{kind: nElem, local: t.Name.Local}
			if len(stack) > 0 {
				n.space = stack[len(stack)-1].space
			} else {
				n.space = "jabber:client"
			}
			for _, a := range t.Attr {
				if a.Name.Space == "" && a.Name.Local == "xmlns" {
					n.space = a.Value
					continue
				}
				name := a.Name.Local
				if a.Name.Space != "" {
					name = a.Name.Space + ":" + name
				}
				n.attrs = append(n.attrs, [2]string{name, a.Value})
			}
			if len(stack) > 0 {
				p := stack[len(stack)-1]
				p.children = append(p.children, n)
			} else {
				root = n
			}
			stack = append(stack, n)
		case xml.EndElement:
			stack = stack[:len(stack)-1]
		case xml.CharData:
			if len(stack) > 0 {
				p := stack[len(stack)-1]
				p.children = append(p.children, &node{kind: nText, text: string(t)})
			}
		case xml.Comment:
			if len(stack) > 0 {
				p := stack[len(stack)-1]
				p.children = append(p.children, &node{kind: nComment, text: string(t)})
			}
		case xml.ProcInst:
			if len(stack) > 0 {
				p := stack[len(stack)-1]
				p.children = append(p.children, &node{kind: nPI, text: t.Target + " " + string(t.Inst)})
			}
		}
	}
	return root
}

var noiseTexts = []string{" ", "\n\t", "x", "AAAA", "&<>\"'", "é世", strings.Repeat("a", 300)}

var attrValues = []string{"", "x", "a@b/c", "@@", "example.net", "65535", "65536", "-1", "0", "1", "4096", "99999999999999999999",
	"2020-01-01T00:00:00Z", "not a date", "get", "set", "result", "error", "chat", "groupchat", "headline", "normal",
	"unavailable", "subscribe", "true", "é", strings.Repeat("a", 1100), "urn:xmpp:ping", "both", "remove", "iq", "message", "sid1"}

var vocabNames = [][2]string{
	{"urn:xmpp:ping", "ping"}, {"jabber:iq:version", "query"}, {"urn:xmpp:time", "time"},
	{"http://jabber.org/protocol/disco#info", "query"}, {"http://jabber.org/protocol/disco#items", "query"},
	{"http://jabber.org/protocol/disco#items", "item"}, {"http://jabber.org/protocol/disco#info", "identity"},
	{"http://jabber.org/protocol/disco#info", "feature"},
	{"jabber:iq:roster", "query"}, {"jabber:iq:roster", "item"}, {"jabber:iq:roster", "group"},
	{"urn:xmpp:blocking", "block"}, {"urn:xmpp:blocking", "unblock"}, {"urn:xmpp:blocking", "blocklist"}, {"urn:xmpp:blocking", "item"},
	{"urn:xmpp:receipts", "received"}, {"urn:xmpp:receipts", "request"},
	{"urn:xmpp:carbons:2", "received"}, {"urn:xmpp:carbons:2", "sent"}, {"urn:xmpp:forward:0", "forwarded"},
	{"urn:xmpp:mam:2", "result"}, {"urn:xmpp:mam:2", "fin"}, {"urn:xmpp:delay", "delay"},
	{"http://jabber.org/protocol/ibb", "open"}, {"http://jabber.org/protocol/ibb", "data"}, {"http://jabber.org/protocol/ibb", "close"},
	{"http://jabber.org/protocol/muc#user", "x"}, {"http://jabber.org/protocol/muc#user", "item"},
	{"http://jabber.org/protocol/muc#user", "status"}, {"http://jabber.org/protocol/muc#user", "invite"},
	{"jabber:x:conference", "x"}, {"http://jabber.org/protocol/commands", "command"},
	{"http://jabber.org/protocol/pubsub", "pubsub"}, {"http://jabber.org/protocol/pubsub", "items"}, {"http://jabber.org/protocol/pubsub", "item"},
	{"urn:xmpp:bookmarks:1", "conference"}, {"jabber:x:data", "x"}, {"jabber:x:data", "field"}, {"jabber:x:data", "value"},
	{"urn:xmpp:http:upload:0", "slot"}, {"urn:xmpp:http:upload:0", "put"}, {"urn:xmpp:http:upload:0", "get"},
	{"jabber:x:oob", "x"}, {"jabber:x:oob", "url"}, {"urn:ietf:params:xml:ns:xmpp-stanzas", "bad-request"},
	{"urn:ietf:params:xml:ns:xmpp-stanzas", "text"}, {"jabber:client", "error"}, {"jabber:client", "body"},
	{"jabber:client", "message"}, {"jabber:client", "iq"}, {"jabber:client", "presence"},
	{"http://jabber.org/protocol/caps", "c"}, {"http://jabber.org/protocol/rsm", "set"}, {"http://jabber.org/protocol/rsm", "first"},
	{"http://jabber.org/protocol/rsm", "last"}, {"http://jabber.org/protocol/rsm", "count"}, {"", "x"}, {"urn:example", "unknown"},
}

var vocabAttrs = []string{"id", "jid", "type", "node", "sid", "seq", "block-size", "stanza", "queryid", "from", "to", "name",
	"subscription", "var", "label", "code", "affiliation", "role", "stamp", "ver", "hash", "status", "sessionid", "action",
	"xml:lang", "by", "url", "complete", "nick", "autojoin", "category", "tzo", "utc"}

func pick[T any](rnd *common.Rand, l []T) T { return l[rnd.Intn(len(l))] }

func genNoise(rnd *common.Rand) *node {
	switch rnd.Intn(12) {
	case 0:
		return &node{kind: nComment, text: "c"}
	case 1:
		return &node{kind: nPI, text: "pi x"}
	case 2, 3:
		return &node{kind: nCDATA, text: pick(rnd, noiseTexts)}
	}
	return &node{kind: nText, text: pick(rnd, noiseTexts)}
}

func genElem(rnd *common.Rand, depth int) *node {
	nm := pick(rnd, vocabNames)
	n := &node{kind: nElem, space: nm[0], local: nm[1]}
	for i := rnd.Intn(4); i > 0; i-- {
		n.attrs = append(n.attrs, [2]string{pick(rnd, vocabAttrs), pick(rnd, attrValues)})
	}
	n.attrs = dedupAttrs(n.attrs)
	if depth > 0 {
		for i := rnd.Intn(4); i > 0; i-- {
			if rnd.Chance(2, 3) {
				n.children = append(n.children, genElem(rnd, depth-1))
			} else {
				n.children = append(n.children, genNoise(rnd))
			}
		}
	}
	return n
}

func dedupAttrs(a [][2]string) [][2]string {
	seen := map[string]bool{}
	var r [][2]string
	for _, x := range a {
		if !seen[x[0]] {
			seen[x[0]] = true
			r = append(r, x)
		}
	}
	return r
}

// mutate applies one random structural mutation somewhere below root (root's own name and
// the attributes listed in keep stay untouched so that the stanza is still routed).
func mutate(rnd *common.Rand, root *node, keep map[string]bool) {
	es := root.elems()
	e := pick(rnd, es)
	switch rnd.Intn(9) {
	case 0, 1: // noise child
		pos := rnd.Intn(len(e.children) + 1)
		e.children = append(e.children[:pos], append([]*node{genNoise(rnd)}, e.children[pos:]...)...)
	case 2: // drop attribute
		if len(e.attrs) > 0 {
			i := rnd.Intn(len(e.attrs))
			if e != root || !keep[e.attrs[i][0]] {
				e.attrs = append(e.attrs[:i], e.attrs[i+1:]...)
			}
		}
	case 3: // change attribute value
		if len(e.attrs) > 0 {
			i := rnd.Intn(len(e.attrs))
			if e != root || !keep[e.attrs[i][0]] {
				e.attrs[i][1] = pick(rnd, attrValues)
			}
		}
	case 4: // add attribute
		e.attrs = dedupAttrs(append(e.attrs, [2]string{pick(rnd, vocabAttrs), pick(rnd, attrValues)}))
	case 5: // drop child
		if len(e.children) > 0 {
			i := rnd.Intn(len(e.children))
			e.children = append(e.children[:i], e.children[i+1:]...)
		}
	case 6: // duplicate child
		if len(e.children) > 0 {
			i := rnd.Intn(len(e.children))
			e.children = append(e.children, e.children[i].clone())
		}
	case 7: // new element child
		pos := rnd.Intn(len(e.children) + 1)
		e.children = append(e.children[:pos], append([]*node{genElem(rnd, 1)}, e.children[pos:]...)...)
	case 8: // rename (not the root)
		if e != root {
			nm := pick(rnd, vocabNames)
			if rnd.Bool() {
				e.space = nm[0]
			} else {
				e.local = nm[1]
			}
		}
	}
}

// single enumerates every single-step systematic mutation of the tree (shortest first is
// the caller's business): a noise child at every child position of every element, every
// attribute dropped / emptied / garbled, every child dropped, every element emptied or
// replaced by text.
func single(root *node, keep map[string]bool, f func(*node, string)) {
	n := len(root.elems())
	for ei := 0; ei < n; ei++ {
		e0 := root.elems()[ei]
		for pos := 0; pos <= len(e0.children); pos++ {
			for ni, noise := range []*node{{kind: nText, text: " "}, {kind: nText, text: "x"}, {kind: nCDATA, text: "y"}, {kind: nElem, space: "urn:example", local: "unknown"}} {
				c := root.clone()
				e := c.elems()[ei]
				e.children = append(e.children[:pos], append([]*node{noise.clone()}, e.children[pos:]...)...)
				f(c, "noise"+string(rune('0'+ni)))
			}
		}
		for ai := range e0.attrs {
			if ei == 0 && keep[e0.attrs[ai][0]] {
				continue
			}
			for vi, v := range []string{"\x00drop", "", "@@", "99999999999999999999", "-1"} {
				c := root.clone()
				e := c.elems()[ei]
				if v == "\x00drop" {
					e.attrs = append(e.attrs[:ai], e.attrs[ai+1:]...)
				} else {
					e.attrs[ai][1] = v
				}
				f(c, "attr"+string(rune('0'+vi)))
			}
		}
		for ci := range e0.children {
			c := root.clone()
			e := c.elems()[ei]
			e.children = append(e.children[:ci], e.children[ci+1:]...)
			f(c, "dropchild")
		}
		if ei > 0 {
			c := root.clone()
			e := c.elems()[ei]
			e.children = nil
			e.attrs = nil
			f(c, "bare")
		}
	}
}
