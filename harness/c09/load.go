package c09

import (
	"bytes"
	"encoding/json"
	"fmt"
	"go/ast"
	"go/importer"
	"go/parser"
	"go/token"
	"go/types"
	"io"
	"os"
	"os/exec"
	"path/filepath"
	"sort"
)

// listedPkg is what `go list -json` reports for one package.
type listedPkg struct {
	ImportPath string
	Dir        string
	Export     string
	GoFiles    []string
	Standard   bool
}

// loaded is one type-checked package of the repository.
type loaded struct {
	Path  string
	Dir   string
	Files []*ast.File
	Names []string // file names (relative to the repo), parallel to Files
	Info  *types.Info
	Pkg   *types.Package
}

// load lists every package of the module rooted at repo together with the export data of all
// dependencies (one `go list -export -deps`, offline, build cache) and type-checks the source
// of the packages selected by want with go/types.
func load(repo string, fset *token.FileSet, want func(importPath string) bool) ([]*loaded, error) {
	cmd := exec.Command("go", "list", "-export", "-deps", "-json=ImportPath,Dir,Export,GoFiles,Standard", "./...")
	cmd.Dir = repo
	cmd.Env = append(os.Environ(), "GOFLAGS=-mod=mod", "GOPROXY=off", "GOSUMDB=off", "GOTOOLCHAIN=local")
	var stderr bytes.Buffer
	cmd.Stderr = &stderr
	out, err := cmd.Output()
	if err != nil {
		return nil, fmt.Errorf("go list in %s: %v: %s", repo, err, stderr.String())
	}
	pkgs := map[string]*listedPkg{}
	dec := json.NewDecoder(bytes.NewReader(out))
	for {
		var p listedPkg
		if err := dec.Decode(&p); err == io.EOF {
			break
		} else if err != nil {
			return nil, err
		}
		pp := p
		pkgs[p.ImportPath] = &pp
	}
	imp := importer.ForCompiler(fset, "gc", func(path string) (io.ReadCloser, error) {
		p, ok := pkgs[path]
		if !ok || p.Export == "" {
			return nil, fmt.Errorf("no export data for %q", path)
		}
		return os.Open(p.Export)
	})
	var paths []string
	for path, p := range pkgs {
		if !p.Standard && want(path) {
			paths = append(paths, path)
		}
	}
	sort.Strings(paths)
	var res []*loaded
	for _, path := range paths {
		p := pkgs[path]
		l := &loaded{Path: path, Dir: p.Dir}
		for _, f := range p.GoFiles {
			full := filepath.Join(p.Dir, f)
			af, err := parser.ParseFile(fset, full, nil, parser.ParseComments)
			if err != nil {
				return nil, err
			}
			rel, _ := filepath.Rel(repo, full)
			l.Files = append(l.Files, af)
			l.Names = append(l.Names, filepath.ToSlash(rel))
		}
		l.Info = &types.Info{
			Types:      map[ast.Expr]types.TypeAndValue{},
			Defs:       map[*ast.Ident]types.Object{},
			Uses:       map[*ast.Ident]types.Object{},
			Implicits:  map[ast.Node]types.Object{},
			Selections: map[*ast.SelectorExpr]*types.Selection{},
		}
		conf := types.Config{Importer: imp}
		pkg, err := conf.Check(path, fset, l.Files, l.Info)
		if err != nil {
			return nil, fmt.Errorf("type-checking %s: %v", path, err)
		}
		l.Pkg = pkg
		res = append(res, l)
	}
	return res, nil
}
