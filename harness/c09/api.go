package c09

// Exported surface of the skeleton translator for the harnesses of other properties (C19
// layer 3 skeletonises form/form.go and disco/info.go with it).  Additive only: existing
// names keep their meaning.

// Analysis is the result of translating a set of packages: one skeleton per function and
// function literal, the program points they refer to, the allow list with its use counts.
type Analysis = analysis

// FuncSkel is the regenerated skeleton of one function (Skel.Encode / Skel.Lean render it).
type FuncSkel = funcSkel

// SiteInfo describes a program point a skeleton refers to.
type SiteInfo = siteInfo

// Scope selects what is translated: import path relative to the module ("" = root package)
// -> file filter (nil = every file of the package; the argument is the path relative to the
// repository).
type Scope = map[string]func(file string) bool

// Only / Except build file filters.
func Only(names ...string) func(string) bool   { return only(names...) }
func Except(names ...string) func(string) bool { return except(names...) }

// Analyse translates the C09 scope with the C09 allow list.
func Analyse(repo string) (*Analysis, error) { return analyse(repo) }

// AnalyseScope translates the given scope; allowText has the format of allow.txt (may be "").
func AnalyseScope(repo string, scope Scope, allowText string) (*Analysis, error) {
	return analyseScope(repo, scope, allowText)
}

// Effectful reports whether the skeleton has any operation on a tracked value or a hazard
// (skeletons without are trivially safe and are not emitted by Facts).
func (s *Stmt) Effectful() bool { return s.effectful() }

// AllowUse lists the allow-list entries with the number of sites each one covered.
func (an *Analysis) AllowUse() []string {
	var out []string
	for _, e := range an.Allow.entries {
		out = append(out, e.fn+" "+e.kind+" "+e.desc+" | "+e.why)
	}
	return out
}
