package c09

// Round F (review B, finding 2a): close of a channel is a partial operation (a second close
// panics; four genuine panics of this check's history were that) which the skeleton IR does not
// carry.  Every close(ch) in scope is regenerated with what makes it happen at most once:
//
//	once           inside a closure handed to (*sync.Once).Do
//	local          ch is a local variable of the function (not a parameter, not captured from
//	               outside) and this is the only close of it in the function
//	removed-entry  ch is a field of a value looked up in a map by `v, ok := m[k]` in the
//	               enclosing if, and the same block deletes m[k] (the table's mutex makes the
//	               lookup and the delete one step: lock discipline is C09_handler_locks_…)
//	bare           anything else
//
// No names consumed; go/ast + go/types.

import (
	"fmt"
	"go/ast"
	"go/types"
	"strings"
)

type closeFact struct {
	Pkg, Fn, Kind string
	Line          int
}

func closeFactsOf(l *loaded, filter func(string) bool, pos func(ast.Node) int) []closeFact {
	var out []closeFact
	for i, file := range l.Files {
		if filter != nil && !filter(l.Names[i]) || ast.IsGenerated(file) {
			continue
		}
		for _, d := range file.Decls {
			fd, ok := d.(*ast.FuncDecl)
			if !ok || fd.Body == nil {
				continue
			}
			name := l.Pkg.Name() + "." + recvName(fd) + fd.Name.Name
			isClose := func(n ast.Node) (ast.Expr, bool) {
				c, ok := n.(*ast.CallExpr)
				if !ok || len(c.Args) != 1 {
					return nil, false
				}
				id, ok := unparenOnly(c.Fun).(*ast.Ident)
				if !ok {
					return nil, false
				}
				if b, ok := l.Info.Uses[id].(*types.Builtin); !ok || b.Name() != "close" {
					return nil, false
				}
				return ast.Unparen(c.Args[0]), true
			}
			closesOf := map[types.Object]int{}
			ast.Inspect(fd.Body, func(n ast.Node) bool {
				if e, ok := isClose(n); ok {
					if id, ok := e.(*ast.Ident); ok {
						closesOf[l.Info.Uses[id]]++
					}
				}
				return true
			})
			var stack []ast.Node
			ast.Inspect(fd.Body, func(n ast.Node) bool {
				if n == nil {
					stack = stack[:len(stack)-1]
					return true
				}
				stack = append(stack, n)
				e, ok := isClose(n)
				if !ok {
					return true
				}
				kind := "bare"
				// once: an enclosing literal is the argument of a sync.Once's Do
				for k := len(stack) - 1; k > 0 && kind == "bare"; k-- {
					lit, ok := stack[k].(*ast.FuncLit)
					if !ok {
						continue
					}
					if call, ok := stack[k-1].(*ast.CallExpr); ok && len(call.Args) == 1 && call.Args[0] == lit {
						if sel, ok := call.Fun.(*ast.SelectorExpr); ok && sel.Sel.Name == "Do" {
							if s, ok := l.Info.Selections[sel]; ok {
								if f, ok := s.Obj().(*types.Func); ok && f.Pkg() != nil && f.Pkg().Path() == "sync" {
									kind = "once"
								}
							}
						}
					}
				}
				if id, ok := e.(*ast.Ident); ok && kind == "bare" {
					if v, ok := l.Info.Uses[id].(*types.Var); ok && !v.IsField() && v.Pkg() != nil && v.Parent() != v.Pkg().Scope() &&
						fd.Body.Pos() <= v.Pos() && v.Pos() <= fd.Body.End() && closesOf[v] == 1 {
						kind = "local"
					}
				}
				if sel, ok := e.(*ast.SelectorExpr); ok && kind == "bare" {
					if vid, ok := ast.Unparen(sel.X).(*ast.Ident); ok {
						for k := len(stack) - 1; k >= 0 && kind == "bare"; k-- {
							is, ok := stack[k].(*ast.IfStmt)
							if !ok || is.Init == nil {
								continue
							}
							as, ok := is.Init.(*ast.AssignStmt)
							if !ok || len(as.Lhs) != 2 || len(as.Rhs) != 1 {
								continue
							}
							ix, ok := as.Rhs[0].(*ast.IndexExpr)
							lid, ok2 := as.Lhs[0].(*ast.Ident)
							if !ok || !ok2 || l.Info.Defs[lid] == nil || l.Info.Defs[lid] != l.Info.Uses[vid] {
								continue
							}
							if _, isMap := l.Info.TypeOf(ix.X).Underlying().(*types.Map); !isMap {
								continue
							}
							m, key := types.ExprString(ix.X), types.ExprString(ix.Index)
							for _, bs := range is.Body.List {
								if es, ok := bs.(*ast.ExprStmt); ok {
									if c, ok := es.X.(*ast.CallExpr); ok && len(c.Args) == 2 {
										if id, ok := c.Fun.(*ast.Ident); ok && id.Name == "delete" &&
											types.ExprString(c.Args[0]) == m && types.ExprString(c.Args[1]) == key {
											kind = "removed-entry"
										}
									}
								}
							}
						}
					}
				}
				out = append(out, closeFact{Pkg: l.Pkg.Name(), Fn: name, Kind: kind, Line: pos(n)})
				return true
			})
		}
	}
	return out
}

func leanCloseFacts(fs []closeFact, ok bool) string {
	var b strings.Builder
	b.WriteString("/-- every close(ch) in scope: (package, what makes it happen at most once) -/\n")
	if !ok {
		b.WriteString("def closeFacts : Option (List (String × String)) := none\n")
		return b.String()
	}
	b.WriteString("def closeFacts : Option (List (String × String)) := some [")
	for i, f := range fs {
		if i > 0 {
			b.WriteString(",")
		}
		fmt.Fprintf(&b, "\n  (%q, %q)", f.Pkg, f.Kind)
	}
	b.WriteString("]\n/-! where (for the reader; not consumed):\n")
	for _, f := range fs {
		fmt.Fprintf(&b, "  %s line %d %s\n", f.Fn, f.Line, f.Kind)
	}
	b.WriteString("-/\n")
	return b.String()
}
